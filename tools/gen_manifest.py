#!/usr/bin/env python3
"""Regenerate MANIFEST.json from the table below (dev tool; the result is committed)."""
import json, os
ROOT = os.path.dirname(os.path.dirname(os.path.abspath(__file__)))
props = [json.loads(l) for l in open(os.path.join(ROOT, "properties.jsonl"))]
BASE = "cd /repo && /venv/bin/python -m pytest -ra -q -p no:cacheprovider --timeout=900 --continue-on-collection-errors"
TB = ("Lean 4.33.0 kernel; Mathlib v4.33.0; axioms propext, Classical.choice, Quot.sound only (audited by #print axioms on every run); "
      "the hand-written model is tied to /repo by an exact differential correspondence on generated inputs (trusted: generator coverage); "
      "where a kernel is regenerated from the source (route T: closed-form kernels and formulas; route T2: the loop kernels where, "
      "get_moving_window_changepoints, get_changepoints, make_anomaly_intervals) the translators harness/translate.py and "
      "harness/translate_loops.py (their reading of NumPy / Python, with the type annotations they list) are trusted and validated "
      "on every run through the driver against the real functions; ")
# id -> (technique, level text, level note, design ref)
CLAIMS = {}
exec(open(os.path.join(ROOT, "tools", "claims.py")).read())
checks, na = [], []
for p in props:
    i = p["id"]
    if i in CLAIMS:
        tech, text, note, ref = CLAIMS[i]
        checks.append({
            "property_id": i,
            "quick_cmd": f"./check {i} --tier quick",
            "thorough_cmd": f"./check {i} --tier thorough",
            "evidence_file": f"evidence/{i}.json",
            "replay_cmd_template": f"./check {i} --replay {{path}}",
            "engine": "lean-proof+correspondence",
            "level_claimed": {"category": "proof", "text": text, "design_ref": ref},
            "level_note": TB + note,
            "technique": tech,
        })
    else:
        na.append({"property_id": i, "reason": NOT_YET.get(i, "check not built yet in this revision (work in progress; see DESIGN.md section 3)")})
m = {
    "version": 1,
    "setup_cmd": "/venv/bin/python -m harness.translate >/dev/null && cd lean && lake build Skc skcdrv",
    "hooks": {
        "guard": "NORSKREGNESENTRAL_SKCHANGE_VERIF",
        "enable": "no source hooks are needed: scorers/detectors are injected through public constructor arguments and instrumentation is monkey-patched by the harness at run time; checks set NORSKREGNESENTRAL_SKCHANGE_VERIF=1 for uniformity",
        "baseline_off_cmd": BASE,
        "source_commits": [],
        "add_only": True,
    },
    "engines": [{
        "name": "lean-proof+correspondence",
        "path": "check",
        "serves_properties": [c["property_id"] for c in checks],
        "kind_free_text": "Lean 4 theorems about executable models (lean/Skc) + translator-regenerated kernels + exact differential correspondence against /repo (harness/)",
    }],
    "checks": checks,
    "not_applicable": na,
    "notes": "See DESIGN.md. Every check rebuilds the Lean development it needs, re-audits axioms, and runs the implementation from /repo's working tree (override with SKCHANGE_REPO). Exit 2 = infrastructure failure.",
}
json.dump(m, open(os.path.join(ROOT, "MANIFEST.json"), "w"), indent=1)
print("checks:", [c["property_id"] for c in checks], "not claimed:", [x["property_id"] for x in na])
