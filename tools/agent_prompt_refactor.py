#!/usr/bin/env python3
"""Print the prompt given to a sub-agent that writes behaviour-preserving refactors (dev tool): tools/agent_prompt_refactor.py <Cxx> <Cyy>"""
import json, sys
ids = sys.argv[1:]
wt = f"/tmp/wt/rf_{ids[0]}"
props = {}
for l in open("/verif/properties.jsonl"):
    d = json.loads(l)
    if d["id"] in ids:
        props[d["id"]] = d
blocks = "\n\n".join(f"  id: {p['id']} - {p['title']}\n  statement: {p['statement']}\n  relevant files: {', '.join(p['anchors']['files'])}" for p in props.values())
print(f"""You are helping to evaluate a verification tool by writing HARMLESS refactors: changes a maintainer might make that must NOT change behaviour.

The directory {wt} is a scratch git worktree of the Python library `skchange` (changepoint and anomaly detection built on interval scorers; sktime-compatible). Work ONLY inside {wt}. Never read or modify /repo or /verif (or anything under them).

Python: use `/venv/bin/python`. Always run from the worktree root with PYTHONPATH set, e.g.
    cd {wt} && PYTHONPATH={wt} /venv/bin/python -c "import skchange; print(skchange.__file__)"
(must print a path under {wt}). numba is not installed, so all @njit functions run as plain Python.
The test suite: `cd {wt} && PYTHONPATH={wt} /venv/bin/python -m pytest -q -p no:cacheprovider --timeout=900` takes about 15 s; on the untouched worktree it gives `6 failed, 906 passed` (the 6 failures are the always-failing `test_doctest_examples` cases; some xfail PELT tests XPASS - that is the expected baseline).

THE PROPERTIES the refactors must keep intact (semantic properties the library satisfies today):

{blocks}

YOUR TASK: produce FOUR independent refactors of the library source under {wt}/skchange/ (not tests), in the files listed above, each of which
  (a) keeps the library importable and the test suite at exactly the baseline result, and
  (b) PRESERVES the observable behaviour of the public API for every input: same outputs (same values up to floating-point rounding of the order of 1e-12 relative, same integer locations, same labels, same index / dtype conventions), same exceptions classes for invalid input, no new state that can go stale. The refactor must be something a careful maintainer could merge: vectorising or un-vectorising a loop, reordering independent statements, renaming, extracting or inlining a helper, replacing an idiom by an equivalent one (np.where vs boolean mask, cumsum vs running sum, sorted vs np.sort, list comprehension vs loop), algebraically equivalent arithmetic, a cache that is keyed correctly, an equivalent data structure (deque vs list, dict vs array), an equivalent validation order. Make them NON-trivial (each should touch at least ~8 lines of real logic, at least two of the four in the central algorithms of these properties) and DIFFERENT in kind from each other. Where the current code makes an arbitrary but observable choice (for example which of several tied maxima is returned), keep that choice.

For each refactor k in 1..4 create the directory {wt}/out/r<k>/ containing
  - patch.diff : output of `git diff` (relative to HEAD, from the worktree root) for that refactor alone; it must apply with `git apply` on a clean worktree;
  - equiv.py : a self-contained program (run as `cd {wt} && PYTHONPATH={wt} /venv/bin/python out/r<k>/equiv.py`) that exercises the refactored code on at least 200 varied random inputs (different sizes, parameters, data shapes, boundary configurations, ties) and prints a deterministic digest (e.g. a sha1 of the repr of all outputs rounded to 10 significant digits, exceptions recorded by class name). The digest printed with the patch applied must be IDENTICAL to the digest printed on the unmodified worktree - verify that, and write both digests into notes.md;
  - notes.md : 5-10 lines: what was changed, why it is behaviour-preserving, the two digests.

Procedure for each refactor: start from a clean worktree (`git -C {wt} checkout -- skchange`), write equiv.py and record its digest on the clean tree, edit, run the full test suite (must be at baseline), run equiv.py (digest must be identical), save the patch, revert. If the digests differ you have changed behaviour: fix the refactor (do not weaken equiv.py).

When done, leave the worktree source clean (only the untracked out/ directory remains) and reply with a short summary: one line per refactor saying what it changes, and confirm suite at baseline + identical digests for each.""")
