# id -> (technique, level text, level note, design ref); read by tools/gen_manifest.py
NOT_YET = {}
CLAIMS["C02"] = (
    "Lean 4 proof by loop invariant (Bellman equations for the full start set under delayed pruning) + exact model/code correspondence on integer table costs",
    "Theorems pelt_optimal / pelt_prefix_optimal (Skc/Props/C02.lean): for every ordered additive group, cost table satisfying the split inequality, penalty, m >= 1, n >= 2m and the whole policy family (any minimiser selector, any sound pruning test, any pruning delay >= m-1) the model of run_pelt + get_changepoints returns an admissible segmentation of minimal penalised cost, every prefix score is the prefix optimum, the final score is the cost of the returned segmentation. Unbounded in n; also the negative result for the pinned pruning.",
    "modelled, not verified: the Python glue around run_pelt (check_data, output formatting) is exercised by the correspondence only; built-in float costs are compared under a tolerance; the correspondence is differential testing (3-60 k exact cases per run incl. model-mined pruning-boundary inputs).",
    "3/C02",
)
