# id -> (technique, level text, level note, design ref); read by tools/gen_manifest.py
NOT_YET = {}
CLAIMS["C02"] = (
    "Lean 4 proof by loop invariant (Bellman equations for the full start set under delayed pruning) + exact model/code correspondence on integer table costs",
    "Theorems pelt_optimal / pelt_prefix_optimal (Skc/Props/C02.lean): for every ordered additive group, cost table satisfying the split inequality, penalty, m >= 1, n >= 2m and the whole policy family (any minimiser selector, any sound pruning test, any pruning delay >= m-1) the model of run_pelt + get_changepoints returns an admissible segmentation of minimal penalised cost, every prefix score is the prefix optimum, the final score is the cost of the returned segmentation. Unbounded in n; also the negative result for the pinned pruning.",
    "modelled, not verified: the Python glue around run_pelt (check_data, output formatting) is exercised by the correspondence only; built-in float costs are compared under a tolerance; the correspondence is differential testing (3-60 k exact cases per run incl. model-mined pruning-boundary inputs).",
    "3/C02",
)
CLAIMS["C03"] = (
    "Lean 4 proof by loop invariant (point/collective Bellman inequalities against all admissible starts under delayed pruning and length-limit pruning) + top-k lemma for the penalised saving + exact model/code correspondence on integer table savings",
    "Theorems capa_optimal / capa_prefix / capa_reported_positive (any penalised-saving functions satisfying the pruning inequality), penalise_general_best (best over all non-empty component selections), penalise_{dense,equal,general}_H (the pruning inequality follows from column-wise sub-additivity and beta >= 0) in Skc/Props/C03.lean: the model of run_base_capa + get_anomalies returns an admissible anomaly set of maximal total penalised saving, prefix scores are prefix optima, >= 0 and non-decreasing. Unbounded in n, p.",
    "hypotheses forced by the proof: savings >= 0, alpha >= 0, betas >= 0 and not in (0,1e-8); modelled not verified: Python glue (check_data, formatting, sorting of the two anomaly lists), built-in float savings (compared under tolerance), scipy chi2 in the intermediate family. The glue theorem composing penalise with runCapa is stated per branch, the composition itself is what the driver executes and the correspondence checks.",
    "3/C03",
)
