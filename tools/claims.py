# id -> (technique, level text, level note, design ref); read by tools/gen_manifest.py
NOT_YET = {}
CLAIMS["C02"] = (
    "Lean 4 proof by loop invariant (Bellman equations for the full start set under delayed pruning) + exact model/code correspondence on integer table costs",
    "Theorems pelt_optimal / pelt_prefix_optimal (Skc/Props/C02.lean): for every ordered additive group, cost table satisfying the split inequality, penalty, m >= 1, n >= 2m and the whole policy family (any minimiser selector, any sound pruning test, any pruning delay >= m-1) the model of run_pelt + get_changepoints returns an admissible segmentation of minimal penalised cost, every prefix score is the prefix optimum, the final score is the cost of the returned segmentation. Unbounded in n; also the negative result for the pinned pruning. Composed down to the data: pelt_l2_exact — with the squared-error cost table built from prefix sums (split inequality discharged by l2Table_split, entries = residual sums of squares by l2Table_eq_rss) the reported changepoints minimise the penalised residual sum of squares over all admissible segmentations, for every real series.",
    "modelled, not verified: the Python glue around run_pelt (check_data, output formatting) is exercised by the correspondence only; built-in float costs are compared under a tolerance; the correspondence is differential testing (3-60 k exact cases per run incl. model-mined pruning-boundary inputs).",
    "3/C02",
)
CLAIMS["C03"] = (
    "Lean 4 proof by loop invariant (point/collective Bellman inequalities against all admissible starts under delayed pruning and length-limit pruning) + top-k lemma and per-branch analysis of the penalised saving + exact model/code correspondence on integer table savings",
    "Theorems capa_optimal_wrt_specification / capa_prefix_wrt_specification (Skc/Props/C03.lean): for p >= 1 non-negative column savings that are sub-additive under splitting, alpha >= 0, betas >= 0 (not in (0,1e-8)), 2 <= m <= M, pruning delay >= m-1, the model of run_base_capa driven by the code's three-branch penalise_savings returns an admissible anomaly set whose total saving UNDER THE SPECIFICATION (best non-empty component subset, alpha once, betas of that many components) equals the final score and is maximal; every prefix score is the prefix optimum, >= 0 and non-decreasing. Also capa_optimal / capa_prefix / capa_reported_positive for abstract penalised savings, penalise_general_best, penalise_*_H. Unbounded in n and p. Composed down to the data: capa_l2_optimal_wrt_specification — for the default L2Saving on any real series with p >= 1 columns the hypotheses on the savings (non-negative, column-wise sub-additive under splitting) are theorems (l2Savings_nonneg, l2Savings_subAdd).",
    "hypotheses forced by the proof and recorded: savings >= 0, alpha >= 0, betas >= 0 and not in (0,1e-8) (the code approximates those by 0); modelled not verified: Python glue (check_data, formatting, merging and sorting of the two anomaly lists, ignore_point_anomalies filter), built-in float savings (compared under tolerance), scipy chi2 in the intermediate family; the correspondence is differential testing on tables incl. driver-mined pruning-boundary inputs.",
    "3/C03",
)
CLAIMS["C07"] = (
    "Lean 4 proofs about the interval-layout and greedy-selection models + exact model/code correspondence (full parameter grid for the layout, hash change scores for the selection)",
    "Theorems seeded_intervals_wellformed (every admissible (length, step) schedule yields a non-empty list of intervals inside [0,n] with lengths in [minLen, min(maxLen,n)]) and sbs_threshold_monotone (picks for a higher threshold are a prefix of the picks for a lower one) in Skc/Props/C07.lean, for all n, schedules, score tables, thresholds; further theorems (argmax characterisation, support/coverage of the greedy loop) are added as the development grows - see the evidence file for the current list.",
    "the float-computed schedule (geomspace/rounding) is checked for admissibility exhaustively on a grid (n<=40 quick, <=120 thorough), not proved; scores/argmax/greedy are tied by exact correspondence on tie-rich integer landscapes; an independent tie-tolerant oracle states the property directly.",
    "3/C07",
)
CLAIMS["C08"] = (
    "Lean 4 proofs about the moving-window models (score definition, `where` = maximal runs in scan order, peak-of-run soundness and completeness, strict order, reversal of scores and of changepoints) + exact model/code correspondence with hash change scores + reversal check on built-in scores",
    "Theorems mw_scores_def, where_exactly_maximal_runs, mw_changepoint_is_peak_of_run (every changepoint is the position of the maximum of a maximal above-threshold run of >= min_detection_interval positions), mw_every_long_run_detected, mw_changepoints_strictly_increasing, mw_scores_reversal (score at t of the reversed series = score at n-t), mw_changepoints_reversal / mw_changepoints_reversal_list (with pairwise distinct above-threshold scores, c is a changepoint of the reversed series iff n-c is one of the original; the reported list is the mirrored list reversed) in Skc/Props/C08.lean, for all score functions, n, bandwidths, thresholds.",
    "the mapping of changepoints t -> n-t under reversal is proved for pairwise distinct above-threshold scores (with equal maxima in a run the first peak is reported, which reversal does not preserve; the oracle likewise compares changepoints only where those scores are separated by a margin); float scores of built-in change scores are compared under tolerance; the model is tied by exact correspondence on integer landscapes incl. tuned thresholds.",
    "3/C08",
)
CLAIMS["C09"] = (
    "Lean 4 proofs about the greedy anomaly selection model + exact model/code correspondence with hash local-anomaly scores",
    "Theorem cbs_threshold_monotone in Skc/Props/C09.lean (all candidate sets, score tables, thresholds); further theorems (candidate enumeration, disjointness, support/coverage) are added as the development grows - see the evidence file.",
    "candidate enumeration, per-candidate argmax and the greedy loop are tied to the code by exact correspondence (score table incl. both argmax columns, anomalies); an independent tie-tolerant oracle states the property directly.",
    "3/C09",
)
CLAIMS["C01"] = (
    "Lean 4 proofs over the reals about translator-regenerated kernels (generated definition = closed form = direct definition) + numeric model/code correspondence",
    "Theorems l2_optim_is_rss, l2_fixed_is_rss, gauss_optim_is_loglik, gauss_fixed_is_loglik, evaluate_row_independent (Skc/Props/C01.lean: closed forms on the prefix sums of ANY data column and ANY interval equal the direct definitions computed from the rows) and the L1 theorems gen_* in Skc/L1/L2Cost.lean, Skc/L1/Gauss.lean stating the same about the Lean definitions regenerated from /repo's kernels on every run.",
    "trusted: the translator (per-element reading of NumPy broadcasting; validated on every run by comparing the Float instantiation of the generated kernels with evaluate, bit-identical so far), `truncate_below` read as max, col_cumsum modelled as psum. Not proved: floating-point rounding (bounded empirically at 1e-8 of the data scale); multivariate Gaussian cost (the code computes the definition directly; numeric comparison and the error contract only).",
    "3/C01",
)
CLAIMS["C05"] = (
    "Lean 4 proofs of the round trips and label semantics of position-based conversion models + exact model/code correspondence under five index types",
    "Theorems coll_dense_sparse_roundtrip (any valid collective sparse output incl. adjacent / length-1 / end-touching intervals), cp_dense_sparse_roundtrip (any strictly increasing changepoints in [1,n-1]), cp_dense_label, coll_label_covered / coll_label_uncovered, and for the subset (MVCAPA) conversions sub_dense_sparse_roundtrip (rows and affected columns of any valid subset output), sub_label_iff / sub_label_zero_iff (cell (i,j) carries label k+1 iff row i is in anomaly k and j is one of its columns; 0 iff no anomaly covers it) in Skc/Props/C05.lean, for all n, p and all valid outputs.",
    "the models take no index argument (positions only): index-independence is by construction in the model and tied to the code by running it under RangeIndex (default / offset / stepped), DatetimeIndex, PeriodIndex; pandas itself is not modelled (the conversions' use of IntervalIndex.get_indexer, np.unique, boolean masks is read into list functions and tied by the correspondence).",
    "3/C05",
)
CLAIMS["C06"] = (
    "Lean 4 proofs over the reals of the score identities and inequalities on closed forms and on translator-regenerated kernels + exact correspondence of the adapters on user-defined integer costs",
    "Theorems cusum_sq_is_l2_change_score, l2_saving_is_cost_difference, l2_saving_nonneg, l2_optim_le_fixed, l2_split_never_increases (with the exact identity), gauss_optim_le_fixed_above_floor, gauss_split_never_increases_above_floor, changeScore_nonneg (Skc/Props/C06.lean) and gen_cusum_sq_eq_l2_change, gen_l2_saving_eq (L1, on the generated code).",
    "the adapters' defining equations are their model (tied by exact correspondence on a user cost with an extra hyper-parameter depending on the multiset of rows, batch and single evaluation); multivariate-Gaussian log-det inequalities are NOT proved (numeric check only); Gaussian statements assume variance above the 1e-16 floor as the property does.",
    "3/C06",
)
CLAIMS["C04"] = (
    "Lean 4 corollaries of the algorithm theorems (well-formedness of every model output) + exact correspondences of the algorithm models + structure predicate on all seven detectors",
    "Theorems pelt_changepoints_wellformed, capa_anomalies_wellformed, sbs_changepoint_in_range (+ sbs_min_gap of C07), cbs_anomaly_strictly_inside (+ disjointness of C09), mw_above_threshold_in_band, validFrom_elementwise, validAnoms_elementwise in Skc/Props/C04.lean: for all inputs the models' changepoints / anomalies satisfy the ordering, range and length limits the property states.",
    "pandas-level formatting (RangeIndex, int64, left-closed IntervalIndex, labels 1..K) and StatThresholdAnomaliser (C17) are observed by the harness, not modelled; strict monotonicity of moving-window changepoints is mw_changepoints_strictly_increasing (C08).",
    "3/C04",
)
CLAIMS["C16"] = (
    "Lean 4 proof about the subset-selection model (sorted-permutation + first-argmax-of-cumulative-sum) + exact model/code correspondence on table savings with distinct columns",
    "Theorem affected_columns_optimal (Skc/Props/C16.lean): for every saving vector and penalties the model's affected columns are the first k+1 columns in decreasing order of saving with k maximising the cumulative penalised saving, non-empty, duplicate-free, valid positions, and no excluded column beats an included one; affected_columns_best_subset: their summed saving minus the penalty for that many components is the maximum over ALL non-empty column subsets (not only prefixes of the sorted order) and equals the general-branch penalised saving used by the DP. Dense marking is C05's subS2D (sub_label_iff: exactly these columns on exactly the anomaly's rows).",
    "ties between savings are excluded as in the property (argsort order among ties unspecified); the sparse penalty used for collective anomalies is the built-in one made exact through the scale; transform's marking is checked by the oracle and C05.",
    "3/C16",
)
CLAIMS["C12"] = (
    "Lean 4 proofs of the algebraic symmetries on closed forms / algorithm models (+ L1 tie to the regenerated kernels) + paired-run correspondence on transformed data",
    "Theorems agg_perm_invariant, orderDesc_vals_perm_invariant, penGeneral_perm_invariant (permutation), l2Optim_shift_invariant, gaussOptim_shift_invariant, cusum_shift_invariant (shift), gauss_change_score_scale_invariant (scale, above the floor), segSum_reverse, pelt_reversal_bijection (reversal); lift to the detectors: pelt_/capa_/mw_/sbs_/cbs_output_depends_on_admissible_* (score tables that agree on the admissible cuts inside [0,n] give identical scores and detections, from Lemmas/Congr.lean) and the composed pelt_l2_shift_invariant, pelt_gauss_shift_invariant (PELT output on x+c = output on x, from the rows); gcov_shift_invariant, gcov_scale_invariant (multivariate Gaussian cost defined from the rows with Mathlib's Matrix.det: covariance unchanged by shifts, multiplied by a^2 under rescaling, change score unchanged for non-singular covariances) in Skc/Props/C12.lean, for all data / lengths / constants.",
    "the lift from invariant score tables to identical detector outputs is proved over exact arithmetic; floating-point margins are exercised by paired runs (a differing discrete output counts only if it persists under 1e-9 perturbations); multivariate Gaussian cost: the theorems are about its definition from the rows, which the code computes directly with np.cov / slogdet (tied numerically by the C01 check, not by the translator); Gaussian statements hold above the variance floor (cases at the floor are skipped and counted).",
    "3/C12",
)
CLAIMS["C15"] = (
    "Lean 4 proofs about translator-regenerated formulas and list models (cumsum/min/diff, sorted-list quantile) + numeric correspondence on parameter grids",
    "Theorems gen_capa_penalty, gen_dense_penalty, gen_sparse_penalty, gen_pelt_default_penalty, gen_sbs/cbs_default_threshold (L1: regenerated code = documented formula), capaPenalty_proportional / _nonneg, sparse_terms_nonneg, constant_beta_monotone, combined_family (cumsum of diff = pointwise min; non-negative betas), tuned_threshold_bound (at most level*N scores exceed the 'higher' quantile), pelt_penalty_monotone (exchange argument) in Skc/Props/C15.lean.",
    "the intermediate family depends on scipy's chi2 (uninterpreted): its sign / monotonicity is checked numerically only and enters combined_family as a hypothesis; `fitted = scale * default` is the model of the `_get_threshold/_get_penalty` methods, tied numerically on a grid; MovingWindow's default threshold is translated and compared in Float but has no documented closed form to prove against.",
    "3/C15",
)
CLAIMS["C13"] = (
    "Lean 4 proof that the validation model accepts exactly the valid cuts (and that accepted positions are in range) + EXHAUSTIVE model/code correspondence over the box [-2,n+2]^k for every scorer",
    "Theorems checkRow_ok_iff, checkRowLocal_ok_iff (accept <=> the property's valid cut), accepted_positions_in_range (no wrap-around / truncation is reachable after acceptance), checkCuts_ok_iff (a batch is accepted iff every row is), checkRowW_ok_iff (the same equivalence with the differences taken in wrapping int64 arithmetic, for n < 2^63 — the arithmetic the code executes after normalising cuts to int64) in Skc/Props/C13.lean, for all n, min sizes, widths and integer rows.",
    "the model covers width / spacing / range (and the local-anomaly inner / pooled-surroundings rules); the model's rows are mathematical integers: that the code judges the integers an array HOLDS (whatever its NumPy integer dtype; no wrap-around in differences or products) is checked by the dtypes stream (eight dtypes, values at the ends of each range, valid cuts compared with their int64 evaluation; finding #24 was found and repaired there); ndim and non-integer dtypes are NumPy-container facts exercised on malformed containers; each scorer's min_size is taken from the fitted object and checked against the documented value; the exhaustive box (about 143 k tuples quick) validates the model against all 16 scorer compositions, for fresh objects and objects fitted before on another shape.",
    "3/C13",
)
CLAIMS["C17"] = (
    "Lean 4 proof about the group-by-segment-label model (via the C05 change-detector round trip) + exact model/code correspondence with a detector returning prescribed changepoints",
    "Theorems anomaliser_flags_out_of_range_segments (for valid changepoints the output is exactly the filter of the segment list [c_i, c_{i+1}) by `stat < lo or stat > hi`), anomaliser_output_sublist (own interval per flagged segment, order kept, no merging), flagged_iff, anomaliser_output_wellformed (sorted, pairwise disjoint, non-empty intervals inside [0,n]; segmentsFrom_wf), anomaliser_over_pelt (the 'valid changepoints' hypothesis is a theorem for the default wrapped detector PELT, by C02/C04) in Skc/Props/C17.lean, for every statistic (arbitrary function of the segment), bounds, n and changepoints.",
    "the statistic itself is the user's callable (an uninterpreted function of the segment in the theorem; exact rational mean / sum / range / first in the correspondence; NumPy mean / median / std / var / lambdas judged by the directly stated property); pandas groupby is modelled as 'maximal runs of equal label'; clone-and-fit of the wrapped detector (user's object untouched, refit after re-tuning uses the new settings) is observed by the harness.",
    "3/C17",
)
CLAIMS["C14"] = (
    "Lean 4 proofs that the transcribed validation equals the documented domain and that seeded binary segmentation is total on admissible schedules + correspondence over the full boundary grid",
    "Theorems pelt/mw/binseg/capa/stat_ctor_iff and *_fit_iff (validation model <=> documented domain), sbs_runs_on_valid_config (non-empty candidate list and no empty argmax for every admissible schedule, incl. max_interval_length = 2m and n = 2m), mapOpt_ne_none in Skc/Props/C14.lean.",
    "the validation model and the documented domain are both transcriptions (from code and from docstrings); the remaining algorithm models are total functions by construction, that the Python raises nothing else on valid configurations is checked on the boundary grid (6 k configurations quick) incl. finite +-1e308 data, four scorers, p in 1..3; MovingWindow's `level` is only exercised inside (0,1); PELT(penalty_scale=None) raising ValueError at fit is documented behaviour.",
    "3/C14",
)
CLAIMS["C18"] = (
    "Lean 4 proofs about the slice-wise affine placement model + correspondence with z taken from the implementation at mean 0 / variance 1",
    "Theorems applySegs_placement (disjoint segments: inside segment g the value is m_g + sd_g * z, outside all segments it is z), changingSegs_disjoint (segments built from sorted changepoints are disjoint), linspaceRows_spec (ideal outlier rows strictly increasing from first to last row for 2 <= k <= n), validChanging_iff / validAnomalous_iff in Skc/Props/C18.lean, over any commutative ring and any z.",
    "reproducibility of scipy's seeded draw is checked by calling twice, not modelled; NumPy computes the outlier rows in floating point (np.linspace(dtype=int)), which differs from the ideal floor in about 2% of (n,k): the driver replicates the float computation for exact correspondence on the full grid and the oracle demands k distinct rows from first to last within one row of the ideal spacing; overlapping anomalies / unsorted changepoints are outside the statement.",
    "3/C18",
)
CLAIMS["C10"] = (
    "Lean 4 proof by simulation over an abstract object-heap state machine (every history) + frame-conformance and differential histories on the real objects",
    "PARTIAL. Theorems view_step, view_after_history, outputs_depend_on_relevant_calls_only, update_is_fit_on_combined, scorer_const in Skc/Props/C10.lean: in the abstract heap (detectors holding possibly shared scorer objects; predict refits the held scorer first) the state a detector's results are computed from evolves as a function of fit / update / set_params on that detector and set_params on its scorer only, for every finite history; hence outputs equal those of a fresh object given the relevant calls.",
    "the theorem is about the abstract heap: that the Python objects have no further mutable state (caches, aliasing beyond the modelled references, sktime clone/reset) is checked, not proved, by (i) recording every attribute write of public calls and comparing with what the model's operation writes and (ii) random histories over all detectors/scorers with shared cost objects, reused containers, in-place modified inputs, overlapping update chunks, each output compared with a fresh object's; interpretations: a scorer's last fit includes refits by holders; set_params invalidates the fit.",
    "3/C10",
)
CLAIMS["C11"] = (
    "Lean 4 parametricity proofs about the container/label handling model + differential run over containers, dtypes, indexes, column labels and entry points",
    "PARTIAL. Theorems values_relabel, sparse_relabel_invariant, container_invariant, dense_relabel in Skc/Props/C11.lean: in the model, detection is a function of the value matrix, which does not depend on index labels, column labels or the container, and dense outputs carry the input's own index with label-independent values.",
    "pandas and NumPy are not modelled: this property is decided mainly by the differential run (all seven detectors and twelve scorer kinds x {ndarray 2-D/1-D, Series, DataFrame} x {int64, float64, incl. 1e8-scaled integers} x four index kinds x column labels incl. 'labels'/'values'/'ilocs' x {fit+predict, fit_predict, transform, transform_scores, fit+update+predict}); update() with a NumPy array is a listed known finding (known_findings.json).",
    "3/C11",
)
