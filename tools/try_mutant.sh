#!/bin/sh
# dev tool: tools/try_mutant.sh <patch.diff> <Cxx> [tier]  — apply a patch to a scratch worktree of
# /repo's HEAD (never to /repo itself), run the check against it, clean up.
set -u
PATCH="$1"; PROP="$2"; TIER="${3:-quick}"
WT=/tmp/wt/mut_$$
git -C /repo worktree add --detach "$WT" HEAD -q || exit 2
( cd "$WT" && git apply "$PATCH" ) || { echo "patch does not apply"; git -C /repo worktree remove --force "$WT"; exit 2; }
cd "$(dirname "$0")/.." && SKCHANGE_REPO="$WT" ./check "$PROP" --tier "$TIER"
RC=$?
git -C /repo worktree remove --force "$WT"
echo "exit=$RC"
exit $RC
