#!/usr/bin/env python3
"""dev tool: confirm a seeded change and file it under seeded/<name>/.

usage: tools/confirm_mutant.py <dir with patch.diff demo.py notes.md> <Cxx> <name> [--tier quick]

In a scratch worktree of /repo's HEAD (never /repo itself):
  1. demo on the clean tree            -> must exit 0
  2. apply patch; repository suite     -> every BASELINE stable pass must still pass
  3. demo with the patch               -> must exit != 0
  4. ./check <Cxx> against the patched -> recorded (exit 1 + VIOLATION expected)
then writes seeded/<name>/{patch.diff, demo.py, notes.md, meta.json} and removes the worktree."""
import json
import os
import shutil
import subprocess
import sys
import time
import xml.etree.ElementTree as ET

ROOT = os.path.dirname(os.path.dirname(os.path.abspath(__file__)))
src, prop, name = sys.argv[1], sys.argv[2], sys.argv[3]
tier = sys.argv[sys.argv.index("--tier") + 1] if "--tier" in sys.argv else "quick"
wt = f"/tmp/wt/confirm_{os.getpid()}"
PY = "/venv/bin/python"


def sh(cmd, cwd=None, env=None, timeout=3600):
    e = dict(os.environ)
    e.update(env or {})
    return subprocess.run(cmd, cwd=cwd, env=e, capture_output=True, text=True, timeout=timeout, shell=isinstance(cmd, str))


def suite(wt):
    xml = f"{wt}/junit.xml"
    sh([PY, "-m", "pytest", "-q", "-p", "no:cacheprovider", "--timeout=900", "--continue-on-collection-errors",
        f"--junitxml={xml}"], cwd=wt, env={"PYTHONPATH": wt})
    passed = set()
    for tc in ET.parse(xml).getroot().iter("testcase"):
        if not any(ch.tag in ("failure", "error", "skipped") for ch in tc):
            passed.add(f"{tc.get('classname')}::{tc.get('name')}")
    os.remove(xml)
    return passed


meta = {"property": prop, "name": name, "source": "independent sub-agent given only the property text and a scratch worktree",
        "date": time.strftime("%Y-%m-%d"), "repo_head": sh("git -C /repo rev-parse --short HEAD").stdout.strip()}
sh(f"git -C /repo worktree add --detach {wt} HEAD -q")
try:
    shutil.copy(os.path.join(src, "demo.py"), f"{wt}/_demo.py")
    r = sh([PY, "_demo.py"], cwd=wt, env={"PYTHONPATH": wt})
    meta["demo_clean_exit"] = r.returncode
    a = sh(["git", "apply", os.path.abspath(os.path.join(src, "patch.diff"))], cwd=wt)
    meta["patch_applies"] = a.returncode == 0
    base = json.load(open("/root/.vp/BASELINE.json"))
    passed = suite(wt)
    missing = sorted(set(base["stable_pass"]) - passed)
    meta["suite_stable_passes_kept"] = len(base["stable_pass"]) - len(missing)
    meta["suite_stable_passes_lost"] = missing[:10]
    r = sh([PY, "_demo.py"], cwd=wt, env={"PYTHONPATH": wt})
    meta["demo_patched_exit"] = r.returncode
    meta["demo_patched_output_tail"] = (r.stdout + r.stderr)[-600:]
    os.remove(f"{wt}/_demo.py")
    t0 = time.time()
    c = sh(["./check", prop, "--tier", tier], cwd=ROOT, env={"SKCHANGE_REPO": wt})
    meta["check"] = {"cmd": f"SKCHANGE_REPO=<patched worktree> ./check {prop} --tier {tier}", "exit": c.returncode,
                     "violation_lines": [l for l in c.stdout.split("\n") if l.startswith("VIOLATION")],
                     "wall_s": round(time.time() - t0, 1)}
    # what did the replay say?
    for l in meta["check"]["violation_lines"][:1]:
        pth = l.split("replay=")[1].split()[0]
        try:
            v = json.load(open(os.path.join(ROOT, pth)))
            meta["check"]["first_replay"] = {"stream": v.get("stream"), "kind": v.get("kind"), "msg": str(v.get("msg"))[:300]}
        except Exception:
            pass
finally:
    sh(f"git -C /repo worktree remove --force {wt}")
ok = (meta["demo_clean_exit"] == 0 and meta["patch_applies"] and not meta["suite_stable_passes_lost"]
      and meta["demo_patched_exit"] != 0)
meta["confirmed"] = ok
meta["detected"] = meta.get("check", {}).get("exit") == 1
notes = os.path.join(src, "notes.md")
meta["needs_to_manifest"] = open(notes).read()[:1500] if os.path.exists(notes) else ""
if ok:
    d = os.path.join(ROOT, "seeded", name)
    os.makedirs(d, exist_ok=True)
    for f in ("patch.diff", "demo.py", "notes.md"):
        if os.path.exists(os.path.join(src, f)):
            shutil.copy(os.path.join(src, f), os.path.join(d, f))
    json.dump(meta, open(os.path.join(d, "meta.json"), "w"), indent=1)
print(json.dumps({k: meta[k] for k in ("name", "confirmed", "detected", "demo_clean_exit", "demo_patched_exit",
                                       "suite_stable_passes_kept", "suite_stable_passes_lost")}, indent=None))
print(" check:", meta.get("check", {}).get("exit"), meta.get("check", {}).get("first_replay"))
