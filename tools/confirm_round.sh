#!/bin/sh
# dev tool: tools/confirm_round.sh <round> <Cxx> <first number>  — confirm the three seeded changes a sub-agent left in
# /tmp/wt/<round><Cxx>/out/m1..m3 and file them as seeded/<Cxx>-m<first>..<first+2>; then remove the agent's worktree.
RND="$1"; PROP="$2"; N="$3"
cd "$(dirname "$0")/.." || exit 2
WT=/tmp/wt/$RND$PROP
for k in 1 2 3; do
  if [ -f "$WT/out/m$k/patch.diff" ]; then
    VERIF_PROCS=4 python3 tools/confirm_mutant.py "$WT/out/m$k" "$PROP" "$PROP-m$((N + k - 1))"
  else
    echo "$PROP m$k: no patch"
  fi
done
mkdir -p /tmp/r8out/$PROP && cp -r "$WT/out" /tmp/r8out/$PROP/ 2>/dev/null
git -C /repo worktree remove --force "$WT"
