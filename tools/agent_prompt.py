#!/usr/bin/env python3
"""Print the prompt given to a mutant-writing sub-agent for one property (dev tool)."""
import json, sys
pid = sys.argv[1]
rnd = sys.argv[2] if len(sys.argv) > 2 else ""
wt = f"/tmp/wt/{rnd}{pid}"
extra3 = (" In this round aim at what ordinary input generators do not reach: rarely used public entry points and call orders "
          "(fit_predict, fit_transform, update_predict, transform_scores, predict on other data than was fitted, clone / set_params / "
          "get_params round trips, objects shared between estimators), unusual but legal argument forms (lists, Series, integer or "
          "float32 data, non-default index or column labels, NumPy scalar hyper-parameters, boundary values 0 / 1 / exactly-at-the-limit), "
          "numerical edge cases inside the documented domain (constant columns, huge or tiny magnitudes, exact ties), and state that "
          "outlives a call (caches, module-level or class-level variables, mutable default arguments, in-place modification of inputs "
          "or of fitted attributes). At least TWO of the three mutants must be of these kinds, and each must still satisfy (a) and (b).")
extra4 = (" In this round write the kind of defect that slips in with a well-meant REFACTOR: vectorising or batching a loop (chunk sizes, "
          "exclusive range stops), replacing a loop by a NumPy / pandas call with subtly different semantics (stable vs unstable sort, "
          "argmax / argsort on ties, np.isclose / allclose tolerances, integer vs true division, np.minimum / np.maximum argument "
          "conventions, in-place operations on views or aliased arrays, default dtypes, label-based vs positional indexing), early exits "
          "and fast paths whose precondition is almost always true, hoisting a computation out of a loop or into __init__, changing a "
          "default or a keyword at one of two call sites, merging two similar code paths, or tightening / loosening an input check. "
          "Avoid plain single-token boundary slips (< vs <=) unless they are hidden inside such a refactor. Each mutant must still "
          "satisfy (a) and (b), and at least one should only manifest for a combination of two non-default options.")
extra6 = (" In this round aim at INTERACTIONS and leftovers: (1) two public features that are documented as independent but meet in the "
          "code (two hyper-parameters, a hyper-parameter and an input form, a component and the detector that wraps it, refit and "
          "update, an option and an entry point) so that each works alone and the combination breaks the property; (2) exception "
          "safety - a call that legitimately raises (bad input, documented error) leaves the object half-updated and a LATER valid "
          "call misbehaves; (3) values that are legal but rarely generated: -0.0, subnormal or very large finite numbers, exactly "
          "repeated rows, already-sorted or reversed or duplicated entries in user-supplied lists, empty results, single-row or "
          "single-column shapes, index arithmetic near 2**31 for long inputs; (4) the result object rather than its values - dtype, "
          "index, column order or names of returned frames, aliasing between returned arrays and internal state. At least TWO of the "
          "three mutants must be of kinds (1) or (2), and each must still satisfy (a) and (b).")
extra7 = (" In this round write changes a maintainer would make for SPEED or COMPATIBILITY and get subtly wrong: (1) performance work - "
          "a shortcut that skips recomputation when 'nothing changed' (with an incomplete notion of what can change), memoising or "
          "re-using buffers between calls or between instances (keyed or sized incompletely), lazy evaluation, early termination of a "
          "search or loop, incremental / online update formulas instead of recomputation, lower-precision or differently ordered "
          "arithmetic (float32 intermediates, differences of large prefix sums, einsum / matmul re-associations), sorting or "
          "partitioning tricks that change tie order; (2) API drift - a default changed at one of several sites, a keyword silently "
          "ignored, swapped or passed positionally in the wrong order to an internal helper, an attribute renamed at the writer but "
          "read under the old name through a getattr default, a deprecated alias handled for one class only; (3) compatibility shims "
          "for other NumPy / pandas versions (copy-on-write, np.asarray vs np.array(copy=...), .values vs .to_numpy(), inplace=True, "
          "Series vs DataFrame return types, integer vs label indexing) that are not quite equivalent. At least TWO of the three "
          "mutants must be of kinds (1) or (2), each must still satisfy (a) and (b), and none may be a plain comparison-operator slip.")
extra8 = (" In this round write ALGORITHM-LEVEL shortcuts and CONTRACT DRIFT between cooperating sites: (1) a search, dynamic programme or "
          "greedy loop is made cheaper by a rule that is right for almost every input - a pruning / candidate-reduction test that is sound "
          "for typical scores but not for all legal ones, restricting candidates to a sub-grid or to a window that nearly always contains "
          "the optimum, a closed-form loop bound that is off only for particular sizes (n just above or below a multiple, n == minimum "
          "size, p == 1), merging or de-duplicating candidates that are equal 'in practice', special handling of the first or the last "
          "iteration, stopping as soon as an improvement is smaller than an epsilon; (2) a helper's contract changes slightly (inclusive "
          "vs exclusive end, sorted vs unsorted output, copy vs view, scalar vs length-1 array, row vs column orientation, 0- vs 1-based "
          "position, absolute vs relative position, array vs list) and one caller is adapted while another caller - or a user-supplied "
          "component, subclass or callable - still relies on the old contract; (3) the same quantity is computed at two sites (fit and "
          "predict, a detector and the scorer inside it, default and tuned path, dense and sparse output, a value and its validation) and "
          "only one of them is changed, so that they disagree for particular configurations only. At least TWO of the three mutants must "
          "be of kinds (1) or (2), each must still satisfy (a) and (b), and none may be a plain comparison-operator slip at the most "
          "central line.")
extra9 = (" In this round produce only TWO mutants (m1, m2), both of the REALLY-HARD-TO-NOTICE kind: each must need a CONJUNCTION of at "
          "least two unusual conditions to manifest - a boundary size AND a tie, a non-default option AND a particular data shape, a "
          "particular call sequence AND a particular configuration, a rarely used input form AND a boundary value - so that a random "
          "tester drawing typical inputs (typical sizes, default-ish options, generic real-valued data) hits it in fewer than about 1 "
          "in 1000 trials. Estimate that rate with a quick random experiment through the public API and report the estimate and how "
          "you measured it in notes.md. The two mutants must attack different mechanisms of the property. Wherever this brief says "
          "THREE mutants or m1..m3, read TWO and m1..m2.")
extra = extra9 if rnd.startswith("r9") else extra8 if rnd.startswith("r8") else extra7 if rnd.startswith("r7") else extra6 if rnd.startswith("r6") else extra4 if rnd.startswith("r4") else extra3 if rnd.startswith("r3") else "" if not rnd else (" In this round prefer the LESS obvious sites: helper and utility code, validation, base classes, "
                            "penalty / threshold construction, conversions, caching and state handling, parameter plumbing between "
                            "classes - rather than the most central line of the main algorithm loop - and make at least TWO of the "
                            "three mutants need a rare input or boundary configuration to manifest.")
prop = None
for l in open("/verif/properties.jsonl"):
    d = json.loads(l)
    if d["id"] == pid:
        prop = d
print(f"""You are helping to evaluate a verification tool by writing realistic, subtle bugs.

The directory {wt} is a scratch git worktree of the Python library `skchange` (changepoint and anomaly detection built on interval scorers; sktime-compatible). Work ONLY inside {wt}. Never read or modify /repo or /verif (or anything under them). Do not use `git stash` (the stash is shared between all worktrees of the repository): revert with `git checkout -- skchange` and keep your changes as patch files.

Python: use `/venv/bin/python`. To make sure the worktree's copy of the library is the one imported, always run from the worktree root with PYTHONPATH set, e.g.
    cd {wt} && PYTHONPATH={wt} /venv/bin/python -c "import skchange; print(skchange.__file__)"
(must print a path under {wt}). numba is not installed, so all @njit functions run as plain Python.
The test suite: `cd {wt} && PYTHONPATH={wt} /venv/bin/python -m pytest -q -p no:cacheprovider --timeout=900` takes about 15 s; on the untouched worktree it gives `6 failed, 906 passed` (the 6 failures are the always-failing `test_doctest_examples` cases; some xfail PELT tests XPASS - all of that is the expected baseline).

THE PROPERTY (a semantic property that the library is supposed to satisfy):

  id: {prop['id']} - {prop['title']}
  statement: {prop['statement']}
  quantified over: {prop['quantifier']['text']}
  relevant files: {', '.join(prop['anchors']['files'])}
  mechanisms meant to make it hold: {'; '.join(m['name'] + ' (' + m.get('where','') + ')' for m in prop['anchors']['mechanism'])}
  observable at: {'; '.join(prop['anchors'].get('observe_at') or [])}

YOUR TASK: produce THREE independent changes (mutants) to the library source under {wt}/skchange/ (not to tests), each of which BREAKS this property while
  (a) the library still imports and the existing test suite gives exactly the baseline result (same 906 passes, same 6 failures, no new failures or errors), and
  (b) the breakage needs something specific to manifest - a particular unusual input, boundary configuration, tie, multi-step sequence of calls, or two cooperating code sites that each look fine alone - rather than being exposed at once by ordinary use on typical data. Prefer realistic slips a developer could make during a refactor or optimisation (off-by-one in an index or bound, a wrong comparison operator, a premature pruning/early exit, a stale cache, a wrong tie-break, a dropped term, an argument passed in the wrong position, a condition that only matters at a boundary). The three mutants should attack DIFFERENT mechanisms / code sites of the property, and at least one should be really hard to notice (very rare inputs).{extra}

For each mutant k in 1..3 create the directory {wt}/out/m<k>/ containing
  - patch.diff : output of `git diff` (relative to HEAD, from the worktree root) for that mutant alone; it must apply with `git apply` on a clean worktree;
  - demo.py : a small self-contained program (run as `cd {wt} && PYTHONPATH={wt} /venv/bin/python out/m<k>/demo.py`) that checks the property on one or a few concrete inputs through the library's public API: it must exit 0 on the unmodified worktree and exit 1 (printing what went wrong) with the mutant applied. The demo must check the PROPERTY as stated (e.g. by comparing with a brute-force computation), not just compare against hard-coded outputs of the old code;
  - notes.md : 5-10 lines: what was changed, why the property breaks, what is needed for it to manifest, and why the test-suite does not notice.

Procedure for each mutant: start from a clean worktree (`git -C {wt} checkout -- skchange`), edit, run the full test suite and confirm the baseline result, run the demo (must exit 1), save the patch, revert (`git -C {wt} checkout -- skchange`), run the demo again (must exit 0). If a mutant makes any test fail, change it until the suite is at baseline again - do not edit tests.

When done, leave the worktree source clean (only the untracked out/ directory remains) and reply with a short summary: for each mutant one line saying what it changes and what input exposes it, and confirm the three verifications (suite at baseline with patch, demo exit 1 with patch, demo exit 0 without).""")
