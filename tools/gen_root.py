#!/usr/bin/env python3
"""Regenerate lean/Skc.lean so that it imports every module of the development (dev tool)."""
import os
ROOT = os.path.join(os.path.dirname(os.path.dirname(os.path.abspath(__file__))), "lean")
mods = []
for d, _, fs in os.walk(os.path.join(ROOT, "Skc")):
    for f in sorted(fs):
        if f.endswith(".lean"):
            rel = os.path.relpath(os.path.join(d, f), ROOT)[:-5].replace(os.sep, ".")
            mods.append(rel)
open(os.path.join(ROOT, "Skc.lean"), "w").write("".join(f"import {m}\n" for m in sorted(mods)))
print(len(mods), "modules")
