#!/usr/bin/env python3
"""dev tool: apply every seeded change to its own scratch worktree of /repo's HEAD (never /repo), run the quick check
of its property against it, and print / store the catch matrix (seeded/CATCH_MATRIX.md).  usage: tools/catch_matrix.py [-j N]"""
import concurrent.futures as cf
import json
import os
import subprocess
import sys

ROOT = os.path.dirname(os.path.dirname(os.path.abspath(__file__)))
J = int(sys.argv[sys.argv.index("-j") + 1]) if "-j" in sys.argv else 4


def one(name):
    d = os.path.join(ROOT, "seeded", name)
    meta = json.load(open(os.path.join(d, "meta.json")))
    prop = meta["property"]
    if not meta.get("confirmed", True):
        return name, prop, "n/a (no longer breaks the property on the repaired tree)", "", ""
    if meta.get("outside_claim"):
        return name, prop, "n/a (outside what the check judges: see meta.json)", "", ""
    wt = f"/tmp/wt/cm_{name}"
    subprocess.run(["git", "-C", "/repo", "worktree", "add", "--detach", wt, "HEAD", "-q"], check=True)
    try:
        a = subprocess.run(["git", "apply", os.path.join(d, "patch.diff")], cwd=wt)
        if a.returncode:
            return name, prop, "patch does not apply", "", ""
        env = dict(os.environ, SKCHANGE_REPO=wt, VERIF_PROCS="4", VERIF_NO_MINIMISE="1")
        r = subprocess.run(["./check", prop, "--tier", "quick"], cwd=ROOT, env=env, capture_output=True, text=True)
        v = [l for l in r.stdout.splitlines() if l.startswith("VIOLATION")]
        stream, msg = "", ""
        if v:
            rp = json.load(open(os.path.join(ROOT, v[0].split("replay=")[1].split()[0])))
            stream, msg = rp.get("stream", ""), (rp.get("msg") or "")[:90].replace("|", "/").replace("\n", " ")
        return name, prop, "yes" if r.returncode == 1 and v else f"NO (exit {r.returncode})", stream, msg
    finally:
        subprocess.run(["git", "-C", "/repo", "worktree", "remove", "--force", wt])


names = sorted(n for n in os.listdir(os.path.join(ROOT, "seeded")) if os.path.isdir(os.path.join(ROOT, "seeded", n)))
ONLY = sys.argv[sys.argv.index("--only") + 1].split(",") if "--only" in sys.argv else None  # e.g. --only m22,m23,m24: re-run these, keep the other rows
PROPS = sys.argv[sys.argv.index("--props") + 1].split(",") if "--props" in sys.argv else None  # e.g. --props C06,C10: re-run these rows only
if ONLY:
    names = [n for n in names if n.split("-")[-1] in ONLY]
if PROPS:
    names = [n for n in names if n.split("-")[0] in PROPS]
rows = []
with cf.ThreadPoolExecutor(J) as ex:
    for row in ex.map(one, names):
        rows.append(row)
        print(*row[:3], flush=True)
out = ["| seeded change | property | caught by quick check | stream | first message |", "|---|---|---|---|---|"]
new = {n: f"| {n} | {p} | {c} | {s} | {m} |" for n, p, c, s, m in rows}
if (ONLY or PROPS) and os.path.exists(os.path.join(ROOT, "seeded", "CATCH_MATRIX.md")):
    old = {l.split("|")[1].strip(): l.rstrip("\n") for l in open(os.path.join(ROOT, "seeded", "CATCH_MATRIX.md")) if l.startswith("| C")}
    old.update(new)
    new = old
out += [new[k] for k in sorted(new)]
open(os.path.join(ROOT, "seeded", "CATCH_MATRIX.md"), "w").write("\n".join(out) + "\n")
print(sum(1 for r in rows if r[2] == "yes"), "of", sum(1 for r in rows if not r[2].startswith("n/a")), "caught")
