#!/bin/sh
# dev tool: every harmless rewrite must keep the suite green and the listed checks at exit 0
cd "$(dirname "$0")/.." || exit 2
run() { # patch, checks...
  P="$1"; shift
  for C in "$@"; do
    OUT=$(tools/try_mutant.sh "$PWD/tools/rewrites/$P.diff" "$C" 2>&1 | tail -2 | tr '\n' ' ')
    echo "$P $C: $OUT" | cut -c1-260
  done
}
run rw01_kernel_arithmetic C01 C06 C12 C15
run rw02_pelt_nonstrict_pruning C02
run rw03_pelt_no_pruning C02
run rw04_pelt_longer_delay C02
run rw05_pelt_last_argmin C02 C04
run rw06_where_vectorised C08
run rw07_s2d_explicit_loop C05 C11
run rw08_penalise_vectorised C03 C16
run rw09_anomaly_intervals_comprehension C09
run rw10_capa_set_difference C03
run rw11_sbs_threshold_reordered C15 C07
run rw12_cuts_loop C13
run rw13_capa_nonstrict_pruning C03 C04
run rw14_capa_no_pruning C03 C04
run rw15_capa_last_argmax C03 C04
run rw16_pelt_content_keyed_score_memo C02 C11   # C10 reports "no-failing-input-found": the memo attributes are outside the model's frame (see DESIGN 10.5)
run rw17_cuts_asarray_int64 C13
run rw18_squares_astype C01 C11 C12
