#!/usr/bin/env python3
"""dev tool: apply every behaviour-preserving refactor under <dir>/*/patch.diff to its own scratch worktree of /repo's HEAD and run
ALL 18 quick checks against it (--own: only the property named in the directory plus C04, C10, C11).
usage: tools/refactor_matrix.py <dir> [-j N] [--own]
Expected: exit 0 everywhere; a `no-failing-input-found` line means the tie (not the property) broke."""
import concurrent.futures as cf
import glob
import os
import subprocess
import sys

ROOT = os.path.dirname(os.path.dirname(os.path.abspath(__file__)))
SRC = sys.argv[1]
J = int(sys.argv[sys.argv.index("-j") + 1]) if "-j" in sys.argv else 3
IDS = [f"C{i:02d}" for i in range(1, 19)]
OWN = "--own" in sys.argv


def one(patch):
    name = os.path.basename(os.path.dirname(os.path.dirname(patch))) + "_" + os.path.basename(os.path.dirname(patch))
    import re
    own = re.search(r"rf_(C\d\d)", patch)
    ids = IDS if not (OWN and own) else sorted({own.group(1), "C04", "C10", "C11"})
    wt = f"/tmp/wt/rfm_{name}"
    subprocess.run(["git", "-C", "/repo", "worktree", "add", "--detach", wt, "HEAD", "-q"], check=True)
    res = {}
    try:
        if subprocess.run(["git", "apply", patch], cwd=wt).returncode:
            return name, {"apply": "FAILED"}
        env = dict(os.environ, SKCHANGE_REPO=wt, VERIF_PROCS="4", VERIF_NO_MINIMISE="1")
        for cid in ids:
            r = subprocess.run(["./check", cid, "--tier", "quick"], cwd=ROOT, env=env, capture_output=True, text=True)
            v = [l for l in r.stdout.splitlines() if l.startswith("VIOLATION")]
            if r.returncode != 0:
                res[cid] = f"exit {r.returncode}: " + ("; ".join(v[:2]) if v else (r.stdout[-200:] + " | " + r.stderr[-600:]).replace("\n", " "))
    finally:
        subprocess.run(["git", "-C", "/repo", "worktree", "remove", "--force", wt])
    return name, res


patches = sorted(glob.glob(os.path.join(SRC, "*", "out", "r*", "patch.diff")) + glob.glob(os.path.join(SRC, "*", "r*", "patch.diff"))
                 + glob.glob(os.path.join(SRC, "rf_*", "patch.diff")))
with cf.ThreadPoolExecutor(J) as ex:
    for name, res in ex.map(one, patches):
        print(name, "ALL GREEN" if not res else res, flush=True)
