#!/bin/sh
# dev tool: run every registered check (tier from $1, default quick) and summarise
TIER="${1:-quick}"
cd "$(dirname "$0")/.." || exit 2
for id in C01 C02 C03 C04 C05 C06 C07 C08 C09 C10 C11 C12 C13 C14 C15 C16 C17 C18; do
  ./check $id --tier "$TIER" > /tmp/runall_$id.log 2>&1
  rc=$?
  echo "$id rc=$rc $(grep -c '^VIOLATION' /tmp/runall_$id.log) violations; $(tail -1 /tmp/runall_$id.log | cut -c1-150)"
done
