"""Shared machinery of the checks: paths, Lean build + audit, driver, PRNG streams, worker pool
with per-case time-outs, stream runner (implementation vs model vs oracle), replay and evidence
files, known findings.  Everything here is deterministic given VERIF_SEED."""
from __future__ import annotations

import collections
import fcntl
import hashlib
import json
import os
import random
import re
import signal
import subprocess
import sys
import time
import traceback
import warnings

ROOT = os.path.dirname(os.path.dirname(os.path.abspath(__file__)))
LEAN = os.path.join(ROOT, "lean")
REPO = os.environ.get("SKCHANGE_REPO", "/repo")
GUARD = "NORSKREGNESENTRAL_SKCHANGE_VERIF"
MAX_REPORTS = 3  # distinct violations written out per run
ALLOWED_AXIOMS = {"propext", "Classical.choice", "Quot.sound"}
DRIVER = os.path.join(LEAN, ".lake", "build", "bin", "skcdrv")

os.environ.setdefault(GUARD, "1")
warnings.filterwarnings("ignore")


class Infra(Exception):
    """infrastructure failure: exit 2, never a VIOLATION line"""


# --------------------------------------------------------------------------------------------------
# the implementation under test


def use_repo():
    """make `import skchange` resolve to REPO's working tree and check that it does"""
    if sys.path[0] != REPO:
        sys.path.insert(0, REPO)
    for k in list(sys.modules):
        if k == "skchange" or k.startswith("skchange."):
            f = getattr(sys.modules[k], "__file__", "") or ""
            if f and not f.startswith(REPO.rstrip("/") + "/"):
                del sys.modules[k]
    import skchange

    if not os.path.abspath(skchange.__file__).startswith(os.path.abspath(REPO).rstrip("/") + "/"):
        raise Infra(f"skchange imported from {skchange.__file__}, expected under {REPO}")
    return skchange


# --------------------------------------------------------------------------------------------------
# Lean: build, audit, driver


def _run(cmd, cwd=None, timeout=3600, inp=None):
    try:
        return subprocess.run(
            cmd, cwd=cwd, input=inp, capture_output=True, text=True, timeout=timeout
        )
    except subprocess.TimeoutExpired as ex:
        raise Infra(f"timeout: {' '.join(cmd)}") from ex
    except FileNotFoundError as ex:
        raise Infra(f"missing tool: {cmd[0]}") from ex


class LeanLock:
    def __enter__(self):
        os.makedirs(os.path.join(LEAN, ".lake"), exist_ok=True)
        self.f = open(os.path.join(LEAN, ".lake", "verif.lock"), "w")
        fcntl.flock(self.f, fcntl.LOCK_EX)
        return self

    def __exit__(self, *a):
        fcntl.flock(self.f, fcntl.LOCK_UN)
        self.f.close()


def lake_build(targets, timeout=3000):
    """returns (ok, log).  Caller holds LeanLock."""
    r = _run(["lake", "build"] + list(targets), cwd=LEAN, timeout=timeout)
    log = (r.stdout or "") + (r.stderr or "")
    return r.returncode == 0, log


_ENV_ERR = re.compile(r"NameError|ImportError|ModuleNotFoundError|MemoryError|BlockingIOError|Too many open files|Cannot allocate memory")
_THM = re.compile(r"^\s*(?:private\s+)?theorem\s+([A-Za-z_][A-Za-z0-9_.']*)", re.M)
_FORBIDDEN = re.compile(
    r"\bsorry\b|\badmit\b|^\s*axiom\s|native_decide|bv_decide|implemented_by|\bunsafe\s|maxHeartbeats\s+0"
)


def strip_comments(src: str) -> str:
    """remove Lean block comments (nested) and line comments"""
    out, i, depth = [], 0, 0
    while i < len(src):
        if src.startswith("/-", i):
            depth += 1
            i += 2
        elif depth and src.startswith("-/", i):
            depth -= 1
            i += 2
        elif depth:
            i += 1
        elif src.startswith("--", i):
            j = src.find("\n", i)
            i = len(src) if j < 0 else j
        else:
            out.append(src[i])
            i += 1
    return "".join(out)


def lean_sources():
    for d, _, fs in os.walk(os.path.join(LEAN, "Skc")):
        for f in fs:
            if f.endswith(".lean"):
                yield os.path.join(d, f)
    yield os.path.join(LEAN, "Driver.lean")


def forbidden_tokens():
    """grep of every source of the development for escape hatches (comments discarded)"""
    hits = []
    for p in lean_sources():
        for ln, line in enumerate(strip_comments(open(p).read()).split("\n"), 1):
            if _FORBIDDEN.search(line):
                hits.append(f"{os.path.relpath(p, LEAN)}:{ln}: {line.strip()[:80]}")
    return hits


def module_path(module):
    return os.path.join(LEAN, *module.split(".")) + ".lean"


def module_theorems(module):
    """the obligations of a module = every `theorem` in its source file"""
    src = strip_comments(open(module_path(module)).read())
    ns = re.search(r"^namespace\s+(\S+)", src, re.M)
    pre = (ns.group(1) + ".") if ns else ""
    return [pre + t for t in _THM.findall(src)]


def property_theorems(prop_id):
    return module_theorems(f"Skc.Props.{prop_id}")


def audit(modules, theorems, tag="x"):
    """`#print axioms` of every theorem; returns {theorem: [axioms] | None}"""
    tmp = os.path.join(LEAN, ".lake", f"Audit_{tag}_{os.getpid()}.lean")
    with open(tmp, "w") as f:
        for m in modules:
            f.write(f"import {m}\n")
        for t in theorems:
            f.write(f"#print axioms {t}\n")
    try:
        r = _run(["lake", "env", "lean", tmp], cwd=LEAN, timeout=1200)
    finally:
        try:
            os.remove(tmp)
        except OSError:
            pass
    out = r.stdout + r.stderr
    res = {t: None for t in theorems}
    # "'Skc.foo' depends on axioms: [propext, Quot.sound]" | "'Skc.foo' does not depend on any axioms"
    for m in re.finditer(r"'([^']+)' depends on axioms: \[([^\]]*)\]", out.replace("\n", " ")):
        res[m.group(1)] = [a.strip() for a in m.group(2).split(",") if a.strip()]
    for m in re.finditer(r"'([^']+)' does not depend on any axioms", out):
        res[m.group(1)] = []
    return res, out


def run_driver(lines, timeout=1800):
    """pipe protocol lines to the compiled model driver; one output line per input line"""
    if not lines:
        return []
    if not os.path.exists(DRIVER):
        raise Infra("model driver not built: " + DRIVER)
    r = _run([DRIVER], inp="\n".join(lines) + "\n", timeout=timeout)
    out = r.stdout.split("\n")
    if out and out[-1] == "":
        out.pop()
    if r.returncode != 0 or len(out) != len(lines):
        raise Infra(
            f"driver returned {len(out)} lines for {len(lines)} inputs (rc={r.returncode}): {r.stderr[:300]}"
        )
    return out


# --------------------------------------------------------------------------------------------------
# randomness, rationals


def rng_for(seed: int, stream: str) -> random.Random:
    h = hashlib.sha256(f"{seed}/{stream}".encode()).digest()
    return random.Random(int.from_bytes(h[:8], "big"))


def rat(x) -> str:
    """exact protocol representation of an int / Fraction / float"""
    from fractions import Fraction

    if isinstance(x, bool):
        x = int(x)
    if isinstance(x, int):
        return str(x)
    fr = Fraction(x)
    return str(fr.numerator) if fr.denominator == 1 else f"{fr.numerator}/{fr.denominator}"


def rat_list(xs) -> str:
    return "[" + ", ".join(rat(x) for x in xs) + "]"


def case_hash(obj) -> str:
    return hashlib.sha1(json.dumps(obj, sort_keys=True, default=str).encode()).hexdigest()[:12]


# --------------------------------------------------------------------------------------------------
# worker pool with per-case time-out


class Hang(BaseException):  # not an Exception: implementation runners must not swallow it
    pass


def _alarm(signum, frame):
    raise Hang()


_WORK_FN = None


_WORK_FRESH = False


def run_forked(fn, arg, tmo, cpu=False):
    """fn(arg) in a forked child of this process (which itself never runs fn and so keeps its module-level
    state pristine); the result comes back pickled through a pipe; a child exceeding the timer is a hang.
    cpu=True: the timer counts the CPU time the child consumes (a child that is merely starved on an oversubscribed machine
    is not a hang); if it has not finished after a long wall-clock wait either, the outcome is "starved" (infrastructure)"""
    import pickle
    import select

    which, sig = (signal.ITIMER_PROF, signal.SIGPROF) if cpu else (signal.ITIMER_REAL, signal.SIGALRM)

    r, w = os.pipe()
    pid = os.fork()
    if pid == 0:
        os.close(r)
        try:
            signal.signal(sig, _alarm)
            signal.setitimer(which, tmo)
            try:
                res = fn(arg)
            except Hang:
                res = {"outcome": "hang"}
            except Exception as ex:
                res = {"outcome": "harness-error:" + type(ex).__name__, "trace": traceback.format_exc()[-800:]}
            finally:
                signal.setitimer(which, 0)
            data = pickle.dumps(res)
            off = 0
            while off < len(data):
                off += os.write(w, data[off:off + 65536])
        finally:
            os._exit(0)
    os.close(w)
    chunks, deadline = [], time.time() + (max(20 * tmo, 900) if cpu else tmo + 15)
    try:
        while True:
            left = deadline - time.time()
            if left <= 0 or not select.select([r], [], [], left)[0]:
                os.kill(pid, signal.SIGKILL)
                chunks = None
                break
            b = os.read(r, 1 << 20)
            if not b:
                break
            chunks.append(b)
    finally:
        os.close(r)
        try:
            os.waitpid(pid, 0)
        except ChildProcessError:
            pass
    if not chunks:
        return {"outcome": "starved" if cpu else "hang"}
    return pickle.loads(b"".join(chunks))


def _work(args):
    i, case, tmo = args
    if _WORK_FRESH:
        return i, run_forked(_WORK_FN, case, tmo)
    signal.signal(signal.SIGALRM, _alarm)
    signal.setitimer(signal.ITIMER_REAL, tmo)
    try:
        return i, _WORK_FN(case)
    except Hang:
        return i, {"outcome": "hang"}
    except Exception as ex:  # the runner itself should catch implementation errors
        return i, {"outcome": "harness-error:" + type(ex).__name__, "trace": traceback.format_exc()[-800:]}
    finally:
        signal.setitimer(signal.ITIMER_REAL, 0)


def pmap(fn, cases, per_case_timeout=20.0, procs=None, fresh=False):
    """run fn over cases in forked workers; a case exceeding the timer yields {'outcome': 'hang'}.
    fresh=True: every case runs in its own newly forked process, so module-level state left behind by one case
    (caches, memo tables, class attributes) cannot reach another and each case starts from the state of this process"""
    global _WORK_FN, _WORK_FRESH
    procs = procs or int(os.environ.get("VERIF_PROCS", "0")) or min(12, os.cpu_count() or 4)
    _WORK_FN = fn
    _WORK_FRESH = fresh
    jobs = [(i, c, per_case_timeout) for i, c in enumerate(cases)]
    if procs <= 1 or len(cases) < 32:
        return [_work(j)[1] for j in jobs]
    import multiprocessing as mp

    ctx = mp.get_context("fork")
    res = [None] * len(cases)
    with ctx.Pool(procs) as pool:
        for i, r in pool.imap_unordered(_work, jobs, chunksize=max(1, len(jobs) // (procs * 8))):
            res[i] = r
    return res


# --------------------------------------------------------------------------------------------------
# known findings


def load_known():
    p = os.path.join(ROOT, "known_findings.json")
    if not os.path.exists(p):
        return []
    return json.load(open(p)).get("known", [])


def match_known(prop_id, site, signature):
    for k in load_known():
        if k["property"] == prop_id and k["site"] == site and k["signature"] == signature:
            return k
    return None


# --------------------------------------------------------------------------------------------------
# a check run


class Check:
    """collects what one run of one property's check did and decides the exit status"""

    def __init__(self, prop_id, tier, seed):
        self.prop = prop_id
        self.tier = tier
        self.seed = seed
        self.t0 = time.time()
        self.obligations = []  # theorem names
        self.discharged = []
        self.broken = []  # (name, reason)
        self.streams = {}  # name -> stats dict
        self.regen = {}  # name -> generator info used to minimise counterexamples
        self.violations = []  # dicts: kind, stream, case, msg, site, signature
        self.known_hits = []
        self.samples = []
        self.evaluations = 0
        self.nontrivial = set()
        self.rules = []
        self.assumptions = []
        self.notes = collections.OrderedDict()
        self.checker_cmd = ""
        self.exhaustive = None

    # ---- Lean side -------------------------------------------------------------------------
    def lean(self, extra_modules=(), pre_build=None, skip_modules=None):
        """build the property module + driver and audit the property theorems.
        extra_modules: further modules whose theorems are obligations of this property (the L1
        layer over translator output); each is built on its own so that a failure is attributed.
        skip_modules: {module: reason} — not built, not counted (translator says unsupported).
        pre_build: callable run under the lock before building (e.g. the translator)."""
        mod = f"Skc.Props.{self.prop}"
        skip_modules = skip_modules or {}
        self.checker_cmd = (
            f"cd lean && lake build {' '.join([mod] + list(extra_modules))} skcdrv && lake env lean <#print axioms of every "
            f"theorem of these modules>; grep for sorry/admit/axiom/native_decide/bv_decide/implemented_by/unsafe"
        )
        with LeanLock():
            if pre_build:
                pre_build()
            ok_drv, log_drv = lake_build(["skcdrv"])
            if not ok_drv:
                raise Infra("model driver does not build:\n" + log_drv[-2000:])
            built = []
            for m in [mod] + list(extra_modules):
                if m in skip_modules:
                    self.notes.setdefault("skipped_modules", {})[m] = skip_modules[m]
                    continue
                ths = module_theorems(m)
                self.obligations += ths
                ok, log = lake_build([m])
                if ok:
                    built.append((m, ths))
                else:
                    self.notes.setdefault("lean_build_log_tail", "")
                    self.notes["lean_build_log_tail"] += f"\n== {m}\n" + log[-2500:]
                    for t in ths:
                        self.broken.append((t, f"module {m} does not build"))
            self.notes["lean_build_ok"] = len(built) == len([mod] + [m for m in extra_modules if m not in skip_modules])
            ax = {}
            if built:
                ax, out = audit([m for m, _ in built], [t for _, ths in built for t in ths], tag=self.prop)
            if self.tier == "thorough" and built:
                # independent re-check of the compiled modules (and everything they import) by leanchecker
                t0 = time.time()
                r = _run(["lake", "env", "leanchecker"] + [m for m, _ in built], cwd=LEAN, timeout=3000)
                self.notes["leanchecker"] = {"modules": [m for m, _ in built], "rc": r.returncode, "wall_s": round(time.time() - t0, 1),
                                             "output_tail": (r.stdout + r.stderr)[-400:]}
                if r.returncode != 0:
                    for m, ths in built:
                        for t in ths:
                            self.broken.append((t, "leanchecker rejects the compiled module"))
                    built = []
        hits = forbidden_tokens()
        self.notes["forbidden_tokens"] = hits
        for m, ths in built:
            for t in ths:
                a = ax.get(t)
                if a is None:
                    self.broken.append((t, "no #print axioms output"))
                elif not set(a) <= ALLOWED_AXIOMS:
                    self.broken.append((t, "axioms " + ",".join(sorted(set(a) - ALLOWED_AXIOMS))))
                elif hits:
                    self.broken.append((t, "forbidden token in development: " + hits[0]))
                else:
                    self.discharged.append(t)
        self.notes["axioms"] = {t: ax.get(t) for t in self.obligations}
        return not self.broken

    # ---- correspondence streams --------------------------------------------------------------
    def run_stream(self, name, cases, impl, line=None, canon=None, oracle=None, nontrivial=None,
                   per_case_timeout=20.0, site=None, skip=None, model_map=None, describe=None, regen=None, fresh=False):
        """cases: list of JSON-able dicts.  impl(case) -> result dict (with 'outcome').
        line(case) -> protocol line for the driver (None: stream has no model side).
        canon(case, result) -> the line the driver should print.  oracle(case, result) -> None or
        a message (the property fails on the implementation for this case).
        skip(case, result) -> reason string if the case must not be compared (counted)."""
        st = collections.Counter()
        regen = regen or getattr(cases, "regen", None)
        if regen is not None:  # (generator(rng, nmax), nmax used): lets a counterexample be minimised by re-generation
            self.regen[name] = {"gen": regen[0], "nmax": regen[1], "impl": impl, "oracle": oracle, "skip": skip,
                                "timeout": per_case_timeout, "fresh": fresh}
        results = pmap(impl, cases, per_case_timeout, fresh=fresh)
        # a case that exceeded its timer while all workers were busy is run again on its own, with six times the allowance:
        # only a case that does not finish then either counts as not terminating
        slow = [i for i, r in enumerate(results) if isinstance(r, dict) and r.get("outcome") == "hang"]
        for i in slow[:40]:
            # second opinion by CPU time: six times the allowance of processor time, however long that takes on a busy machine
            results[i] = run_forked(impl, cases[i], 6 * per_case_timeout, cpu=True)
            if results[i].get("outcome") == "starved":
                raise Infra(f"stream {name}: a case neither finished nor used its processor-time allowance within "
                            f"{max(120 * per_case_timeout, 900):.0f} s of waiting (machine oversubscribed?)")
        # an exception that points at the environment rather than at the library (a failed lazy import while the machine is
        # oversubscribed, out of memory, too many open files) is not a verdict: such a case is run again on its own, once
        envish = [i for i, r in enumerate(results) if isinstance(r, dict) and _ENV_ERR.search(str(r.get("outcome", "")) + " " + str(r.get("msg", ""))[:200])]
        for i in envish[:40]:
            results[i] = run_forked(impl, cases[i], 6 * per_case_timeout)
        if envish:
            st["retried_after_environment_error"] = len(envish)
        if slow:
            st["retried_after_timeout"] = len(slow)
            st["still_not_terminating"] = sum(1 for i in slow if results[i].get("outcome") == "hang")
        keep = []
        for i, (c, r) in enumerate(zip(cases, results)):
            if r is None or (isinstance(r, dict) and str(r.get("outcome", "")).startswith("harness-error")):
                raise Infra(f"harness error in stream {name}: {r}")
            why = skip(c, r) if skip else None
            if why:
                st["skipped:" + why] += 1
                continue
            keep.append(i)
        outs = None
        if line is not None:
            outs = run_driver([line(cases[i]) for i in keep])
            if model_map:  # post-processing of the model's line that depends on the case
                outs = [model_map(cases[i], o) for i, o in zip(keep, outs)]
        disagreements = []
        for j, i in enumerate(keep):
            c, r = cases[i], results[i]
            st["outcome:" + re.sub(r"[0-9.]+", "#", str(r.get("outcome")).split("\n")[0])[:70]] += 1
            self.evaluations += 1
            if outs is not None:
                exp = canon(c, r)
                if exp != outs[j]:
                    disagreements.append((i, exp, outs[j]))
            if oracle:
                msg = oracle(c, r)
                if msg:
                    self.violations.append(
                        {"kind": "counterexample", "stream": name, "case": c, "impl": r, "msg": msg,
                         "site": site or name, "signature": _sig(msg)}
                    )
            if nontrivial is None or nontrivial(c, r):
                self.nontrivial.add(name + ":" + case_hash(c))
        st["cases"] = len(keep)
        st["disagreements"] = len(disagreements)
        self.streams[name] = dict(st)
        if keep and len(self.samples) < 6:
            i = keep[0]
            self.samples.append(
                {"stream": name, "case": describe(cases[i]) if describe else cases[i],
                 "impl": _short(results[i]), "model": outs[0] if outs else None}
            )
        for i, exp, got in disagreements[:50]:
            self.violations.append(
                {"kind": "correspondence", "stream": name, "case": cases[i], "impl": results[i],
                 "impl_canon": exp, "model": got,
                 "msg": f"model and implementation disagree on stream {name}",
                 "site": site or name, "signature": "correspondence"}
            )
        return results

    def add_violation(self, stream, case, msg, site=None, signature=None, impl=None, kind="counterexample"):
        self.violations.append(
            {"kind": kind, "stream": stream, "case": case, "impl": impl, "msg": msg,
             "site": site or stream, "signature": signature or _sig(msg)}
        )

    def count(self, stream, n=1, nontrivial_keys=()):
        self.evaluations += n
        for k in nontrivial_keys:
            self.nontrivial.add(stream + ":" + k)

    # ---- minimisation ----------------------------------------------------------------------
    def minimise_by_regeneration(self, v, budget_s=25.0, per_size=250):
        """search the stream's own generator at smaller sizes for a failing case with the same
        signature; returns the smallest one found (by size of its JSON form) or None"""
        g = self.regen.get(v["stream"])
        if not g or not g["oracle"]:
            return None
        t0 = time.time()
        best = None
        for nmax in range(1, g["nmax"]):
            if time.time() - t0 > budget_s:
                break
            rng = rng_for(self.seed, f"{self.prop}/{v['stream']}/minimise/{nmax}")
            cases = []
            for _ in range(per_size):
                try:
                    cases.append(g["gen"](rng, nmax))
                except Exception:
                    break
            if not cases:
                continue
            try:
                results = pmap(g["impl"], cases, g["timeout"], fresh=g.get("fresh", False))
            except Exception:
                continue
            for c, r in zip(cases, results):
                if r is None or (g["skip"] and g["skip"](c, r)):
                    continue
                try:
                    msg = g["oracle"](c, r)
                except Exception:
                    msg = None
                if msg and _sig(msg) == v["signature"]:
                    if best is None or len(compact_json(c)) < len(compact_json(best["case"])):
                        best = dict(v, case=c, impl=r, msg=msg, minimised={"method": "regeneration at smaller sizes", "nmax": nmax,
                                                                             "original_case_json_bytes": len(compact_json(v["case"]))})
            if best is not None:
                break
        if best is not None and len(compact_json(best["case"])) < len(compact_json(v["case"])):
            return best
        return None

    # ---- decision ---------------------------------------------------------------------------
    def finish(self, shrinker=None, trusted_extra=(), level="proof"):
        status = 0
        reported = []
        suppressed = [0]
        counter = [v for v in self.violations if v["kind"] == "counterexample"]
        # per (site, signature): report the smallest failing case seen, not the first
        groups = {}
        for v in counter:
            k = (v["site"], v["signature"])
            if k not in groups or len(compact_json(v["case"])) < len(compact_json(groups[k]["case"])):
                groups[k] = v
        counter = list(groups.values())
        corr = [v for v in self.violations if v["kind"] == "correspondence"]
        os.makedirs(os.path.join(ROOT, "replays"), exist_ok=True)

        def emit(v, suffix=""):
            nonlocal status
            k = match_known(self.prop, v["site"], v["signature"])
            if k:
                if k["what"] not in self.known_hits:
                    self.known_hits.append(k["what"])
                return
            key = (v["site"], v["signature"], suffix)
            if key in reported or len(reported) >= MAX_REPORTS:
                suppressed[0] += 1
                return
            reported.append(key)
            if v["kind"] == "counterexample" and not os.environ.get("VERIF_NO_MINIMISE"):
                try:
                    v = self.minimise_by_regeneration(v) or v
                except Exception:
                    pass
            if shrinker and v["kind"] == "counterexample":
                try:
                    v = shrinker(v) or v
                except Exception:
                    pass
            path = os.path.join("replays", f"{self.prop}-{case_hash([v['stream'], v['case']])}.json")
            v = dict(v)
            v["property"] = self.prop
            v["replay_cmd"] = f"./check {self.prop} --replay {path}"
            with open(os.path.join(ROOT, path), "w") as f:
                f.write(compact_json(v))
            print(f"VIOLATION property={self.prop} replay={path}{suffix}")
            status = 1

        # 1. inputs on which the property itself fails on the implementation
        for v in counter:
            emit(v)
        # 2. a broken correspondence or proof obligation is a violation even when the search found
        #    no input on which the property itself fails
        if not reported and corr:
            v = dict(corr[0])
            v["broken"] = (f"correspondence stream {v['stream']}: the theorems of Skc/Props/{self.prop}.lean "
                           "are no longer tied to the code")
            v["other_disagreements"] = len(corr) - 1
            emit(v, " no-failing-input-found")
        if not reported and self.broken:
            v = {"kind": "broken-obligation", "stream": "lean", "case": None,
                 "broken": [f"{t}: {why}" for t, why in self.broken],
                 "log": self.notes.get("lean_build_log_tail", ""),
                 "msg": "proof obligation no longer checks", "site": "lean", "signature": "obligation"}
            emit(v, " no-failing-input-found")
        for w in self.known_hits:
            print(f"KNOWN-FINDING: property={self.prop} {w}")
        self.write_evidence(level, trusted_extra, len(reported))
        return status

    def write_evidence(self, level, trusted_extra, nviol):
        cov = {
            "obligations": len(self.obligations),
            "discharged": len(self.discharged),
            "undischarged": [f"{t}: {why}" for t, why in self.broken],
            "checker_cmd": self.checker_cmd,
            "trusted_base": [
                "Lean 4.33.0 kernel", "Mathlib v4.33.0 (compiled)", "axioms: propext, Classical.choice, Quot.sound",
                "Lean compiler/runtime for the model driver (skcdrv)",
                "correspondence check (differential, generated inputs) between model and /repo",
            ] + list(trusted_extra),
            "theorems": self.obligations,
            "evaluations": self.evaluations,
            "distinct_nontrivial": len(self.nontrivial),
            "rule": " | ".join(self.rules),
            "samples": self.samples or [{"note": "no case executed"}],
            "streams": self.streams,
            "known_findings_hit": self.known_hits,
        }
        if self.exhaustive is not None:
            cov["exhaustive"] = self.exhaustive
        if not self.discharged:  # the schema wants discharged >= 1 whenever the proof keys are present
            cov["obligations_total"] = cov.pop("obligations")
            cov["discharged_total"] = cov.pop("discharged")
        cov.update({k: v for k, v in self.notes.items() if k not in ("lean_build_log_tail",)})
        ev = {
            "property_id": self.prop, "tier": self.tier, "seed": self.seed, "level": level,
            "coverage": cov, "assumptions": self.assumptions, "wall_s": round(time.time() - self.t0, 2),
            "violations": nviol,
        }
        # evidence/<id>.json describes runs against /repo itself; a run pointed at another checkout (development:
        # seeded changes, harmless rewrites) writes its evidence to a scratch directory instead
        evdir = os.path.join(ROOT, "evidence") if os.path.realpath(REPO) == "/repo" else os.path.join(ROOT, "replays", "evidence-other-checkout")
        ev["repo"] = os.path.realpath(REPO)
        os.makedirs(evdir, exist_ok=True)
        tmp = os.path.join(evdir, f".{self.prop}.{os.getpid()}.tmp")
        with open(tmp, "w") as f:
            json.dump(ev, f, indent=1, default=str)
        os.replace(tmp, os.path.join(evdir, f"{self.prop}.json"))
        validate_evidence(ev)


def compact_json(obj, indent=1):
    """indented at the top levels, one line per innermost list"""
    s = json.dumps(obj, indent=indent, default=str)
    return re.sub(r"\[\s*((?:-?[\w./\"]+,\s*)*-?[\w./\"]+)\s*\]",
                  lambda m: "[" + re.sub(r"\s+", " ", m.group(1)) + "]", s)


def _sig(msg: str) -> str:
    """signature of a violation message: digits removed, first clause only"""
    m = re.sub(r"\[[^\]]*\]|\([^)]*\)|\{[^}]*\}", "_", msg.split(";")[0])
    return re.sub(r"[-+]?\d+(/\d+)?(\.\d+)?(e[-+]?\d+)?", "#", m)[:80]


def _short(r, lim=400):
    s = json.dumps(r, default=str)
    return r if len(s) <= lim else s[:lim] + "…"


def validate_evidence(ev):
    schema_p = "/root/.vp/EVIDENCE.schema.json"
    try:
        import jsonschema  # type: ignore

        if os.path.exists(schema_p):
            jsonschema.validate(ev, json.load(open(schema_p)))
            return
    except ImportError:
        pass
    for k in ("property_id", "tier", "seed", "level", "coverage", "wall_s"):
        if k not in ev:
            raise Infra("evidence lacks " + k)
    cov = ev["coverage"]
    if ev["level"] == "proof":
        assert cov["obligations"] >= 1 and cov["discharged"] >= 0 and cov["checker_cmd"].strip()


class Gen(list):
    """a generated list of cases that remembers its generator and size bound, so that a
    counterexample can be minimised by re-generation at smaller sizes"""

    def __init__(self, gen, rng, nmax, count):
        super().__init__(gen(rng, nmax) for _ in range(count))
        self.regen = (gen, nmax) if isinstance(nmax, int) else None


# ------------------------------------------------------------------ containers and prior use
def _bits(case, shift, mod):
    """independent pseudo-random choices derived from the case itself (replayable, no extra fields needed)"""
    return (int(case_hash({k: v for k, v in case.items() if k != "X"} | {"x0": str(case.get("X", ""))[:200]}), 16) >> shift) % mod


def wrap_container(case, a):
    """the data as ndarray or DataFrame, chosen by the case (explicit "container" or the parity of n + p)"""
    import pandas as pd

    import numpy as np

    kind = case.get("container") or ("frame" if _bits(case, 0, 2) else "ndarray")
    # integer-typed data when the values allow it (a third of such cases): results must not depend on the dtype
    if case.get("int_ok", True) and _bits(case, 28, 3) == 0 and np.issubdtype(np.asarray(a).dtype, np.floating) and np.all(np.asarray(a) == np.round(a)) \
            and np.abs(a).max(initial=0) < 2**40:
        a = np.asarray(a).astype(np.int64)
    if kind != "frame":
        return a
    # frames carry the default index, a range index that does not start at 0 (as a slice of a longer frame), or time stamps:
    # positions, not labels, are what every output refers to
    n = len(a)
    idx = [None, None, pd.RangeIndex(40, 40 + n), pd.date_range("2021-01-01", periods=n, freq="h")][_bits(case, 30, 4)]
    return pd.DataFrame(a, index=idx)


def failed_use(det, case, X):
    """exception safety: in a quarter of the cases the detector first completes a fit_predict on other data and is then
    handed data with a missing value, which it must reject; nothing of that may leak into the calls that follow"""
    import numpy as np

    if _bits(case, 34, 4) != 0:
        return
    other = np.asarray(X, dtype=float)[::-1] * 2.0 + 1.0
    try:
        det.fit_predict(wrap_container(dict(case, int_ok=False), other))
    except Exception:
        pass
    bad = other.copy()
    bad[len(bad) // 2, 0] = np.nan
    try:
        det.fit_predict(wrap_container(dict(case, int_ok=False), bad))
    except Exception:
        pass


def reconfigure(det, case, key):
    """in a third of the cases the detector's component `key` (a cost with a `param` hyper-parameter) is re-configured through
    nested set_params to another parameter and back: the detector must then behave exactly as constructed (anything derived
    from the component in __init__ is rebuilt by set_params, which resets the object before it forwards nested keys)"""
    if _bits(case, 38, 3) != 0:
        return det
    comp = det.get_params().get(key)
    if comp is None or "param" not in comp.get_params():
        return det
    intended = comp.get_params()["param"]
    other = 3.0 if type(comp).__name__ == "L2Cost" else (3.0, 2.0)
    if intended is not None:
        other = None
    det.set_params(**{key + "__param": other})
    det.set_params(**{key + "__param": intended})
    return det


def fit_for(det, case, X, reps=4):
    """fit the detector in one of three ways and return (the data object to predict on, rows seen by fit):
    same         fit on the data itself;
    other-length fit on a series of different length (fitted thresholds / penalties must be the ones used);
    inplace      fit on an object holding other values, then overwrite that same object in place with the data
                 (a result cached under the identity of the fitted object would be stale)"""
    import numpy as np
    import pandas as pd

    mode = case.get("fitmode") or ["same", "same", "other-length", "inplace"][_bits(case, 4, 4)]
    failed_use(det, case, X)
    if mode == "other-length":
        Xf = np.vstack([X, X[::-1] * 0.5 + 1.0] * reps)  # 2*reps x the rows: fitted thresholds / penalties differ markedly
        det.fit(wrap_container(case, Xf))
        return wrap_container(case, X), len(Xf)
    if mode == "inplace":
        D = wrap_container(case, (X[::-1] * 2.0 + 1.0).copy())
        det.fit(D)
        return overwrite(D, X), len(X)
    det.fit(wrap_container(case, X))
    return wrap_container(case, X), len(X)


def borderline_scale(case, scores, default_thr):
    """a threshold scale that puts the fitted threshold a relative 1e-6 above or below one of the positive
    candidate scores (chosen by the case), so that a threshold that is off by any visible amount flips a decision;
    None when the case does not ask for it or there is nothing to aim at"""
    want = case.get("borderline", _bits(case, 8, 2) == 0)
    pos = sorted({float(v) for v in scores if v > 1e-9})
    if not want or not pos or not default_thr > 0:
        return None
    v = pos[_bits(case, 12, 64) % len(pos)]
    side = 1 if _bits(case, 20, 2) else -1
    return v * (1 + side * 1e-6) / default_thr


def overwrite(D, X):
    """replace the contents of the array / frame object D by X, in place"""
    import pandas as pd

    if isinstance(D, pd.DataFrame):
        D.iloc[:, :] = X
    else:
        D[...] = X
    return D


def scribble(det):
    """overwrite, in place, what an earlier call left in the public `scores` attribute (users post-process these frames);
    a later call must not be built on arrays that alias them"""
    import numpy as np
    import pandas as pd

    sc = getattr(det, "scores", None)
    try:
        if isinstance(sc, pd.DataFrame):
            for col in sc.columns:
                if np.issubdtype(sc[col].dtype, np.number):
                    sc[col] += 7
                    v = sc[col].to_numpy()
                    if v.flags.writeable:
                        v += 7
        elif isinstance(sc, pd.Series):
            v = sc.to_numpy()
            if v.flags.writeable:
                v += 7
        elif isinstance(sc, np.ndarray):
            sc += 7
    except Exception:
        pass


def prior_use(det, case, X, data=None):
    """before the judged calls, use the fitted detector on OTHER data with the same shape and index (a result cached under
    the index of the previous call would then be returned for the wrong data); kind "same-object": the other data live in
    the very object that is afterwards overwritten in place with X and handed to the judged calls (anything remembered
    about that object — a stored reference compared with itself, a memo keyed by identity — is stale).
    Returns the data object to use for the judged calls."""
    kind = case.get("prior", [None, "predict", "scores", "same-object"][_bits(case, 24, 4)])
    data = wrap_container(case, X) if data is None else data
    if kind == "same-object":
        D = wrap_container(case, (X[::-1] * 2.0 + 1.0).copy())
        det.predict(D)
        scribble(det)
        return overwrite(D, X)
    if kind:
        X0 = wrap_container(case, X[::-1] * 2.0 + 1.0)
        try:
            det.predict(X0) if kind == "predict" else det.transform_scores(X0)
        except NotImplementedError:  # detectors without per-sample scores
            det.predict(X0)
        scribble(det)
    return data
