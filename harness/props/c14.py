"""C14 — documented-valid configurations always run; invalid ones fail with ValueError.

Lean: Skc/Props/C14.lean (validation ⇔ documented domain; totality of seeded binary segmentation on
admissible schedules).  Tie: the full boundary grid of hyper-parameters of all seven detectors x data
lengths around the minimum x {no NaN, NaN} x p in 1..3 x built-in scorers x data kinds (integers,
constant, tiny, huge-but-finite): outcome class (runs / ValueError by fit time / anything else)
against `*.ctorOk` / `*.fitOk`; valid configurations must return well-formed output (C04 predicate)
or one of the two documented exceptions."""
from __future__ import annotations

import itertools
import json
from fractions import Fraction

import numpy as np

from .. import core
from .c04 import frame_info, predicate


def rr(x):
    return "none" if x is None else core.rat(Fraction(str(x)))


def grid():
    out = []
    scales = [-0.5, 0.0, 0.5, None]
    # PELT
    for sc, m in itertools.product(scales, [0, 1, 2, 3]):
        out.append({"det": "pelt", "scale": sc, "m": m})
    # moving window
    for b, sc in itertools.product([0, 1, 2, 3, 4, 6], scales):
        for mdi in sorted({0, 1, 2, max(1, b // 2), max(1, b // 2) + 1}):
            out.append({"det": "mw", "b": b, "scale": sc, "level": 0.05, "mdi": mdi})
    # seeded / circular binary segmentation
    for det in ("sbs", "cbs"):
        for m in [0, 1, 2, 3, 5]:
            for mx in sorted({2 * m - 1, 2 * m, 2 * m + 1, 200}):
                for g in [1.0, 1.0000000000000002, 1.01, 1.05, 1.1, 1.3, 2.0, 2.1]:  # incl. the float next above 1
                    for sc in [0.0, None] + ([-0.5] if g == 1.3 else []):
                        out.append({"det": det, "scale": sc, "level": 0.1, "m": m, "mx": mx, "g": g})
        for lev in [0.0, 1.0, -0.1]:
            out.append({"det": det, "scale": 1.0, "level": lev, "m": 2, "mx": 10, "g": 1.5})
    # CAPA / MVCAPA
    for det in ("capa", "mvcapa"):
        for m in [1, 2, 3]:
            for M in sorted({m - 1, m, m + 1, 50}):
                for cs, ps in [(0.0, 0.0), (1.0, 1.0), (-0.1, 1.0), (1.0, -0.1), (None, 1.0), (1.0, None)]:
                    out.append({"det": det, "cs": cs, "ps": ps, "m": m, "M": M})
    # anomaliser
    for lo, hi in [(-1.0, 1.0), (0.0, 0.0), (1.0, -1.0), (0.5, 0.25)]:
        out.append({"det": "stat", "lo": lo, "hi": hi})
    return out


def min_len(c):
    d = c["det"]
    if d in ("pelt", "sbs", "cbs"):
        return 2 * max(c["m"], 0)
    if d == "mw":
        return 2 * max(c["b"], 0)
    if d in ("capa", "mvcapa"):
        return max(c["m"], 0)
    return 4


def cases(tier):
    out = []
    kinds = ["int", "const", "tiny", "huge"]
    costs = ["default", "l2", "gauss", "gcov"]
    i = 0
    for c in grid():
        L = min_len(c)
        for n in sorted({max(1, L - 1), max(1, L), L + 1, L + 7} | ({3 * L + 5} if tier == "thorough" else set())):
            for nan in (False, True):
                i += 1
                p = 1 if c["det"] == "stat" else 1 + i % 3
                out.append(dict(c, n=n, nan=nan, p=p, kind=kinds[i % 4] if not nan else "int", cost=costs[(i // 4) % 4], seed=i))
    # the same requirements on the data hold for the data given to predict / transform after a valid fit
    extra = []
    for c in out:
        ok, _ = documented_valid(c)
        ok = ok and documented_valid(dict(c, n=min_len(c) + 9, nan=False))[1]  # the preceding fit must itself be admissible
        if ok and c["kind"] != "huge":
            extra.append(dict(c, stage=["predict", "transform"][c["seed"] % 2], seed=c["seed"] + 100000))
    return out + extra


def make_data(c):
    g = np.random.default_rng(c["seed"])
    n, p = c["n"], c["p"]
    if c["kind"] == "const":
        X = np.full((n, p), 2.5)
    elif c["kind"] == "tiny":
        X = g.integers(-3, 4, size=(n, p)) * 1e-7
    elif c["kind"] == "huge":  # finite, but partial sums overflow in both directions
        X = np.where(np.arange(n * p).reshape(n, p) % 2 == 0, 1e308, -1e308)
    else:
        X = g.integers(-3, 4, size=(n, p)).astype(float)
        if n > 4:
            X[n // 2:] += 6
    if c["nan"]:
        X = X.astype(float)
        X[int(g.integers(n)), int(g.integers(p))] = np.nan
        if (c["seed"] // 2) % 2:  # a missing value is a missing value in single precision as well
            X = X.astype(np.float32)
    if c["seed"] % 3 == 0:
        import pandas as pd

        X = pd.DataFrame(X)
    if c["nan"] and c["seed"] % 6 == 4 and c["kind"] == "int":
        # the missing value sits in a column of a pandas nullable dtype (counts read as "Int64", flags as "boolean", "Float64")
        import pandas as pd

        Z = np.nan_to_num(np.asarray(X, dtype=float), nan=0.0)
        i, j = [int(v[0]) for v in np.where(np.isnan(np.asarray(X, dtype=float)))]
        dt = ["Int64", "UInt8", "boolean", "Float64"][(c["seed"] // 6) % 4]
        F = pd.DataFrame(np.abs(Z).astype(np.int64) if dt != "boolean" else (Z > 0))
        F[j] = F[j].astype(dt)
        F.iloc[i, j] = pd.NA
        X = F
    return X


def build(c):
    from skchange.anomaly_detectors import CAPA, MVCAPA, CircularBinarySegmentation, StatThresholdAnomaliser
    from skchange.change_detectors import PELT, MovingWindow, SeededBinarySegmentation
    from skchange.costs import GaussianCovCost, GaussianVarCost, L2Cost

    if c.get("seed", 0) % 4 == 1:  # the same numbers as NumPy scalars (np.int64 / np.float64), as they come out of array code
        c = {k: (np.int64(v) if isinstance(v, int) and not isinstance(v, bool) and k in ("m", "M", "b", "mx", "mdi") else
                 np.float64(v) if isinstance(v, float) and k in ("scale", "level", "g", "cs", "ps", "lo", "hi") else v) for k, v in c.items()}

    cost = {"default": lambda: None, "l2": L2Cost, "gauss": GaussianVarCost, "gcov": GaussianCovCost}[c["cost"]]()
    d = c["det"]
    if d == "pelt":
        return PELT(cost, penalty_scale=c["scale"], min_segment_length=c["m"])
    if d == "mw":
        return MovingWindow(cost, bandwidth=c["b"], threshold_scale=c["scale"], level=c["level"], min_detection_interval=c["mdi"])
    if d == "sbs":
        return SeededBinarySegmentation(cost, threshold_scale=c["scale"], level=c["level"], min_segment_length=c["m"],
                                        max_interval_length=c["mx"], growth_factor=c["g"])
    if d == "cbs":
        return CircularBinarySegmentation(cost, threshold_scale=c["scale"], level=c["level"], min_segment_length=c["m"],
                                          max_interval_length=c["mx"], growth_factor=c["g"])
    if d in ("capa", "mvcapa"):
        cls = CAPA if d == "capa" else MVCAPA
        sav = None if c["cost"] in ("default", "gcov") else (L2Cost(param=0.0) if c["cost"] == "l2" else GaussianVarCost(param=(0.0, 1.0)))
        return cls(sav, None, collective_penalty_scale=c["cs"], point_penalty_scale=c["ps"], min_segment_length=c["m"], max_segment_length=c["M"])
    return StatThresholdAnomaliser(PELT(min_segment_length=2), stat=np.mean, stat_lower=c["lo"], stat_upper=c["hi"])


def stage(fn, name):
    try:
        return None, fn()
    except ValueError as ex:
        return f"{name}:ValueError:{str(ex)[:100]}", None
    except RuntimeError as ex:
        return f"{name}:RuntimeError:{str(ex)[:80]}", None
    except Exception as ex:
        return f"{name}:other:{type(ex).__name__}:{str(ex)[:80]}", None


def impl(c):
    X = make_data(c)
    err, det = stage(lambda: build(c), "ctor")
    if err:
        return {"outcome": err}
    if c.get("seed", 0) % 5 == 4 and c["det"] in ("cbs", "sbs") and c.get("m", 1) >= 2:
        # the same kind of detector has just run in this process with SHORTER minimum segments on the same interval grid
        try:
            build(dict(c, m=max(1, c["m"] - 1), mx=max(c["mx"], 2 * c["m"]))).fit(X).predict(X)
        except Exception:
            pass
    if c.get("seed", 0) % 5 == 3:
        # the very same data object has just been accepted (or rejected) by ANOTHER detector with the weakest requirements:
        # what this configuration demands of the data must be checked all the same
        from skchange.change_detectors import PELT

        try:
            PELT(min_segment_length=1).fit(X).predict(X)
        except Exception:
            pass
    if c.get("seed", 0) % 3 == 2:
        # a re-configuration that is rejected (ValueError from the constructor checks) must leave an object that can be
        # re-configured validly afterwards and then behaves as usual
        d = c["det"]
        bad = {"pelt": {"min_segment_length": 0}, "mw": {"bandwidth": 0}, "sbs": {"growth_factor": 1.0}, "cbs": {"growth_factor": 1.0},
               "capa": {"min_segment_length": 1}, "mvcapa": {"min_segment_length": 1}}.get(d) or {"stat_lower": float(c["hi"]) + 1.0}
        good = {k: det.get_params()[k] for k in bad}
        err, _ = stage(lambda: det.set_params(**bad), "reconf")
        if err is None or ":ValueError:" not in err:
            return {"outcome": f"reconf: set_params({bad}) did not raise ValueError ({err})"}
        err, _ = stage(lambda: det.set_params(**good), "reconf-back")
        if err:
            return {"outcome": f"after a rejected set_params({bad}) the valid set_params({good}) fails: {err}"}
    if c.get("stage"):  # fit on admissible data, then hand the data under test to predict / transform
        Xfit = make_data(dict(c, n=min_len(c) + 9, nan=False))
        err, _ = stage(lambda: det.fit(Xfit), "fit")
        if err:
            return {"outcome": "setup-" + err}
        err, y = stage(lambda: getattr(det, c["stage"])(X), "predict")
        if err:
            return {"outcome": err}
        if c["stage"] == "transform":
            return {"outcome": "ok", "dense_rows": int(len(y))}
        return {"outcome": "ok", **frame_info(y)}
    err, _ = stage(lambda: det.fit(X), "fit")
    if err:
        return {"outcome": err}
    err, y = stage(lambda: det.predict(X), "predict")
    if err:
        return {"outcome": err}
    return {"outcome": "ok", **frame_info(y)}


def line(c):
    d = c["det"]
    nan = "1" if c["nan"] else "0"
    if d == "pelt":
        return f"cfg pelt {rr(c['scale'])} {c['m']} {c['n']} {nan}"
    if d == "mw":
        return f"cfg mw {c['b']} {rr(c['scale'])} {rr(c['level'])} {c['mdi']} {c['n']} {nan}"
    if d in ("sbs", "cbs"):
        return f"cfg {d} {rr(c['scale'])} {rr(c['level'])} {c['m']} {c['mx']} {rr(c['g'])} {c['n']} {nan}"
    if d in ("capa", "mvcapa"):
        return f"cfg {d} {rr(c['cs'])} {rr(c['ps'])} {c['m']} {c['M']} {c['n']} {nan}"
    return f"cfg stat {rr(c['lo'])} {rr(c['hi'])} {c['n']} {nan}"


def documented_valid(c):
    """the documented domain, in Python, from the docstrings / property text"""
    d = c["det"]
    sc_ok = lambda s, none_ok: (s is None and none_ok) or (s is not None and s >= 0)  # noqa: E731
    if d == "pelt":
        ok = sc_ok(c["scale"], True) and c["m"] >= 1
        fit = c["n"] >= 2 * c["m"] and c["scale"] is not None
    elif d == "mw":
        ok = c["b"] >= 1 and sc_ok(c["scale"], True) and 1 <= c["mdi"] <= max(1, c["b"] / 2)
        fit = c["n"] >= 2 * c["b"]
    elif d in ("sbs", "cbs"):
        ok = sc_ok(c["scale"], True) and 0 < c["level"] < 1 and c["m"] >= 1 and c["mx"] >= 2 * c["m"] and 1 < c["g"] <= 2
        fit = c["n"] >= 2 * c["m"]
    elif d in ("capa", "mvcapa"):
        ok = sc_ok(c["cs"], False) and sc_ok(c["ps"], False) and c["m"] >= 2 and c["M"] >= c["m"]
        fit = c["n"] >= c["m"]
    else:
        ok = c["lo"] <= c["hi"]
        fit = c["n"] >= 4
    return ok, fit and not c["nan"]


def permitted_extra(c, out):
    """the only other permitted outcomes of a documented-valid configuration"""
    if ":ValueError:" in out and "min_size" in out:
        # the chosen cost cannot score segments as short as requested — only when that is really so
        need = {"default": 1, "l2": 1, "gauss": 2, "gcov": c.get("p", 1) + 1}.get(c.get("cost", "default"), 1)
        asked = c.get("b", c.get("m", 1))
        return bool(need > asked)
    if ":RuntimeError:" in out and "positive definite" in out:
        return True  # documented error for a non-positive-definite sample covariance
    if c["det"] == "mvcapa" and c["cost"] == "gcov":
        return False
    return False


def oracle(c, r):
    out = r["outcome"]
    ok, fit = documented_valid(c)
    if c.get("stage"):
        if out.startswith("setup-"):
            return None if permitted_extra(c, out) else f"{c['det']}: fit on admissible data failed with {out[6:100]} ({describe(c)})"
        if not fit:
            if out.startswith("predict:ValueError") and not permitted_extra(c, out):
                return None
            what = "data with missing values" if c["nan"] else "data shorter than the documented minimum"
            return f"{c['det']}: {what} given to {c['stage']} after a valid fit ({describe(c)}) give {out[:90]} instead of ValueError"
        if out == "ok":
            if c["stage"] == "transform":
                return None if r["dense_rows"] == c["n"] else f"transform returns {r['dense_rows']} rows for {c['n']} samples ({describe(c)})"
        elif permitted_extra(c, out):
            return None
        else:
            return f"{c['det']}: {c['stage']} on admissible finite data after a valid fit ({describe(c)}) fails with {out[:110]}"
    if not (ok and fit):
        if (out.startswith("ctor:ValueError") or out.startswith("fit:ValueError")) and not permitted_extra(c, out):
            return None
        what = "hyper-parameters outside the documented domain" if not ok else ("data with missing values" if c["nan"] else "data shorter than the documented minimum")
        return f"{c['det']}: {what} ({describe(c)}) give {out[:90]} instead of ValueError by fit time"
    if out == "ok":
        if c["kind"] == "huge":
            return None  # overflowing scores: only "runs to completion" is judged
        cc = dict(c, m=c.get("b", c.get("m", 2)), M=c.get("M", 10**9))
        if c["det"] == "stat":
            cc["m"] = 1
        msg = predicate(cc, r)
        return None if msg is None else f"valid configuration ({describe(c)}) yields malformed output: {msg}"
    if permitted_extra(c, out):
        return None
    return f"{c['det']}: documented-valid configuration ({describe(c)}) on finite data of admissible length fails with {out[:110]}"


def describe(c):
    return {k: v for k, v in c.items() if k not in ("seed",)}


# ---------------------------------------------------------------------- structured data: every entry point completes


def gen_structured(rng, nmax):
    det = rng.choice(["pelt", "mw", "sbs", "cbs", "cbs", "capa", "mvcapa", "stat"])
    n = rng.randint(60, max(60, 8 * nmax))
    c = {"det": det, "n": n, "p": 1 if det == "stat" else rng.randint(1, 2), "seed": rng.randint(0, 10**6), "cost": rng.choice(["default", "l2"]),
         "shape": rng.choice(["nested", "nested", "stairs", "spikes", "blocks"]), "m": rng.randint(2, 4), "scale": rng.choice([0.5, 1.0, 2.0]),
         "level": 0.01, "b": rng.randint(3, 8), "g": rng.choice([1.3, 1.5, 2.0]), "noise": rng.choice([0.0, 0.05, 0.5]),
         "frame": rng.random() < 0.5, "nan": False, "kind": "structured"}
    c["mdi"] = 1
    c["mx"] = rng.choice([n // 2, n // 3, 40])
    c["mx"] = max(c["mx"], 2 * c["m"])
    c["M"], c["cs"], c["ps"], c["lo"], c["hi"] = rng.choice([n, 30]), c["scale"], c["scale"], -1.0, 1.0
    return c


def structured_data(c):
    g = np.random.default_rng(c["seed"])
    n, p = c["n"], c["p"]
    x = np.zeros(n)
    a, b = n // 4, 3 * n // 4
    if c["shape"] == "nested":  # a long anomaly that is itself inhomogeneous: a plateau with a short, higher stretch inside it
        x[a:b] = 4.0
        k = (a + b) // 2
        x[k - 4:k + 4] = 10.0
    elif c["shape"] == "stairs":
        for i, k in enumerate(range(0, n, max(5, n // 7))):
            x[k:] = 3.0 * (i % 3)
    elif c["shape"] == "spikes":
        x[g.choice(n, size=5, replace=False)] = 12.0
    else:
        x[a:a + 7] = 6.0
        x[b:b + 7] = -6.0
    X = np.column_stack([x * (1.0 if j == 0 else 0.5) for j in range(p)]) + c["noise"] * g.normal(size=(n, p))
    if c["frame"]:
        import pandas as pd

        X = pd.DataFrame(X)
    return X


def impl_structured(c):
    X = structured_data(c)
    err, det = stage(lambda: build(c), "ctor")
    if err:
        return {"outcome": err}
    out = {}
    for name, fn in (("fit", lambda: det.fit(X)), ("predict", lambda: det.predict(X)), ("fit_predict", lambda: det.fit_predict(X))):
        err, y = stage(fn, name)
        if err:
            return {"outcome": err}
        if name != "fit":
            out[name] = frame_info(y)
    return {"outcome": "ok", **out}


def oracle_structured(c, r):
    if r["outcome"] != "ok":
        return (f"{c['det']} with a documented-valid configuration (m={c['m']}, max_interval_length={c['mx']}, scale={c['scale']}) on finite "
                f"{c['shape']} data of {c['n']} rows does not complete: {r['outcome']}")
    cc = dict(c, m=c["b"] if c["det"] == "mw" else (1 if c["det"] == "stat" else c["m"]), M=c["M"] if c["det"] in ("capa", "mvcapa") else 10**9)
    for name in ("predict", "fit_predict"):
        msg = predicate(cc, r[name])
        if msg:
            return f"{c['det']} (m={c['m']}, max_interval_length={c['mx']}, scale={c['scale']}) on {c['shape']} data of {c['n']} rows: {name} yields malformed output: {msg}"
    return None


def run(chk: core.Check):
    chk.lean()
    cs = cases(chk.tier)
    chk.rules.append(
        "grid: every hyper-parameter of the seven detectors at min-1 / min / min+1 / interior (max_interval_length 2m-1 / 2m / 2m+1, growth "
        "factor 1.0 / 1.01 / 1.05 / 1.1 / 1.3 / 2.0 / 2.1, scales negative / 0 / positive / None, min_detection_interval around "
        "bandwidth/2, lower > upper), n at min-1 / min / min+1 / min+7, with and without NaN, p in 1..3, four built-in scorers, four data "
        "kinds incl. finite +-1e308. Non-trivial = documented-valid configuration that runs; distinct by case hash"
    )
    chk.exhaustive = True

    def canon(c, r):
        out = r["outcome"]
        if out == "ok" or permitted_extra(c, out):
            return "ok"
        if out.startswith("ctor:ValueError") or out.startswith("fit:ValueError"):
            return "err"
        if c.get("stage") and out.startswith("predict:ValueError"):
            return "err"
        return out

    chk.run_stream("grid", cs, impl, line=line, canon=canon, model_map=lambda c, o: "ok" if o == "ok" else ("err" if o in ("ctor-err", "fit-err") else o),
                   skip=lambda c, r: "cost-cannot-score-such-short-segments-at-setup" if r["outcome"].startswith("setup-") and permitted_extra(c, r["outcome"]) else None,
                   oracle=oracle, site="constructors/fit", nontrivial=lambda c, r: r["outcome"] == "ok", describe=describe)
    chk.rules.append(
        "structured: documented-valid interior configurations of the seven detectors on finite data with structure (a long anomaly "
        "with a short higher stretch inside it, stairs, isolated spikes, two short blocks; noise 0 / 0.05 / 0.5; arrays and frames): "
        "fit, predict and fit_predict must complete and return well-formed output (the C04 predicate: sorted, disjoint, in range, admissible lengths)")
    srng = core.rng_for(chk.seed, "C14/structured")
    chk.run_stream("structured", core.Gen(gen_structured, srng, 16 if chk.tier == "quick" else 40, 240 if chk.tier == "quick" else 2400),
                   impl_structured, oracle=oracle_structured, site="entry-points", nontrivial=lambda c, r: r["outcome"] == "ok",
                   per_case_timeout=60)
    return chk.finish()


def replay(path):
    v = json.load(open(path))
    case = v["case"]
    if case is None:
        print(json.dumps(v, indent=1)[:4000])
        return 0
    if v.get("stream") == "structured":
        r = impl_structured(case)
        print("implementation:", r, "\noracle        :", oracle_structured(case, r))
        return 0
    r = impl(case)
    print("implementation:", r, "\nmodel         :", core.run_driver([line(case)])[0], "\noracle        :", oracle(case, r))
    return 0
