"""C07 — seeded binary segmentation reports exactly the greedy above-threshold splits.

Lean: Skc/Props/C07.lean (interval layout for an admissible schedule, per-interval argmax, greedy
selection: support, coverage, threshold monotonicity).
Tie: (1) `make_seeded_intervals` on the full parameter grid against `seededFrom` fed the schedule
reconstructed from the implementation's own blocks (the float-computed schedule is checked for
admissibility, which is the hypothesis of the layout theorem); (2) `SeededBinarySegmentation` with
hash change scores (arbitrary tie-rich integer landscapes incl. negative values) and exact or tuned
thresholds through fit/predict/.scores against `runSbs`.
Oracle: the property stated directly (tie-tolerant search for a valid greedy order)."""
from __future__ import annotations

import json
from fractions import Fraction

import numpy as np

from .. import core
from ..scorers import HashChangeScore, find_scale, hscore

GROWTH = [1.01, 1.1, 1.5, 2.0]


# ------------------------------------------------------------------------------------- layout


def blocks_of(st, en):
    blocks = []
    for a, b in zip(st, en):
        if a == 0:
            blocks.append([])
        if not blocks:
            blocks.append([])
        blocks[-1].append((a, b))
    return blocks


def layout_cases(nmax):
    out = []
    for n in range(2, nmax + 1):
        for min_len in range(2, n + 1):
            for max_len in sorted({min_len, min_len + 1, min_len + 3, 2 * min_len, n, 200}):
                for g in GROWTH:
                    out.append({"n": n, "min_len": min_len, "max_len": max_len, "g": g})
    return out


def impl_layout(case):
    from skchange.change_detectors.seeded_binseg import make_seeded_intervals

    try:
        st, en = make_seeded_intervals(case["n"], case["min_len"], case["max_len"], case["g"])
        return {"outcome": "ok", "st": [int(v) for v in st], "en": [int(v) for v in en]}
    except Exception as ex:
        return {"outcome": "other:" + type(ex).__name__, "msg": str(ex)[:200]}


def layout_schedule(case, r):
    """(length, step) per block as the implementation's own output shows them"""
    sched = []
    for bl in blocks_of(r["st"], r["en"]):
        L = bl[0][1] - bl[0][0]
        step = (bl[1][0] - bl[0][0]) if len(bl) > 1 else 1
        sched += [L, step]
    return sched


def layout_line(case_r):
    case, sched = case_r
    return "layout %d %d " % (case["n"], case["min_len"]) + " ".join(map(str, sched))


def oracle_layout(case, r):
    """C07, first sentence, directly"""
    n, lo, hi = case["n"], case["min_len"], min(case["max_len"], case["n"])
    if r["outcome"] != "ok":
        return f"make_seeded_intervals raised {r['outcome']}"
    if len(r["st"]) == 0:
        return f"no candidate interval although n={n} >= min_length={lo}"
    for a, b in zip(r["st"], r["en"]):
        if not (0 <= a and b <= n and lo <= b - a <= hi):
            return f"interval [{a},{b}) violates 0 <= start, end <= {n}, {lo} <= length <= {hi}"
    return None


# ---------------------------------------------------------------------------------------- SBS


def gen_sbs(rng, nmax):
    m = rng.randint(1, 3)
    n = rng.randint(2 * m, max(2 * m, nmax))
    mx = rng.choice([2 * m, 2 * m + 1, 2 * m + 3, 200])
    R = rng.choice([2, 3, 5, 10, 50])
    neg = rng.choice([0, 0, 0, 1, R // 2, R])
    tuned = rng.random() < 0.2
    return {"n": n, "m": m, "mx": mx, "g": rng.choice([1.1, 1.5, 2.0]), "seed": rng.randint(1, 10**6), "R": R, "neg": neg,
            "K": rng.randint(0, R), "tuned": tuned, "level": rng.choice([0.01, 0.1, 0.3, 0.5])}


def impl_sbs(case):
    from skchange.change_detectors import SeededBinarySegmentation as SBS

    n, m = case["n"], case["m"]
    X = np.zeros((n, 1))
    try:
        sc = HashChangeScore(case["seed"], case["R"], 1, case["neg"])
        if case["tuned"]:
            det = SBS(sc, threshold_scale=None, level=case["level"], min_segment_length=m,
                      max_interval_length=case["mx"], growth_factor=case["g"]).fit(X)
        else:
            scale = find_scale(float(case["K"]), 2 * np.sqrt(np.log(n)))
            if scale is None:
                return {"outcome": "skip:no-exact-scale"}
            det = SBS(sc, threshold_scale=scale, min_segment_length=m, max_interval_length=case["mx"],
                      growth_factor=case["g"]).fit(X)
            if det.threshold_ != case["K"]:
                return {"outcome": "skip:no-exact-scale"}
        if det.threshold_ < 0:  # tuned on all-negative user scores: outside "thresholds >= 0"
            return {"outcome": "skip:negative-threshold"}
        y = det.predict(X)
        T = det.scores
        return {"outcome": "ok", "thr": core.rat(float(det.threshold_)),
                "ivs": [(int(a), int(b)) for a, b in zip(T["start"], T["end"])],
                "rows": [(int(a), core.rat(float(b))) for a, b in zip(T["argmax_cpt"], T["score"])],
                "cps": [int(v) for v in y["ilocs"]]}
    except Exception as ex:
        return {"outcome": "other:" + type(ex).__name__, "msg": str(ex)[:200]}


def sbs_line(case_r):
    case, r = case_r
    return (f"sbs {case['n']} {case['m']} {case['seed']} {case['R']} {case['neg']} {r['thr']} "
            + " ".join(f"{a} {b}" for a, b in r["ivs"]))


def sbs_canon(r):
    if r["outcome"] != "ok":
        return r["outcome"]
    return "rows [" + ", ".join(f"({a}, {b})" for a, b in r["rows"]) + "] cps " + str(r["cps"])


def greedy_order_exists(scores, maxi, contains, thr, picked_set):
    """is there an order of `picked_set` that a greedy run (any tie-break) could produce, ending
    with no above-threshold candidate left?  DFS over subsets of the reported detections."""
    target = frozenset(picked_set)
    seen = set()

    def rec(done):
        if done in seen:
            return False
        seen.add(done)
        remaining = [i for i in range(len(scores)) if not any(contains(i, c) for c in done)]
        best = max((scores[i] for i in remaining), default=None)
        if best is None or not best > thr:
            return done == target
        for i in remaining:
            if scores[i] == best and maxi[i] in target and maxi[i] not in done:
                if rec(done | {maxi[i]}):
                    return True
        return False

    return rec(frozenset())


def oracle_sbs(case, r, score_fn=None):
    if r["outcome"] != "ok":
        return f"did not run to completion: {r['outcome']} {r.get('msg', '')}"
    n, m = case["n"], case["m"]
    f = score_fn or (lambda s, k, e: Fraction(hscore(case["seed"], case["R"], (s, k, e), case["neg"])))
    thr = Fraction(r["thr"])
    lo, hi = 2 * m, min(case["mx"], n)
    if not r["ivs"]:
        return "no candidate interval"
    scores, maxi = [], []
    for (s, e), (k, v) in zip(r["ivs"], r["rows"]):
        if not (0 <= s and e <= n and lo <= e - s <= hi):
            return f"candidate interval [{s},{e}) violates the length / range constraints"
        vals = {kk: f(s, kk, e) for kk in range(s + m, e - m + 1)}
        best = max(vals.values())
        if Fraction(v) != best or k not in vals or vals[k] != best:
            return f"interval [{s},{e}): reported (maximiser {k}, score {v}); the maximum over admissible splits is {best}"
        scores.append(best)
        maxi.append(k)
    cps = r["cps"]
    if sorted(set(cps)) != cps:
        return f"changepoints {cps} are not strictly increasing"
    ivs = r["ivs"]
    contains = lambda i, c: ivs[i][0] <= c <= ivs[i][1] - 1  # noqa: E731
    if not greedy_order_exists(scores, maxi, contains, thr, cps):
        return (f"changepoints {cps} are not the result of greedily taking the maximiser of the highest-scoring "
                f"remaining interval above the threshold {thr} and discarding the intervals containing it")
    return None


def gen_pair(rng, nmax):
    c = gen_sbs(rng, nmax)
    c["tuned"] = False
    c["K2"] = rng.randint(c["K"], c["R"])
    return c


def impl_pair(case):
    a = impl_sbs(case)
    b = impl_sbs(dict(case, K=case["K2"]))
    if a["outcome"] != "ok" or b["outcome"] != "ok":
        return {"outcome": "skip:no-exact-scale" if "skip" in a["outcome"] + b["outcome"] else a["outcome"] + "|" + b["outcome"]}
    return {"outcome": "ok", "lo": a["cps"], "hi": b["cps"]}


def oracle_pair(case, r):
    if r["outcome"] != "ok":
        return f"did not run: {r['outcome']}"
    if not set(r["hi"]) <= set(r["lo"]):
        return f"raising the threshold from {case['K']} to {case['K2']} added changepoints: {r['lo']} -> {r['hi']}"
    return None


# -------------------------------------------------------------------------------- built-in scores


def gen_builtin(rng, nmax):
    m = rng.randint(1, 3)
    n = rng.randint(max(2 * m, 4), nmax)
    p = rng.choice([1, 1, 2])
    lv = [rng.randint(-3, 3) for _ in range(4)]
    cpts = sorted(rng.sample(range(1, n), min(2, n - 1)))
    X = [[lv[sum(1 for c in cpts if c <= i)] + rng.choice([0, 0, 1, -1]) for _ in range(p)] for i in range(n)]
    score = rng.choice(["cusum", "l2", "gauss"])
    if score == "gauss":
        m = max(m, 2)
        n = max(n, 2 * m)
        X = (X * 2)[:n]
    return {"n": n, "m": m, "p": p, "X": X, "score": score, "mx": rng.choice([2 * m, 2 * m + 2, 200]),
            "g": rng.choice([1.1, 1.5, 2.0]), "scale": rng.choice([None, 0.0, 0.2, 0.5, 1.0, 2.0]), "level": rng.choice([0.05, 0.3])}


def long_builtin(rng):
    """a series long enough for single intervals to hold more than 4096 (8192) candidate splits"""
    n = rng.choice([4100, 4200, 8300])
    lv = [rng.randint(-3, 3) for _ in range(6)]
    cpts = sorted(rng.sample(range(1, n), 5))
    X = [[lv[sum(1 for c in cpts if c <= i)] + rng.choice([0, 0, 1, -1])] for i in range(n)]
    return {"n": n, "m": rng.choice([1, 2]), "p": 1, "X": X, "score": rng.choice(["cusum", "l2"]), "mx": 20000, "g": 2.0,
            "scale": rng.choice([1.0, 2.0]), "level": 0.05, "fitmode": "same", "prior": None, "borderline": False, "container": "ndarray"}


def _mk_score(kind):
    from skchange.change_scores import CUSUM
    from skchange.costs import GaussianVarCost, L2Cost

    return {"cusum": CUSUM, "l2": L2Cost, "gauss": GaussianVarCost}[kind]()


def impl_builtin(case):
    from skchange.change_detectors import SeededBinarySegmentation as SBS
    from skchange.change_scores import to_change_score

    X = np.array(case["X"], dtype=float)
    n, m = case["n"], case["m"]
    try:
        scale = case["scale"]
        if scale is not None:  # aim the fitted threshold just beside one of the interval scores
            probe = SBS(_mk_score(case["score"]), threshold_scale=0.0, min_segment_length=m, max_interval_length=case["mx"],
                        growth_factor=case["g"])
            _, nf = core.fit_for(probe, case, X)
            probe.predict(core.wrap_container(case, X))
            bs = core.borderline_scale(case, probe.scores["score"], float(SBS.get_default_threshold(nf, case["p"])))
            scale = scale if bs is None else bs
        score = _mk_score(case["score"])
        det = SBS(score, threshold_scale=scale, level=case["level"], min_segment_length=m,
                  max_interval_length=case["mx"], growth_factor=case["g"])
        det = core.reconfigure(det, case, "change_score")
        # ndarray or DataFrame; fitted on the data, on a series of another length, or on an object overwritten in place
        # afterwards; the fitted detector may have been used on other data with the same index before
        data, nfit = core.fit_for(det, case, X)
        data = core.prior_use(det, case, X, data)
        if core._bits(case, 32, 3) == 0:  # a sibling detector holding the SAME scorer object works on other data in between
            sib = SBS(score, threshold_scale=0.5, min_segment_length=m)
            Y = X[::-1] * 2.0 + 1.0
            det.predict(data)
            sib.fit(Y).predict(Y)
        y = det.predict(data)
        T = det.scores
        ivs = [(int(a), int(b)) for a, b in zip(T["start"], T["end"])]
        sc = to_change_score(_mk_score(case["score"])).fit(X)
        tab = {}
        for s, e in set(ivs):
            ks = list(range(s + m, e - m + 1))
            vals = sc.evaluate(np.array([(s, k, e) for k in ks])).sum(axis=1)
            for k, v in zip(ks, vals):
                tab[f"{s},{k},{e}"] = float(v)
        return {"outcome": "ok", "thr": float(det.threshold_), "ivs": ivs, "scale": scale,
                "rows": [(int(a), float(b)) for a, b in zip(T["argmax_cpt"], T["score"])],
                "cps": [int(v) for v in y["ilocs"]], "tab": tab,
                "default_thr": float(SBS.get_default_threshold(nfit, case["p"]))}
    except Exception as ex:
        return {"outcome": "other:" + type(ex).__name__, "msg": str(ex)[:200]}


def oracle_builtin(case, r):
    if r["outcome"] != "ok":
        # a cost that cannot score segments this short is a permitted outcome (C14); not judged here
        if r["outcome"] == "other:ValueError" and "min_size" in r.get("msg", ""):
            return None
        return f"did not run to completion: {r['outcome']} {r.get('msg', '')}"
    tab = r["tab"]
    # floats are compared exactly (Fraction(float) is exact): the table holds the implementation's
    # own evaluations of the same change score on the same cuts
    rr = dict(r, thr=str(Fraction(r["thr"])), rows=[(k, str(Fraction(v))) for k, v in r["rows"]])
    msg = oracle_sbs(case, rr, score_fn=lambda s, k, e: Fraction(tab[f"{s},{k},{e}"]))
    if msg:
        return msg
    if r["scale"] is not None and not abs(r["thr"] - r["scale"] * r["default_thr"]) <= 1e-12 * (1 + abs(r["thr"])):
        return f"threshold_ {r['thr']} is not threshold_scale x default {r['scale']} x {r['default_thr']}"
    return None


# ------------------------------------------------------------------------------------ the check


def run(chk: core.Check):
    tier = chk.tier
    N = {"quick": 2500, "thorough": 50000}[tier]
    nmax = {"quick": 14, "thorough": 28}[tier]
    grid_n = {"quick": 40, "thorough": 120}[tier]
    chk.lean()
    chk.rules.append(
        f"layout: every (n<= {grid_n}, min_length, 6 max_length variants, growth in {GROWTH}) of make_seeded_intervals; "
        "sbs-hash: SeededBinarySegmentation with hash change scores (integer landscapes modulo R in {2,3,5,10,50}, shifted to "
        "include negative values), m in 1..3, exact thresholds 0..R via the scale or tuned thresholds; pair: threshold pairs for "
        "monotonicity; builtin: CUSUM / L2 / Gaussian change scores on small-integer data, fixed and tuned thresholds. "
        "Non-trivial = at least one changepoint (layout: more than one block); distinct by case hash"
    )
    chk.assumptions += ["hash scores are small integers: float comparisons are exact",
                        "the float-computed length schedule (geomspace, rounding) is checked for admissibility on the grid, not proved"]

    # 1. layout grid (exhaustive over the stated grid)
    cases = layout_cases(grid_n)
    res = chk.run_stream("layout", cases, impl_layout, oracle=oracle_layout, site="make_seeded_intervals",
                         nontrivial=lambda c, r: r.get("outcome") == "ok" and len(blocks_of(r["st"], r["en"])) > 1)
    ok = [(c, r) for c, r in zip(cases, res) if r["outcome"] == "ok" and r["st"]]
    outs = core.run_driver([layout_line((c, layout_schedule(c, r))) for c, r in ok])
    dis = 0
    for (c, r), o in zip(ok, outs):
        exp = str(list(zip(r["st"], r["en"])))
        if exp != o:
            dis += 1
            if dis <= 5:
                chk.violations.append({"kind": "correspondence", "stream": "layout", "case": c, "impl": r, "impl_canon": exp,
                                       "model": o, "msg": "model and implementation disagree on stream layout",
                                       "site": "make_seeded_intervals", "signature": "correspondence"})
    chk.streams["layout"]["disagreements"] = dis
    chk.streams["layout"]["exhaustive_grid_n_max"] = grid_n

    # 2. SBS with hash scores: the model gets the implementation's intervals and threshold
    def hash_stream(name, cases):
        res = chk.run_stream(name, cases, impl_sbs, oracle=oracle_sbs, site="SeededBinarySegmentation",
                             skip=lambda c, r: r["outcome"][5:] if r["outcome"].startswith("skip:") else None,
                             nontrivial=lambda c, r: r.get("outcome") == "ok" and len(r["cps"]) > 0)
        ok = [(c, r) for c, r in zip(cases, res) if r["outcome"] == "ok"]
        outs = core.run_driver([sbs_line(cr) for cr in ok])
        dis = 0
        for (c, r), o in zip(ok, outs):
            if sbs_canon(r) != o:
                dis += 1
                if dis <= 5:
                    chk.violations.append({"kind": "correspondence", "stream": name, "case": c, "impl": r,
                                           "impl_canon": sbs_canon(r), "model": o,
                                           "msg": f"model and implementation disagree on stream {name}",
                                           "site": "SeededBinarySegmentation", "signature": "correspondence"})
        # implementations that fail to run are compared too: the model never fails on valid input
        for c, r in zip(cases, res):
            if r["outcome"] not in ("ok",) and not r["outcome"].startswith("skip:"):
                dis += 1
        chk.streams[name]["disagreements"] = dis
        if ok:
            chk.samples.append({"stream": name + "/model", "line": sbs_line(ok[0])[:200], "model": outs[0][:200]})

    rng = core.rng_for(chk.seed, "C07/sbs")
    hash_stream("sbs-hash", core.Gen(gen_sbs, rng, nmax, N))
    rng = core.rng_for(chk.seed, "C07/pair")
    chk.run_stream("pair", core.Gen(gen_pair, rng, nmax, N // 4), impl_pair, oracle=oracle_pair,
                   site="SeededBinarySegmentation/monotone",
                   skip=lambda c, r: r["outcome"][5:] if r["outcome"].startswith("skip:") else None,
                   nontrivial=lambda c, r: r.get("outcome") == "ok" and len(r["lo"]) > len(r["hi"]))
    rng = core.rng_for(chk.seed, "C07/builtin")
    chk.run_stream("long", [long_builtin(rng) for _ in range({"quick": 2, "thorough": 6}[tier])], impl_builtin, oracle=oracle_builtin,
                   site="SeededBinarySegmentation/long", per_case_timeout=600, describe=lambda c: {k: v for k, v in c.items() if k != "X"})
    chk.run_stream("builtin", core.Gen(gen_builtin, rng, min(nmax + 6, 30), N // 4), impl_builtin, oracle=oracle_builtin,
                   site="SeededBinarySegmentation/builtin",
                   nontrivial=lambda c, r: r.get("outcome") == "ok" and len(r["cps"]) > 0,
                   describe=lambda c: {k: v for k, v in c.items() if k != "X"} | {"X[:4]": c["X"][:4]})
    return chk.finish()


def replay(path):
    v = json.load(open(path))
    case = v["case"]
    if case is None:
        print(json.dumps(v, indent=1)[:3000])
        return 0
    st = v["stream"]
    if st == "layout":
        r = impl_layout(case)
        print("implementation:", r)
        print("oracle        :", oracle_layout(case, r))
        if r["outcome"] == "ok" and r["st"]:
            print("model         :", core.run_driver([layout_line((case, layout_schedule(case, r)))])[0])
    elif st == "pair":
        r = impl_pair(case)
        print("implementation:", r, "\noracle:", oracle_pair(case, r))
    elif st in ("builtin", "long"):
        r = impl_builtin(case)
        print("implementation:", {k: r[k] for k in r if k != "tab"}, "\noracle:", oracle_builtin(case, r))
    else:
        r = impl_sbs(case)
        print("implementation:", sbs_canon(r))
        if r["outcome"] == "ok":
            print("model         :", core.run_driver([sbs_line((case, r))])[0])
            print("oracle        :", oracle_sbs(case, r))
    return 0
