"""C04 — detections are well-formed and respect the configured length limits.

Lean: Skc/Props/C04.lean (corollaries of the algorithm theorems on the models' outputs).
Tie: the models are tied to the code by the exact correspondences of C02/C03/C07/C08/C09; a sample
of those streams is re-run here with the structure predicate as oracle, plus a float stream over all
seven detectors on adversarial shapes (constant data, isolated spikes, adjacent anomalies, blocks
longer than max_segment_length, changes at the first / last admissible position, n at the minimum
length, p in 1..4) with boundary hyper-parameters.  Oracle: the C04 predicate on the returned frame."""
from __future__ import annotations

import json

import math

import numpy as np
import pandas as pd

from .. import core
from . import c03, c07, c08, c09

DETS = ["pelt", "sbs", "mw", "capa", "mvcapa", "cbs", "stat"]


def gen_case(rng, nmax):
    det = rng.choice(DETS)
    m = rng.choice([1, 1, 2, 3, 5])
    p = 1 if det == "stat" else rng.randint(1, 4)
    nmin = {"pelt": 2 * m, "sbs": 2 * m, "mw": 2 * m, "capa": max(m, 2), "mvcapa": max(m, 2), "cbs": 2 * m, "stat": 2 * m}[det]
    n = rng.choice([nmin, nmin, nmin + 1, rng.randint(nmin, max(nmin, nmax))])
    shape = rng.choice(["const", "zero", "spikes", "blocks", "adjacent", "edges", "noise"])
    X = [[0.0] * p for _ in range(n)]
    if shape == "const":
        X = [[3.0] * p for _ in range(n)]
    elif shape == "spikes":
        for _ in range(rng.randint(1, 3)):
            X[rng.randrange(n)][rng.randrange(p)] += rng.choice([9.0, -12.0, 30.0])
    elif shape == "blocks":  # shifted blocks, often longer than max_segment_length
        t = rng.randint(0, max(0, n // 3))
        L = rng.randint(1, max(1, n - t))
        for i in range(t, t + L):
            for j in range(p):
                X[i][j] += 8.0
    elif shape == "adjacent":
        t = 0
        while t < n:
            L = rng.choice([1, 2, 3, 4])
            lv = rng.choice([10.0, -10.0, 5.0, 0.0])
            for i in range(t, min(n, t + L)):
                for j in range(p):
                    X[i][j] = lv
            t += L
    elif shape == "edges":  # changes at the first / last admissible position
        for i in range(min(m, n)):
            X[i] = [7.0] * p
        for i in range(max(0, n - m), n):
            X[i] = [-7.0] * p
    elif shape == "noise":
        X = [[float(rng.randint(-2, 2)) for _ in range(p)] for _ in range(n)]
    M = rng.choice([max(m, 2), max(m, 2) + 1, 4, 100])
    scale = rng.choice([0.0, 0.0, 0.05, 0.5, 2.0, None])
    if det == "mvcapa" and rng.random() < 0.25:
        # a weak dense anomaly: every column is shifted a little, so that the block is an anomaly by the dense penalty
        # although no single column's saving reaches the per-column (sparse) penalty
        shape, p, n, M = "weakdense", rng.choice([6, 8, 10]), rng.randint(12, 30), 100
        scale = rng.choice([0.5, 1.0, 2.0])
        L = rng.randint(max(m, 2), 6)
        t = rng.randint(0, n - L)
        delta = math.sqrt(rng.choice([0.6, 0.8, 0.95]) * 2 * scale * math.log(p) / L)
        sg = [rng.choice([1, 1, -1]) for _ in range(p)]
        X = [[delta * sg[j] if t <= i < t + L else 0.0 for j in range(p)] for i in range(n)]
    return {"det": det, "n": n, "p": p, "m": m, "M": max(M, max(m, 2)), "X": X, "shape": shape,
            "scale": scale, "mx": rng.choice([2 * m, 2 * m + 1, 200]),
            "g": rng.choice([1.1, 1.5, 2.0]), "mdi": rng.randint(1, max(1, m // 2)),
            "cost": rng.choice(["default", "default", "l2", "gauss"]), "ignore": rng.random() < 0.3}


def build(c):
    from skchange.anomaly_detectors import CAPA, MVCAPA, CircularBinarySegmentation, StatThresholdAnomaliser
    from skchange.change_detectors import PELT, MovingWindow, SeededBinarySegmentation
    from skchange.costs import GaussianVarCost, L2Cost

    cost = {"default": None, "l2": L2Cost(), "gauss": GaussianVarCost()}[c["cost"]]
    d, m, sc = c["det"], c["m"], c["scale"]
    if d == "pelt":
        return PELT(cost, penalty_scale=0.5 if sc is None else sc, min_segment_length=m)
    if d == "sbs":
        return SeededBinarySegmentation(cost, threshold_scale=sc, min_segment_length=m, max_interval_length=c["mx"], growth_factor=c["g"])
    if d == "mw":
        return MovingWindow(cost, bandwidth=m, threshold_scale=sc, min_detection_interval=c["mdi"])
    s = 0.5 if sc is None else sc
    if d == "capa":
        return CAPA(collective_penalty_scale=s, point_penalty_scale=s, min_segment_length=max(m, 2), max_segment_length=c["M"],
                    ignore_point_anomalies=c.get("ignore", False))
    if d == "mvcapa":
        return MVCAPA(collective_penalty_scale=s, point_penalty_scale=s, min_segment_length=max(m, 2), max_segment_length=c["M"],
                      ignore_point_anomalies=c.get("ignore", False))
    if d == "cbs":
        return CircularBinarySegmentation(cost if c["cost"] != "default" else None, threshold_scale=sc, min_segment_length=m,
                                          max_interval_length=c["mx"], growth_factor=c["g"])
    return StatThresholdAnomaliser(PELT(min_segment_length=m, penalty_scale=s), stat=np.mean, stat_lower=-1.0, stat_upper=1.0)


def frame_info(y):
    out = {"index_ok": isinstance(y.index, pd.RangeIndex) and list(y.index) == list(range(len(y))), "columns": list(map(str, y.columns))}
    il = y["ilocs"]
    if len(y) and isinstance(il.iloc[0], pd.Interval) or str(il.dtype).startswith("interval"):
        out["kind"] = "anom"
        out["ivs"] = [(i.left, i.right) for i in il]
        out["int_ok"] = all(float(a).is_integer() and float(b).is_integer() for a, b in out["ivs"])
        out["ivs"] = [(int(a), int(b)) for a, b in out["ivs"]]
        out["closed"] = sorted({i.closed for i in il})
        out["labels"] = [int(v) for v in y["labels"]] if "labels" in y else None
        if "icolumns" in y:
            out["icolumns"] = [[int(c) for c in cs] for cs in y["icolumns"]]
    else:
        out["kind"] = "cp"
        out["dtype"] = str(il.dtype)
        out["cps"] = [int(v) for v in il]
    return out


def impl(c):
    X = np.array(c["X"], dtype=float)
    try:
        det = build(c)
    except Exception as ex:
        return {"outcome": "ctor:" + type(ex).__name__, "msg": str(ex)[:200]}
    try:
        # ndarray / DataFrame, float / integer-typed; fitted on the data, on a longer series, or on an object overwritten in
        # place afterwards; possibly used before on other data of the same index (also held by the very object predicted on)
        if c["det"] == "stat":  # univariate only
            D = core.wrap_container(dict(c, int_ok=False), X)  # array, or a frame whose labels are not the positions
            y = det.fit(D).predict(D)
        else:
            data, _ = core.fit_for(det, c, X, reps=1)
            data = core.prior_use(det, c, X, data)
            y = det.predict(data)
        return {"outcome": "ok", **frame_info(y)}
    except Exception as ex:
        return {"outcome": "other:" + type(ex).__name__, "msg": str(ex)[:200]}


def predicate(c, r):
    """C04 on the returned frame"""
    n, m = c["n"], c["m"]
    if not r["index_ok"]:
        return "predict does not return a 0..K-1 range index"
    det = c["det"]
    if r["kind"] == "cp":
        cps = r["cps"]
        if len(cps) and r["dtype"] != "int64":
            return f"changepoints have dtype {r['dtype']}"
        if any(b <= a for a, b in zip(cps, cps[1:])):
            return f"changepoints {cps} are not strictly increasing"
        if any(not (1 <= v <= n - 1) for v in cps):
            return f"changepoints {cps} are not inside [1, {n - 1}]"
        if det in ("pelt", "sbs"):
            b = [0] + cps + [n]
            if any(y - x < m for x, y in zip(b, b[1:])):
                return f"changepoints {cps} leave a segment shorter than min_segment_length={m} (n={n})"
        if det == "mw" and any(not (m <= v <= n - m) for v in cps):
            return f"changepoints {cps} are outside [bandwidth, n-bandwidth] = [{m}, {n - m}]"
        return None
    ivs = r["ivs"]
    if not r["int_ok"]:
        return "anomaly interval bounds are not integers"
    if ivs and r["closed"] != ["left"]:
        return f"anomaly intervals are closed={r['closed']}, expected left-closed"
    if r["labels"] is not None and r["labels"] != list(range(1, len(ivs) + 1)):
        return f"anomaly labels {r['labels']} are not 1..K"
    if any(not (0 <= a < b <= n) for a, b in ivs):
        return f"anomalies {ivs} are not non-empty intervals inside [0, {n}]"
    if any(y[0] < x[1] for x, y in zip(ivs, ivs[1:])) or sorted(ivs) != ivs:
        return f"anomalies {ivs} are not sorted and pairwise disjoint"
    if det in ("capa", "mvcapa"):
        mm, M = max(m, 2), c["M"]
        for a, b in ivs:
            if b - a != 1 and not (mm <= b - a <= M):
                return f"collective anomaly [{a},{b}) has length outside [{mm},{M}] (and is not a point anomaly)"
    if det == "cbs":
        for a, b in ivs:
            if b - a < m or not (0 < a and b < n):
                return f"anomaly [{a},{b}) is shorter than min_segment_length={m} or not strictly inside the data (n={n})"
    if det == "mvcapa":
        for cols in r.get("icolumns", []):
            if not cols or len(set(cols)) != len(cols) or any(not (0 <= j < c["p"]) for j in cols):
                return f"affected columns {cols} are not a non-empty list of distinct valid column positions (p={c['p']})"
    return None


def oracle(c, r):
    if r["outcome"] == "ok":
        return predicate(c, r)
    # permitted non-results: a cost that cannot score segments this short (ValueError naming min_size)
    if r["outcome"] in ("other:ValueError", "ctor:ValueError") and "min_size" in r.get("msg", ""):
        return None
    return f"{c['det']} did not return a frame: {r['outcome']} {r.get('msg', '')}"


# ------------------------------------------------------------------------------------ the check


def run(chk: core.Check):
    tier = chk.tier
    N = {"quick": 3000, "thorough": 60000}[tier]
    chk.lean()
    chk.rules.append(
        "structured: all seven detectors x {constant, zero, spikes, blocks longer than max_segment_length, adjacent plateaus, edge changes, "
        "noise} x boundary hyper-parameters (m in {1,2,3,5}, n at / near the minimum, p in 1..4, thresholds 0 / tuned / scaled, built-in "
        "costs) judged by the C04 predicate; table/hash: samples of the exact C03 / C07 / C08 / C09 streams re-judged by their own "
        "oracles (which include the structure clauses). Non-trivial = at least one detection; distinct by case hash"
    )
    rng = core.rng_for(chk.seed, "C04/structured")
    chk.run_stream("structured", core.Gen(gen_case, rng, 40, N), impl, oracle=oracle, site="predict",
                   nontrivial=lambda c, r: r.get("outcome") == "ok" and bool(r.get("cps") or r.get("ivs")),
                   describe=lambda c: {k: v for k, v in c.items() if k != "X"} | {"X[:4]": c["X"][:4]})
    skipf = lambda c, r: r["outcome"][5:] if r["outcome"].startswith("skip:") else None  # noqa: E731
    k = N // 6
    rng = core.rng_for(chk.seed, "C04/capa")
    capa_cases = [c03.gen_case(rng, 13) for _ in range(k)]
    res = chk.run_stream("table-capa", capa_cases, c03.impl_mvcapa, line=c03.line, canon=c03.canon,
                         model_map=c03.model_expect, oracle=c03.oracle, skip=skipf, site="MVCAPA/table",
                         nontrivial=lambda c, r: r.get("outcome") == "ok" and len(r.get("anoms", [])) > 0, describe=c03.describe)
    if chk.streams["table-capa"]["disagreements"]:
        pol = c03.policy_search(capa_cases, res)  # the structure theorem is proved for the whole policy family
        chk.notes["policy[table-capa]"] = pol
        if pol:
            chk.violations = [v for v in chk.violations if not (v["kind"] == "correspondence" and v["stream"] == "table-capa")]
            chk.streams["table-capa"]["agrees_under_policy"] = pol
    rng = core.rng_for(chk.seed, "C04/sbs")
    chk.run_stream("hash-sbs", [c07.gen_sbs(rng, 14) for _ in range(k)], c07.impl_sbs, oracle=c07.oracle_sbs, skip=skipf,
                   site="SeededBinarySegmentation/hash", nontrivial=lambda c, r: r.get("outcome") == "ok" and len(r["cps"]) > 0)
    rng = core.rng_for(chk.seed, "C04/mw")
    chk.run_stream("hash-mw", [c08.gen_hash(rng, 16) for _ in range(k)], c08.impl_hash, oracle=c08.oracle_hash, skip=skipf,
                   site="MovingWindow/hash", nontrivial=lambda c, r: r.get("outcome") == "ok" and len(r["cps"]) > 0)
    rng = core.rng_for(chk.seed, "C04/cbs")
    chk.run_stream("hash-cbs", [c09.gen_hash(rng, 13) for _ in range(k)], c09.impl_hash, oracle=c09.oracle_cbs, skip=skipf,
                   site="CircularBinarySegmentation/hash", nontrivial=lambda c, r: r.get("outcome") == "ok" and len(r["anoms"]) > 0)
    return chk.finish()


def replay(path):
    v = json.load(open(path))
    case = v["case"]
    if case is None:
        print(json.dumps(v, indent=1)[:4000])
        return 0
    st = v["stream"]
    if st == "structured":
        r = impl(case)
        print("implementation:", r, "\noracle:", oracle(case, r))
    elif st == "table-capa":
        r = c03.impl_mvcapa(case)
        print("implementation:", c03.canon(case, r), "\noracle:", c03.oracle(case, r))
    elif st == "hash-sbs":
        r = c07.impl_sbs(case)
        print("implementation:", c07.sbs_canon(r), "\noracle:", c07.oracle_sbs(case, r))
    elif st == "hash-mw":
        r = c08.impl_hash(case)
        print("implementation:", c08.canon(r), "\noracle:", c08.oracle_hash(case, r))
    else:
        r = c09.impl_hash(case)
        print("implementation:", c09.canon(r), "\noracle:", c09.oracle_cbs(case, r))
    return 0
