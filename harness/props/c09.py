"""C09 — circular binary segmentation reports greedy disjoint above-threshold anomalies.

Lean: Skc/Props/C09.lean.  Tie: `CircularBinarySegmentation(HashLocalAnomalyScore, …)` through
fit/predict/.scores (score table incl. both argmax columns, anomalies) against `runCbs`, exactly.
Oracle: the property stated directly — admissible inner intervals enumerated from the definition,
per-candidate maximum, tie-tolerant search for a valid greedy order with overlap removal."""
from __future__ import annotations

import json
from fractions import Fraction

import numpy as np

from .. import core, translate
from ..scorers import HashLocalAnomalyScore, find_scale, hscore
from .c07 import greedy_order_exists


def inner_intervals(s, e, m):
    """C09: inner intervals of length >= m strictly inside [s, e) leaving >= m surrounding samples"""
    return [(a, b) for a in range(s + 1, e) for b in range(a + m, e) if (a - s) + (e - b) >= m]


def gen_hash(rng, nmax):
    m = rng.randint(1, 3)
    n = rng.randint(2 * m, max(2 * m, nmax))
    R = rng.choice([2, 3, 5, 10, 50])
    return {"n": n, "m": m, "mx": rng.choice([2 * m, 2 * m + 1, 2 * m + 3, 200]), "g": rng.choice([1.1, 1.5, 2.0]),
            "seed": rng.randint(1, 10**6), "R": R, "neg": rng.choice([0, 0, 0, 1, R // 2]), "K": rng.randint(0, R),
            "tuned": rng.random() < 0.25, "level": rng.choice([0.01, 0.1, 0.3, 0.5])}


def impl_hash(case):
    from skchange.anomaly_detectors import CircularBinarySegmentation as CBS

    n, m = case["n"], case["m"]
    X = np.zeros((n, 1))
    try:
        sc = HashLocalAnomalyScore(case["seed"], case["R"], 1, case["neg"])
        if case["tuned"]:
            det = CBS(sc, threshold_scale=None, level=case["level"], min_segment_length=m,
                      max_interval_length=case["mx"], growth_factor=case["g"]).fit(X)
        else:
            scale = find_scale(float(case["K"]), 2 * np.log(n * case["mx"]))
            if scale is None:
                return {"outcome": "skip:no-exact-scale"}
            det = CBS(sc, threshold_scale=scale, min_segment_length=m, max_interval_length=case["mx"],
                      growth_factor=case["g"]).fit(X)
            if det.threshold_ != case["K"]:
                return {"outcome": "skip:no-exact-scale"}
        if det.threshold_ < 0:
            return {"outcome": "skip:negative-threshold"}
        y = det.predict(X)
        T = det.scores
        an = [(int(i.left), int(i.right)) for i in y["ilocs"]]
        wf = list(y.index) == list(range(len(an))) and list(y["labels"]) == list(range(1, len(an) + 1))
        return {"outcome": "ok", "thr": core.rat(float(det.threshold_)),
                "ivs": [(int(a), int(b)) for a, b in zip(T["interval_start"], T["interval_end"])],
                "rows": [((int(a), int(b)), core.rat(float(c))) for a, b, c in
                         zip(T["argmax_anomaly_start"], T["argmax_anomaly_end"], T["score"])],
                "anoms": an, "wellformed": bool(wf)}
    except Exception as ex:
        return {"outcome": "other:" + type(ex).__name__, "msg": str(ex)[:200]}


def hash_line(case_r):
    c, r = case_r
    return (f"cbs {c['n']} {c['m']} {c['seed']} {c['R']} {c['neg']} {r['thr']} " + " ".join(f"{a} {b}" for a, b in r["ivs"]))


def canon(r):
    if r["outcome"] != "ok":
        return r["outcome"]
    rows = ", ".join(f"(({a}, {b}), {v})" for (a, b), v in r["rows"])
    return f"rows [{rows}] anoms [" + ", ".join(f"({a}, {b})" for a, b in r["anoms"]) + "]"


def oracle_cbs(case, r, score_fn=None):
    if r["outcome"] != "ok":
        return f"did not run to completion: {r['outcome']} {r.get('msg', '')}"
    n, m = case["n"], case["m"]
    f = score_fn or (lambda s, a, b, e: Fraction(hscore(case["seed"], case["R"], (s, a, b, e), case["neg"])))
    thr = Fraction(r["thr"])
    scores, inner = [], []
    for (s, e), ((a, b), v) in zip(r["ivs"], r["rows"]):
        cands = inner_intervals(s, e, m)
        if not cands:  # nothing to score: the candidate is simply never selected
            if Fraction(v) > thr:
                return f"candidate [{s},{e}) has no admissible inner interval but reports a score {v} above the threshold"
            scores.append(Fraction(v))
            inner.append((a, b))
            continue
        vals = {c: f(s, c[0], c[1], e) for c in cands}
        best = max(vals.values())
        if Fraction(v) != best or (a, b) not in vals or vals[(a, b)] != best:
            return f"candidate [{s},{e}): reported (inner [{a},{b}), score {v}); the maximum over admissible inner intervals is {best}"
        scores.append(best)
        inner.append((a, b))
    an = r["anoms"]
    if sorted(an) != an or any(x[1] > y[0] for x, y in zip(an, an[1:])):
        return f"anomalies {an} are not sorted and pairwise disjoint"
    if not r.get("wellformed", True):
        return "sparse output is not a range-indexed frame labelled 1..K"
    ivs = r["ivs"]
    overl = lambda i, a: ivs[i][0] < a[1] and a[0] < ivs[i][1]  # noqa: E731
    if not greedy_order_exists(scores, inner, overl, thr, [tuple(a) for a in an]):
        return (f"anomalies {an} are not the result of greedily taking the inner interval of the highest-scoring remaining "
                f"candidate above the threshold {thr} and discarding the candidates overlapping it")
    return None


def gen_pair(rng, nmax):
    c = gen_hash(rng, nmax)
    c["tuned"] = False
    c["K2"] = rng.randint(c["K"], c["R"])
    return c


def impl_pair(case):
    a = impl_hash(case)
    b = impl_hash(dict(case, K=case["K2"]))
    if a["outcome"] != "ok" or b["outcome"] != "ok":
        return {"outcome": "skip:no-exact-scale" if "skip" in a["outcome"] + b["outcome"] else a["outcome"] + "|" + b["outcome"]}
    return {"outcome": "ok", "lo": a["anoms"], "hi": b["anoms"]}


def oracle_pair(case, r):
    if r["outcome"] != "ok":
        return f"did not run: {r['outcome']}"
    if not set(map(tuple, r["hi"])) <= set(map(tuple, r["lo"])):
        return f"raising the threshold from {case['K']} to {case['K2']} added anomalies: {r['lo']} -> {r['hi']}"
    return None


# ------------------------------------------------------------------------------- built-in scores


def gen_builtin(rng, nmax):
    m = rng.randint(1, 3)
    score = rng.choice(["l2", "l2", "gauss", "l2q"])  # l2q: a user-defined subclass of the squared-error cost with another value
    if score == "gauss":
        m = max(m, 2)
    n = rng.randint(max(2 * m, 4), nmax)
    p = rng.choice([1, 1, 2])
    X = [[rng.choice([0, 0, 1, -1]) for _ in range(p)] for _ in range(n)]
    for _ in range(rng.randint(0, 2)):
        a = rng.randint(0, n - 1)
        b = min(n, a + rng.randint(m, m + 3))
        lv = rng.choice([3, -3, 5])
        for i in range(a, b):
            for j in range(p):
                X[i][j] += lv
    return {"n": n, "m": m, "p": p, "X": X, "score": score, "mx": rng.choice([2 * m, 2 * m + 2, 200]),
            "g": rng.choice([1.1, 1.5, 2.0]), "scale": rng.choice([None, 0.0, 0.1, 0.3, 1.0]), "level": rng.choice([0.05, 0.3])}


def long_builtin(rng):
    """candidate intervals long enough to hold more than 8192 admissible inner intervals"""
    n = rng.choice([136, 150])
    X = [[rng.choice([0, 0, 1, -1])] for _ in range(n)]
    for a, L, lv in [(rng.randint(5, 40), rng.randint(3, 12), 5), (rng.randint(60, 110), rng.randint(2, 20), -4)]:
        for i in range(a, min(n, a + L)):
            X[i][0] += lv
    return {"n": n, "m": 1, "p": 1, "X": X, "score": "l2", "mx": 400, "g": 2.0, "scale": rng.choice([0.5, 1.0]), "level": 0.05,
            "fitmode": "same", "prior": None, "borderline": False, "container": "ndarray"}


def _mk(kind):
    from skchange.costs import GaussianVarCost, L2Cost

    from ..scorers import QuarterL2Cost

    return {"l2": L2Cost, "gauss": GaussianVarCost, "l2q": QuarterL2Cost}[kind]()


def impl_builtin(case):
    from skchange.anomaly_detectors import CircularBinarySegmentation as CBS
    from skchange.anomaly_scores import to_local_anomaly_score

    X = np.array(case["X"], dtype=float)
    n, m = case["n"], case["m"]
    try:
        scale = case["scale"]
        if scale is not None:  # aim the fitted threshold just beside one of the candidate scores
            probe = CBS(_mk(case["score"]), threshold_scale=0.0, min_segment_length=m, max_interval_length=case["mx"],
                        growth_factor=case["g"])
            _, nf = core.fit_for(probe, case, X, reps=1)
            probe.predict(core.wrap_container(case, X))
            bs = core.borderline_scale(case, probe.scores["score"], float(CBS.get_default_threshold(nf, case["p"], case["mx"])))
            scale = scale if bs is None else bs
        cost = _mk(case["score"])
        det = CBS(cost, threshold_scale=scale, level=case["level"], min_segment_length=m,
                  max_interval_length=case["mx"], growth_factor=case["g"])
        det = core.reconfigure(det, case, "anomaly_score")
        # ndarray or DataFrame; fitted on the data, on a series of another length, or on an object overwritten in place
        # afterwards; the fitted detector may have been used on other data with the same index before
        data, nfit = core.fit_for(det, case, X, reps=1)  # circular binary segmentation is cubic in the interval length
        data = core.prior_use(det, case, X, data)
        if core._bits(case, 32, 3) == 0:  # a sibling detector holding the SAME cost object works on other data in between
            sib = CBS(cost, threshold_scale=0.5, min_segment_length=m)
            Y = X[::-1] * 2.0 + 1.0
            det.predict(data)
            sib.fit(Y).predict(Y)
        y = det.predict(data)
        T = det.scores
        ivs = [(int(a), int(b)) for a, b in zip(T["interval_start"], T["interval_end"])]
        sc = to_local_anomaly_score(_mk(case["score"])).fit(X)
        tab = {}
        for s, e in set(ivs):
            cands = inner_intervals(s, e, m)
            if cands and case["score"] == "l2q":
                # for the user-defined cost the table comes from the DEFINITION C(s,e) - (C(a,b) + C(pooled surroundings)),
                # evaluated with the cost object itself
                c0, c1 = _mk("l2q").fit(X), _mk("l2q")
                for a, b in cands:
                    pooled = np.concatenate((X[s:a], X[b:e]))
                    v = c0.evaluate(np.array([[s, e]])) - (c0.evaluate(np.array([[a, b]])) + c1.fit(pooled).evaluate(np.array([[0, len(pooled)]])))
                    tab[f"{s},{a},{b},{e}"] = float(v.sum(axis=1)[0])
            elif cands:
                vals = sc.evaluate(np.array([(s, a, b, e) for a, b in cands])).sum(axis=1)
                for (a, b), v in zip(cands, vals):
                    tab[f"{s},{a},{b},{e}"] = float(v)
        an = [(int(i.left), int(i.right)) for i in y["ilocs"]]
        return {"outcome": "ok", "thr": float(det.threshold_), "ivs": ivs, "scale": scale,
                "rows": [((int(a), int(b)), float(c)) for a, b, c in
                         zip(T["argmax_anomaly_start"], T["argmax_anomaly_end"], T["score"])],
                "anoms": an, "tab": tab, "default_thr": float(CBS.get_default_threshold(nfit, case["p"], case["mx"]))}
    except Exception as ex:
        return {"outcome": "other:" + type(ex).__name__, "msg": str(ex)[:200]}


def oracle_builtin(case, r):
    if r["outcome"] != "ok":
        if r["outcome"] == "other:ValueError" and "min_size" in r.get("msg", ""):
            return None
        return f"did not run to completion: {r['outcome']} {r.get('msg', '')}"
    tab = r["tab"]
    rr = dict(r, thr=str(Fraction(r["thr"])), rows=[(ab, str(Fraction(v))) for ab, v in r["rows"]])
    msg = oracle_cbs(case, rr, score_fn=lambda s, a, b, e: Fraction(tab[f"{s},{a},{b},{e}"]))
    if msg:
        return msg
    n, m = case["n"], case["m"]
    for a, b in r["anoms"]:
        if not (0 < a and b < n and b - a >= m):
            return f"anomaly [{a},{b}) is not strictly inside the data with length >= {m}"
    if r["scale"] is not None and not abs(r["thr"] - r["scale"] * r["default_thr"]) <= 1e-12 * (1 + abs(r["thr"])):
        return f"threshold_ {r['thr']} is not threshold_scale x default"
    return None


# ------------------------------------------------------------------------------------ the check


# ------------------------------------------------------------------------------------ route T2: candidate enumeration

L1_LOOPS = {"Skc.L1.LoopsCbs": ["loop_anomaly_intervals"], "Skc.L1.LoopsCbsProps": ["loop_anomaly_intervals"]}


def gen_cands(rng, nmax):
    m = rng.randint(1, 4)
    s = rng.randint(0, 6)
    L = rng.choice([2 * m, 2 * m + 1, 3 * m, rng.randint(2 * m, 2 * m + nmax), rng.randint(m, 2 * m)])  # incl. shorter than 2m
    return {"s": s, "e": s + L, "m": m}


def impl_cands(case):
    from skchange.anomaly_detectors.circular_binseg import make_anomaly_intervals

    try:
        a, b = make_anomaly_intervals(case["s"], case["e"], case["m"])
        return {"outcome": "ok", "starts": [int(v) for v in a], "ends": [int(v) for v in b]}
    except Exception as ex:
        return {"outcome": "raises:" + type(ex).__name__, "msg": str(ex)[:200]}


def cands_line(case):
    return f"gencands {case['s']} {case['e']} {case['m']}"


def canon_cands(case, r):
    return f"starts {r['starts']} ends {r['ends']}" if r["outcome"] == "ok" else "raises"


def oracle_cands(case, r):
    """every (i, j) strictly inside [s, e) with at least m rows inside and at least m rows left in the surroundings, in
    lexicographic order"""
    s, e, m = case["s"], case["e"], case["m"]
    want = [(i, j) for i in range(s + 1, e) for j in range(i + 1, e) if j - i >= m and (i - s) + (e - j) >= m]
    if r["outcome"] != "ok":
        return f"make_anomaly_intervals({s}, {e}, {m}) raises {r['outcome']}"
    got = list(zip(r["starts"], r["ends"]))
    if got != want:
        return f"make_anomaly_intervals({s}, {e}, {m}) lists {got[:6]}... ({len(got)} candidates); by definition there are {len(want)}: {want[:6]}..."
    return None


def run(chk: core.Check):
    tier = chk.tier
    N = {"quick": 1500, "thorough": 30000}[tier]
    nmax = {"quick": 13, "thorough": 24}[tier]
    status = {}

    def pre():
        st, _ = translate.run()
        status.update(st)
    with core.LeanLock():  # the translator writes the generated Lean files
        pre()
    skipm = {mm: "translator (route T2): " + ", ".join(f"{k}: {status.get(k, {}).get('reason')}" for k in ks
                                                      if status.get(k, {}).get("state") != "translated")
             for mm, ks in L1_LOOPS.items() if any(status.get(k, {}).get("state") != "translated" for k in ks)}
    chk.lean(extra_modules=list(L1_LOOPS), skip_modules=skipm, pre_build=pre)
    chk.notes["translator"] = {k: status.get(k, {}).get("state") for ks in L1_LOOPS.values() for k in ks}
    tr = not skipm
    chk.rules.append(
        "gen-cands: make_anomaly_intervals(s, e, m) for m in 1..4, s in 0..6 and interval lengths from m to 2m+%d (incl. 2m, 2m+1, 3m), "
        "against the definition of the candidate set and, line by line, against the Lean definition regenerated from its source "
        "(driver op `gencands`), which Skc/L1/LoopsCbs.lean proves equal to the model `anomalyIntervals`. " % nmax)
    chk.run_stream("gen-cands", core.Gen(gen_cands, core.rng_for(chk.seed, "C09/cands"), nmax, N // 2), impl_cands,
                   line=cands_line if tr else None, canon=canon_cands if tr else None, oracle=oracle_cands,
                   site="make_anomaly_intervals", nontrivial=lambda c, r: r.get("outcome") == "ok" and len(r["starts"]) > 0)
    chk.rules.append(
        "cbs-hash: CircularBinarySegmentation with hash local anomaly scores (integer landscapes modulo R, negative values "
        "included), m in 1..3, n in 2m..%d, exact thresholds 0..R via the scale or tuned thresholds; pair: threshold pairs; "
        "builtin: L2 / Gaussian cost-based local anomaly scores on small-integer data with planted anomalies. Non-trivial = at "
        "least one anomaly; distinct by case hash" % nmax
    )
    chk.assumptions += ["hash scores are small integers: float comparisons are exact"]
    skipf = lambda c, r: r["outcome"][5:] if r["outcome"].startswith("skip:") else None  # noqa: E731
    rng = core.rng_for(chk.seed, "C09/hash")
    cases = core.Gen(gen_hash, rng, nmax, N)
    res = chk.run_stream("cbs-hash", cases, impl_hash, oracle=oracle_cbs, site="CircularBinarySegmentation", skip=skipf,
                         nontrivial=lambda c, r: r.get("outcome") == "ok" and len(r["anoms"]) > 0)
    ok = [(c, r) for c, r in zip(cases, res) if r["outcome"] == "ok"]
    outs = core.run_driver([hash_line(cr) for cr in ok])
    dis = 0
    for (c, r), o in zip(ok, outs):
        if canon(r) != o:
            dis += 1
            if dis <= 5:
                chk.violations.append({"kind": "correspondence", "stream": "cbs-hash", "case": c, "impl": r, "impl_canon": canon(r),
                                       "model": o, "msg": "model and implementation disagree on stream cbs-hash",
                                       "site": "CircularBinarySegmentation", "signature": "correspondence"})
    dis += sum(1 for c, r in zip(cases, res) if r["outcome"] != "ok" and not r["outcome"].startswith("skip:"))
    chk.streams["cbs-hash"]["disagreements"] = dis
    if ok:
        chk.samples.append({"stream": "cbs-hash/model", "line": hash_line(ok[0])[:200], "model": outs[0][:200]})
    rng = core.rng_for(chk.seed, "C09/pair")
    chk.run_stream("pair", core.Gen(gen_pair, rng, nmax, N // 4), impl_pair, oracle=oracle_pair, skip=skipf,
                   site="CircularBinarySegmentation/monotone",
                   nontrivial=lambda c, r: r.get("outcome") == "ok" and len(r["lo"]) > len(r["hi"]))
    rng = core.rng_for(chk.seed, "C09/builtin")
    chk.run_stream("long", [long_builtin(rng) for _ in range({"quick": 2, "thorough": 6}[tier])], impl_builtin, oracle=oracle_builtin,
                   site="CircularBinarySegmentation/long", per_case_timeout=600, describe=lambda c: {k: v for k, v in c.items() if k != "X"})
    chk.run_stream("builtin", core.Gen(gen_builtin, rng, nmax + 5, N // 4), impl_builtin, oracle=oracle_builtin,
                   site="CircularBinarySegmentation/builtin",
                   nontrivial=lambda c, r: r.get("outcome") == "ok" and len(r["anoms"]) > 0,
                   describe=lambda c: {k: v for k, v in c.items() if k != "X"} | {"X[:4]": c["X"][:4]})
    return chk.finish(trusted_extra=["the loop translator harness/translate_loops.py (reading of make_anomaly_intervals: nested for loops over range, appends to two lists), validated line by line in stream gen-cands"])


def replay(path):
    v = json.load(open(path))
    case = v["case"]
    if case is None:
        print(json.dumps(v, indent=1)[:3000])
        return 0
    st = v["stream"]
    if st == "pair":
        r = impl_pair(case)
        print("implementation:", r, "\noracle:", oracle_pair(case, r))
    elif st in ("builtin", "long"):
        r = impl_builtin(case)
        print("implementation:", {k: r[k] for k in r if k != "tab"}, "\noracle:", oracle_builtin(case, r))
    else:
        r = impl_hash(case)
        print("implementation:", canon(r))
        if r["outcome"] == "ok":
            print("model         :", core.run_driver([hash_line((case, r))])[0])
            print("oracle        :", oracle_cbs(case, r))
    return 0
