"""C02 — PELT returns an exact minimiser of the penalised segmentation cost.

Lean: Skc/Props/C02.lean (pelt_optimal, pelt_prefix_optimal, … for the whole policy family).
Tie:  the public API `PELT(cost, penalty_scale, min_segment_length).fit(X).predict(X)` + `.scores`
      against `runPelt` over Rat, exactly, on integer table costs with exact integer penalties.
Oracle (independent of the model): the property evaluated directly — admissibility of the returned
      changepoints, their penalised cost = final score = optimum over all admissible segmentations
      (enumeration for small n, unpruned recursion otherwise), every prefix score = prefix optimum."""
from __future__ import annotations

import itertools
import json
import os
from fractions import Fraction

import numpy as np

from .. import core, translate
from ..scorers import TableCost, find_scale, superadditive_table, tri_values

PICKS = ["first", "last"]
PRUNES = ["strict", "nonstrict", "never"]


# ---------------------------------------------------------------------------------------- cases


def gen_table_case(rng, nmax, mmax):
    m = rng.randint(1, mmax)
    n = rng.randint(2 * m, max(2 * m, nmax))
    K = rng.choice([0, 0, 1, 2, 3, 4, 5, 6, 8, Fraction(1, 2), Fraction(5, 4), Fraction(7, 2)])
    slack = rng.randint(1, 5)
    c = superadditive_table(rng, n, slack, rng.choice([0.3, 0.6, 0.9]))
    if rng.random() < 0.35:  # negative-valued costs (log-likelihood-like): shifting by -d*(e-s) keeps the split inequality
        d = rng.randint(1, 3)
        c = [[c[s][e] - d * (e - s) if e > s else 0 for e in range(n + 1)] for s in range(n + 1)]
    return {"n": n, "m": m, "K": str(K), "c": c}


def table_line(case, delay=None, pick="first", pr="strict"):
    n, m = case["n"], case["m"]
    d = m - 1 if delay is None else delay
    return " ".join(["pelt", str(n), str(m), str(d), pick, pr, core.rat(Fraction(case["K"]))]
                    + [core.rat(v) for v in tri_values(case["c"], n)])


def impl_api(case):
    """through the public API; exact penalty via a searched scale"""
    from skchange.change_detectors import PELT

    n, m, K = case["n"], case["m"], float(Fraction(case["K"]))
    scale = find_scale(K, 2 * np.log(n))
    if scale is None:
        return {"outcome": "skip:no-exact-scale"}
    X = np.zeros((n, 1))
    try:
        det = PELT(TableCost(table=case["c"], msize=1, int_out=bool(core._bits({"n": n, "m": m, "K": case["K"]}, 0, 2))), penalty_scale=scale,
                   min_segment_length=m).fit(X)
        if det.penalty_ != K:
            return {"outcome": "skip:no-exact-scale"}
        y = det.predict(X)
        cps = [int(v) for v in y["ilocs"]]
        opt = [core.rat(float(v)) for v in det.scores.values]
        wf = list(y.index) == list(range(len(cps))) and str(y["ilocs"].dtype) == "int64"
        return {"outcome": "ok", "cps": cps, "opt": opt, "wellformed": bool(wf)}
    except Exception as ex:  # outcome, not a harness failure
        return {"outcome": "other:" + type(ex).__name__, "msg": str(ex)[:200]}


def impl_direct(case):
    """`run_pelt` called directly with the exact penalty (no scale search needed)"""
    from skchange.change_detectors.pelt import run_pelt

    n, m, K = case["n"], case["m"], float(Fraction(case["K"]))
    X = np.zeros((n, 1))
    try:
        opt, cps = run_pelt(X, TableCost(table=case["c"], int_out=bool(core._bits({"n": n, "m": m, "K": case["K"]}, 0, 2))), K, m)
        return {"outcome": "ok", "cps": [int(v) for v in cps], "opt": [core.rat(float(v)) for v in opt],
                "wellformed": True}
    except Exception as ex:
        return {"outcome": "other:" + type(ex).__name__, "msg": str(ex)[:200]}


def canon(case, r):
    if r["outcome"] != "ok":
        return r["outcome"]
    return "opt [" + ", ".join(r["opt"]) + "] cps " + str(r["cps"])


def skip(case, r):
    return r["outcome"][5:] if r["outcome"].startswith("skip:") else None


# --------------------------------------------------------------------------------------- oracle


def prefix_optima(c, n, m, K):
    """unpruned optimal-partitioning recursion, exact arithmetic"""
    F = {0: -K}
    for e in range(m, n + 1):
        F[e] = min(F[s] + c[s][e] + K for s in [0] + list(range(m, e - m + 1)))
    return F


def brute_optimum(c, n, m, K):
    best = None
    for k in range(0, n):
        for cps in itertools.combinations(range(1, n), k):
            b = [0] + list(cps) + [n]
            if any(b[i + 1] - b[i] < m for i in range(len(b) - 1)):
                continue
            v = sum(c[b[i]][b[i + 1]] for i in range(len(b) - 1)) + K * k
            if best is None or v < best:
                best = v
    return best


def oracle(case, r):
    n, m, K, c = case["n"], case["m"], Fraction(case["K"]), case["c"]
    if r["outcome"] != "ok":
        return f"PELT did not run to completion: {r['outcome']} {r.get('msg', '')}"
    cps = r["cps"]
    b = [0] + cps + [n]
    if any(b[i + 1] - b[i] < m for i in range(len(b) - 1)):
        return f"returned changepoints {cps} leave a segment shorter than min_segment_length={m}"
    if not r.get("wellformed", True):
        return "sparse output is not a 0..K-1 range-indexed int64 frame"
    opt = [Fraction(v) for v in r["opt"]]
    val = sum(c[b[i]][b[i + 1]] for i in range(len(b) - 1)) + K * len(cps)
    F = prefix_optima(c, n, m, K)
    if n <= 9:
        bo = brute_optimum(c, n, m, K)
        if bo != F[n]:
            raise core.Infra("oracle self-check failed (recursion vs enumeration)")
    if val != F[n]:
        return f"returned segmentation {cps} has penalised cost {val}; the optimum is {F[n]}"
    if opt[n - 1] != val:
        return f"final score {opt[n - 1]} differs from the penalised cost {val} of the returned segmentation"
    for e in range(m, n + 1):
        if opt[e - 1] != F[e]:
            return f"score of prefix {e} is {opt[e - 1]}; the optimal penalised cost of that prefix is {F[e]}"
    return None


def is_split_ok(c, n):
    return all(c[a][t] + c[t][b] <= c[a][b] for a in range(n) for b in range(a + 2, n + 1) for t in range(a + 1, b))


def shrinker(v):
    """greedy shrink of a table counterexample: lower entries while super-additivity and the
    violation persist (bounded effort)"""
    if v["stream"] not in ("table-api", "table-direct", "boundary", "corpus"):
        return v
    impl = impl_direct if v["stream"] == "table-direct" else impl_api
    best = v["case"]
    budget = 400

    def bad(case):
        r = impl(case)
        return None if r["outcome"].startswith("skip") else oracle(case, r)

    improved = True
    while improved and budget > 0:
        improved = False
        n = best["n"]
        for s in range(n):
            for e in range(s + 1, n + 1):
                if best["c"][s][e] > 0 and budget > 0:
                    c2 = [row[:] for row in best["c"]]
                    c2[s][e] -= 1
                    cand = dict(best, c=c2)
                    budget -= 1
                    if is_split_ok(c2, n) and bad(cand):
                        best, improved = cand, True
    r = impl(best)
    return dict(v, case=best, impl=r, msg=oracle(best, r) or v["msg"], shrunk_from=v["case"])


# ------------------------------------------------------------------------------- built-in costs


def gen_builtin_case(rng, nmax):
    m = rng.randint(1, 4)
    cost = rng.choice(["l2", "l2", "gauss"])
    if cost == "gauss":
        m = max(m, 2)
    n = rng.randint(2 * m, max(2 * m, nmax))
    p = rng.choice([1, 1, 2])
    kind = rng.choice(["levels", "small", "spike"])
    if kind == "levels":
        lv = [rng.randint(-3, 3) for _ in range(4)]
        cpts = sorted(rng.sample(range(1, n), min(3, n - 1)))
        X = [[lv[sum(1 for c in cpts if c <= i)] + rng.choice([0, 0, 1, -1]) for _ in range(p)] for i in range(n)]
    elif kind == "small":
        X = [[rng.randint(-2, 2) for _ in range(p)] for _ in range(n)]
    else:
        X = [[rng.choice([0, 0, 0, 5, -4]) + rng.randint(0, 1) for _ in range(p)] for _ in range(n)]
    scale = rng.choice([0.0, 0.05, 0.1, 0.3, 0.5, 1.0, 2.0])
    case = {"n": n, "m": m, "p": p, "cost": cost, "X": X, "scale": scale, "container": rng.choice(["ndarray", "frame", "frame"])}
    if rng.random() < 0.4:  # the same detector object has already been used on other data of the same shape
        case["warm"] = [[rng.randint(-3, 3) for _ in range(p)] for _ in range(n)]
        case["via"] = rng.choice(["transform_scores", "predict"])
    return case


def impl_builtin(case):
    from skchange.change_detectors import PELT
    from skchange.costs import GaussianVarCost, L2Cost

    import pandas as pd

    wrap = (lambda a: pd.DataFrame(a)) if case.get("container") == "frame" else (lambda a: a)
    X = wrap(np.array(case["X"], dtype=float))
    n, m = case["n"], case["m"]
    mk = (lambda: L2Cost()) if case["cost"] == "l2" else (lambda: GaussianVarCost())
    try:
        det = PELT(mk(), penalty_scale=case["scale"], min_segment_length=m)
        if core._bits(case, 36, 3) == 0:
            # the same configuration reached by re-configuring a detector that was constructed (and possibly used) with
            # another cost parameter: PELT(cost(param=...)).set_params(cost__param=None)
            det = PELT(L2Cost(param=3.0) if case["cost"] == "l2" else GaussianVarCost(param=(3.0, 2.0)), penalty_scale=case["scale"],
                       min_segment_length=m)
            if case["n"] % 2:
                det.fit(wrap(np.array(case["X"], dtype=float)[::-1] + 0.5)).predict(wrap(np.array(case["X"], dtype=float)[::-1] + 0.5))
            det.set_params(cost__param=None)
        if case.get("warm") is not None:
            W = wrap(np.array(case["warm"], dtype=float))
            det.fit(W)
            det.transform_scores(W)
        # fitted on the data, on a series of another length (the fitted penalty_ must be the one used), or on an object
        # that is overwritten in place afterwards
        X, _ = core.fit_for(det, case, np.array(case["X"], dtype=float), reps=2)
        if case.get("warm") is not None and case["n"] % 2 == 0:  # the fitted detector is also used on other data of the same index first
            det.predict(wrap(np.array(case["warm"], dtype=float)[::-1] + 1.0))
        # ... or on other data held by the very object that is then overwritten in place with the data under test
        X = core.prior_use(det, dict(case, prior=case.get("prior", [None, None, "same-object"][core._bits(case, 24, 3)])),
                           np.array(case["X"], dtype=float), X)
        if case.get("via") == "transform_scores":
            held = det.transform_scores(X)
            y = det.predict(X)
        else:
            y = det.predict(X)
            held = det.scores
        if core._bits(case, 40, 2) == 0:  # the caller keeps the scores while ANOTHER instance works on other data of the same length
            Y = np.array(case["X"], dtype=float)[::-1] * 2.0 + 1.0
            PELT(mk(), min_segment_length=m).fit(Y).predict(Y)
        opt = [float(v) for v in held.values]
        cps = [int(v) for v in y["ilocs"]]
        pen = float(det.penalty_)
        # the cost table as the implementation itself evaluates it (fresh scorer)
        sc = mk().fit(np.array(case["X"], dtype=float))
        cuts = np.array([(s, e) for s in range(n) for e in range(s + sc.min_size, n + 1)])
        vals = sc.evaluate(cuts).sum(axis=1)
        tab = {f"{s},{e}": float(v) for (s, e), v in zip(cuts.tolist(), vals)}
        return {"outcome": "ok", "cps": cps, "opt": opt, "pen": pen, "tab": tab}
    except Exception as ex:
        return {"outcome": "other:" + type(ex).__name__, "msg": str(ex)[:200]}


def oracle_builtin(case, r):
    """float stream: optimum re-computed by the unpruned recursion from the implementation's own
    cost values; compared with a tolerance far below the smallest non-zero cost difference that
    integer data of this size can produce"""
    if r["outcome"] != "ok":
        return f"PELT did not run to completion: {r['outcome']} {r.get('msg', '')}"
    n, m = case["n"], case["m"]
    K, tab = r["pen"], r["tab"]
    c = lambda s, e: tab[f"{s},{e}"]  # noqa: E731
    cps = r["cps"]
    b = [0] + cps + [n]
    if any(b[i + 1] - b[i] < m for i in range(len(b) - 1)):
        return f"returned changepoints {cps} leave a segment shorter than min_segment_length={m}"
    F = {0: -K}
    for e in range(m, n + 1):
        F[e] = min(F[s] + c(s, e) + K for s in [0] + list(range(m, e - m + 1)))
    val = sum(c(b[i], b[i + 1]) for i in range(len(b) - 1)) + K * len(cps)
    tol = 1e-7 * (1 + abs(F[n]))
    if not abs(val - F[n]) <= tol:  # (written so that NaN fails)
        return f"returned segmentation {cps} has penalised cost {val!r}; the optimum is {F[n]!r}"
    if not abs(r["opt"][n - 1] - val) <= tol:
        return f"final score {r['opt'][n - 1]!r} differs from the penalised cost {val!r} of the returned segmentation"
    for e in range(m, n + 1):
        if not abs(r["opt"][e - 1] - F[e]) <= 1e-7 * (1 + abs(F[e])):
            return f"score of prefix {e} is {r['opt'][e - 1]!r}; the optimal penalised cost of that prefix is {F[e]!r}"
    return None


def skip_builtin(case, r):
    """the property only speaks about costs satisfying the split inequality; with the 1e-16 variance
    floor engaged the Gaussian cost can violate it, such cases are counted and not judged"""
    if r["outcome"] != "ok":
        return None
    n, m, tab = case["n"], case["m"], r["tab"]
    ms = 2 if case["cost"] == "gauss" else 1
    for s in range(n):
        for e in range(s + 2 * max(m, ms), n + 1):
            for t in range(s + max(m, ms), e - max(m, ms) + 1):
                if tab[f"{s},{t}"] + tab[f"{t},{e}"] > tab[f"{s},{e}"] + 1e-9 * (1 + abs(tab[f"{s},{e}"])):
                    return "split-inequality-fails"
    return None


# ------------------------------------------------------------------------------------ the check


def mine_boundary(rng, count, nmax):
    """model-guided boundary mining: inputs on which the model with the correct pruning delay and
    with a delay one step short (or none) give different answers — exactly the inputs that can
    expose a premature-pruning change in the code; found with the Lean driver only"""
    cases = []
    for _ in range(count):
        m = rng.randint(2, 4)
        n = rng.randint(2 * m + 2, max(2 * m + 2, nmax))
        K = rng.choice([0, 0, 1, 1, 2, 3])
        cases.append({"n": n, "m": m, "K": str(K), "c": superadditive_table(rng, n, rng.randint(1, 4), rng.choice([0.4, 0.7, 0.9]))})
    good = core.run_driver([table_line(c) for c in cases])
    short = core.run_driver([table_line(c, delay=c["m"] - 2) for c in cases])
    return [c for c, a, b in zip(cases, good, short) if a != b]


def load_corpus(prefix):
    d = os.path.join(core.ROOT, "corpus", "C02")
    out = []
    if os.path.isdir(d):
        for f in sorted(os.listdir(d)):
            if f.endswith(".json") and f.startswith(prefix):
                obj = json.load(open(os.path.join(d, f)))
                out.extend(obj if isinstance(obj, list) else [obj])
    return out


def policy_search(chk, name, cases, results):
    """if the code's policy no longer matches, look for another member of the proved policy family
    (tie-break × pruning test × delay ≥ m-1) under which model and implementation agree on every
    case of the stream; a change inside the family is not a broken correspondence"""
    keep = [(c, r) for c, r in zip(cases, results) if not skip(c, r)]
    for pick in PICKS:
        for pr in PRUNES:
            for extra in (0, 1, 3):
                outs = core.run_driver([table_line(c, delay=c["m"] - 1 + extra, pick=pick, pr=pr) for c, _ in keep])
                if all(canon(c, r) == o for (c, r), o in zip(keep, outs)):
                    return f"pick={pick} prune={pr} delay=m-1+{extra}"
    return None



# --------------------------------------------------------------------------------- long series


def long_case(rng):
    n = rng.choice([4096, 4097, 4100, 8192, 8200]) + rng.choice([0, 1, 7])
    m = rng.choice([1, 2, 5])
    lv = [rng.randint(-4, 4) for _ in range(7)]
    cpts = sorted(rng.sample(range(1, n), 6))
    x = [lv[sum(1 for c in cpts if c <= i)] + rng.choice([0, 0, 1, -1, 2]) for i in range(n)]
    return {"n": n, "m": m, "x": x, "scale": rng.choice([0.5, 1.0, 3.0])}


def impl_long(case):
    from skchange.change_detectors import PELT
    from skchange.costs import L2Cost

    X = np.array(case["x"], dtype=float).reshape(-1, 1)
    try:
        det = PELT(L2Cost(), penalty_scale=case["scale"], min_segment_length=case["m"]).fit(X)
        opt = np.asarray(det.transform_scores(X)).reshape(-1)
        y = det.predict(X)
        return {"outcome": "ok", "cps": [int(v) for v in y["ilocs"]], "opt": [float(v) for v in opt], "pen": float(det.penalty_)}
    except Exception as ex:
        return {"outcome": "other:" + type(ex).__name__, "msg": str(ex)[:200]}


def oracle_long(case, r):
    """optimal partitioning without pruning, vectorised over the last-segment starts, from prefix sums computed here"""
    if r["outcome"] != "ok":
        return f"PELT did not run to completion: {r['outcome']} {r.get('msg', '')}"
    x = np.array(case["x"], dtype=float)
    n, m, K = case["n"], case["m"], r["pen"]
    S1, S2 = np.concatenate(([0.0], np.cumsum(x))), np.concatenate(([0.0], np.cumsum(x * x)))
    cost = lambda s, e: (S2[e] - S2[s]) - (S1[e] - S1[s]) ** 2 / (e - s)  # noqa: E731
    F = np.full(n + 1, np.inf)
    F[0] = -K
    for e in range(m, n + 1):
        s = np.concatenate(([0], np.arange(m, e - m + 1)))
        F[e] = np.min(F[s] + cost(s, e) + K)
    cps = r["cps"]
    b = [0] + cps + [n]
    if any(b[i + 1] - b[i] < m for i in range(len(b) - 1)):
        return f"returned changepoints {cps} leave a segment shorter than min_segment_length={m} (n={n})"
    val = sum(cost(b[i], b[i + 1]) for i in range(len(b) - 1)) + K * len(cps)
    tol = 1e-7 * (1 + abs(F[n]))
    if not abs(val - F[n]) <= tol:  # (written so that NaN fails)
        return f"n={n}: returned segmentation {cps} has penalised cost {val!r}; the optimum is {F[n]!r}"
    opt = np.array(r["opt"])
    bad = np.where(~(np.abs(opt[m - 1:] - F[m:]) <= 1e-7 * (1 + np.abs(F[m:]))))[0]
    if len(bad):
        e = int(bad[0]) + m
        return f"n={n}: score of prefix {e} is {opt[e - 1]!r}; the optimal penalised cost of that prefix is {F[e]!r}"
    return None


# ------------------------------------------------------------------------------------ route T2: back-tracking

L1_LOOPS = {"Skc.L1.LoopsPelt": ["loop_pelt_changepoints"]}


def gen_backtrack(rng, nmax):
    """back-pointer arrays as the recursion leaves them: prev[i] <= i, zero on an initial block, and prev[i] + m <= i + 1"""
    m = rng.randint(1, 4)
    n = rng.randint(0, 2) if rng.random() < 0.1 else rng.randint(1, 4 * nmax)
    prev = []
    for i in range(n):
        if i + 1 < 2 * m or rng.random() < 0.3:
            prev.append(0)
        else:
            prev.append(rng.choice([0, rng.randint(m, i + 1 - m), i + 1 - m]))
    return {"prev": prev}


def impl_backtrack(case):
    from skchange.change_detectors.pelt import get_changepoints

    try:
        a = np.array(case["prev"], dtype=np.int64)
        keep = a.copy()
        out = get_changepoints(a)
        return {"outcome": "ok", "cps": [int(v) for v in out], "mutated": not np.array_equal(a, keep)}
    except Exception as ex:
        return {"outcome": "raises:" + type(ex).__name__, "msg": str(ex)[:200]}


def backtrack_line(case):
    return "genpeltcp " + (" ".join(str(v) for v in case["prev"]) or "-")


def canon_backtrack(case, r):
    return "[" + ", ".join(str(v) for v in r["cps"]) + "]" if r["outcome"] == "ok" else "raises"


def oracle_backtrack(case, r):
    """the changepoints are the starts of the segments reached by following the back-pointers from the end, in increasing
    order, without the artificial start 0"""
    prev = case["prev"]
    want, i = [], len(prev) - 1
    while i >= 0:
        want.append(prev[i])
        i = prev[i] - 1
    want = sorted(want)[1:] if want else []
    if r["outcome"] != "ok":
        return f"get_changepoints raises {r['outcome']} on back-pointers {prev}"
    if r["cps"] != want:
        return f"get_changepoints({prev}) = {r['cps']}; following the back-pointers from the end gives the segment starts {want}"
    if r["mutated"]:
        return "get_changepoints modified its argument"
    return None


def run(chk: core.Check):
    tier = chk.tier
    N = {"quick": 3000, "thorough": 60000}[tier]
    nmax = {"quick": 14, "thorough": 30}[tier]
    status = {}

    def pre():
        st, _ = translate.run()
        status.update(st)
    with core.LeanLock():  # the translator writes the generated Lean files
        pre()
    skipm = {mm: "translator (route T2): " + ", ".join(f"{k}: {status.get(k, {}).get('reason')}" for k in ks
                                                      if status.get(k, {}).get("state") != "translated")
             for mm, ks in L1_LOOPS.items() if any(status.get(k, {}).get("state") != "translated" for k in ks)}
    chk.lean(extra_modules=list(L1_LOOPS), skip_modules=skipm, pre_build=pre)
    chk.notes["translator"] = {k: status.get(k, {}).get("state") for ks in L1_LOOPS.values() for k in ks}
    tr = not skipm
    chk.rules.append(
        "gen-backtrack: back-pointer arrays of length 0..%d as the recursion leaves them (zero block, pointers at the admissible "
        "extremes and inside); `get_changepoints` against following the pointers directly and, line by line, against the Lean "
        "definition regenerated from its source (driver op `genpeltcp`), which Skc/L1/LoopsPelt.lean proves equal to the model's "
        "`backtrack` and to the segmentation `pelt_optimal` is about. " % (4 * nmax))
    chk.run_stream("gen-backtrack", core.Gen(gen_backtrack, core.rng_for(chk.seed, "C02/backtrack"), nmax, N // 3), impl_backtrack,
                   line=backtrack_line if tr else None, canon=canon_backtrack if tr else None, oracle=oracle_backtrack,
                   site="get_changepoints", nontrivial=lambda c, r: r.get("outcome") == "ok" and len(r["cps"]) > 0)
    chk.rules.append(
        "table streams: super-additive integer tables (ties frequent), m in 1..4, n in 2m..%d, penalties incl. 0 and "
        "non-integers, through the public API with an exact penalty (skipped and counted when no float scale gives it "
        "exactly); boundary stream: tables on which the model's answer depends on the pruning delay; builtin stream: "
        "L2 / Gaussian costs on small-integer data. Non-trivial = at least one changepoint returned; distinct by hash of the case" % nmax
    )
    chk.assumptions += [
        "float arithmetic on the small integers / quarter-integers of the table streams is exact",
        "builtin-cost stream compares under a 1e-7 relative tolerance (float sums in different orders)",
    ]
    nontriv = lambda c, r: r.get("outcome") == "ok" and len(r.get("cps", [])) > 0  # noqa: E731

    def stream(name, cases, impl):
        res = chk.run_stream(name, cases, impl, line=table_line, canon=canon, oracle=oracle, skip=skip,
                             nontrivial=nontriv, site="PELT/" + name, describe=lambda c: {k: c[k] for k in ("n", "m", "K")} | {"c_row0": c["c"][0]})
        if chk.streams[name]["disagreements"]:
            pol = policy_search(chk, name, cases, res)
            chk.notes[f"policy[{name}]"] = pol
            if pol:  # inside the proved family: not a broken correspondence
                chk.violations = [v for v in chk.violations if not (v["kind"] == "correspondence" and v["stream"] == name)]
                chk.streams[name]["agrees_under_policy"] = pol
        return res

    corpus = load_corpus("table-")
    if corpus:
        stream("corpus", corpus, impl_api)
    corpus_b = load_corpus("builtin-")
    if corpus_b:
        chk.run_stream("corpus-builtin", corpus_b, impl_builtin, oracle=oracle_builtin, skip=skip_builtin,
                       nontrivial=nontriv, site="PELT/builtin")
    rng = core.rng_for(chk.seed, "C02/long")
    chk.run_stream("long", [long_case(rng) for _ in range({"quick": 4, "thorough": 16}[tier])], impl_long, oracle=oracle_long, site="PELT/long",
                   per_case_timeout=300, nontrivial=nontriv, describe=lambda c: {k: v for k, v in c.items() if k != "x"})
    rng = core.rng_for(chk.seed, "C02/boundary")
    mined = mine_boundary(rng, {"quick": 6000, "thorough": 120000}[tier], nmax)
    chk.notes["boundary_mined"] = len(mined)
    stream("boundary", mined, impl_api)
    rng = core.rng_for(chk.seed, "C02/table")
    stream("table-api", core.Gen(lambda r, k: gen_table_case(r, k, 4), rng, nmax, N), impl_api)
    rng = core.rng_for(chk.seed, "C02/direct")
    stream("table-direct", core.Gen(lambda r, k: gen_table_case(r, k, 4), rng, nmax, N // 3), impl_direct)
    rng = core.rng_for(chk.seed, "C02/builtin")
    chk.run_stream("builtin", core.Gen(gen_builtin_case, rng, min(nmax, 20), N // 3), impl_builtin,
                   oracle=oracle_builtin, skip=skip_builtin, nontrivial=nontriv, site="PELT/builtin",
                   describe=lambda c: c)
    return chk.finish(shrinker=shrinker, trusted_extra=["the loop translator harness/translate_loops.py (reading of get_changepoints: while loop with an iteration bound, Int counter, array indexing, xs[-2::-1]), validated line by line in stream gen-backtrack"])


def replay(path):
    v = json.load(open(path))
    case = v["case"]
    if case is None:
        print(json.dumps(v, indent=1)[:3000])
        return 0
    if v["stream"] == "long":
        r = impl_long(case)
        print("implementation:", {k: (r[k] if k != "opt" else "...") for k in r})
        print("oracle:", oracle_long(case, r))
        return 0
    if v["stream"] in ("builtin", "corpus-builtin"):
        r = impl_builtin(case)
        print("implementation:", {k: r[k] for k in r if k != "tab"})
        print("oracle:", oracle_builtin(case, r))
        return 0
    impl = impl_direct if v["stream"] == "table-direct" else impl_api
    r = impl(case)
    print("implementation:", canon(case, r))
    print("model         :", core.run_driver([table_line(case)])[0])
    print("oracle        :", oracle(case, r) if not skip(case, r) else "skipped")
    return 0
