"""C15 — thresholds and penalties follow their documented formulas and act monotonically.

Lean: Skc/Props/C15.lean + L1 module Skc/L1/Formulas.lean over the translator output.
Tie: route T (formulas regenerated from /repo; Float instantiation vs the implementation's functions
on a grid) and route K numeric: fitted threshold_/penalty_ = scale x default on a grid of (n, p,
scale, …); MVCAPA families (sign, monotonicity, proportionality, dense / sparse structure, combined
= pointwise minimum of the implementation's own three families); tuned thresholds vs the quantile
definition and the exceedance bound; PELT changepoint counts for increasing penalties."""
from __future__ import annotations

import json
import math
import struct

import numpy as np

from .. import core, translate

L1 = {"Skc.L1.Formulas": ["capa_penalty", "dense_mvcapa_penalty", "sparse_mvcapa_penalty", "pelt_default_penalty",
                          "sbs_default_threshold", "cbs_default_threshold"]}


def bits(x):
    return str(struct.unpack("<Q", struct.pack("<d", float(x)))[0])


def unbits(s):
    return struct.unpack("<d", struct.pack("<Q", int(s)))[0]


# ----------------------------------------------------------------------------------- formulas


def formula_cases(tier):
    ns = [2, 3, 5, 10, 37, 100, 1000] + ([2000, 12345] if tier == "thorough" else [])
    out = []
    for n in ns:
        for p in (1, 2, 3, 6, 32, 45, 64):
            for k in (1, 2, 3):
                for scale in (0.0, 0.5, 1.0, 2.0, 3.7):
                    out.append({"n": n, "p": p, "k": k, "scale": scale, "L": min(n, 200), "b": max(1, n // 4), "level": 0.01})
    return out


def impl_formulas(c):
    from skchange.anomaly_detectors import CircularBinarySegmentation as CBS
    from skchange.anomaly_detectors import mvcapa as mv
    from skchange.change_detectors import PELT, MovingWindow as MW, SeededBinarySegmentation as SBS

    n, p, k, s = c["n"], c["p"], c["k"], c["scale"]
    form = core._bits(c, 0, 3)  # the same numbers as Python ints / floats, as NumPy scalars, or with an integral scale passed as an int
    if form == 1:
        n, p, k, s = np.int64(n), np.int64(p), np.int64(k), np.float64(s)
    elif form == 2 and float(s) == int(s):
        s = int(s)
    out = {"outcome": "ok"}
    try:
        out["capa_penalty"] = [float(mv.capa_penalty(n, k * p, s))]
        a, b = mv.dense_mvcapa_penalty(n, p, k, s)
        out["dense_mvcapa_penalty"] = [float(a), [float(v) for v in b]]
        a, b = mv.sparse_mvcapa_penalty(n, p, k, s)
        out["sparse_mvcapa_penalty"] = [float(a), [float(v) for v in b]]
        if p >= 2:
            mv.intermediate_mvcapa_penalty(n, p, 3 - int(k) if int(k) in (1, 2) else 1, s)  # the same shape was just asked for with another parameter count
            a, b = mv.intermediate_mvcapa_penalty(n, p, k, s)
            out["intermediate"] = [float(a), [float(v) for v in b]]
            # the documented formula, transcribed independently (scipy's chi-square quantile and density)
            from scipy.stats import chi2

            nn, pp, kk, ss = int(n), int(p), int(k), float(s)
            psi_ = math.log(nn)
            pen = []
            for j in range(1, pp):
                cj = chi2.ppf(1 - j / pp, kk)
                fj = chi2.pdf(cj, kk)
                pen.append(ss * (2 * (psi_ + math.log(pp)) + j * kk + 2 * pp * cj * fj + 2 * math.sqrt((j * kk + 2 * pp * cj * fj) * (psi_ + math.log(pp)))))
            out["intermediate_formula"] = [float(v) for v in np.diff(np.array(pen), prepend=0.0, append=pen[-1])]
        a, b = mv.combined_mvcapa_penalty(n, p, k, s)
        out["combined"] = [float(a), [float(v) for v in b]]
        out["pelt_default_penalty"] = [float(PELT.get_default_penalty(n, p))]
        out["sbs_default_threshold"] = [float(SBS.get_default_threshold(n, p))]
        out["cbs_default_threshold"] = [float(CBS.get_default_threshold(n, p, c["L"]))]
        out["mw_default_threshold"] = [float(MW.get_default_threshold(n, p, c["b"], c["level"]))] if n // c["b"] >= 2 else None
        return out
    except Exception as ex:
        return {"outcome": "other:" + type(ex).__name__, "msg": str(ex)[:200]}


def formula_lines(c):
    n, p, k, s = c["n"], c["p"], c["k"], c["scale"]
    B = bits
    return {
        "capa_penalty": f"kern capa_penalty {B(n)} {B(k * p)} {B(s)} |",
        "dense_mvcapa_penalty": f"kern dense_mvcapa_penalty {B(n)} {B(p)} {B(k)} {B(s)} |",
        "sparse_mvcapa_penalty": f"kern sparse_mvcapa_penalty {B(n)} {B(p)} {B(k)} {B(s)} |",
        "pelt_default_penalty": f"kern pelt_default_penalty {B(n)} {B(p)} |",
        "sbs_default_threshold": f"kern sbs_default_threshold {B(n)} {B(p)} |",
        "cbs_default_threshold": f"kern cbs_default_threshold {B(n)} {B(p)} {B(c['L'])} |",
        "mw_default_threshold": f"kern mw_default_threshold {B(n)} {B(p)} {B(c['b'])} {B(c['level'])} |",
    }


def oracle_formulas(c, r):
    """the documented formulas and the structural claims of C15, directly"""
    if r["outcome"] != "ok":
        return f"penalty / threshold function raised {r['outcome']} {r.get('msg', '')}"
    n, p, k, s = c["n"], c["p"], c["k"], c["scale"]
    psi = math.log(n)
    close = lambda a, b: abs(a - b) <= 1e-12 * (1 + abs(b))  # noqa: E731
    capa = lambda kk: s * (kk + 2 * math.sqrt(kk * psi) + 2 * psi)  # noqa: E731
    if not close(r["capa_penalty"][0], capa(k * p)):
        return f"capa_penalty(n={n}, n_params={k * p}, scale={s}) = {r['capa_penalty'][0]}; documented k + 2 sqrt(k log n) + 2 log n times scale = {capa(k * p)}"
    a, b = r["dense_mvcapa_penalty"]
    if not close(a, capa(p * k)) or any(v != 0 for v in b) or len(b) != p:
        return f"dense penalty ({a}, {b}) is not CAPA's penalty for p*k={p * k} parameters ({capa(p * k)}) with no per-component part"
    a, b = r["sparse_mvcapa_penalty"]
    if not close(a, 2 * s * psi) or len(b) != p or any(not close(v, 2 * s * math.log(k * p)) for v in b):
        return f"sparse penalty ({a}, {b}) is not scale x (2 log n, 2 log(k p) per component) = ({2 * s * psi}, {2 * s * math.log(k * p)})"
    if not close(r["pelt_default_penalty"][0], 2 * p * psi):
        return f"PELT default penalty {r['pelt_default_penalty'][0]} is not 2 p log n = {2 * p * psi}"
    if not close(r["sbs_default_threshold"][0], 2 * p * math.sqrt(psi)):
        return f"seeded binary segmentation default threshold {r['sbs_default_threshold'][0]} is not 2 p sqrt(log n) = {2 * p * math.sqrt(psi)}"
    fams = {"dense": r["dense_mvcapa_penalty"], "sparse": r["sparse_mvcapa_penalty"], "combined": r["combined"]}
    if "intermediate_formula" in r:
        got, want = r["intermediate"][1], r["intermediate_formula"]
        if r["intermediate"][0] != 0.0 or len(got) != len(want) or any(not close(a, b) for a, b in zip(got, want)):
            return f"intermediate penalty {r['intermediate']} is not the documented formula (0, {want}) for n={n}, p={p}, k={k}, scale={s}"
    if "intermediate" in r:
        fams["intermediate"] = r["intermediate"]
    cum = {}
    for name, (al, be) in fams.items():
        cs = [al + sum(be[: j + 1]) for j in range(len(be))]
        cum[name] = cs
        tol = 1e-9 * (1 + abs(cs[-1]))
        if not al >= -tol or any(not v >= -tol for v in cs):
            return f"{name} penalty is negative: alpha={al}, cumulative={cs}"
        if any(y < x - tol for x, y in zip(cs, cs[1:])):
            return f"{name} penalty is not non-decreasing in the number of components: {cs}"
    if p >= 2 and "intermediate" in r:
        want = [min(cum["dense"][j], cum["sparse"][j], cum["intermediate"][j]) for j in range(p)]
        if any(not abs(x - y) <= 1e-9 * (1 + abs(y)) for x, y in zip(cum["combined"], want)):
            return f"combined penalty {cum['combined']} is not the pointwise minimum {want} of dense / sparse / intermediate (scale={s})"
    return None


def proportional_cases(rng, count):
    return [{"n": rng.choice([5, 20, 77, 300]), "p": rng.randint(1, 5), "k": rng.randint(1, 3), "s1": rng.choice([0.3, 1.0, 2.5]),
             "c": rng.choice([0.5, 2.0, 3.0, 10.0])} for _ in range(count)]


def impl_prop(c):
    from skchange.anomaly_detectors import mvcapa as mv

    out = {"outcome": "ok", "fam": {}}
    for name in ["dense", "sparse", "intermediate", "combined"]:
        if name == "intermediate" and c["p"] < 2:
            continue
        f = mv.capa_penalty_factory(name)
        a1, b1 = f(c["n"], c["p"], c["k"], scale=c["s1"])
        a2, b2 = f(c["n"], c["p"], c["k"], scale=c["s1"] * c["c"])
        out["fam"][name] = [float(a1), [float(v) for v in b1], float(a2), [float(v) for v in b2]]
    return out


def oracle_prop(c, r):
    for name, (a1, b1, a2, b2) in r["fam"].items():
        f = c["c"]
        if not abs(a2 - f * a1) <= 1e-9 * (1 + abs(a2)) or any(not abs(y - f * x) <= 1e-9 * (1 + abs(y)) for x, y in zip(b1, b2)):
            return f"{name} penalty is not proportional to the scale: scale x{f} maps ({a1}, {b1}) to ({a2}, {b2})"
    return None


# ------------------------------------------------------------------------------ fitted values


def fitted_cases(rng, count):
    out = []
    for _ in range(count):
        det = rng.choice(["pelt", "sbs", "cbs", "mw", "capa"])
        n = rng.randint(12, 60)
        p = rng.randint(1, 3)
        out.append({"det": det, "n": n, "p": p, "scale": rng.choice([0.0, 0.3, 1.0, 2.0, 5.5]), "b": rng.randint(1, 5),
                    "L": rng.choice([10, 40, 200]), "level": rng.choice([0.01, 0.05]), "seed": rng.randint(0, 10**6)})
    return out


def impl_fitted(c):
    from skchange.anomaly_detectors import CAPA, CircularBinarySegmentation as CBS
    from skchange.anomaly_detectors.mvcapa import capa_penalty
    from skchange.change_detectors import PELT, MovingWindow as MW, SeededBinarySegmentation as SBS

    n, p, s = c["n"], c["p"], c["scale"]
    X = np.random.default_rng(c["seed"]).normal(size=(n, p))
    form = core._bits(c, 0, 3)
    if form == 1:  # NumPy scalars of several types, whenever they hold the value exactly
        cands = [np.float64(s)] + ([np.float32(s)] if float(np.float32(s)) == float(s) else []) + \
                ([np.int64(int(s)), np.int32(int(s))] if float(s) == int(s) else [])
        s = cands[core._bits(c, 8, 16) % len(cands)]
    elif form == 2 and float(s) == int(s):
        s = int(s)
    try:
        if c["det"] == "pelt":
            got, want = PELT(penalty_scale=s).fit(X).penalty_, s * PELT.get_default_penalty(n, p)
        elif c["det"] == "sbs":
            got, want = SBS(threshold_scale=s).fit(X).threshold_, s * SBS.get_default_threshold(n, p)
        elif c["det"] == "cbs":
            got, want = CBS(threshold_scale=s, max_interval_length=c["L"]).fit(X).threshold_, s * CBS.get_default_threshold(n, p, c["L"])
        elif c["det"] == "mw":
            got = MW(bandwidth=c["b"], threshold_scale=s, level=c["level"]).fit(X).threshold_
            want = s * MW.get_default_threshold(n, p, c["b"], c["level"])
        else:
            d = CAPA(collective_penalty_scale=s, point_penalty_scale=s).fit(X)
            got, want = d.collective_penalty_, capa_penalty(n, p, s)  # L2 saving: one parameter per variable
        return {"outcome": "ok", "got": float(got), "want": float(want)}
    except Exception as ex:
        return {"outcome": "other:" + type(ex).__name__, "msg": str(ex)[:200]}


def oracle_fitted(c, r):
    if r["outcome"] != "ok":
        return f"fit raised {r['outcome']} {r.get('msg', '')}"
    if not abs(r["got"] - r["want"]) <= 1e-12 * (1 + abs(r["want"])):
        return f"{c['det']}: fitted value {r['got']} is not scale x default = {r['want']} (n={c['n']}, p={c['p']}, scale={c['scale']})"
    return None


# ---------------------------------------------------------------------------- tuned thresholds


def tuned_cases(rng, count):
    return [{"det": rng.choice(["mw", "sbs", "cbs"]), "n": rng.choice([20, 40, 75, 150, 151]), "p": rng.randint(1, 2),
             "level": rng.choice([0.01, 0.05, 0.1, 0.3, 0.5]), "b": rng.randint(1, 5), "seed": rng.randint(0, 10**6),
             "ties": rng.random() < 0.3} for _ in range(count)]


def impl_tuned(c):
    from skchange.anomaly_detectors import CircularBinarySegmentation as CBS
    from skchange.change_detectors import MovingWindow as MW, SeededBinarySegmentation as SBS

    g = np.random.default_rng(c["seed"])
    X = g.integers(-2, 3, size=(c["n"], c["p"])).astype(float) if c["ties"] else g.normal(size=(c["n"], c["p"]))
    # in half of the cases the same instance was fitted before on OTHER data of the same shape (much larger changes): the
    # tuned threshold must be that of the data of the last fit
    prev = None
    if core._bits(c, 0, 2):
        prev = g.normal(size=X.shape) * 9.0
        prev[len(prev) // 2:] += 40.0
    try:
        if c["det"] == "mw":
            det = MW(bandwidth=c["b"], threshold_scale=None, level=c["level"])
            if prev is not None:
                det.fit(prev)
            det.fit(X)
            scores = np.asarray(det.transform_scores(X)).reshape(-1)
        elif c["det"] == "sbs":
            gf, mx = [1.5, 1.2, 2.0][core._bits(c, 4, 3)], [200, 12, 30][core._bits(c, 8, 3)]  # tuning must use the configured grid
            det = SBS(threshold_scale=None, level=c["level"], min_segment_length=2, growth_factor=gf, max_interval_length=mx)
            if prev is not None:
                det.fit(prev)
            det.fit(X)
            det.predict(X)
            scores = det.scores["score"].to_numpy()
        else:
            det = CBS(threshold_scale=None, level=c["level"], min_segment_length=2, max_interval_length=[20, 12, 30][core._bits(c, 8, 3)],
                      growth_factor=[1.5, 1.2, 2.0][core._bits(c, 4, 3)])
            if prev is not None:
                det.fit(prev)
            det.fit(X)
            det.predict(X)
            scores = det.scores["score"].to_numpy()
        return {"outcome": "ok", "thr": float(det.threshold_), "scores": [float(v) for v in scores]}
    except Exception as ex:
        return {"outcome": "other:" + type(ex).__name__, "msg": str(ex)[:200]}


def oracle_tuned(c, r):
    if r["outcome"] != "ok":
        return f"tuning raised {r['outcome']} {r.get('msg', '')}"
    sc, thr, lev = np.array(r["scores"]), r["thr"], c["level"]
    N = len(sc)
    exceed = int((sc > thr).sum())
    if exceed > lev * N + 1e-9:
        return f"{exceed} of the {N} training scores exceed the tuned threshold: more than the fraction level={lev}"
    lo, hi = np.quantile(sc, 1 - lev, method="lower"), np.quantile(sc, 1 - lev, method="higher")
    if not (lo - 1e-12 <= thr <= hi + 1e-12):
        return f"tuned threshold {thr} is not a (1 - level) quantile of the training scores (between {lo} and {hi})"
    return None


# ------------------------------------------------------------- combined = pointwise minimum, swept over sizes


def combined_cases(tier):
    ks = (1, 2, 3, 4) if tier == "quick" else (1, 2, 3, 4, 5, 6)
    top = 3000 if tier == "quick" else 100000
    return [{"p": p, "k": k, "scale": [1.0, 2.3][(p + k) % 2], "top": top} for p in range(2, 65) for k in ks]


def impl_combined(c):
    """for one (p, parameters per variable): every n in 2..60 and a geometric grid up to 3000 (to 100000 in the thorough tier)"""
    from skchange.anomaly_detectors import mvcapa as mv

    p, k, s = c["p"], c["k"], c["scale"]
    ns, v = list(range(2, 61)), 60.0
    while v < c.get("top", 3000):
        v *= 1.07
        ns.append(int(v))
    try:
        for n in ns:
            fams = [mv.dense_mvcapa_penalty(n, p, k, s), mv.sparse_mvcapa_penalty(n, p, k, s), mv.intermediate_mvcapa_penalty(n, p, k, s)]
            cum = [np.cumsum(np.asarray(b, dtype=float)) + float(a) for a, b in fams]
            want = np.minimum(np.minimum(cum[0], cum[1]), cum[2])
            a, b = mv.combined_mvcapa_penalty(n, p, k, s)
            got = np.cumsum(np.asarray(b, dtype=float)) + float(a)
            bad = np.where(~(np.abs(got - want) <= 1e-9 * (1 + np.abs(want))))[0]
            if len(bad):
                j = int(bad[0])
                return {"outcome": "ok", "bad": {"n": n, "j": j + 1, "got": float(got[j]), "want": float(want[j]),
                                               "fams": [float(x[j]) for x in cum]}}
        return {"outcome": "ok", "bad": None, "sizes": len(ns)}
    except Exception as ex:
        return {"outcome": "other:" + type(ex).__name__, "msg": str(ex)[:200]}


def oracle_combined(c, r):
    if r["outcome"] != "ok":
        return f"penalty family raised {r['outcome']} {r.get('msg', '')}"
    b = r["bad"]
    if b:
        return (f"combined penalty for n={b['n']}, p={c['p']}, {c['k']} parameters per variable, scale {c['scale']}: the total for {b['j']} "
                f"components is {b['got']!r}, the pointwise minimum of dense / sparse / intermediate {b['fams']} is {b['want']!r}")
    return None


# ------------------------------------------------------------------------------ PELT monotone


def mono_cases(rng, count):
    out = []
    for _ in range(count):
        c = {"n": rng.randint(10, 40), "m": rng.randint(1, 3), "s1": rng.choice([0.0, 0.05, 0.1, 0.3, 0.5]),
             "f": rng.choice([1.5, 2.0, 4.0, 10.0]), "seed": rng.randint(0, 10**6), "data": "steps"}
        if rng.random() < 0.5:
            # weak structure under noise and penalties a few per cent apart: tentative changepoints are retracted later on
            c.update({"n": rng.randint(30, 60), "m": rng.randint(2, 3), "s1": rng.choice([0.15, 0.2, 0.25, 0.3, 0.35, 0.4]),
                      "f": rng.choice([1.03, 1.1, 1.25]), "data": rng.choice(["noise", "noisy-steps"])})
        out.append(c)
    return out


def mono_data(c):
    g = np.random.default_rng(c["seed"])
    n = c["n"]
    if c.get("data", "steps") == "steps":
        return g.integers(-3, 4, size=(n, 1)).astype(float) + np.repeat(g.integers(-3, 4, size=4), -(-n // 4))[:n, None]
    x = np.round(g.normal(size=n), 2)
    if c["data"] == "noisy-steps":
        x = x + np.repeat(np.round(g.normal(scale=2.0, size=6), 2), -(-n // 6))[:n]
    return x.reshape(-1, 1)


def _pen_cost(x, cps, pen):
    b = [0] + list(cps) + [len(x)]
    return sum(float(((x[a:e] - x[a:e].mean()) ** 2).sum()) for a, e in zip(b, b[1:])) + pen * len(cps)


def _optimal_cost(x, pen, m):
    """optimal partitioning by the plain O(n^2) recursion (squared-error cost, segments of at least m rows)"""
    n = len(x)
    s1, s2 = np.concatenate(([0.0], np.cumsum(x))), np.concatenate(([0.0], np.cumsum(x * x)))
    best = [float("inf")] * (n + 1)
    best[0] = -pen
    for t in range(m, n + 1):
        for a in range(0, t - m + 1):
            if best[a] < float("inf"):
                v = best[a] + (s2[t] - s2[a] - (s1[t] - s1[a]) ** 2 / (t - a)) + pen
                if v < best[t]:
                    best[t] = v
    return best[n]


def impl_mono(c):
    from skchange.change_detectors import PELT

    X = mono_data(c)
    x = X[:, 0]
    s2 = (c["s1"] if c["s1"] > 0 else 0.02) * c["f"]

    def run(s):
        d = PELT(penalty_scale=s, min_segment_length=c["m"]).fit(X)
        cps = [int(v) for v in d.predict(X)["ilocs"]]
        return cps, float(d.penalty_)

    try:
        (c1, p1), (c2, p2) = run(c["s1"]), run(s2)
        out = {"outcome": "ok", "k1": len(c1), "k2": len(c2), "s2": s2}
        # the monotonicity theorem is about exact minimisers: is each run one?  (hypothesis of the theorem, checked on this input)
        gaps = [_pen_cost(x, cps, pen) - _optimal_cost(x, pen, c["m"]) for cps, pen in ((c1, p1), (c2, p2))]
        tol = 1e-9 * (1.0 + float((x * x).sum()))
        if max(gaps) > tol:
            out["suboptimal"] = {"gap": max(gaps), "cps": [c1, c2], "penalties": [p1, p2]}
            # search this series for a pair of penalties on which the count itself goes the wrong way
            lo = max(min(c["s1"], s2), 0.02)
            ladder = [lo * 1.02 ** k for k in range(-25, 45)]
            ks = [len(run(s)[0]) for s in ladder]
            for i in range(len(ladder)):
                for j in range(i + 1, len(ladder)):
                    if ks[j] > ks[i]:
                        out["ladder"] = [ladder[i], ks[i], ladder[j], ks[j]]
                        return out
        return out
    except Exception as ex:
        return {"outcome": "other:" + type(ex).__name__, "msg": str(ex)[:200]}


def oracle_mono(c, r):
    if r["outcome"] != "ok":
        return f"PELT raised {r['outcome']} {r.get('msg', '')}"
    if r["k2"] > r["k1"]:
        return f"raising the penalty scale from {c['s1']} to {r['s2']} increased the number of changepoints from {r['k1']} to {r['k2']}"
    if r.get("ladder"):
        a, ka, b, kb = r["ladder"]
        return (f"raising the penalty scale from {a:.6g} to {b:.6g} increased the number of changepoints from {ka} to {kb} "
                f"(series of {c['n']} rows, min_segment_length={c['m']}, data seed {c['seed']}, kind {c.get('data')})")
    return None


# ------------------------------------------------------------------------------------ the check


def run(chk: core.Check):
    tier = chk.tier
    N = {"quick": 400, "thorough": 8000}[tier]
    status = {}
    with core.LeanLock():
        st, _ = translate.run()
        status.update(st)
    skip = {m: "translator: " + ", ".join(k for k in ks if status[k]["state"] != "translated")
            for m, ks in L1.items() if any(status[k]["state"] != "translated" for k in ks)}
    chk.lean(extra_modules=list(L1), skip_modules=skip)
    chk.notes["translator"] = {k: v["state"] for k, v in status.items() if k in L1["Skc.L1.Formulas"] + ["mw_default_threshold"]}
    chk.rules.append(
        "formulas: grid n in {2..1000(12345)} x p in {1,2,3,6} x k in 1..3 x 5 scales: implementation functions vs documented formulas, "
        "family structure (sign, monotone cumulative, combined = pointwise min) and the Float instantiation of the generated formulas; "
        "proportional: scale pairs for the four families; fitted: threshold_/penalty_ of PELT/SBS/CBS/MW/CAPA vs scale x default; tuned: "
        "MW/SBS/CBS tuned on Gaussian or tie-rich integer data vs the quantile definition and the exceedance bound; mono: PELT "
        "changepoint counts for penalty pairs. Non-trivial: all cases (each evaluates a distinct parameter point)"
    )
    chk.assumptions += ["intermediate family: scipy chi2 uninterpreted, judged numerically only",
                        "tuned-threshold theorem assumes numpy's method='higher' index is >= (N-1)(1-level), as its documentation states"]
    fc = formula_cases(tier)
    res = chk.run_stream("formulas", fc, impl_formulas, oracle=oracle_formulas, site="penalty/threshold functions")
    # translator validation on the same grid
    lines, owner = [], []
    for i, c in enumerate(fc):
        if res[i]["outcome"] != "ok":
            continue
        for name, ln in formula_lines(c).items():
            if status.get(name, {}).get("state") == "translated" and res[i].get(name) is not None:
                lines.append(ln)
                owner.append((i, name))
    outs = core.run_driver(lines)
    dis, worst = 0, 0.0
    for (i, name), o in zip(owner, outs):
        vals = [unbits(t) for t in o.split()] if o != "bad-op" else [float("nan")]
        want = res[i][name]
        flat = [want[0]] + ([want[1][0]] if len(want) > 1 else [])
        for g, w in zip(vals, flat):
            rel = abs(g - w) / (1 + abs(w)) if g == g else float("inf")
            worst = max(worst, rel)
            if not rel <= 1e-11:
                dis += 1
                if dis <= 3:
                    chk.violations.append({"kind": "correspondence", "stream": "translator-float", "case": fc[i], "impl": want, "impl_canon": w,
                                           "model": g, "msg": f"generated formula {name} (Float) and the implementation disagree",
                                           "site": "translator", "signature": "correspondence"})
    chk.streams["translator-float"] = {"cases": len(lines), "disagreements": dis, "max_rel_diff": worst}
    chk.count("translator-float", len(lines))
    rng = core.rng_for(chk.seed, "C15/prop")
    chk.run_stream("proportional", proportional_cases(rng, N), impl_prop, oracle=oracle_prop, site="penalty families")
    rng = core.rng_for(chk.seed, "C15/fitted")
    chk.run_stream("fitted", fitted_cases(rng, N), impl_fitted, oracle=oracle_fitted, site="fit")
    rng = core.rng_for(chk.seed, "C15/tuned")
    chk.run_stream("tuned", tuned_cases(rng, N), impl_tuned, oracle=oracle_tuned, site="tune_threshold",
                   describe=lambda c: c)
    rng = core.rng_for(chk.seed, "C15/mono")
    chk.rules.append("combined-min: for every p in 2..64 and 1..4 parameters per variable (1..6 thorough), every n in 2..60 and a geometric "
                     "grid of sizes up to 3000: the combined family is the pointwise minimum of the dense, sparse and intermediate totals")
    chk.run_stream("combined-min", combined_cases(tier), impl_combined, oracle=oracle_combined, site="combined_mvcapa_penalty",
                   per_case_timeout=120, nontrivial=lambda c, r: r.get("outcome") == "ok" and c["p"] >= 2)
    mcases = mono_cases(rng, N)
    mres = chk.run_stream("mono", mcases, impl_mono, oracle=oracle_mono, site="PELT/penalty-monotone",
                          nontrivial=lambda c, r: r.get("outcome") == "ok" and r["k1"] > r["k2"], per_case_timeout=60)
    # monotonicity is proved for exact minimisers (pelt_monotone_in_penalty over pelt_optimal): a run of this stream that is not one
    # breaks the tie even where the counts still happen to be ordered -> reported as a correspondence failure when the search
    # of the same series found no pair of penalties with the counts the wrong way round
    sub = [(c, r) for c, r in zip(mcases, mres or []) if isinstance(r, dict) and r.get("suboptimal") and not r.get("ladder")
           and not r.get("k2", 0) > r.get("k1", 0)]
    chk.streams["mono"]["runs_not_exact_minimisers"] = len(sub)
    for c, r in sub[:3]:
        chk.violations.append({"kind": "correspondence", "stream": "mono", "case": c, "impl": r,
                               "msg": "a PELT run of the monotonicity stream is not an exact minimiser of the penalised cost (gap "
                                      f"{r['suboptimal']['gap']:.3g}): the hypothesis of the monotonicity theorem fails on this input",
                               "site": "PELT/penalty-monotone", "signature": "correspondence"})
    return chk.finish(trusted_extra=["the translator harness/translate.py, validated numerically on the formula grid"])


def replay(path):
    v = json.load(open(path))
    case = v["case"]
    if case is None:
        print(json.dumps(v, indent=1)[:4000])
        return 0
    f = {"formulas": (impl_formulas, oracle_formulas), "proportional": (impl_prop, oracle_prop), "fitted": (impl_fitted, oracle_fitted),
         "tuned": (impl_tuned, oracle_tuned), "mono": (impl_mono, oracle_mono), "combined-min": (impl_combined, oracle_combined)}.get(v["stream"])
    if f:
        r = f[0](case)
        print("implementation:", {k: r[k] for k in r if k != "scores"}, "\noracle:", f[1](case, r))
    else:
        print(json.dumps(v, indent=1)[:3000])
    return 0
