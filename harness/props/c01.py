"""C01 — cost values equal their definition on every admissible interval.

Lean: Skc/Props/C01.lean (closed forms on prefix sums = direct definitions, all data and intervals)
+ the L1 modules over the translator output (generated kernel = closed form).
Tie: route T (translator re-run on /repo on every run; L1 re-checked; the Float instantiation of the
generated kernels compared with `evaluate` on random matrices to validate the per-element reading of
the NumPy broadcasting) and route K (all six cost / mode combinations against the direct definition
evaluated in exact rational arithmetic on the rows X[s:e]; batch / order / history independence)."""
from __future__ import annotations

import json
import math
import struct
from fractions import Fraction

import numpy as np

from .. import core, translate

L1 = {"Skc.L1.L2Cost": ["l2_cost_optim", "l2_cost_fixed", "l2_saving"],
      "Skc.L1.Gauss": ["var_from_sums", "gaussian_var_cost_optim", "gaussian_var_cost_fixed"]}
FLOOR = Fraction(1, 10**16)


def bits(x):
    return str(struct.unpack("<Q", struct.pack("<d", float(x)))[0])


def unbits(s):
    return struct.unpack("<d", struct.pack("<Q", int(s)))[0]


# -------------------------------------------------------------------------------------- cases


def gen_data(rng, n, p, kind):
    if kind == "int":
        X = [[rng.randint(-4, 4) for _ in range(p)] for _ in range(n)]
    elif kind == "float":
        X = [[round(rng.uniform(-3, 3), 3) for _ in range(p)] for _ in range(n)]
    elif kind == "const-col":  # a constant column (not necessarily the first): variance floor engaged
        j = rng.randrange(p)
        c = rng.randint(-2, 2)
        X = [[c if jj == j else rng.randint(-4, 4) for jj in range(p)] for _ in range(n)]
    elif kind == "collinear":  # exactly collinear columns: singular sample covariance
        X = [[rng.randint(-4, 4)] for _ in range(n)]
        X = [[r[0] * (jj + 1) + (jj if jj else 0) for jj in range(p)] for r in X]
    elif kind == "small":  # scale 1e-4: variance ~1e-7, nine orders above the floor
        X = [[rng.randint(-40, 40) * 1e-4 for _ in range(p)] for _ in range(n)]
    else:  # scale 1e-6: variance ~1e-10, still six orders above the 1e-16 floor
        X = [[rng.randint(-40, 40) * 1e-6 for _ in range(p)] for _ in range(n)]
    return X


def wide_case(rng):
    """many columns with a fixed covariance far from the unit scale: |log det| is in the hundreds or thousands"""
    p = rng.choice([100, 120])
    n = p + 2  # the multivariate cost needs p + 1 rows per interval
    sc2 = rng.choice([1e-4, 1e-4, 2500.0])
    X = [[rng.randint(-3, 3) * (sc2 ** 0.5) for _ in range(p)] for _ in range(n)]
    cov = [[sc2 * ((1.0 if i == j else 0.0) + 0.01) for j in range(p)] for i in range(p)]
    return {"n": n, "p": p, "cost": "gcov", "mode": "fixed", "kind": "wide", "X": X, "param": [0.0, cov], "form": "float", "refit": None}


def gen_case(rng, nmax):
    if rng.random() < 0.008:
        return wide_case(rng)
    p = rng.randint(1, 3)
    n = rng.randint(1, nmax)
    cost = rng.choice(["l2", "l2", "gvar", "gvar", "gcov"])
    mode = rng.choice(["optim", "fixed"])
    kind = rng.choice(["int", "int", "float", "const-col", "collinear", "small", "tiny"])
    X = gen_data(rng, n, p, kind)
    c = {"n": n, "p": p, "cost": cost, "mode": mode, "kind": kind, "X": X,
         # argument form of a fixed parameter, and whether the scorer was fitted before on the same array object holding other values
         "form": rng.choice(["float", "float", "int", "npint", "list"]), "refit": rng.choice([None, None, "same-object", "other-object"])}
    if kind == "int":  # whole-number data are also passed in integer dtypes (a fixed mean may still be fractional)
        c["xdtype"] = rng.choice(["float", "int64", "int32"])
    if mode == "fixed":
        percol = rng.random() < 0.5
        mean = [rng.randint(-2, 2) / 2 for _ in range(p)] if percol else rng.randint(-2, 2) / 2
        # fixed (co)variances on the scale of the data as well: correlations of order 1e-8 and below are ordinary
        # for data with standard deviation 1e-4 (an absolute tolerance in the code must not swallow them)
        sc2 = {"small": 1e-8, "tiny": 1e-12}.get(kind, 1.0) if rng.random() < 0.7 else rng.choice([1.0, 1e-6, 900.0])
        if cost == "l2":
            c["param"] = mean
        elif cost == "gvar":
            var = [rng.choice([0.5, 1.0, 2.0, 4.0]) * sc2 for _ in range(p)] if percol else rng.choice([0.5, 1.0, 2.0]) * sc2
            c["param"] = [mean, var]
        else:
            A = [[rng.randint(-2, 2) for _ in range(p)] for _ in range(p)]
            cov = [[(sum(A[i][k] * A[j][k] for k in range(p)) + (2 if i == j else 0)) * sc2 for j in range(p)] for i in range(p)]
            c["param"] = [mean, cov]
    return c


def _form(v, form):
    """a fixed parameter in one of the argument forms users pass: float / array of floats (as generated), or — when the
    value is integral — Python int, NumPy integer scalar, list of ints, integer array"""
    def integral(x):
        return float(x) == int(float(x)) and abs(float(x)) < 2**31

    if isinstance(v, list) and v and isinstance(v[0], list):  # matrix
        flat = [x for row in v for x in row]
        if form in ("int", "npint") and all(integral(x) for x in flat):
            return np.array(v, dtype=np.int64) if form == "npint" else [[int(x) for x in row] for row in v]
        return np.array(v, dtype=float) if form != "list" else v
    if isinstance(v, list):
        if form in ("int", "npint") and all(integral(x) for x in v):
            return np.array(v, dtype=np.int64) if form == "npint" else [int(x) for x in v]
        return np.array(v, dtype=float) if form != "list" else list(v)
    if form in ("int", "npint") and integral(v):
        return np.int64(int(v)) if form == "npint" else int(v)
    return v


def mk_cost(case):
    from skchange.costs import GaussianCovCost, GaussianVarCost, L2Cost

    prm = case.get("param")
    form = case.get("form", "float")
    if case["cost"] == "l2":
        return L2Cost(param=None if prm is None else _form(prm, form))
    if case["cost"] == "gvar":
        if prm is None:
            return GaussianVarCost()
        m, v = prm
        return GaussianVarCost(param=(_form(m, form), _form(v, form)))
    if prm is None:
        return GaussianCovCost()
    m, cov = prm
    return GaussianCovCost(param=(_form(m, form), _form(cov, form)))


def impl(case):
    X = np.array(case["X"], dtype={"int64": np.int64, "int32": np.int32}.get(case.get("xdtype"), float))
    n = case["n"]
    try:
        sc = mk_cost(case)
        if case.get("refit") == "same-object":  # fit, replace the contents of that very array in place, fit again
            Z = (X[::-1] * 3 - 1).astype(X.dtype)
            Z.setflags(write=True)
            sc.fit(Z)
            Z[...] = X
            X = Z
        elif case.get("refit") == "other-object":
            sc.fit((X[::-1] * 3 - 1).astype(X.dtype))
        X0 = X.copy()
        sc.fit(X)
        ms = int(sc.min_size)
        ivs = [(s, e) for s in range(n) for e in range(s + ms, n + 1)]
        out = {"outcome": "ok", "min_size": ms, "vals": {}, "errs": {}, "shape_ok": True, "batch_ok": True}
        if not ivs:
            return out
        single = {}
        for s, e in ivs:
            try:
                v = sc.evaluate(np.array([[s, e]]))
                if v.shape != (1, case["p"] if case["cost"] != "gcov" else 1):
                    out["shape_ok"] = False
                single[(s, e)] = [float(t) for t in v[0]]
            except RuntimeError as ex:
                out["errs"][f"{s},{e}"] = "RuntimeError"
            except Exception as ex:
                out["errs"][f"{s},{e}"] = type(ex).__name__ + ":" + str(ex)[:80]
        good = [iv for iv in ivs if iv in single]
        if good:
            # the same intervals in one batch, in reverse order, and after the calls above
            arr = np.array(good)
            b1 = sc.evaluate(arr)
            b2 = sc.evaluate(arr[::-1])[::-1]
            for k, iv in enumerate(good):
                if [float(t) for t in b1[k]] != single[iv] or [float(t) for t in b2[k]] != single[iv]:
                    out["batch_ok"] = False
            if b1.shape != (len(good), case["p"] if case["cost"] != "gcov" else 1):
                out["shape_ok"] = False
            # batches with repeated rows: the first interval again at the end, every row twice, one interval three times,
            # and a fixed shuffle of the rows
            perm = sorted(range(len(good)), key=lambda k: (k * 7919 + 13) % 104729 % max(len(good), 1))
            for g in (good + [good[0]], good[:3] + good[:3], [good[len(good) // 2]] * 3, [good[k] for k in perm]):
                bg = sc.evaluate(np.array(g))
                if bg.shape[0] != len(g):
                    out["shape_ok"] = False
                for k, iv in enumerate(g[:bg.shape[0]]):
                    if [float(t) for t in bg[k]] != single[iv]:
                        out["batch_ok"] = False
            # pure batches: all intervals with the same start, all with the same end, all of the same length
            for key in (lambda iv: ("s", iv[0]), lambda iv: ("e", iv[1]), lambda iv: ("len", iv[1] - iv[0])):
                groups = {}
                for iv in good:
                    groups.setdefault(key(iv), []).append(iv)
                for g in groups.values():
                    if len(g) >= 2:
                        bg = sc.evaluate(np.array(g))
                        for k, iv in enumerate(g):
                            if [float(t) for t in bg[k]] != single[iv]:
                                out["batch_ok"] = False
        out["vals"] = {f"{s},{e}": v for (s, e), v in single.items()}
        out["data_untouched"] = bool(np.array_equal(X, X0))
        return out
    except Exception as ex:
        return {"outcome": "other:" + type(ex).__name__, "msg": str(ex)[:200]}


# -------------------------------------------------------------------------------------- oracle


def frac_col(case, j):
    return [Fraction(repr(r[j])) if isinstance(r[j], float) else Fraction(r[j]) for r in case["X"]]


def direct_value(case, s, e, j):
    """the definition, from the rows X[s:e] of column j, in exact arithmetic (log in float)"""
    col = frac_col(case, j)[s:e]
    n = e - s
    prm = case.get("param")
    if case["cost"] == "l2":
        mu = sum(col) / n if prm is None else Fraction(repr(prm[j] if isinstance(prm, list) else prm))
        return float(sum((v - mu) ** 2 for v in col))
    if prm is None:
        mu = sum(col) / n
        var = max(sum((v - mu) ** 2 for v in col) / n, FLOOR)
        return n * math.log(2 * math.pi * float(var)) + n
    m, v = prm
    mu = Fraction(repr(m[j] if isinstance(m, list) else m))
    var = Fraction(repr(v[j] if isinstance(v, list) else v))
    return n * math.log(2 * math.pi * float(var)) + float(sum((t - mu) ** 2 for t in col) / var)


def gvar_optim_bounds(case, s, e, j):
    """the interval of values of the optimal-parameter Gaussian cost that differ from the directly
    computed one only by prefix-sum rounding of the variance: |var_code - var| <= 8 eps n max|x|^2"""
    col = frac_col(case, j)
    seg = col[s:e]
    m = e - s
    mu = sum(seg) / m
    var = sum((v - mu) ** 2 for v in seg) / m
    delta = Fraction(8 * 2.220446049250313e-16 * len(col) * max(1e-300, max(abs(float(v)) for v in col) ** 2))
    val = lambda v: m * math.log(2 * math.pi * float(max(v, FLOOR))) + m  # noqa: E731
    return val(var - delta), val(var + delta)


def oracle(case, r):
    if r["outcome"] != "ok":
        return f"fit raised {r['outcome']} {r.get('msg', '')}"
    if not r["shape_ok"]:
        return "evaluate returned an array of the wrong shape (one column per variable for univariate costs, one for multivariate)"
    if not r["batch_ok"]:
        return "the row returned for an interval depends on the batch / order / earlier calls"
    if r.get("data_untouched") is False:
        return "fit / evaluate modified the caller's data"
    n, p = case["n"], case["p"]
    X = np.array(case["X"], dtype=float)
    scale = float(np.abs(X).max()) ** 2 * n if n else 1.0
    if case["cost"] != "l2":
        scale = 1.0 + n
    for s in range(n):
        for e in range(s + r["min_size"], n + 1):
            key = f"{s},{e}"
            if case["cost"] != "gcov":
                if key in r["errs"]:
                    return f"{case['cost']} {case['mode']} raised {r['errs'][key]} on the admissible interval [{s},{e})"
                for j in range(p):
                    want = direct_value(case, s, e, j)
                    got = r["vals"][key][j]
                    lo = hi = want
                    if case["cost"] == "gvar" and case.get("param") is None:
                        # prefix-sum rounding error of the variance (absolute, ~eps * rows * max x^2): near the floor it
                        # decides between the floor and a tiny positive variance, so the admissible values form an interval
                        lo, hi = gvar_optim_bounds(case, s, e, j)
                    if not (lo - 1e-8 * (scale + abs(lo)) <= got <= hi + 1e-8 * (scale + abs(hi))):
                        return (f"{case['cost']} {case['mode']} cost of column {j} on [{s},{e}) is {got!r}; computed directly "
                                f"from the rows it is {want!r}")
            else:
                seg = X[s:e]
                m = e - s
                if case.get("param") is None:
                    cov = np.cov(seg, rowvar=False, ddof=0).reshape(p, p)
                    sign, logdet = np.linalg.slogdet(cov)
                    if sign <= 0:
                        if r["errs"].get(key) != "RuntimeError":
                            return (f"sample covariance of X[{s}:{e}] is not positive definite but evaluate returned "
                                    f"{r['vals'].get(key)} / {r['errs'].get(key)} instead of the documented RuntimeError")
                        continue
                    # nearly singular slices: the value is dominated by rounding; only the error contract is judged
                    if abs(logdet) > 25:
                        continue
                    want = m * p * math.log(2 * math.pi) + m * logdet + m * p
                else:
                    mu, cv = case["param"]
                    mu = np.array(mu if isinstance(mu, list) else [mu] * p, dtype=float)
                    cv = np.array(cv, dtype=float)
                    sign, logdet = np.linalg.slogdet(cv)
                    d = seg - mu
                    want = m * p * math.log(2 * math.pi) + m * logdet + float(np.sum(d @ np.linalg.inv(cv) * d))
                if key in r["errs"]:
                    return f"gcov {case['mode']} raised {r['errs'][key]} on [{s},{e}) although the covariance is positive definite"
                got = r["vals"][key][0]
                if not (abs(got - want) <= 1e-7 * (scale + abs(want))):
                    return f"multivariate Gaussian {case['mode']} cost on [{s},{e}) is {got!r}; from the definition {want!r}"
    return None


# ------------------------------------------------------------- translator validation (Float)


def float_cases(rng, count, status):
    out = []
    for _ in range(count):
        p = rng.randint(1, 3)
        n = rng.randint(2, 10)
        X = [[rng.uniform(-5, 5) for _ in range(p)] for _ in range(n)]
        s = rng.randint(0, n - 2)
        e = rng.randint(s + 2, n)
        k = rng.choice(["l2_cost_optim", "l2_cost_fixed", "gaussian_var_cost_optim", "gaussian_var_cost_fixed"])
        if status.get(k, {}).get("state") != "translated":
            continue
        mean = [rng.uniform(-2, 2) for _ in range(p)]
        var = [rng.uniform(0.5, 3) for _ in range(p)]
        out.append({"kern": k, "n": n, "p": p, "X": X, "s": s, "e": e, "mean": mean, "var": var})
    return out


def float_impl(case):
    from skchange.costs import GaussianVarCost, L2Cost

    X = np.array(case["X"])
    k = case["kern"]
    sc = {"l2_cost_optim": lambda: L2Cost(), "l2_cost_fixed": lambda: L2Cost(param=np.array(case["mean"])),
          "gaussian_var_cost_optim": lambda: GaussianVarCost(),
          "gaussian_var_cost_fixed": lambda: GaussianVarCost(param=(np.array(case["mean"]), np.array(case["var"])))}[k]().fit(X)
    return {"outcome": "ok", "vals": [float(v) for v in sc.evaluate(np.array([[case["s"], case["e"]]]))[0]]}


def float_lines(case):
    """one driver line per column: per-column parameters are per-element scalars in the translation"""
    k = case["kern"]
    lines = []
    for j in range(case["p"]):
        args = [str(case["s"]), str(case["e"])]
        if k.endswith("_fixed"):
            args.append(bits(case["mean"][j]))
        if k == "gaussian_var_cost_fixed":
            args.append(bits(case["var"][j]))
        lines.append("kern " + k + " " + " ".join(args) + " | " + " ".join(bits(r[j]) for r in case["X"]))
    return lines



# ------------------------------------------------------------------------------ large batches


def big_cases():
    out = []
    for cost in ("l2", "gvar", "gcov"):
        for mode in ("optim", "fixed"):
            for rows in ((4096, 4097) if cost == "gcov" else (4095, 4096, 4097, 8192, 9001)):
                out.append({"cost": cost, "mode": mode, "rows": rows, "p": 2, "n": 150})
    return out


def impl_big(c):
    """one evaluate call with thousands of rows (around typical chunk sizes) against the same rows one by one"""
    g = np.random.default_rng(c["rows"])
    n, p = c["n"], c["p"]
    X = g.normal(size=(n, p)) * 2.0 + 1.0
    case = {"cost": c["cost"], "mode": c["mode"], "param": None, "form": "float"}
    if c["mode"] == "fixed":
        case["param"] = {"l2": [0.5, -1.0], "gvar": [[0.5, -1.0], [2.0, 0.5]], "gcov": [[0.5, -1.0], [[2.0, 0.3], [0.3, 1.0]]]}[c["cost"]]
    try:
        sc = mk_cost(case).fit(X)
        ms = int(sc.min_size)
        s = g.integers(0, n - ms, size=c["rows"])
        e = np.minimum(n, s + ms + g.integers(0, n, size=c["rows"]))
        cuts = np.column_stack((s, e))
        cuts[0], cuts[-1] = (0, n), (n - ms, n)  # the first and the last row are at the ends of the data
        vals = sc.evaluate(cuts)
        idx = sorted(set([0, 1, c["rows"] // 2, 4094, 4095, 4096, 4097, 8191, c["rows"] - 2, c["rows"] - 1]) & set(range(c["rows"])))
        idx += [int(v) for v in g.integers(0, c["rows"], size=12)]
        bad = [int(i) for i in idx if not np.array_equal(vals[i], sc.evaluate(cuts[i:i + 1])[0])]
        return {"outcome": "ok", "shape": list(vals.shape), "bad": bad[:3], "finite": bool(np.isfinite(vals).all())}
    except Exception as ex:
        return {"outcome": "other:" + type(ex).__name__, "msg": str(ex)[:200]}


def oracle_big(c, r):
    if r["outcome"] != "ok":
        return f"{c['cost']} {c['mode']}: a batch of {c['rows']} admissible intervals raised {r['outcome']} {r.get('msg', '')}"
    if r["shape"][0] != c["rows"]:
        return f"{c['cost']} {c['mode']}: {r['shape'][0]} rows returned for {c['rows']} intervals"
    if r["bad"]:
        return f"{c['cost']} {c['mode']}: rows {r['bad']} of a batch of {c['rows']} intervals differ from the same intervals evaluated one by one"
    return None


# --------------------------------------------------------------------------------- long data


def longdata_cases():
    return [{"cost": cost, "mode": mode, "n": n} for cost in ("l2", "gvar") for mode in ("optim", "fixed") for n in (70000, 100003)]


def impl_longdata(c):
    """series far longer than any internal block size: intervals inside one block, straddling one boundary, and spanning
    several (powers of two and their multiples), against the definition computed from the rows"""
    g = np.random.default_rng(c["n"])
    n = c["n"]
    X = g.normal(size=(n, 2)) * 1.5 + np.array([0.5, -2.0])
    mean, var = np.array([0.25, -1.5]), np.array([2.0, 3.0])
    case = {"cost": c["cost"], "mode": c["mode"], "form": "float",
            "param": None if c["mode"] == "optim" else ([0.25, -1.5] if c["cost"] == "l2" else [[0.25, -1.5], [2.0, 3.0]])}
    try:
        sc = mk_cost(case).fit(X)
        marks = [1024, 4096, 8192, 16384, 32768, 65536, 98304]
        ivs = [(0, n), (n - 5, n), (0, 5)]
        for b in marks:
            if b + 40 < n:
                ivs += [(b - 30, b + 40), (b, b + 25), (b - 25, b), (max(0, b - 40000), b + 7)]
        ivs += [(int(a), int(a) + int(L)) for a, L in zip(g.integers(0, n - 300, size=30), g.integers(2, 300, size=30))]
        vals = sc.evaluate(np.array(ivs))
        bad = []
        for (s_, e_), got in zip(ivs, vals):
            seg = X[s_:e_]
            m = e_ - s_
            if c["cost"] == "l2":
                want = ((seg - (seg.mean(axis=0) if c["mode"] == "optim" else mean)) ** 2).sum(axis=0)
            elif c["mode"] == "optim":
                want = m * np.log(2 * np.pi * seg.var(axis=0)) + m
            else:
                want = m * np.log(2 * np.pi * var) + ((seg - mean) ** 2).sum(axis=0) / var
            if not np.allclose(got, want, rtol=1e-7, atol=1e-6 * m):
                bad.append([int(s_), int(e_), [float(v) for v in got], [float(v) for v in want]])
        return {"outcome": "ok", "bad": bad[:2], "checked": len(ivs)}
    except Exception as ex:
        return {"outcome": "other:" + type(ex).__name__, "msg": str(ex)[:200]}


def oracle_longdata(c, r):
    if r["outcome"] != "ok":
        return f"{c['cost']} {c['mode']} on {c['n']} rows raised {r['outcome']} {r.get('msg', '')}"
    if r["bad"]:
        s_, e_, got, want = r["bad"][0]
        return f"{c['cost']} {c['mode']} cost on [{s_},{e_}) of a series of {c['n']} rows is {got}; computed directly from the rows it is {want}"
    return None

# ------------------------------------------------------------------------------------ the check


def run(chk: core.Check):
    tier = chk.tier
    N = {"quick": 700, "thorough": 12000}[tier]
    nmax = {"quick": 8, "thorough": 14}[tier]
    status = {}

    def pre():
        st, _ = translate.run()
        status.update(st)

    # which L1 modules are available (their kernels all translated)
    with core.LeanLock():
        pre()
    skip = {m: "translator: " + ", ".join(f"{k}: {status[k].get('reason')}" for k in ks if status[k]["state"] != "translated")
            for m, ks in L1.items() if any(status[k]["state"] != "translated" for k in ks)}
    chk.lean(extra_modules=list(L1), skip_modules=skip)
    chk.notes["translator"] = {k: v["state"] for k, v in status.items() if k in sum(L1.values(), [])}
    chk.rules.append(
        "direct: the six cost / mode combinations x data kinds (small integers, 3-decimal floats, a constant column, exactly "
        "collinear columns, 1e-4 scale) x scalar / per-column fixed parameters, n<=%d, p<=3, EVERY admissible interval, each evaluated "
        "alone, in a batch, in reversed order; float: Float instantiation of the generated kernels vs evaluate on random matrices "
        "with per-column parameters. Non-trivial = at least 3 admissible intervals; distinct by case hash" % nmax
    )
    chk.assumptions += ["theorems are over the reals: floating-point rounding is bounded empirically only (1e-8 relative to the data scale)",
                        "log is evaluated in double precision by the oracle",
                        "multivariate Gaussian cost: numeric comparison with the definition only; nearly singular slices (|log det| > 25) judged on the error contract only"]
    rng = core.rng_for(chk.seed, "C01/direct")
    chk.run_stream("direct", core.Gen(gen_case, rng, nmax, N), impl, oracle=oracle, site="Cost.evaluate",
                   nontrivial=lambda c, r: r.get("outcome") == "ok" and len(r["vals"]) >= 3,
                   describe=lambda c: {k: v for k, v in c.items() if k != "X"} | {"X[:3]": c["X"][:3]})
    chk.run_stream("big-batch", big_cases(), impl_big, oracle=oracle_big, site="Cost.evaluate/batch")
    chk.run_stream("long-data", longdata_cases(), impl_longdata, oracle=oracle_longdata, site="Cost.fit/long", per_case_timeout=120)
    # translator validation
    rng = core.rng_for(chk.seed, "C01/float")
    fc = float_cases(rng, N, status)
    res = core.pmap(float_impl, fc)
    lines, owner = [], []
    for i, c in enumerate(fc):
        for j, ln in enumerate(float_lines(c)):
            lines.append(ln)
            owner.append((i, j))
    outs = core.run_driver(lines)
    dis, worst = 0, 0.0
    for (i, j), o in zip(owner, outs):
        got = unbits(o.split()[0]) if o not in ("bad-op",) else float("nan")
        want = res[i]["vals"][j]
        rel = abs(got - want) / (1 + abs(want)) if got == got else float("inf")
        worst = max(worst, rel)
        if not rel <= 1e-11:
            dis += 1
            if dis <= 3:
                chk.violations.append({"kind": "correspondence", "stream": "translator-float", "case": fc[i], "impl": res[i],
                                       "impl_canon": want, "model": got,
                                       "msg": f"generated kernel {fc[i]['kern']} (Float) and evaluate disagree on column {j}",
                                       "site": "translator", "signature": "correspondence"})
    chk.count("translator-float", len(lines), [core.case_hash(c) for c in fc])
    chk.streams["translator-float"] = {"cases": len(lines), "disagreements": dis, "max_rel_diff": worst}
    if fc:
        chk.samples.append({"stream": "translator-float", "line": lines[0][:160], "model": outs[0], "impl": res[0]["vals"][0]})
    return chk.finish(trusted_extra=["the translator harness/translate.py (per-element reading of the vectorised NumPy kernels), validated "
                                     "numerically against evaluate on every run"])


def replay(path):
    v = json.load(open(path))
    case = v["case"]
    if case is None:
        print(json.dumps(v, indent=1)[:4000])
        return 0
    if v["stream"] == "translator-float":
        r = float_impl(case)
        outs = core.run_driver(float_lines(case))
        print("implementation:", r["vals"], "\ngenerated     :", [unbits(o.split()[0]) for o in outs])
        return 0
    r = impl(case)
    print("implementation:", {k: r[k] for k in r if k != "vals"}, "\noracle:", oracle(case, r))
    return 0
