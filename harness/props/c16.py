"""C16 — MVCAPA's affected columns are the optimal sparse subset for each anomaly.

Lean: Skc/Props/C16.lean (affected_columns_optimal).  Tie: `MVCAPA(TableSaving with pairwise
distinct column savings, penalty callables, …).fit(X).predict(X)["icolumns"]` and `.transform(X)`
against `findAffected` over Rat, exactly (the built-in sparse penalty used for collective anomalies
is made exact through the scale; the point penalty is a callable).  Oracle: brute force over k."""
from __future__ import annotations

import json
from fractions import Fraction

import numpy as np

from .. import core
from ..scorers import TableSaving, find_scale


def distinct_table(rng, n, p, hi):
    """non-negative sub-additive-ish integer savings with pairwise distinct columns per interval"""
    T = [[None] * (n + 1) for _ in range(n + 1)]
    for s in range(n):
        for e in range(s + 1, n + 1):
            vals = rng.sample(range(0, hi * (e - s) + p + 1), p)
            T[s][e] = vals
    return T


def gen_case(rng, nmax):
    p = rng.randint(2, 6)
    m = rng.randint(2, 3)
    n = rng.randint(m, nmax)
    M = rng.randint(m, max(m, n))
    Kb = rng.choice([0, 1, 2, 3, Fraction(1, 2), Fraction(5, 2)])  # sparse beta for collective anomalies (exact)
    kind = rng.choice(["equal", "general"])
    if kind == "equal":
        pb = [rng.randint(0, 4)] * p
    else:  # any non-negative per-component terms: increasing, decreasing (like the intermediate family) or unordered
        pb = [rng.randint(0, 9) for _ in range(p)]
        pb = {"inc": sorted(pb), "dec": sorted(pb, reverse=True), "any": pb}[rng.choice(["inc", "dec", "dec", "any"])]
    c = {"n": n, "p": p, "m": m, "M": M, "Kb": str(Kb), "ca": rng.randint(0, 4), "cb": [rng.randint(0, 2)] * p,
         "pa": rng.randint(0, 3), "pb": pb, "T": distinct_table(rng, n, p, rng.randint(2, 6)),
         "P": [rng.sample(range(0, 14), p) for _ in range(n)]}
    if rng.random() < 0.2:
        # weak dense anomalies: found through a detection penalty without per-component part, while EVERY column saving is below
        # the sparse per-column penalty used for the subset — the best subset is then the single largest column (k >= 1)
        Kb = rng.choice([7, 9, 12])
        c.update(Kb=str(Kb), ca=rng.randint(0, 2), cb=[0] * p, pa=0, pb=[rng.choice([0, 20])] * p,
                 T=[[None if e <= s_ else rng.sample(range(0, Kb), p) for e in range(n + 1)] for s_ in range(n + 1)])
    return c


def impl(case):
    from skchange.anomaly_detectors import MVCAPA

    n, p = case["n"], case["p"]
    Kb = float(Fraction(case["Kb"]))
    scale = find_scale(Kb, 2 * np.log(p))
    if scale is None or 2 * scale * np.log(1 * p) != Kb:
        return {"outcome": "skip:no-exact-scale"}
    ca, cb, pa, pb = case["ca"], case["cb"], case["pa"], case["pb"]
    cpen = lambda n_, p_, k_, scale=1.0: (float(ca), np.array(cb, dtype=float))  # noqa: E731
    ppen = lambda n_, p_, k_, scale=1.0: (float(pa), np.array(pb, dtype=float))  # noqa: E731
    Pt = [[[0] * p for _ in range(n + 1)] for _ in range(n + 1)]
    for t in range(n):
        Pt[t][t + 1] = case["P"][t]
    X = np.zeros((n, p))
    try:
        det = MVCAPA(collective_saving=TableSaving(table=case["T"]), point_saving=TableSaving(table=Pt), collective_penalty=cpen,
                     point_penalty=ppen, collective_penalty_scale=scale, min_segment_length=case["m"],
                     max_segment_length=case["M"]).fit(X)
        y = det.predict(X)
        lab = core._bits(case, 0, 3)
        if lab:  # labels that are not unique: repeated column names, a sorted time index with repeated stamps — marking is by position
            import pandas as pd

            cols = (["a", "a", "b", "b", "a", "c"] if lab == 1 else list(range(p)))[:p]
            idx = pd.DatetimeIndex(pd.to_datetime("2021-03-01") + pd.to_timedelta(np.arange(n) // 2, unit="D")) if lab == 2 else pd.RangeIndex(n)
            Xf = pd.DataFrame(X, columns=cols, index=idx)
            d = det.transform(Xf)
        else:
            d = det.transform(X)
        return {"outcome": "ok", "anoms": [(int(i.left), int(i.right)) for i in y["ilocs"]],
                "cols": [[int(c) for c in cs] for cs in y["icolumns"]], "dense": [[int(v) for v in row] for row in d.to_numpy()],
                "sparse_alpha": core.rat(float(2 * scale * np.log(n)))}
    except Exception as ex:
        return {"outcome": "other:" + type(ex).__name__, "msg": str(ex)[:200]}


def pen_of(case, r, a, b):
    """(alpha, betas, savings) used for subset inference of anomaly [a,b)"""
    p = case["p"]
    if b - a == 1:
        return Fraction(case["pa"]), [Fraction(v) for v in case["pb"]], case["P"][a]
    return Fraction(r["sparse_alpha"]), [Fraction(case["Kb"])] * p, case["T"][a][b]


def lines(case, r):
    out = []
    for a, b in r["anoms"]:
        al, be, sv = pen_of(case, r, a, b)
        out.append("affected " + " ".join([str(case["p"]), core.rat(al)] + [core.rat(x) for x in be] + [core.rat(Fraction(v)) for v in sv]))
    return out


def oracle(case, r):
    if r["outcome"] != "ok":
        return f"MVCAPA did not run to completion: {r['outcome']} {r.get('msg', '')}"
    n, p = case["n"], case["p"]
    for (a, b), cols in zip(r["anoms"], r["cols"]):
        al, be, sv = pen_of(case, r, a, b)
        order = sorted(range(p), key=lambda j: -sv[j])
        cum = []
        tot = Fraction(0)
        for k in range(p):
            tot += sv[order[k]] - be[k]
            cum.append(tot - al)
        best = max(cum)
        ks = [k + 1 for k in range(p) if cum[k] == best]
        if not cols or len(set(cols)) != len(cols) or any(not (0 <= c < p) for c in cols):
            return f"affected columns {cols} of anomaly [{a},{b}) are not a non-empty list of distinct valid column positions"
        if len(cols) not in ks or cols != order[: len(cols)]:
            return (f"affected columns of anomaly [{a},{b}) are {cols}; the columns in order of decreasing saving are {order} "
                    f"(savings {sv}) and the cumulative penalised saving is maximal for k in {ks}")
    # transform marks exactly these columns on exactly the anomaly's rows
    want = [[0] * p for _ in range(n)]
    for lab, ((a, b), cols) in enumerate(zip(r["anoms"], r["cols"]), 1):
        for i in range(a, b):
            for c in cols:
                want[i][c] = lab
    if r["dense"] != want:
        return f"transform(X) does not mark exactly the affected columns {r['cols']} on the rows of {r['anoms']}"
    return None


# ------------------------------------------------------------------------------- built-in savings


def gen_builtin(rng, nmax):
    p = rng.randint(2, 6)
    m = rng.randint(2, 3)
    n = rng.randint(10, nmax)
    X = [[rng.choice([0.0, 0.3, -0.4, 0.1]) for _ in range(p)] for _ in range(n)]
    for _ in range(rng.randint(1, 3)):
        a = rng.randint(0, n - 1)
        L = rng.choice([1, 1, m, m + 2])
        cols = rng.sample(range(p), rng.randint(1, p))
        for j in cols:
            # strong and borderline shifts: savings far above, between and below the per-column thresholds
            lv = rng.choice([3.0, 4.5, -5.5, 7.0, 9.5, 0.5, 0.8, 1.1, 1.5, 2.0]) + 0.137 * j
            for i in range(a, min(n, a + L)):
                X[i][j] += lv
    return {"n": n, "p": p, "m": m, "M": rng.choice([m + 2, 8, 100]), "X": X, "cfam": rng.choice(["sparse", "dense", "combined", "intermediate"]),
            "pfam": rng.choice(["sparse", "dense", "combined", "intermediate"]), "cs": rng.choice([0.2, 0.5, 1.0]), "ps": rng.choice([0.2, 0.5, 1.0]),
            # collective saving with one (L2) or two (Gaussian, fixed baseline) parameters per variable
            "saving": rng.choice(["l2", "l2", "gvar"])}


def impl_builtin(case):
    from skchange.anomaly_detectors import MVCAPA
    from skchange.anomaly_detectors.mvcapa import capa_penalty_factory
    from skchange.anomaly_scores import L2Saving, to_saving
    from skchange.costs import GaussianVarCost

    X = np.array(case["X"])
    n, p = case["n"], case["p"]
    gv = case.get("saving") == "gvar"
    try:
        swap = gv and core._bits(case, 12, 2) == 0
        if swap:  # built around an L2 saving; the baseline cost is then replaced through set_params (one -> two parameters per variable)
            from skchange.anomaly_scores import Saving
            from skchange.costs import L2Cost

            first = Saving(L2Cost(param=0.0))
        else:
            first = GaussianVarCost(param=(0.0, 1.0)) if gv else None
        # the point saving may be given as a fixed-mean cost as well: it is then wrapped by the same adapter class as the
        # collective one although the two have different numbers of parameters per variable
        psv = None
        if gv and core._bits(case, 16, 2) == 0:
            from skchange.costs import L2Cost as _L2

            psv = _L2(param=0.0)
        det = MVCAPA(first, psv,
                     collective_penalty=case["cfam"], collective_penalty_scale=case["cs"], point_penalty=case["pfam"],
                     point_penalty_scale=case["ps"], min_segment_length=case["m"], max_segment_length=max(case["M"], case["m"]))
        if swap:
            det.set_params(collective_saving__baseline_cost=GaussianVarCost(param=(0.0, 1.0)))
        data, _ = core.fit_for(det, case, X, reps=1)
        data = core.prior_use(det, case, X, data)
        y = det.predict(data)
        sv = to_saving(GaussianVarCost(param=(0.0, 1.0))).fit(X) if gv else L2Saving().fit(X)
        pv = L2Saving().fit(X)  # the point saving stays the default
        k = 2 if gv else 1
        # the sparse penalty from its documented formula (2 log n once, 2 log(k p) per component, times the scale), not
        # from the library's own function
        sa, sb = 2 * case["cs"] * np.log(n), [2 * case["cs"] * np.log(k * p)] * p
        pa, pb = capa_penalty_factory(case["pfam"])(n, p, 1, scale=case["ps"])
        an = [(int(i.left), int(i.right)) for i in y["ilocs"]]
        return {"outcome": "ok", "anoms": an, "cols": [[int(c) for c in cs] for cs in y["icolumns"]],
                "sav": [[float(v) for v in (pv if b - a == 1 else sv).evaluate(np.array([[a, b]]))[0]] for a, b in an],
                "sparse": [float(sa), [float(v) for v in sb]], "point": [float(pa), [float(v) for v in pb]]}
    except Exception as ex:
        return {"outcome": "other:" + type(ex).__name__, "msg": str(ex)[:200]}


def oracle_builtin(case, r):
    if r["outcome"] != "ok":
        return f"MVCAPA did not run to completion: {r['outcome']} {r.get('msg', '')}"
    p = case["p"]
    for (a, b), cols, sv in zip(r["anoms"], r["cols"], r["sav"]):
        al, be = r["point"] if b - a == 1 else r["sparse"]
        order = sorted(range(p), key=lambda j: -sv[j])
        srt = [sv[j] for j in order]
        if any(x - y < 1e-7 * (1 + abs(x)) for x, y in zip(srt, srt[1:])):
            continue  # ties between savings are excluded by the property (margin rule)
        cum = np.cumsum(np.array(srt) - np.array(be[:p])) - al
        top = sorted(cum, reverse=True)
        if len(top) > 1 and top[0] - top[1] < 1e-7 * (1 + abs(top[0])):
            continue
        k = int(np.argmax(cum)) + 1
        if cols != order[:k]:
            return (f"affected columns of anomaly [{a},{b}) are {cols}; the {k} columns with the largest savings in decreasing order "
                    f"are {order[:k]} (savings {sv})")
    return None


def run(chk: core.Check):
    tier = chk.tier
    N = {"quick": 2500, "thorough": 50000}[tier]
    chk.lean()
    chk.rules.append(
        "table: MVCAPA with table savings whose p in 2..6 column values are pairwise distinct on every interval, exact sparse beta "
        "(0..3 incl. halves) for collective anomalies via the scale, point penalties as callables with equal or increasing betas; "
        "builtin: L2Saving on planted dense / sparse / single-column anomalies with all four point-penalty families, judged where the "
        "margins exceed 1e-7. Non-trivial = at least one anomaly with >= 2 affected columns; distinct by case hash"
    )
    chk.assumptions += ["ties between savings are excluded as the property states (NumPy argsort order among ties is unspecified)"]
    skipf = lambda c, r: r["outcome"][5:] if r["outcome"].startswith("skip:") else None  # noqa: E731
    rng = core.rng_for(chk.seed, "C16/table")
    cases = core.Gen(gen_case, rng, 12, N)
    res = chk.run_stream("table", cases, impl, oracle=oracle, skip=skipf, site="MVCAPA/icolumns",
                         nontrivial=lambda c, r: r.get("outcome") == "ok" and any(len(cs) >= 2 for cs in r["cols"]),
                         describe=lambda c: {k: v for k, v in c.items() if k not in ("T", "P")})
    ok = [(c, r) for c, r in zip(cases, res) if r["outcome"] == "ok"]
    ls, owner = [], []
    for i, (c, r) in enumerate(ok):
        for j, ln in enumerate(lines(c, r)):
            ls.append(ln)
            owner.append((i, j))
    outs = core.run_driver(ls)
    dis = 0
    for (i, j), o in zip(owner, outs):
        c, r = ok[i]
        if str(r["cols"][j]) != o:
            dis += 1
            if dis <= 5:
                chk.violations.append({"kind": "correspondence", "stream": "table", "case": c, "impl": r, "impl_canon": str(r["cols"][j]),
                                       "model": o, "msg": "model and implementation disagree on stream table",
                                       "site": "MVCAPA/icolumns", "signature": "correspondence"})
    dis += sum(1 for c, r in zip(cases, res) if r["outcome"] != "ok" and not r["outcome"].startswith("skip:"))
    chk.streams["table"]["disagreements"] = dis
    chk.streams["table"]["anomalies_compared"] = len(ls)
    if ls:
        chk.samples.append({"stream": "table/model", "line": ls[0][:200], "model": outs[0]})
    rng = core.rng_for(chk.seed, "C16/builtin")
    chk.run_stream("builtin", core.Gen(gen_builtin, rng, 40, N // 5), impl_builtin, oracle=oracle_builtin, site="MVCAPA/builtin",
                   nontrivial=lambda c, r: r.get("outcome") == "ok" and any(len(cs) >= 2 for cs in r["cols"]),
                   describe=lambda c: {k: v for k, v in c.items() if k != "X"})
    return chk.finish()


def replay(path):
    v = json.load(open(path))
    case = v["case"]
    if case is None:
        print(json.dumps(v, indent=1)[:4000])
        return 0
    if v["stream"] == "builtin":
        r = impl_builtin(case)
        print("implementation:", r, "\noracle:", oracle_builtin(case, r))
    else:
        r = impl(case)
        print("implementation:", {k: r[k] for k in r if k != "dense"})
        if r["outcome"] == "ok":
            print("model         :", core.run_driver(lines(case, r)))
            print("oracle        :", oracle(case, r))
    return 0
