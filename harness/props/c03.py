"""C03 — CAPA / MVCAPA anomalies maximise the total penalised saving.

Lean: Skc/Props/C03.lean.  Tie: `MVCAPA(collective_saving=TableSaving, collective_penalty=<callable>, …)`
and `CAPA(TableSaving, scale ⇒ exact penalty)` through fit/predict/.scores against `runCapa ∘ penalise`
over Rat, exactly.  Oracle: unpruned dynamic programme with the subset maximum computed by brute
force over all non-empty column subsets, exact arithmetic; re-evaluation of the reported anomalies."""
from __future__ import annotations

import itertools
import json
import os
from fractions import Fraction

import numpy as np

from .. import core
from ..scorers import TableSaving, find_scale

# --------------------------------------------------------------------------------------- tables


def sub_table(rng, n, p, maxv):
    """non-negative integer savings, per-column sub-additive: S(s,e) <= S(s,t) + S(t,e)"""
    T = [[None] * (n + 1) for _ in range(n + 1)]
    for L in range(1, n + 1):
        for s in range(0, n - L + 1):
            e = s + L
            if L == 1:
                T[s][e] = [rng.randint(0, maxv) for _ in range(p)]
                continue
            ub = [min(T[s][t][j] + T[t][e][j] for t in range(s + 1, e)) for j in range(p)]
            T[s][e] = [u if rng.random() < 0.3 else rng.randint(0, u) for u in ub]
    return T


def tight_table(rng, n, p):
    """near-additive savings (small deficits): the regime where pruning decisions are close calls"""
    T = [[None] * (n + 1) for _ in range(n + 1)]
    for L in range(1, n + 1):
        for s in range(0, n - L + 1):
            e = s + L
            if L == 1:
                T[s][e] = [rng.randint(0, 3) for _ in range(p)]
                continue
            ub = [min(T[s][t][j] + T[t][e][j] for t in range(s + 1, e)) for j in range(p)]
            T[s][e] = [max(0, u - (1 if rng.random() < 0.15 else 0)) for u in ub]
    return T


def gen_case(rng, nmax, tight=None):
    tight = rng.random() < 0.5 if tight is None else tight
    p = rng.randint(1, 3)
    if tight:
        m = rng.randint(2, 5)
        n = rng.randint(m, max(m, nmax))
        M = rng.randint(m, max(m, n))
        T = tight_table(rng, n, p)
        ca, pa = rng.randint(0, 7), rng.randint(2, 11)
    else:
        m = rng.randint(2, 4)
        M = rng.randint(m, 8)
        n = rng.randint(m, max(m, nmax - 2))
        T = sub_table(rng, n, p, rng.randint(1, 8))
        ca, pa = rng.randint(0, 5), rng.randint(0, 5)
    kind = rng.choice(["dense", "equal", "general"])
    if kind == "dense":
        cb = [0] * p
    elif kind == "equal":
        cb = [rng.randint(1, 3)] * p
    else:
        cb = [rng.randint(0, 3) for _ in range(p)]
    pb = [rng.randint(0, 2)] * p if rng.random() < 0.5 else [rng.randint(0, 2) for _ in range(p)]
    Pt = [T[t][t + 1] for t in range(n)] if rng.random() < 0.6 else [[rng.randint(0, 9) for _ in range(p)] for _ in range(n)]
    if rng.random() < 0.3:  # half-integer penalties (exact in floating point): integer-typed savings must not make the results integral
        ca, pa, cb, pb = ca / 2, pa / 2, [v / 2 for v in cb], [v / 2 for v in pb]
    return {"n": n, "p": p, "m": m, "M": M, "ca": ca, "cb": cb, "pa": pa, "pb": pb, "T": T, "P": Pt,
            "ignore": rng.random() < 0.15}


PICKS = ["first", "last"]
PRUNES = ["lt", "le", "never"]


def line(case, delay=None, kadj=0, pick="first", pr="lt"):
    n, p, m = case["n"], case["p"], case["m"]
    nums = [kadj, n, p, m, case["M"], m - 1 if delay is None else delay, case["ca"]] + case["cb"] + [case["pa"]] + case["pb"]
    for s in range(n):
        for e in range(s + 1, n + 1):
            nums += case["T"][s][e]
    for t in range(n):
        nums += case["P"][t]
    return f"capa {pick} {pr} " + " ".join(core.rat(Fraction(v)) for v in nums)


def _point_table(case):
    n, p = case["n"], case["p"]
    T = [[[0] * p for _ in range(n + 1)] for _ in range(n + 1)]
    for t in range(n):
        T[t][t + 1] = case["P"][t]
    return T


def _result(det, y):
    an = [(int(i.left), int(i.right)) for i in y["ilocs"]]
    closed = {i.closed for i in y["ilocs"]} <= {"left"}
    wf = list(y.index) == list(range(len(an))) and list(y["labels"]) == list(range(1, len(an) + 1)) and closed
    return {"outcome": "ok", "opt": [core.rat(float(v)) for v in det.scores.values], "anoms": an, "wellformed": bool(wf)}


def impl_mvcapa(case):
    from skchange.anomaly_detectors import MVCAPA

    n, p = case["n"], case["p"]
    ca, cb, pa, pb = case["ca"], case["cb"], case["pa"], case["pb"]
    cpen = lambda n_, p_, k_, scale=1.0: (float(ca), np.array(cb, dtype=float))  # noqa: E731
    ppen = lambda n_, p_, k_, scale=1.0: (float(pa), np.array(pb, dtype=float))  # noqa: E731
    X = np.zeros((n, p))
    try:
        det = MVCAPA(collective_saving=TableSaving(table=case["T"]), point_saving=TableSaving(table=_point_table(case)),
                     collective_penalty=cpen, point_penalty=ppen, collective_penalty_scale=0.0,
                     min_segment_length=case["m"], max_segment_length=case["M"],
                     ignore_point_anomalies=case.get("ignore", False)).fit(X)
        y = det.predict(X)
        r = _result(det, y)
        r["cols"] = [[int(c) for c in cols] for cols in y["icolumns"]]
        return r
    except Exception as ex:
        return {"outcome": "other:" + type(ex).__name__, "msg": str(ex)[:200]}


def impl_capa(case):
    """CAPA: dense penalty only (alpha once, no betas); exact alpha via searched scales"""
    from skchange.anomaly_detectors import CAPA
    from skchange.anomaly_detectors.mvcapa import capa_penalty

    n, p = case["n"], case["p"]
    if n < 2:
        return {"outcome": "skip:n<2"}
    sc = find_scale(float(case["ca"]), capa_penalty(n, p, 1.0))
    sp = find_scale(float(case["pa"]), p * p * np.log(n))
    if sc is None or sp is None:
        return {"outcome": "skip:no-exact-scale"}
    X = np.zeros((n, p))
    try:
        det = CAPA(collective_saving=TableSaving(table=case["T"]), point_saving=TableSaving(table=_point_table(case)),
                   collective_penalty_scale=sc, point_penalty_scale=sp, min_segment_length=case["m"],
                   max_segment_length=case["M"], ignore_point_anomalies=case.get("ignore", False)).fit(X)
        if det.collective_penalty_ != case["ca"] or det.point_penalty_ != case["pa"]:
            return {"outcome": "skip:no-exact-scale"}
        y = det.predict(X)
        return _result(det, y)
    except Exception as ex:
        return {"outcome": "other:" + type(ex).__name__, "msg": str(ex)[:200]}


def as_capa(case):
    return dict(case, cb=[0] * case["p"], pb=[0] * case["p"])


def canon(case, r):
    if r["outcome"] != "ok":
        return r["outcome"]
    an = r["anoms"]
    return "opt [" + ", ".join(r["opt"]) + "] anoms [" + ", ".join(f"({a}, {b})" for a, b in an) + "]"


def model_expect(case, out):
    """the model reports all anomalies; with ignore_point_anomalies the code omits the point ones"""
    if not case.get("ignore"):
        return out
    head, tail = out.split(" anoms ")
    an = [tuple(int(x) for x in t.strip("()").split(",")) for t in tail.strip("[]").split("), (") if t.strip("()")]
    an = [a for a in an if a[1] - a[0] != 1]
    return head + " anoms [" + ", ".join(f"({a}, {b})" for a, b in an) + "]"


def skip(case, r):
    return r["outcome"][5:] if r["outcome"].startswith("skip:") else None


# --------------------------------------------------------------------------------------- oracle


def best_subset(sav, alpha, betas):
    """max over non-empty component sets J of  sum_J s - alpha - sum_{i<|J|} beta_i  (brute force)"""
    p = len(sav)
    best = None
    for k in range(1, p + 1):
        pen = alpha + sum(betas[:k])
        for J in itertools.combinations(range(p), k):
            v = sum(sav[j] for j in J) - pen
            if best is None or v > best:
                best = v
    return best


def oracle(case, r):
    n, p, m, M = case["n"], case["p"], case["m"], case["M"]
    if r["outcome"] != "ok":
        return f"did not run to completion: {r['outcome']} {r.get('msg', '')}"
    ca, cb, pa, pb = Fraction(case["ca"]), [Fraction(b) for b in case["cb"]], Fraction(case["pa"]), [Fraction(b) for b in case["pb"]]
    PS = lambda s, e: best_subset(case["T"][s][e], ca, cb)  # noqa: E731
    PP = lambda t: best_subset(case["P"][t], pa, pb)  # noqa: E731
    F = [Fraction(0)] * (n + 1)
    for t in range(1, n + 1):
        best = max(F[t - 1], F[t - 1] + PP(t - 1))
        for L in range(m, M + 1):
            if t - L < 0:
                break
            best = max(best, F[t - L] + PS(t - L, t))
        F[t] = best
    opt = [Fraction(v) for v in r["opt"]]
    for t in range(1, n + 1):
        if opt[t - 1] != F[t]:
            return f"cumulative score at t={t - 1} is {opt[t - 1]}; the optimal total penalised saving of that prefix is {F[t]}"
    if not r.get("wellformed", True):
        return "sparse output is not a range-indexed frame of left-closed intervals labelled 1..K"
    an = r["anoms"]
    prev = 0
    tot = Fraction(0)
    for a, b in an:
        if a < prev or b <= a or b > n:
            return f"anomalies {an} are not sorted, disjoint, non-empty intervals inside [0, {n}]"
        L = b - a
        if L == 1:
            tot += PP(a)
        elif m <= L <= M:
            tot += PS(a, b)
        else:
            return f"collective anomaly [{a},{b}) has length outside [{m},{M}]"
        prev = b
    if case.get("ignore"):
        if any(b - a == 1 for a, b in an):
            return "ignore_point_anomalies is set but a point anomaly is reported"
        return None  # the point anomalies are not visible; the set itself is compared with the model
    if tot != F[n]:
        return f"re-evaluating the reported anomalies {an} gives {tot}; the final score / optimum is {F[n]}"
    return None


# ------------------------------------------------------------------------------- built-in savings


FAMS = ["dense", "sparse", "intermediate", "combined"]


def gen_builtin(rng, nmax):
    p = rng.randint(1, 3)
    m = rng.randint(2, 4)
    n = rng.randint(max(m, 2), nmax)
    M = rng.randint(m, max(m, min(n, 8)))
    X = [[rng.choice([0, 0, 0, 1, -1]) for _ in range(p)] for _ in range(n)]
    for _ in range(rng.randint(0, 2)):  # planted collective anomalies
        a = rng.randint(0, n - 1)
        b = min(n, a + rng.randint(m, M))
        cols = [j for j in range(p) if rng.random() < 0.6] or [0]
        lv = rng.choice([2, 3, -3, 5])
        for i in range(a, b):
            for j in cols:
                X[i][j] += lv
    for _ in range(rng.randint(0, 2)):  # spikes
        X[rng.randint(0, n - 1)][rng.randint(0, p - 1)] += rng.choice([6, -7, 9])
    det = rng.choice(["capa", "mvcapa", "mvcapa"])
    return {"n": n, "p": p, "m": m, "M": M, "X": X, "det": det,
            "saving": rng.choice(["l2saving", "l2cost0", "gaussvar"]),
            "cfam": rng.choice(FAMS), "pfam": rng.choice(["sparse", "dense", "sparse"]),
            "cscale": rng.choice([0.0, 0.1, 0.3, 0.5, 1.0]), "pscale": rng.choice([0.0, 0.1, 0.3, 0.5, 1.0]),
            # what the fitted detector was used for before: nothing, or predict / transform_scores on OTHER data with the same index
            "prior": rng.choice([None, None, "predict", "scores"]), "via": rng.choice(["attr", "api", "api"]),
            "container": rng.choice(["ndarray", "frame"])}


def _mk_saving(kind):
    from skchange.anomaly_scores import L2Saving
    from skchange.costs import GaussianVarCost, L2Cost

    if kind == "l2saving":
        return L2Saving()
    if kind == "l2cost0":
        return L2Cost(param=0.0)
    return GaussianVarCost(param=(0.0, 1.0))


def impl_builtin(case):
    from skchange.anomaly_detectors import CAPA, MVCAPA
    from skchange.anomaly_detectors.mvcapa import capa_penalty, capa_penalty_factory
    from skchange.anomaly_scores import to_saving

    n, p, m, M = case["n"], case["p"], case["m"], case["M"]
    X = np.array(case["X"], dtype=float)
    try:
        sav = to_saving(_mk_saving(case["saving"])).fit(X)
        psav = to_saving(_mk_saving("l2saving" if case["saving"] == "gaussvar" else case["saving"])).fit(X)
        if case["det"] == "capa":
            det = CAPA(_mk_saving(case["saving"]), _mk_saving("l2saving" if case["saving"] == "gaussvar" else case["saving"]),
                       collective_penalty_scale=case["cscale"], point_penalty_scale=case["pscale"],
                       min_segment_length=m, max_segment_length=M)
            _, nfit = core.fit_for(det, dict(case, container="ndarray"), X, reps=2)
            ca, cb = float(det.collective_penalty_), [0.0] * p
            pa, pb = float(det.point_penalty_), [0.0] * p
        else:
            if p < 2 and case["cfam"] == "intermediate":
                return {"outcome": "skip:intermediate-needs-p>=2"}
            det = MVCAPA(_mk_saving(case["saving"]), _mk_saving("l2saving" if case["saving"] == "gaussvar" else case["saving"]),
                         collective_penalty=case["cfam"], collective_penalty_scale=case["cscale"],
                         point_penalty=case["pfam"], point_penalty_scale=case["pscale"],
                         min_segment_length=m, max_segment_length=M)
            # fitted on the data, on a series of another length, or on an object overwritten in place afterwards; MVCAPA
            # builds its penalties at predict time from the shape of the data it is given (CAPA: fitted collective_penalty_)
            core.fit_for(det, dict(case, container="ndarray"), X, reps=2)
            k = sav.get_param_size(1)
            ca, cb = capa_penalty_factory(case["cfam"])(n, p, k, scale=case["cscale"])
            pa, pb = capa_penalty_factory(case["pfam"])(n, p, psav.get_param_size(1), scale=case["pscale"])
            ca, cb, pa, pb = float(ca), [float(b) for b in cb], float(pa), [float(b) for b in pb]
            # each case runs in its own process forked from a warmed-up but otherwise untouched parent, and the penalties above
            # were taken first; now other detectors of the same shape and scale run in this process before the judged one —
            # with penalty families that are built from one another — so module-level state they leave behind would show
            if p >= 2 and core._bits(case, 8, 2):
                for fam in ("combined", "intermediate"):
                    MVCAPA(_mk_saving(case["saving"]), collective_penalty=fam, collective_penalty_scale=case["cscale"], point_penalty=fam,
                           point_penalty_scale=case["pscale"], min_segment_length=m, max_segment_length=M).fit(X).predict(X)
        import pandas as pd

        wrap = (lambda a: pd.DataFrame(a)) if case.get("container") == "frame" else (lambda a: a)
        if case.get("prior"):
            X0 = wrap(X[::-1] * 2.0 + 1.0)
            det.predict(X0) if case["prior"] == "predict" else det.transform_scores(X0)
        held = det.transform_scores(wrap(X)) if case.get("via") == "api" else None
        y = det.predict(wrap(X))
        held_attr = det.scores
        if core._bits(case, 40, 2) == 0:
            # the caller keeps what was returned while ANOTHER instance works on other data of the same length: results handed
            # out must not be views of buffers that later runs re-use
            Y = X[::-1] * 2.0 + 1.0
            type(det)(min_segment_length=m, max_segment_length=M).fit(Y).predict(Y)
        api_scores = [float(v) for v in np.asarray(held).reshape(-1)] if held is not None else None
        an = [(int(i.left), int(i.right)) for i in y["ilocs"]]
        cuts = np.array([(s, e) for s in range(n) for e in range(s + 1, n + 1)])
        ms = sav.min_size
        vals = {}
        for (s, e) in cuts.tolist():
            if e - s >= ms:
                vals[f"{s},{e}"] = [float(v) for v in sav.evaluate(np.array([[s, e]]))[0]]
        pvals = [[float(v) for v in psav.evaluate(np.array([[t, t + 1]]))[0]] for t in range(n)]
        return {"outcome": "ok", "opt": api_scores if api_scores is not None else [float(v) for v in np.asarray(held_attr).reshape(-1)], "anoms": an,
                "ca": ca, "cb": cb, "pa": pa, "pb": pb, "sav": vals, "psav": pvals, "min_size": int(ms)}
    except Exception as ex:
        return {"outcome": "other:" + type(ex).__name__, "msg": str(ex)[:200]}


def oracle_builtin(case, r):
    if r["outcome"] != "ok":
        return f"did not run to completion: {r['outcome']} {r.get('msg', '')}"
    n, m, M = case["n"], case["m"], case["M"]
    ca, cb, pa, pb = r["ca"], r["cb"], r["pa"], r["pb"]
    PS = lambda s, e: best_subset(r["sav"][f"{s},{e}"], ca, cb)  # noqa: E731
    PP = lambda t: best_subset(r["psav"][t], pa, pb)  # noqa: E731
    F = [0.0] * (n + 1)
    for t in range(1, n + 1):
        best = max(F[t - 1], F[t - 1] + PP(t - 1))
        for L in range(max(m, r["min_size"]), M + 1):
            if t - L < 0:
                break
            best = max(best, F[t - L] + PS(t - L, t))
        F[t] = best
    tol = lambda v: 1e-7 * (1 + abs(v))  # noqa: E731
    for t in range(1, n + 1):
        if not abs(r["opt"][t - 1] - F[t]) <= tol(F[t]):  # (written so that NaN fails)
            return f"cumulative score at t={t - 1} is {r['opt'][t - 1]!r}; the optimal total penalised saving of that prefix is {F[t]!r}"
    tot, prev = 0.0, 0
    for a, b in r["anoms"]:
        if a < prev or b <= a or b > n:
            return f"anomalies {r['anoms']} are not sorted, disjoint, non-empty intervals inside [0, {n}]"
        L = b - a
        if L == 1:
            tot += PP(a)
        elif m <= L <= M:
            tot += PS(a, b)
        else:
            return f"collective anomaly [{a},{b}) has length outside [{m},{M}]"
        prev = b
    if not abs(tot - F[n]) <= tol(F[n]):
        return f"re-evaluating the reported anomalies {r['anoms']} gives {tot!r}; the final score / optimum is {F[n]!r}"
    return None


def skip_builtin(case, r):
    if r["outcome"].startswith("skip:"):
        return r["outcome"][5:]
    if r["outcome"] != "ok":
        return None
    # the property assumes sub-additive, non-negative savings and non-negative penalty terms
    if any(b < 0 for b in r["cb"] + r["pb"]) or any(0 < b < 1e-8 for b in r["cb"] + r["pb"]):
        return "betas-outside-hypotheses"
    n, ms = case["n"], r["min_size"]
    sv = r["sav"]
    for s in range(n):
        for e in range(s + 2 * ms, n + 1):
            for t in range(s + ms, e - ms + 1):
                a, b, c = sv[f"{s},{t}"], sv[f"{t},{e}"], sv[f"{s},{e}"]
                if any(c[j] > a[j] + b[j] + 1e-9 * (1 + abs(c[j])) for j in range(len(c))):
                    return "saving-not-subadditive"
    return None


# ------------------------------------------------------------------------------------ the check


def mine_boundary(rng, count, nmax):
    """inputs on which the model's answer depends on (a) the pruning delay being m-1 rather than
    m-2 or (b) the pruning slack containing the betas — found with the Lean driver only"""
    cases = [gen_case(rng, nmax, tight=True) for _ in range(count)]
    for c in cases:
        c["ignore"] = False
        if c["m"] < 3 and rng.random() < 0.7:
            c["m"] = 3
            c["M"] = max(c["M"], 3)
            if c["n"] < 3:
                c["m"] = 2
    good = core.run_driver([line(c) for c in cases])
    short = core.run_driver([line(c, delay=max(c["m"] - 2, 0)) for c in cases])
    noslack = core.run_driver([line(c, kadj=-sum(c["cb"]) + max(c["cb"])) for c in cases])
    out = []
    for c, a, b, d in zip(cases, good, short, noslack):
        if a != b or a != d:
            out.append(c)
    return out


def policy_search(cases, results):
    """if the code's policy no longer matches, look for another member of the proved policy family
    (`SoundPickMax` tie-break × `SoundPruneC` pruning test × delay ≥ m-1; theorems `capaG_*`) under which
    model and implementation agree on every case of the stream"""
    keep = [(c, r) for c, r in zip(cases, results) if not skip(c, r)]
    for pick in PICKS:
        for pr in PRUNES:
            for extra in (0, 1, 3):
                outs = core.run_driver([line(c, delay=c["m"] - 1 + extra, pick=pick, pr=pr) for c, _ in keep])
                if all(canon(c, r) == model_expect(c, o) for (c, r), o in zip(keep, outs)):
                    return f"pick={pick} prune={pr} delay=m-1+{extra}"
    return None


def load_corpus(prefix):
    d = os.path.join(core.ROOT, "corpus", "C03")
    out = []
    if os.path.isdir(d):
        for f in sorted(os.listdir(d)):
            if f.endswith(".json") and f.startswith(prefix):
                obj = json.load(open(os.path.join(d, f)))
                out.extend(obj if isinstance(obj, list) else [obj])
    return out


def describe(c):
    return {k: c[k] for k in ("n", "p", "m", "M", "ca", "cb", "pa", "pb", "ignore") if k in c} | {"T[0][n]": c["T"][0][c["n"]]}



# --------------------------------------------------------------------------------- long series


def long_case(rng):
    n = rng.choice([4096, 4097, 4100, 8192]) + rng.choice([0, 1, 5])
    m = rng.choice([2, 3])
    M = rng.choice([m + 3, 20, 40])
    x = [rng.choice([0, 0, 0, 1, -1]) * 0.5 for _ in range(n)]
    for _ in range(12):  # planted collective anomalies and spikes, also right at the ends
        a = rng.choice([0, n - M, rng.randint(0, n - 1)])
        L = rng.randint(m, M)
        lv = rng.choice([2.0, -3.0, 4.0])
        for i in range(max(0, a), min(n, a + L)):
            x[i] += lv
    for _ in range(8):
        x[rng.choice([0, n - 1, rng.randint(0, n - 1)])] += rng.choice([7.0, -9.0])
    return {"n": n, "m": m, "M": M, "x": x, "scale": rng.choice([0.5, 1.0, 2.0])}


def impl_long(case):
    from skchange.anomaly_detectors import CAPA

    X = np.array(case["x"], dtype=float).reshape(-1, 1)
    try:
        det = CAPA(collective_penalty_scale=case["scale"], point_penalty_scale=case["scale"], min_segment_length=case["m"],
                   max_segment_length=case["M"]).fit(X)
        opt = np.asarray(det.transform_scores(X)).reshape(-1)
        y = det.predict(X)
        return {"outcome": "ok", "anoms": [(int(i.left), int(i.right)) for i in y["ilocs"]], "opt": [float(v) for v in opt],
                "ca": float(det.collective_penalty_), "pa": float(det.point_penalty_)}
    except Exception as ex:
        return {"outcome": "other:" + type(ex).__name__, "msg": str(ex)[:200]}


def oracle_long(case, r):
    """the unpruned recursion over all admissible lengths, vectorised, from prefix sums computed here (L2 saving, baseline 0)"""
    if r["outcome"] != "ok":
        return f"CAPA did not run to completion: {r['outcome']} {r.get('msg', '')}"
    x = np.array(case["x"], dtype=float)
    n, m, M, ca, pa = case["n"], case["m"], case["M"], r["ca"], r["pa"]
    S = np.concatenate(([0.0], np.cumsum(x)))
    sav = lambda s, e: (S[e] - S[s]) ** 2 / (e - s)  # noqa: E731
    F = np.zeros(n + 1)
    for t in range(1, n + 1):
        best = max(F[t - 1], F[t - 1] + x[t - 1] ** 2 - pa)
        Ls = np.arange(m, min(M, t) + 1)
        if len(Ls):
            best = max(best, float(np.max(F[t - Ls] + sav(t - Ls, t) - ca)))
        F[t] = best
    opt = np.array(r["opt"])
    bad = np.where(~(np.abs(opt - F[1:]) <= 1e-7 * (1 + np.abs(F[1:]))))[0]
    if len(bad):
        t = int(bad[0])
        return f"n={n}: cumulative score at t={t} is {opt[t]!r}; the optimal total penalised saving of that prefix is {F[t + 1]!r}"
    an = r["anoms"]
    if any(a2 < b1 for (a1, b1), (a2, b2) in zip(an, an[1:])) or any(not (b - a == 1 or m <= b - a <= M) for a, b in an):
        return f"n={n}: reported anomalies are not sorted / disjoint / of admissible length"
    val = sum((x[a] ** 2 - pa) if b - a == 1 else (sav(a, b) - ca) for a, b in an)
    if not abs(val - F[n]) <= 1e-7 * (1 + abs(F[n])):
        return f"n={n}: re-evaluating the {len(an)} reported anomalies gives {val!r}; the final score / optimum is {F[n]!r}"
    return None


def warm():
    """load what the library imports lazily and run each detector once on a tiny fixed series, in the process the builtin
    cases are forked from (first use costs about a second otherwise)"""
    from skchange.anomaly_detectors import CAPA, MVCAPA

    W = np.arange(24.0).reshape(12, 2) % 5
    for fam in ("sparse", "dense", "intermediate", "combined"):
        MVCAPA(collective_penalty=fam, point_penalty=fam).fit(W).predict(W)
    CAPA().fit(W).predict(W)


def run(chk: core.Check):
    tier = chk.tier
    N = {"quick": 2500, "thorough": 50000}[tier]
    nmax = {"quick": 13, "thorough": 26}[tier]
    chk.lean()
    chk.rules.append(
        "table streams: non-negative per-column sub-additive integer savings (random and near-additive 'tight' tables), "
        "p in 1..3, 2<=m<=M, integer alpha/betas covering the dense / equal-betas / general branches, MVCAPA via penalty "
        "callables and CAPA via exact scales; boundary stream: tables on which the model's answer depends on the pruning "
        "delay or on the betas in the pruning slack; builtin stream: L2Saving / Saving(L2Cost(0)) / Saving(GaussianVarCost) "
        "with the four penalty families on small-integer data. Non-trivial = at least one anomaly reported; distinct by case hash"
    )
    chk.assumptions += [
        "float arithmetic on the small integers of the table streams is exact",
        "builtin stream compares under a 1e-7 relative tolerance and skips (counts) cases outside the property's hypotheses",
    ]
    nontriv = lambda c, r: r.get("outcome") == "ok" and len(r.get("anoms", [])) > 0  # noqa: E731

    def stream(name, cases, impl):
        res = chk.run_stream(name, cases, impl, line=line, canon=canon, model_map=model_expect, oracle=oracle,
                             skip=skip, nontrivial=nontriv, site="CAPA/" + name, describe=describe)
        if chk.streams[name]["disagreements"]:
            pol = policy_search(cases, res)
            chk.notes[f"policy[{name}]"] = pol
            if pol:  # inside the proved family (capaG_* hold for it): not a broken correspondence
                chk.violations = [v for v in chk.violations if not (v["kind"] == "correspondence" and v["stream"] == name)]
                chk.streams[name]["agrees_under_policy"] = pol
        return res

    corpus = load_corpus("table-")
    if corpus:
        stream("corpus", corpus, impl_mvcapa)
    rng = core.rng_for(chk.seed, "C03/boundary")
    mined = mine_boundary(rng, {"quick": 5000, "thorough": 100000}[tier], nmax)
    chk.notes["boundary_mined"] = len(mined)
    stream("boundary", mined, impl_mvcapa)
    rng = core.rng_for(chk.seed, "C03/mvcapa")
    stream("mvcapa-table", core.Gen(gen_case, rng, nmax, N), impl_mvcapa)
    rng = core.rng_for(chk.seed, "C03/capa")
    stream("capa-table", [as_capa(gen_case(rng, nmax)) for _ in range(N // 2)], impl_capa)
    rng = core.rng_for(chk.seed, "C03/builtin")
    rng = core.rng_for(chk.seed, "C03/long")
    chk.run_stream("long", [long_case(rng) for _ in range({"quick": 4, "thorough": 12}[tier])], impl_long, oracle=oracle_long, site="CAPA/long",
                   per_case_timeout=300, nontrivial=nontriv, describe=lambda c: {k: v for k, v in c.items() if k != "x"})
    rng = core.rng_for(chk.seed, "C03/builtin")
    warm()
    chk.run_stream("builtin", core.Gen(gen_builtin, rng, min(nmax, 16), N // 3), impl_builtin, fresh=True,
                   oracle=oracle_builtin, skip=skip_builtin, nontrivial=nontriv, site="CAPA/builtin",
                   describe=lambda c: {k: v for k, v in c.items() if k != "X"} | {"X[:4]": c["X"][:4]})
    return chk.finish()


def replay(path):
    v = json.load(open(path))
    case = v["case"]
    if case is None:
        print(json.dumps(v, indent=1)[:3000])
        return 0
    if v["stream"] == "long":
        r = impl_long(case)
        print("oracle        :", oracle_long(case, r))
        return 0
    if v["stream"] == "builtin":
        r = impl_builtin(case)
        print("implementation:", {k: r[k] for k in r if k not in ("sav", "psav")})
        print("oracle        :", oracle_builtin(case, r) if not skip_builtin(case, r) else "skipped")
        return 0
    impl = impl_capa if v["stream"] == "capa-table" else impl_mvcapa
    r = impl(case)
    print("implementation:", canon(case, r))
    print("model         :", model_expect(case, core.run_driver([line(case)])[0]))
    print("oracle        :", oracle(case, r) if not skip(case, r) else "skipped")
    return 0
