"""C10 — results depend only on hyper-parameters, training data and the input  (partial).

Lean: Skc/Props/C10.lean (abstract object heap: after any history a detector's view is the fold of
the relevant calls only).  Tie: (i) frame conformance — every attribute write performed by public
methods of the real objects is recorded and must fall inside what the model's operation writes
(never a hyper-parameter outside set_params); (ii) differential histories — random sequences of
construct / set_params / clone / fit / update / predict / transform / transform_scores / evaluate
over all detectors and scorers, datasets of different n and p, shared scorer objects, reused and
in-place-modified containers; every output is compared with that of a freshly constructed object
that received only the relevant calls, and the caller's data / get_params() are hashed around
every call."""
from __future__ import annotations

import hashlib
import json

import numpy as np
import pandas as pd

from .. import core

DET_KINDS = ["pelt", "mw", "sbs", "cbs", "capa", "mvcapa", "stat"]
SCORER_KINDS = ["l2", "l2-fixed", "gvar", "gvar-fixed", "gcov", "gcov-fixed", "cusum", "chg-l2", "sav-l2", "sav-gvar", "l2saving", "loc-l2",
                "gvar-fixed-arrays"]


def h(obj):
    if isinstance(obj, (pd.DataFrame, pd.Series)):
        return hashlib.sha1(pd.util.hash_pandas_object(obj, index=True).values.tobytes() + str(obj.shape).encode()).hexdigest()[:12]
    if isinstance(obj, np.ndarray):
        return hashlib.sha1(obj.tobytes() + str(obj.shape).encode() + str(obj.dtype).encode()).hexdigest()[:12]
    return hashlib.sha1(repr(obj).encode()).hexdigest()[:12]


def params_sig(est):
    out = {}
    for k, v in est.get_params(deep=True).items():
        out[k] = type(v).__name__ if hasattr(v, "get_params") else repr(v)
    return json.dumps(out, sort_keys=True)


def mk_cost(kind):
    from skchange.costs import GaussianCovCost, GaussianVarCost, L2Cost

    return {"l2": L2Cost, "gvar": GaussianVarCost, "gcov": GaussianCovCost}[kind]()


def mk_scorer(kind, shared=None):
    from skchange.anomaly_scores import L2Saving, LocalAnomalyScore, Saving
    from skchange.change_scores import CUSUM, ChangeScore
    from skchange.costs import GaussianCovCost, GaussianVarCost, L2Cost

    return {
        "l2": lambda: L2Cost(), "l2-fixed": lambda: L2Cost(param=0.75), "gvar": lambda: GaussianVarCost(),
        "gvar-fixed": lambda: GaussianVarCost(param=(0.5, 2.0)), "gcov": lambda: GaussianCovCost(),
        # hyper-parameters given as the user's own arrays, one variance far below the 1e-16 floor of the optimal-parameter cost
        # (a fixed variance is used as given); fit must leave those arrays alone
        "gvar-fixed-arrays": lambda: GaussianVarCost(param=(np.array([0.5]), np.array([1e-18]))),
        "gcov-fixed": lambda: GaussianCovCost(param=(1.5, 2.0)), "cusum": lambda: CUSUM(),
        "chg-l2": lambda: ChangeScore(shared or L2Cost()), "sav-l2": lambda: Saving(L2Cost(param=0.5)),
        "sav-gvar": lambda: Saving(GaussianVarCost(param=(0.0, 1.0))), "l2saving": lambda: L2Saving(),
        "loc-l2": lambda: LocalAnomalyScore(shared or L2Cost()),
    }[kind]()


def mk_inner():
    """the change detector object that several anomalisers of one history are constructed with (tuned threshold:
    its fitted state depends on the data)"""
    from skchange.change_detectors import MovingWindow

    return MovingWindow(bandwidth=3, threshold_scale=None)


def mk_det(kind, prm, cost=None, inner=None):
    from skchange.anomaly_detectors import CAPA, MVCAPA, CircularBinarySegmentation, StatThresholdAnomaliser
    from skchange.change_detectors import PELT, MovingWindow, SeededBinarySegmentation
    from skchange.costs import GaussianVarCost

    s, m = prm["scale"], prm["m"]
    if kind == "pelt":
        return PELT(cost, penalty_scale=s if s is not None else 1.0, min_segment_length=m)
    if kind == "mw":
        return MovingWindow(cost, bandwidth=m + 1, threshold_scale=s)
    if kind == "sbs":
        return SeededBinarySegmentation(cost, threshold_scale=s, min_segment_length=m)
    if kind == "cbs":
        return CircularBinarySegmentation(cost, threshold_scale=s, min_segment_length=m)
    sc = s if s is not None else 0.7
    sav = GaussianVarCost(param=(0.0, 1.0)) if prm.get("saving") == "gvar" else None
    psav = None
    if prm.get("saving") == "gcov" and kind == "mvcapa":  # MVCAPA only takes univariate savings
        sav = GaussianVarCost(param=(0.0, 1.0))
    elif prm.get("saving") == "gcov":  # multivariate collective saving and a point saving around the same non-zero mean
        from skchange.costs import GaussianCovCost, L2Cost

        sav, psav = GaussianCovCost(param=(1.5, 2.0)), L2Cost(param=1.5)
    if kind == "capa":
        return CAPA(sav, psav, collective_penalty_scale=sc, point_penalty_scale=sc, min_segment_length=max(m, 2))
    if kind == "mvcapa":
        return MVCAPA(sav, psav, collective_penalty=prm.get("cfam", "combined"), point_penalty=prm.get("pfam", "sparse"),
                      collective_penalty_scale=sc, point_penalty_scale=sc, min_segment_length=max(m, 2))
    if prm.get("inner") == "shared":
        return StatThresholdAnomaliser(inner if inner is not None else mk_inner(), stat=np.mean, stat_lower=-1.0, stat_upper=1.0)
    # a user statistic that works on the array it is handed (sorts it in place): what it is handed must not be the caller's data
    stat = inplace_midpoint if (m + int(round(4 * (sc or 0.75)))) % 2 else np.mean
    return StatThresholdAnomaliser(PELT(min_segment_length=m, penalty_scale=sc), stat=stat, stat_lower=-1.0, stat_upper=1.0)


def inplace_midpoint(v):
    """mean of the smallest and the largest value, computed by sorting the argument in place"""
    v.sort()
    return 0.5 * (float(v[0]) + float(v[-1]))


def datasets(seed):
    g = np.random.default_rng(seed)
    out = []
    for n, p in [(24, 1), (31, 1), (24, 1), (28, 2), (36, 3), (24, 1)]:  # 0, 2, 5 share shape and index
        X = g.normal(size=(n, p))
        t = int(g.integers(5, n - 5))
        X[t:] += g.choice([3.0, -4.0, 5.0])
        X[int(g.integers(n))] += 7.0
        out.append(pd.DataFrame(X))
    # 6: quiet series whose only anomaly is at the very end; 7: a collective anomaly in the first rows (what one run leaves
    # behind in a process-wide structure would be applied at the start of the next)
    A = g.normal(size=(24, 1)) * 0.1
    A[21:] += 9.0
    B = g.normal(size=(24, 1)) * 0.1
    B[0:6] += 7.0
    out += [pd.DataFrame(A), pd.DataFrame(B)]
    return out


def gen_history(rng, length):
    """a history as data: object table + op list (replayable)"""
    objs = []
    shared_cost = rng.random() < 0.6
    for i in range(rng.randint(2, 4)):
        kind = rng.choice(DET_KINDS)
        prm = {"scale": rng.choice([0.5, 1.0, None]), "m": rng.randint(1, 3)}
        if kind in ("capa", "mvcapa"):  # savings with different numbers of parameters; all penalty families
            prm["saving"] = rng.choice([None, "gvar"])
            if kind == "mvcapa":
                prm["cfam"], prm["pfam"] = rng.choice(["combined", "sparse", "dense"]), rng.choice(["combined", "sparse", "dense"])
        if kind == "stat":  # anomalisers may be handed one and the same change detector object
            prm["inner"] = rng.choice(["own", "shared", "shared"])
        objs.append({"type": "det", "kind": kind, "prm": prm,
                     "share": shared_cost and kind in ("pelt", "mw", "sbs", "cbs") and rng.random() < 0.7})
    for i in range(rng.randint(1, 3)):
        kind = rng.choice(SCORER_KINDS)
        objs.append({"type": "scorer", "kind": kind, "share": shared_cost and kind in ("chg-l2", "loc-l2") and rng.random() < 0.7})
    ops = []
    for _ in range(length):
        o = rng.randrange(len(objs))
        if objs[o]["type"] == "det":
            op = rng.choice(["fit", "fit", "predict", "predict", "transform", "transform_scores", "update", "set_params", "clone", "refit-same"])
            ops.append({"o": o, "op": op, "X": rng.randrange(6), "arg": rng.choice([0.5, 1.0, 2.0]), "cut": rng.randint(2, 20),
                        "ov": rng.choice([0, 0, 1, 1, 3])})
        else:
            op = rng.choice(["sfit", "sfit", "evaluate", "evaluate", "mutate-refit", "sclone"])
            ops.append({"o": o, "op": op, "X": rng.randrange(6), "as_array": rng.random() < 0.5})
    # every detector ends with calls on DIFFERENT data sets that share shape and index (0, 2, 5): a result cached
    # under the index / shape of the previous call would be returned for the wrong data
    for o, ob in enumerate(objs):
        if ob["type"] == "det" and rng.random() < 0.7:
            same = [0, 2, 5]
            rng.shuffle(same)
            tail = [("fit", same[0]), (rng.choice(["predict", "transform_scores", "transform"]), same[1]),
                    (rng.choice(["transform_scores", "predict", "transform"]), same[2]), (rng.choice(["transform_scores", "transform"]), same[0])]
            for op, xi in tail:
                ops.append({"o": o, "op": op, "X": xi, "arg": 1.0, "cut": 10, "ov": 0})
    # pairs of objects that interact only through something they share: one change detector object handed to two
    # anomalisers; two MVCAPA detectors that differ in the saving's parameter count but agree in (n, p, scale), so that
    # anything memoised per (n, p, scale) at module level would be handed from one to the other
    scen = rng.choice([None, None, "stat-pair", "mvcapa-pair", "capa-leak", "shared-pair"])
    if scen:
        a, b = len(objs), len(objs) + 1
        if scen == "stat-pair":
            for _ in range(2):
                objs.append({"type": "det", "kind": "stat", "prm": {"scale": 1.0, "m": 2, "inner": "shared"}, "share": False})
            xa, xb = rng.sample([0, 2, 5], 2)
        elif scen == "capa-leak":
            kind = rng.choice(["capa", "mvcapa"])
            for m in (3, 2):
                objs.append({"type": "det", "kind": kind, "prm": {"scale": rng.choice([0.5, 1.0]), "m": m}, "share": False})
            xa, xb = 6, 7
        elif scen == "shared-pair":  # two detectors of one kind holding the SAME cost object, used alternately
            kind = rng.choice(["cbs", "sbs", "mw", "pelt"])
            for _ in range(2):
                objs.append({"type": "det", "kind": kind, "prm": {"scale": rng.choice([0.5, 1.0]), "m": 2}, "share": True})
            xa, xb = rng.sample([0, 2, 5], 2)
        else:
            sc = rng.choice([0.5, 1.0])
            if rng.random() < 0.5:  # same family, savings with one and two parameters per variable
                fam = rng.choice(["intermediate", "intermediate", "combined"])
                savs = [None, "gvar"]
                rng.shuffle(savs)
                pairs = [(sv, fam) for sv in savs]
            else:  # same saving, families that are built from one another (the combined penalty calls the other three)
                fams = rng.choice([["combined", "intermediate"], ["combined", "sparse"], ["combined", "dense"], ["intermediate", "combined"]])
                sv = rng.choice([None, "gvar"])
                pairs = [(sv, fm) for fm in fams]
            for sv, fam in pairs:
                objs.append({"type": "det", "kind": "mvcapa", "prm": {"scale": sc, "m": 2, "saving": sv, "cfam": fam, "pfam": fam}, "share": False})
            xa = xb = rng.choice([3, 4, 4])
        tail = [(a, "fit", xa), (b, "fit", xb), (a, "predict", xa), (b, "predict", xb), (b, "transform_scores", xb),
                (a, "transform", xb), (a, "transform_scores", xa)]
        if scen == "shared-pair":  # alternate between the two holders on the data each was fitted to
            tail = [(a, "fit", xa), (b, "fit", xb), (a, "predict", xa), (b, "predict", xb), (a, "predict", xa), (b, "predict", xb),
                    (a, "transform", xa)]
        if scen == "stat-pair" and rng.random() < 0.5:  # the user fits the detector object they handed over, on other data
            tail = [(a, "fit", xa), (a, "fit_inner", xb), (a, "predict", xa), (b, "fit", xb), (b, "predict", xa)]
        for o, op, xi in tail:
            ops.append({"o": o, "op": op, "X": xi, "arg": 1.0, "cut": 10, "ov": 0})
    return {"objs": objs, "ops": ops, "seed": rng.randint(0, 10**6)}


def frame_sig(y):
    if isinstance(y, (pd.DataFrame, pd.Series)):
        return json.dumps([str(v) for v in np.asarray(y).reshape(-1).tolist()]) + str(list(map(str, y.index[:3])))
    return json.dumps(np.asarray(y).tolist())


def union_frames(old, new):
    """rows of old that new does not re-supply, then new, ordered by index — the combined data"""
    keep = old[~old.index.isin(new.index)]
    return pd.concat([keep, new]).sort_index()


WRITES = []


def instrument():
    """record (class, attribute) of every attribute assignment on skchange estimators"""
    from skchange.base import BaseDetector, BaseIntervalScorer

    for cls in (BaseDetector, BaseIntervalScorer):
        if getattr(cls, "_verif_patched", False):
            continue
        orig = cls.__setattr__

        def patched(self, name, value, _orig=orig):
            WRITES.append((self, name))
            _orig(self, name, value)

        cls.__setattr__ = patched
        cls._verif_patched = True


def hyper_names(est):
    return set(est.get_params(deep=False).keys())


def reachable(root):
    """the estimator objects reachable from `root` through its attributes (existing before a call)"""
    seen, todo = {}, [root]
    while todo:
        o = todo.pop()
        if id(o) in seen or not hasattr(o, "get_params"):
            continue
        seen[id(o)] = o
        for v in list(vars(o).values()):
            if hasattr(v, "get_params") and not isinstance(v, type):
                todo.append(v)
    return seen


def check_writes(op, target, writes, known):
    """frame conformance: attributes written by the public call on objects that existed before it"""
    bad = []
    for obj, name in writes:
        if id(obj) not in known:
            continue  # objects created inside the call (clones, helpers)
        if name in hyper_names(obj) and op != "set_params":
            bad.append(f"{type(obj).__name__}.{name} (a hyper-parameter) written by {op}")
        elif op in ("predict", "transform", "transform_scores") and obj is target and name != "scores":
            bad.append(f"{type(obj).__name__}.{name} written by {op} (the model's {op} only writes `scores` and refits the held scorer)")
        elif op == "evaluate" and obj is target and not name.startswith("_"):
            bad.append(f"{type(obj).__name__}.{name} written by evaluate")
    return bad


_WARM = False


def warm():
    """import everything the library loads lazily and run each kind of object once on one tiny fixed series, in the
    process all histories are forked from: later forks then start from the same, already initialised, state"""
    global _WARM
    if _WARM:
        return
    _WARM = True
    W = pd.DataFrame(np.arange(40.0).reshape(20, 2) % 7)
    for kind in DET_KINDS:
        try:
            d = mk_det(kind, {"scale": 1.0, "m": 2})
            X = W[[0]] if kind == "stat" else W
            d.fit(X)
            d.predict(X)
            d.transform(X)
        except Exception:
            pass
    for kind in SCORER_KINDS:
        try:
            sc = mk_scorer(kind)
            sc.fit(W)
        except Exception:
            pass


class Pristine:
    """a twin of this process forked before the history starts; it never runs a history itself and computes every
    reference value in a further fork of its untouched state — so a reference cannot be contaminated by module-level
    state (memo tables, class attributes, mutable defaults) that the history left behind in this process"""

    def __init__(self):
        import os
        import pickle

        self.os, self.pickle = os, pickle
        req_r, self.req_w = os.pipe()
        self.rep_r, rep_w = os.pipe()
        self.pid = os.fork()
        if self.pid == 0:
            os.close(self.req_w)
            os.close(self.rep_r)
            try:
                rf, wf = os.fdopen(req_r, "rb"), os.fdopen(rep_w, "wb")
                while True:
                    try:
                        job = pickle.load(rf)
                    except EOFError:
                        break
                    res = core.run_forked(_reference, job, 60.0)
                    pickle.dump(res, wf)
                    wf.flush()
            finally:
                os._exit(0)
        os.close(req_r)
        os.close(rep_w)
        self.wf, self.rf = os.fdopen(self.req_w, "wb"), os.fdopen(self.rep_r, "rb")

    def call(self, job):
        self.pickle.dump(job, self.wf)
        self.wf.flush()
        return self.pickle.load(self.rf)

    def close(self):
        try:
            self.wf.close()
            self.rf.close()
            self.os.waitpid(self.pid, 0)
        except Exception:
            pass


def _reference(job):
    """what a freshly constructed object that received only the relevant calls returns"""
    try:
        if job["t"] == "det":
            ref = mk_det(job["kind"], job["prm"], mk_cost("l2") if job["share"] else None)
            if job.get("stat_upper") is not None:
                ref.set_params(stat_upper=job["stat_upper"])
            ref.fit(job["train"])
            return {"sig": frame_sig(getattr(ref, job["op"])(job["X"]))}
        ref = mk_scorer(job["kind"], mk_cost("l2") if job["share"] else None)
        return {"val": ref.fit(job["F"]).evaluate(np.array([job["cut"]]))}
    except Exception as ex:
        return {"exc": type(ex).__name__, "msg": str(ex)[:200]}


def run_history(hist):
    warm()  # no-op when the parent process already did it
    pristine = Pristine()  # before anything else runs in this process
    try:
        return _run_history(hist, pristine)
    finally:
        pristine.close()


def _run_history(hist, pristine):
    instrument()
    D = datasets(hist["seed"])
    D0 = [x.copy() for x in D]
    shared = mk_cost("l2")
    shared_inner = mk_inner()
    live, state = [], []
    for o in hist["objs"]:
        if o["type"] == "det":
            live.append(mk_det(o["kind"], o["prm"], shared if o["share"] else None, shared_inner))
            state.append({"prm": dict(o["prm"]), "train": None})
        else:
            live.append(mk_scorer(o["kind"], shared if o["share"] else None))
            state.append({"fit": None})
    WRITES.clear()
    viol, n_cmp = [], 0
    frame_viol = []  # writes outside the model's frame: a broken correspondence, not by itself a failure of the property
    trace = []
    # Objects sharing the cost refit it whenever they score data.  An adapter wrapping the shared cost
    # is only evaluated while no other holder has touched the cost since the adapter's own fit
    # (otherwise adapter and inner cost are fitted on different data: outside the statement).
    epoch = 0

    def fresh_det(i):
        o = hist["objs"][i]
        return mk_det(o["kind"], state[i]["prm"], mk_cost("l2") if o["share"] else None)

    for step, op in enumerate(hist["ops"]):
        i, kind = op["o"], op["op"]
        obj, meta = live[i], hist["objs"][i]
        X = D[op["X"]]
        if meta["type"] == "det" and meta["kind"] == "stat" and X.shape[1] != 1:
            X = D[0]
        if meta["share"] and kind not in ("evaluate", "set_params", "clone", "sclone"):
            epoch += 1
        before = [h(x) for x in D]
        psig = params_sig(obj)
        known = reachable(obj)
        WRITES.clear()
        real_writes = None

        def done():
            nonlocal real_writes
            if real_writes is None:
                real_writes = list(WRITES)

        try:
            if kind == "fit_inner":
                shared_inner.fit(X)
            elif kind in ("fit", "refit-same"):
                obj.fit(X)
                state[i]["train"] = X.copy()
            elif kind == "update":
                if state[i]["train"] is None:
                    continue
                old = state[i]["train"]
                if X.shape[1] != old.shape[1]:
                    continue
                k = min(op["cut"], len(X))
                start = int(old.index[-1]) + 1 - op["ov"]  # the chunk overlaps the last `ov` remembered rows
                chunk = X.iloc[:k].copy()
                chunk.index = pd.RangeIndex(start, start + k)
                obj.update(chunk)
                state[i]["train"] = union_frames(old, chunk)
            elif kind == "set_params":
                key = {"pelt": "penalty_scale", "mw": "threshold_scale", "sbs": "threshold_scale", "cbs": "threshold_scale",
                       "capa": "collective_penalty_scale", "mvcapa": "collective_penalty_scale", "stat": "stat_upper"}[meta["kind"]]
                obj.set_params(**{key: op["arg"]})
                if meta["kind"] in ("capa", "mvcapa"):
                    obj.set_params(point_penalty_scale=op["arg"])
                    state[i]["prm"]["scale"] = op["arg"]
                elif meta["kind"] == "stat":
                    state[i]["stat_upper"] = op["arg"]
                else:
                    state[i]["prm"]["scale"] = op["arg"]
                state[i]["train"] = None  # sktime's set_params resets the estimator
                psig = params_sig(obj)
            elif kind == "clone":
                live[i] = obj.clone()
                state[i]["train"] = None
                obj = live[i]
            elif kind in ("predict", "transform", "transform_scores"):
                if state[i]["train"] is None:
                    continue
                tr = state[i]["train"]
                if X.shape[1] != tr.shape[1]:
                    continue
                out = getattr(obj, kind)(X)
                done()
                want = pristine.call({"t": "det", "kind": meta["kind"], "prm": state[i]["prm"], "share": meta["share"],
                                      "stat_upper": state[i].get("stat_upper"), "train": tr.copy(), "op": kind, "X": X.copy()})
                if "exc" in want:
                    raise {"NotImplementedError": NotImplementedError, "ValueError": ValueError}.get(want["exc"], RuntimeError)(
                        "reference raised: " + want.get("msg", ""))
                n_cmp += 1
                if frame_sig(out) != want["sig"]:
                    viol.append(f"step {step}: {meta['kind']}.{kind} differs from a freshly constructed detector fitted on the same training data "
                                f"(history so far: {trace[-6:]})")
            elif kind in ("sfit", "mutate-refit"):
                A = X.to_numpy().copy() if op["as_array"] else X
                if kind == "mutate-refit":  # fit, modify the same container in place, fit again
                    A = X.to_numpy().copy()
                    obj.fit(A)
                    A[0, 0] += 3.0
                    A[-1, -1] -= 2.0
                obj.fit(A)
                state[i]["fit"] = np.asarray(A).copy()
                state[i]["epoch"] = epoch
            elif kind == "sclone":
                live[i] = obj.clone()
                state[i]["fit"] = None
            elif kind == "evaluate":
                if state[i]["fit"] is None or (meta["share"] and state[i].get("epoch") != epoch):
                    continue
                F = state[i]["fit"]
                k = obj.expected_cut_entries
                ms = int(obj.min_size or 1)
                n = len(F)
                cut = {2: [2, 2 + max(ms, 6)], 3: [1, 1 + max(ms, 4), 1 + 2 * max(ms, 4)], 4: [0, max(ms, 3), 2 * max(ms, 3), 3 * max(ms, 3)]}[k]
                if cut[-1] > n:
                    continue
                try:
                    out = obj.evaluate(np.array([cut]))
                    done()
                    wr = pristine.call({"t": "scorer", "kind": meta["kind"], "share": meta["share"], "F": F.copy(), "cut": cut})
                    if "exc" in wr:
                        raise RuntimeError("reference raised: " + wr.get("msg", ""))
                    want = wr["val"]
                    n_cmp += 1
                    if not np.array_equal(out, want):
                        viol.append(f"step {step}: {meta['kind']}.evaluate({cut}) = {out.tolist()} differs from a freshly constructed scorer fitted on "
                                    f"the data of its last fit = {want.tolist()} (history so far: {trace[-6:]})")
                except RuntimeError:
                    pass
        except NotImplementedError:
            pass  # detectors without transform_scores: the fresh object raises the same
        except ValueError as ex:
            if "Saving" in str(ex) or "baseline cost must have a fixed parameter" in str(ex):
                continue
            viol.append(f"step {step}: {meta['kind']}.{kind} raised ValueError: {str(ex)[:120]}")
        except Exception as ex:
            viol.append(f"step {step}: {meta['kind']}.{kind} raised {type(ex).__name__}: {str(ex)[:120]}")
        trace.append(f"{meta['kind']}#{i}.{kind}(D{op['X']})")
        after = [h(x) for x in D]
        if after != before:
            viol.append(f"step {step}: {meta['kind']}.{kind} modified the caller's data (dataset {[j for j in range(len(D)) if after[j] != before[j]]})")
            for j in range(len(D)):
                D[j] = D0[j].copy()
        if kind not in ("set_params", "clone", "sclone") and params_sig(live[i]) != psig:
            viol.append(f"step {step}: {meta['kind']}.{kind} changed get_params()")
        done()
        if kind not in ("clone", "sclone"):
            for w in check_writes({"sfit": "fit", "mutate-refit": "fit", "refit-same": "fit"}.get(kind, kind), obj, real_writes, known)[:2]:
                frame_viol.append(f"step {step}: {w} (history so far: {trace[-4:]})")
    return {"outcome": "ok", "violations": viol[:5], "frame": frame_viol[:5], "compared": n_cmp}


def impl(hist):
    try:
        return run_history(hist)
    except Exception as ex:
        import traceback

        return {"outcome": "harness-error:" + type(ex).__name__, "trace": traceback.format_exc()[-1500:]}


def oracle(hist, r):
    if r["violations"]:
        return r["violations"][0]
    return None


def array_case(rng):
    return {"kind": rng.choice(SCORER_KINDS + ["pelt-gcov-fixed"]), "seed": rng.randint(0, 10**6), "p": rng.randint(1, 3)}


def impl_array(c):
    """float ndarray passed directly: fit / evaluate / predict must not modify it"""
    from skchange.change_detectors import PELT
    from skchange.costs import GaussianCovCost

    g = np.random.default_rng(c["seed"])
    A = g.normal(size=(30, c["p"])) + 2.0
    A0 = A.copy()
    try:
        if c["kind"] == "pelt-gcov-fixed":
            det = PELT(GaussianCovCost(param=(1.5, 2.0)), min_segment_length=c["p"] + 1).fit(A)
            y1 = det.predict(A)
            y2 = det.predict(A)
            same = frame_sig(y1) == frame_sig(y2)
        else:
            sc = mk_scorer(c["kind"]).fit(A)
            k = sc.expected_cut_entries
            cut = {2: [2, 12], 3: [1, 9, 17], 4: [0, 6, 12, 18]}[k]
            v1 = sc.evaluate(np.array([cut]))
            v2 = mk_scorer(c["kind"]).fit(A0.copy()).evaluate(np.array([cut]))
            same = bool(np.array_equal(v1, v2))
        return {"outcome": "ok", "untouched": bool(np.array_equal(A, A0)), "same": same}
    except Exception as ex:
        return {"outcome": "other:" + type(ex).__name__, "msg": str(ex)[:200]}


def oracle_array(c, r):
    if r["outcome"] != "ok":
        return f"{c['kind']} raised {r['outcome']} {r.get('msg', '')}"
    if not r["untouched"]:
        return f"{c['kind']}: fit / evaluate / predict modified the caller's float array"
    if not r["same"]:
        return f"{c['kind']}: the result differs from that of a fresh object on a pristine copy of the data"
    return None


def update_case(rng):
    return {"kind": rng.choice(DET_KINDS), "scale": rng.choice([0.5, 1.0, None]), "m": rng.randint(1, 3), "seed": rng.randint(0, 10**6),
            "ov": rng.choice([0, 1, 1, 2, 5, "inside", "inside", "scattered", "scattered"]), "index": rng.choice(["range", "offset", "datetime"]), "p": rng.randint(1, 2)}


def impl_update(c):
    """fit(old) + update(new) must equal fit(old and new combined), for chunks that follow / overlap"""
    g = np.random.default_rng(c["seed"])
    n, k = 30, 12
    p = 1 if c["kind"] == "stat" else c["p"]
    A = g.normal(size=(n + k, p))
    A[20:] += 4.0
    idx5 = {"range": pd.RangeIndex(n + k + 5), "offset": pd.RangeIndex(100, 100 + n + k + 5),
            "datetime": pd.date_range("2021-01-01", periods=n + k + 5, freq="h")}[c["index"]]
    idx = idx5[: n + k]
    full = pd.DataFrame(A, index=idx)
    if c["ov"] == "inside":  # the batch only re-supplies rows that are already remembered, with (much) larger values: no new label
        old = full
        new = full.iloc[8:20].copy()
        new += 9.0
    elif c["ov"] == "scattered":  # corrections of a few scattered remembered rows together with the new rows
        old = full.iloc[:n]
        new = full.iloc[[n - 7, n - 4, n - 2] + list(range(n, n + k))].copy()
        new.iloc[:3] += 0.5
    else:
        old = full.iloc[:n]
        new = full.iloc[n - c["ov"]:].copy()
        new.iloc[: c["ov"]] += 0.5  # re-supplied rows carry new values: they must replace the old ones
    try:
        det = mk_det(c["kind"], {"scale": c["scale"], "m": c["m"]}).fit(old)
        rejected = None
        if core._bits(c, 2, 3) == 0 and c["ov"] != "inside":  # (a missing value in a re-supplied row means "keep the remembered value")
            # a batch with a missing value in a new row is rejected first: it must not be remembered, and the valid batch that follows
            # must be accepted and give the fit on old + new
            bad = pd.DataFrame(g.normal(size=(5, p)), index=idx5[n + k:])  # five rows later than everything else
            bad.iloc[2, 0] = np.nan
            try:
                det.update(bad)
                rejected = "accepted"
            except ValueError:
                rejected = "ValueError"
            except Exception as ex:
                rejected = type(ex).__name__
        det.update(new)
        comb = union_frames(old, new)
        ref = mk_det(c["kind"], {"scale": c["scale"], "m": c["m"]}).fit(comb)
        fa = {a: float(getattr(det, a)) for a in vars(det) if a.endswith("_") and not a.startswith("_") and np.isscalar(getattr(det, a))}
        fb = {a: float(getattr(ref, a)) for a in vars(ref) if a.endswith("_") and not a.startswith("_") and np.isscalar(getattr(ref, a))}
        test = full.iloc[5:35]
        ya, yb = det.predict(test), ref.predict(test)
        return {"outcome": "ok", "fitted": fa, "fitted_ref": fb, "same_pred": frame_sig(ya) == frame_sig(yb),
                "rows": int(len(det._X)), "rows_ref": int(len(comb)), "rejected": rejected}
    except Exception as ex:
        return {"outcome": "other:" + type(ex).__name__, "msg": str(ex)[:200]}


def oracle_update(c, r):
    if r["outcome"] != "ok":
        return (f"{c['kind']}: fit + update raised {r['outcome']} {r.get('msg', '')}"
                + (" (after an earlier batch with a missing value had been rejected)" if core._bits(c, 2, 3) == 0 and c["ov"] != "inside" else ""))
    if r.get("rejected") not in (None, "ValueError"):
        return f"{c['kind']}: update with a batch that contains a missing value: {r['rejected']} instead of ValueError"
    if r["fitted"] != r["fitted_ref"] or not r["same_pred"]:
        return (f"{c['kind']}: fit(old).update(new) with {c['ov']} overlapping rows ({c['index']} index) differs from fit on the combined data: "
                f"fitted {r['fitted']} vs {r['fitted_ref']}, remembered rows {r['rows']} vs {r['rows_ref']}")
    return None



# ------------------------------------------------------- nested re-configuration through set_params

NESTED = {"pelt": "cost", "mw": "change_score", "sbs": "change_score", "cbs": "anomaly_score", "capa": "collective_saving",
          "mvcapa": "collective_saving", "loc": "cost", "sav": "baseline_cost", "chg": "cost",
          # the cost inside a Saving handed to the detector is REPLACED by one of another class (other parameter count)
          "mvcapa-swap": "collective_saving__baseline_cost", "capa-swap": "collective_saving__baseline_cost",
          # a hyper-parameter of the change detector wrapped by an anomaliser
          "stat-nested": "change_detector__bandwidth"}


def nested_case(rng):
    return {"kind": rng.choice(list(NESTED)), "cost": rng.choice(["l2", "gvar"]), "p0": rng.choice([0.0, 1.0]), "p1": rng.choice([2.5, -1.5, 4.0]),
            "seed": rng.randint(0, 10**6), "used_before": rng.random() < 0.5, "data": rng.choice([0, 2, 5])}


def _mk_nested(c, prm):
    from skchange.anomaly_detectors import CAPA, MVCAPA, CircularBinarySegmentation
    from skchange.anomaly_scores import LocalAnomalyScore, Saving
    from skchange.change_detectors import PELT, MovingWindow, SeededBinarySegmentation
    from skchange.change_scores import ChangeScore
    from skchange.costs import GaussianVarCost, L2Cost

    cost = L2Cost(param=prm) if c["cost"] == "l2" else GaussianVarCost(param=(prm, 1.5))
    return {"pelt": lambda: PELT(cost, min_segment_length=2), "mw": lambda: MovingWindow(cost, bandwidth=3),
            "sbs": lambda: SeededBinarySegmentation(cost, min_segment_length=2), "cbs": lambda: CircularBinarySegmentation(cost, min_segment_length=2),
            "capa": lambda: CAPA(cost), "mvcapa": lambda: MVCAPA(cost), "loc": lambda: LocalAnomalyScore(cost), "sav": lambda: Saving(cost),
            "chg": lambda: ChangeScore(cost)}[c["kind"]]()


def impl_nested_swap(c):
    from skchange.anomaly_detectors import CAPA, MVCAPA
    from skchange.anomaly_scores import Saving
    from skchange.costs import GaussianVarCost, L2Cost

    X = datasets(c["seed"])[3 if c["kind"] == "mvcapa-swap" else c["data"]]
    cls = MVCAPA if c["kind"] == "mvcapa-swap" else CAPA
    try:
        a = cls(Saving(L2Cost(param=c["p0"])))
        if c["used_before"]:
            a.fit(X)
            a.predict(X)  # CAPA / MVCAPA fit their savings when they predict
        a.set_params(collective_saving__baseline_cost=GaussianVarCost(param=(c["p1"], 1.5)))
        b = cls(Saving(GaussianVarCost(param=(c["p1"], 1.5))))
        a.fit(X)
        b.fit(X)
        same = frame_sig(a.predict(X)) == frame_sig(b.predict(X)) and frame_sig(a.transform_scores(X)) == frame_sig(b.transform_scores(X))
        return {"outcome": "ok", "same": bool(same)}
    except Exception as ex:
        return {"outcome": "other:" + type(ex).__name__, "msg": str(ex)[:200]}


def impl_nested_stat(c):
    from skchange.anomaly_detectors import StatThresholdAnomaliser
    from skchange.change_detectors import MovingWindow

    X = datasets(c["seed"])[c["data"]].iloc[:, [0]]
    b0, b1 = 3, {2.5: 6, -1.5: 5, 4.0: 8}[c["p1"]]
    try:
        a = StatThresholdAnomaliser(MovingWindow(bandwidth=b0), stat=np.mean, stat_lower=-0.5, stat_upper=0.5)
        if c["used_before"]:
            a.fit(X).predict(X)
        a.set_params(change_detector__bandwidth=b1)
        b = StatThresholdAnomaliser(MovingWindow(bandwidth=b1), stat=np.mean, stat_lower=-0.5, stat_upper=0.5)
        same = frame_sig(a.fit(X).predict(X)) == frame_sig(b.fit(X).predict(X))
        return {"outcome": "ok", "same": bool(same)}
    except Exception as ex:
        return {"outcome": "other:" + type(ex).__name__, "msg": str(ex)[:200]}


def impl_nested(c):
    """an object whose wrapped cost is re-configured through `set_params(<component>__param=...)` must behave like one
    constructed with that configuration"""
    if c["kind"] == "stat-nested":
        return impl_nested_stat(c)
    if c["kind"].endswith("-swap"):
        return impl_nested_swap(c)
    X = datasets(c["seed"])[c["data"]]
    key = NESTED[c["kind"]] + "__param"
    new = c["p1"] if c["cost"] == "l2" else (c["p1"], 1.5)
    try:
        a, b = _mk_nested(c, c["p0"]), _mk_nested(c, c["p1"])
        if c["used_before"]:  # really used: some detectors fit their scorers only when they predict
            a.fit(X)
            if c["kind"] in ("loc", "sav", "chg"):
                a.evaluate(np.array([{"loc": [2, 6, 10, 15], "sav": [3, 12], "chg": [2, 9, 17]}[c["kind"]]]))
            else:
                a.predict(X)
        a.set_params(**{key: new})
        a.fit(X)
        b.fit(X)
        if c["kind"] in ("loc", "sav", "chg"):
            cut = {"loc": [2, 6, 10, 15], "sav": [3, 12], "chg": [2, 9, 17]}[c["kind"]]
            return {"outcome": "ok", "same": bool(np.array_equal(a.evaluate(np.array([cut])), b.evaluate(np.array([cut]))))}
        same = frame_sig(a.predict(X)) == frame_sig(b.predict(X))
        try:
            same = same and frame_sig(a.transform_scores(X)) == frame_sig(b.transform_scores(X))
        except NotImplementedError:
            pass
        return {"outcome": "ok", "same": bool(same)}
    except Exception as ex:
        return {"outcome": "other:" + type(ex).__name__, "msg": str(ex)[:200]}


def oracle_nested(c, r):
    if r["outcome"] != "ok":
        return f"{c['kind']}: nested set_params raised {r['outcome']} {r.get('msg', '')}"
    if not r["same"]:
        what = (f"set_params({NESTED[c['kind']]}=GaussianVarCost(...))" if c["kind"].endswith("-swap") else
                f"set_params({NESTED[c['kind']]}=...)" if c["kind"] == "stat-nested" else f"set_params({NESTED[c['kind']]}__param={c['p1']})")
        return (f"{c['kind']} ({c['cost']}) re-configured by {what} differs from an object constructed that way"
                + (" (it had been fitted before)" if c["used_before"] else ""))
    return None


def run(chk: core.Check):
    tier = chk.tier
    N = {"quick": 150, "thorough": 3000}[tier]
    L = {"quick": 25, "thorough": 60}[tier]
    chk.lean()
    chk.rules.append(
        "histories: %d random histories of <= %d calls over 2-4 detectors (all seven kinds, some sharing one cost object) and 1-3 scorers "
        "(12 kinds, some sharing that cost), six datasets (n in 24..36, p in 1..3) reused as the same Python objects, update chunks "
        "overlapping the remembered data by 0 / 1 / 3 rows, in-place modification + refit of scorer inputs; three of the datasets share "
        "shape and index and every detector ends with calls on them; CAPA / MVCAPA with one- and two-parameter savings and all penalty "
        "families; pairs of anomalisers built with one change detector object; pairs of MVCAPA detectors differing only in the saving's "
        "parameter count. Each history runs in its own forked process and every reference value is computed in a fork of a pristine twin "
        "forked before the history started (module-level state cannot contaminate the reference); arrays: float ndarrays passed "
        "directly to every scorer kind and to PELT with a fixed-mean multivariate cost. Non-trivial = history with >= 3 compared outputs" % (N, L)
    )
    chk.assumptions += [
        "interpretations: a scorer's last fit includes refits by a detector holding it; set_params invalidates the fit (sktime resets); "
        "histories that change a shared scorer's parameters directly and predict without refitting are outside the statement and not generated",
        "update(ndarray) raises AttributeError on the current tree: a listed known finding, not generated here (see C11)"]
    warm()
    rng = core.rng_for(chk.seed, "C10/hist")
    hs = core.Gen(gen_history, rng, L, N)
    res = chk.run_stream("histories", hs, impl, oracle=oracle, site="histories", per_case_timeout=120, fresh=True,
                         nontrivial=lambda c, r: r.get("compared", 0) >= 3,
                         describe=lambda c: {"objs": [o["kind"] for o in c["objs"]], "ops": [f"{o['op']}@{o['o']}" for o in c["ops"]][:12]})
    chk.notes["outputs_compared"] = sum(r.get("compared", 0) for r in res)
    # attribute writes outside the frame of the model's operations: the model no longer describes what the code writes.
    # The differential runs above are the search for an input on which the property itself fails; this alone is reported
    # as a broken correspondence (no-failing-input-found)
    nfr = 0
    for c, r in zip(hs, res):
        for w in r.get("frame", [])[:1]:
            nfr += 1
            if nfr <= 3:
                chk.violations.append({"kind": "correspondence", "stream": "histories", "case": c, "impl": r, "impl_canon": w,
                                       "model": "every attribute written by a public call lies inside the frame of the model's operation "
                                                "(Skc/Model/Frame.lean)", "msg": "frame conformance: " + w, "site": "frame",
                                       "signature": "correspondence"})
    chk.streams["histories"]["frame_disagreements"] = nfr
    rng = core.rng_for(chk.seed, "C10/array")
    chk.run_stream("arrays", [array_case(rng) for _ in range(N // 2)], impl_array, oracle=oracle_array, site="caller-data")
    rng = core.rng_for(chk.seed, "C10/update")
    chk.run_stream("update", [update_case(rng) for _ in range(N)], impl_update, oracle=oracle_update, site="update")
    rng = core.rng_for(chk.seed, "C10/nested")
    chk.run_stream("nested", [nested_case(rng) for _ in range(N)], impl_nested, oracle=oracle_nested, site="set_params/nested")
    return chk.finish()


def replay(path):
    v = json.load(open(path))
    case = v["case"]
    if case is None:
        print(json.dumps(v, indent=1)[:4000])
        return 0
    if v["stream"] == "nested":
        r = impl_nested(case)
        print("implementation:", r, "\noracle:", oracle_nested(case, r))
        return 0
    if v["stream"] == "arrays":
        r = impl_array(case)
        print("implementation:", r, "\noracle:", oracle_array(case, r))
    elif v["stream"] == "update":
        r = impl_update(case)
        print("implementation:", r, "\noracle:", oracle_update(case, r))
    else:
        r = impl(case)
        print(json.dumps(r, indent=1)[:3000])
    return 0
