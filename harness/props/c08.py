"""C08 — moving window: symmetric two-sided scores and peak-of-run detections.

Lean: Skc/Props/C08.lean.  Tie: `MovingWindow(HashChangeScore, bandwidth, threshold, min_detection_interval)`
through fit / transform_scores / predict against `mwScores` + `mwCpts`, exactly (integer scores,
exact or tuned thresholds).  Oracle: the property stated directly (scores by definition, maximal
runs, one peak per sufficiently long run), and time reversal on built-in scores."""
from __future__ import annotations

import json
from fractions import Fraction

import numpy as np

from .. import core, translate
from ..scorers import HashChangeScore, find_scale, hscore


def gen_hash(rng, nmax):
    b = rng.randint(1, 4)
    n = rng.randint(2 * b, max(2 * b, nmax))
    R = rng.choice([2, 3, 5, 10, 50])
    return {"n": n, "b": b, "mdi": rng.randint(1, max(1, b // 2)), "seed": rng.randint(1, 10**6), "R": R,
            "neg": rng.choice([0, 0, 0, 1, R // 2]), "K": rng.randint(0, R), "tuned": rng.random() < 0.2,
            "level": rng.choice([0.01, 0.1, 0.3, 0.5]), "via": rng.choice(["predict", "transform_scores"])}


def impl_hash(case):
    from skchange.change_detectors import MovingWindow as MW

    n, b = case["n"], case["b"]
    X = np.zeros((n, 1))
    try:
        sc = HashChangeScore(case["seed"], case["R"], 1, case["neg"])
        if case["tuned"]:
            det = MW(sc, bandwidth=b, threshold_scale=None, level=case["level"], min_detection_interval=case["mdi"]).fit(X)
        else:
            d0 = MW.get_default_threshold(n, 1, b, case["level"])
            if not np.isfinite(d0) or d0 <= 0:
                return {"outcome": "skip:default-threshold-not-positive"}
            scale = find_scale(float(case["K"]), d0)
            if scale is None:
                return {"outcome": "skip:no-exact-scale"}
            det = MW(sc, bandwidth=b, threshold_scale=scale, level=case["level"], min_detection_interval=case["mdi"]).fit(X)
            if det.threshold_ != case["K"]:
                return {"outcome": "skip:no-exact-scale"}
        if det.threshold_ < 0:
            return {"outcome": "skip:negative-threshold"}
        if case["via"] == "transform_scores":
            s = det.transform_scores(X)
            y = det.predict(X)
        else:
            y = det.predict(X)
            s = det.scores
        return {"outcome": "ok", "thr": core.rat(float(det.threshold_)), "scores": [core.rat(float(v)) for v in np.asarray(s).reshape(-1)],
                "cps": [int(v) for v in y["ilocs"]]}
    except Exception as ex:
        return {"outcome": "other:" + type(ex).__name__, "msg": str(ex)[:200]}


def hash_line(case_r):
    c, r = case_r
    return f"mw {c['n']} {c['b']} 0 {c['mdi']} {c['seed']} {c['R']} {c['neg']} {r['thr']}"


def canon(r):
    if r["outcome"] != "ok":
        return r["outcome"]
    return "scores [" + ", ".join(r["scores"]) + "] cps " + str(r["cps"])


def oracle_core(n, b, mdi, thr, scores, cps, score_fn, exact=True, tol=0.0):
    """scores: list of numbers; score_fn(s, k, e) -> number"""
    for t in range(n):
        want = score_fn(t - b, t, t + b) if b <= t <= n - b else 0
        if (scores[t] != want) if exact else (not abs(scores[t] - want) <= tol * (1 + abs(want))):
            return f"score at t={t} is {scores[t]}; the change score between X[{t - b}:{t}] and X[{t}:{t + b}] is {want}"
    above = [s > thr for s in scores]
    runs, t = [], 0
    while t < n:
        if above[t]:
            u = t
            while u < n and above[u]:
                u += 1
            runs.append((t, u))
            t = u
        else:
            t += 1
    want_runs = [(a, e) for a, e in runs if e - a >= mdi]
    if len(cps) != len(want_runs):
        return f"{len(cps)} changepoints {cps} reported for {len(want_runs)} runs {want_runs} of >= {mdi} positions above the threshold {thr}"
    for c, (a, e) in zip(cps, want_runs):
        if not (a <= c < e) or scores[c] != max(scores[a:e]):
            return f"changepoint {c} is not the position of the maximum score within the run [{a},{e})"
    return None


def oracle_hash(case, r):
    if r["outcome"] != "ok":
        return f"did not run to completion: {r['outcome']} {r.get('msg', '')}"
    f = lambda s, k, e: Fraction(hscore(case["seed"], case["R"], (s, k, e), case["neg"]))  # noqa: E731
    return oracle_core(case["n"], case["b"], case["mdi"], Fraction(r["thr"]), [Fraction(v) for v in r["scores"]], r["cps"], f)


# ------------------------------------------------------------------------------- built-in scores


def gen_builtin(rng, nmax):
    b = rng.randint(1, 4)
    score = rng.choice(["cusum", "l2", "gauss"])
    if score == "gauss":
        b = max(b, 2)
    n = rng.randint(2 * b, max(2 * b, nmax))
    p = rng.choice([1, 1, 2])
    lv = [rng.randint(-3, 3) for _ in range(4)]
    cpts = sorted(rng.sample(range(1, n), min(2, n - 1))) if n > 1 else []
    X = [[lv[sum(1 for c in cpts if c <= i)] + rng.choice([0, 0, 1, -1, 2]) for _ in range(p)] for i in range(n)]
    return {"n": n, "b": b, "p": p, "X": X, "score": score, "mdi": rng.randint(1, max(1, b // 2)),
            "scale": rng.choice([None, 0.0, 0.2, 0.5, 1.0]), "level": rng.choice([0.05, 0.3])}


def long_builtin(rng):
    """series whose number of scored positions is at / just beyond typical chunk sizes (4096, 8192)"""
    b = rng.choice([1, 2, 5])
    n = rng.choice([4096, 8192]) + 2 * b + rng.choice([-1, 0, 1])
    lv = [rng.randint(-3, 3) for _ in range(5)]
    cpts = sorted(rng.sample(range(1, n), 4))
    X = [[lv[sum(1 for c in cpts if c <= i)] + rng.choice([0, 0, 1, -1])] for i in range(n)]
    for t in (n - b - 1, n - b, b, b + 1):  # changes right at the ends of the scored range
        if rng.random() < 0.5:
            for i in range(t, n):
                X[i][0] += 4
    return {"n": n, "b": b, "p": 1, "X": X, "score": rng.choice(["cusum", "l2"]), "mdi": 1, "scale": rng.choice([0.5, 1.0]), "level": 0.05,
            "fitmode": "same", "prior": None, "borderline": False, "long": True}


def _mk_score(kind):
    from skchange.change_scores import CUSUM
    from skchange.costs import GaussianVarCost, L2Cost

    return {"cusum": CUSUM, "l2": L2Cost, "gauss": GaussianVarCost}[kind]()


def _scores_cps(det, X):
    s = det.transform_scores(X)
    y = det.predict(X)
    return [float(v) for v in np.asarray(s).reshape(-1)], [int(v) for v in y["ilocs"]]


def impl_builtin(case):
    from skchange.change_detectors import MovingWindow as MW
    from skchange.change_scores import to_change_score

    X = np.array(case["X"], dtype=float)
    n, b = case["n"], case["b"]
    try:
        scale = case["scale"]
        if scale is not None:  # aim the fitted threshold just beside one of the window scores
            probe = MW(_mk_score(case["score"]), bandwidth=b, threshold_scale=0.0, level=case["level"])
            _, nf = core.fit_for(probe, case, X)
            bs = core.borderline_scale(case, np.asarray(probe.transform_scores(core.wrap_container(case, X))).reshape(-1),
                                       float(MW.get_default_threshold(nf, case["p"], b, case["level"])))
            scale = scale if bs is None else bs
        det = MW(_mk_score(case["score"]), bandwidth=b, threshold_scale=scale, level=case["level"],
                 min_detection_interval=case["mdi"])
        det = core.reconfigure(det, case, "change_score")
        # fitted on the data, on a series of another length, or on an object overwritten in place afterwards
        data, nfit = core.fit_for(det, case, X)
        thr = float(det.threshold_)
        W = lambda a: core.wrap_container(case, a)  # noqa: E731  (ndarray or DataFrame)
        # the same fitted detector (same threshold) is then applied to the reversed series, and
        # once more to the original one: results must not depend on what it saw before
        s, cps = _scores_cps(det, data)  # the object returned by the fit mode (possibly the fitted object, overwritten in place)
        s_rev, cps_rev = _scores_cps(det, W(X[::-1].copy()))
        s2, cps2 = _scores_cps(det, W(X))
        if s2 != s or cps2 != cps:
            return {"outcome": "ok", "thr": thr, "scores": s2, "cps": cps2, "scores_rev": s_rev, "cps_rev": cps_rev, "scale": scale,
                    "tab": {}, "default_thr": 0.0, "unstable": [s, cps]}
        sc = to_change_score(_mk_score(case["score"])).fit(X)
        ts = list(range(b, n - b + 1))
        vals = sc.evaluate(np.array([(t - b, t, t + b) for t in ts])).sum(axis=1)
        return {"outcome": "ok", "thr": thr, "scores": s, "cps": cps, "scores_rev": s_rev, "cps_rev": cps_rev, "scale": scale,
                "tab": {str(t): float(v) for t, v in zip(ts, vals)},
                "default_thr": float(MW.get_default_threshold(nfit, case["p"], b, case["level"]))}
    except Exception as ex:
        return {"outcome": "other:" + type(ex).__name__, "msg": str(ex)[:200]}


def oracle_builtin(case, r):
    if r["outcome"] != "ok":
        if r["outcome"] == "other:ValueError" and "min_size" in r.get("msg", ""):
            return None
        return f"did not run to completion: {r['outcome']} {r.get('msg', '')}"
    n, b = case["n"], case["b"]
    tab = r["tab"]
    if "unstable" in r:
        return "the same fitted detector gives different scores / changepoints for the same series before and after scoring another series"
    msg = oracle_core(n, b, case["mdi"], r["thr"], r["scores"], r["cps"], lambda s, k, e: tab[str(k)], exact=True)
    if msg:
        return msg
    if r["scale"] is not None and not abs(r["thr"] - r["scale"] * r["default_thr"]) <= 1e-12 * (1 + abs(r["thr"])):
        return f"threshold_ {r['thr']} is not threshold_scale x default"
    # time reversal: scores at t map to n - t (0 < t < n); rounding-level tolerance
    big = 1 + max(abs(v) for v in r["scores"])
    for t in range(1, n):
        if not abs(r["scores_rev"][t] - r["scores"][n - t]) <= 1e-9 * big:
            return f"reversing the series maps the score at t={n - t} ({r['scores'][n - t]!r}) to {r['scores_rev'][t]!r} at n-t={t}"
    # changepoints: compared only where every decision has a margin (threshold and run maxima)
    margin = 1e-7 * big
    if any(abs(v - r["thr"]) < margin for v in r["scores"]):
        return None
    srt = sorted(v for v in r["scores"] if v > r["thr"])  # ties of run maxima make the peak position ambiguous
    if any(b2 - a2 < margin for a2, b2 in zip(srt, srt[1:])):
        return None
    if sorted(n - c for c in r["cps"]) != r["cps_rev"]:
        return f"reversing the series maps changepoints {r['cps']} to {r['cps_rev']}, expected {sorted(n - c for c in r['cps'])}"
    return None


# ------------------------------------------------------------------------------------ route T2: `where`

L1_LOOPS = {"Skc.L1.Loops": ["loop_where", "loop_mw_changepoints"], "Skc.L1.LoopsMwProps": ["loop_where", "loop_mw_changepoints"]}


def gen_mwcp(rng, nmax):
    n = rng.randint(0, 3) if rng.random() < 0.1 else rng.randint(1, max(2, 3 * nmax))
    R = rng.choice([2, 3, 5, 20])
    kind = rng.choice(["iid", "plateaus", "ends"])
    if kind == "iid":
        sc = [rng.randint(0, R) for _ in range(n)]
    elif kind == "plateaus":  # long runs above the threshold with tied maxima inside them
        sc, v = [], rng.randint(0, R)
        while len(sc) < n:
            sc += [v] * rng.randint(1, 5)
            v = rng.randint(0, R)
        sc = sc[:n]
    else:  # the run above the threshold touches the last (or the first) position and peaks there
        sc = [0] * n
        for i in range(min(n, rng.randint(1, 4))):
            sc[n - 1 - i] = R - i if rng.random() < 0.5 else R
        if rng.random() < 0.5:
            for i in range(min(n, rng.randint(1, 3))):
                sc[i] = R
    return {"scores": sc, "thr": rng.choice([0, 1, R // 2, R - 1, R]) + rng.choice([0, 0, 0.5, -0.5]), "mdi": rng.randint(0, 4)}


def impl_mwcp(case):
    from skchange.change_detectors.moving_window import get_moving_window_changepoints

    try:
        sc = np.array(case["scores"], dtype=float)
        keep = sc.copy()
        out = get_moving_window_changepoints(sc, float(case["thr"]), int(case["mdi"]))
        return {"outcome": "ok", "cps": [int(v) for v in out], "mutated": not np.array_equal(keep, sc)}
    except Exception as ex:
        return {"outcome": "raises:" + type(ex).__name__, "msg": str(ex)[:200]}


def mwcp_line(case):
    return f"genmwcp {case['mdi']} {core.rat(float(case['thr']))} " + " ".join(str(v) for v in case["scores"])


def canon_mwcp(case, r):
    return "[" + ", ".join(str(v) for v in r["cps"]) + "]" if r["outcome"] == "ok" else "raises"


def oracle_mwcp(case, r):
    """one changepoint per maximal run of scores above the threshold that has at least `mdi` positions: the first position
    of the run's maximum; in increasing order"""
    sc, thr, mdi = case["scores"], case["thr"], case["mdi"]
    n = len(sc)
    above = [v > thr for v in sc]
    want = []
    for s in range(n):
        for e in range(s + 1, n + 1):
            if all(above[s:e]) and (s == 0 or not above[s - 1]) and (e == n or not above[e]) and e - s >= mdi:
                want.append(s + max(range(e - s), key=lambda i: (sc[s + i], -i)))
    if r["outcome"] != "ok":
        return f"get_moving_window_changepoints raises {r['outcome']} on scores {sc}, threshold {thr}, min_detection_interval {mdi}"
    if r["cps"] != want:
        return f"get_moving_window_changepoints({sc}, {thr}, {mdi}) = {r['cps']}; the peaks of the sufficiently long runs above the threshold are {want}"
    if r["mutated"]:
        return "get_moving_window_changepoints modified the scores"
    return None


def gen_where(rng, nmax):
    n = rng.choice([0, 1, 2, 3]) if rng.random() < 0.15 else rng.randint(0, max(1, 3 * nmax))
    kind = rng.choice(["iid", "iid", "runs", "ends", "const"])
    if kind == "iid":
        q = rng.choice([0.1, 0.5, 0.9])
        bits = [int(rng.random() < q) for _ in range(n)]
    elif kind == "runs":
        bits, v = [], rng.randint(0, 1)
        while len(bits) < n:
            bits += [v] * rng.randint(1, 4)
            v = 1 - v
        bits = bits[:n]
    elif kind == "ends":  # runs that touch the first / the last position, single positions at the ends
        bits = [0] * n
        for i in range(min(n, rng.randint(0, 3))):
            bits[i] = 1
        for i in range(min(n, rng.randint(0, 3))):
            bits[n - 1 - i] = 1
        if n > 4 and rng.random() < 0.5:
            bits[rng.randint(1, n - 2)] = 1
    else:
        bits = [rng.randint(0, 1)] * n
    return {"bits": bits, "container": rng.choice(["bool", "bool", "list", "cmp"])}


def impl_where(case):
    from skchange.utils.numba.general import where

    bits = case["bits"]
    try:
        if case["container"] == "list":
            ind = np.array([bool(b) for b in bits], dtype=bool)
        elif case["container"] == "cmp":  # the way the detector calls it: a comparison of scores with a threshold
            ind = np.array([2.0 if b else 0.5 for b in bits], dtype=float) > 1.0
        else:
            ind = np.array(bits, dtype=bool)
        keep = ind.copy()
        out = where(ind)
        res = [(int(a), int(b)) for a, b in out]
        return {"outcome": "ok", "runs": res, "mutated": not np.array_equal(keep, ind)}
    except Exception as ex:
        return {"outcome": "raises:" + type(ex).__name__, "msg": str(ex)[:200]}


def where_line(case):
    return "genwhere " + ("".join(str(b) for b in case["bits"]) or "-")


def canon_where(case, r):
    return "[" + ", ".join(f"({a}, {b})" for a, b in r["runs"]) + "]" if r["outcome"] == "ok" else "raises"


def oracle_where(case, r):
    """`where` returns exactly the maximal runs of true values, as half-open intervals in scan order"""
    bits = case["bits"]
    n = len(bits)
    want = [(s, e) for s in range(n) for e in range(s + 1, n + 1)
            if all(bits[s:e]) and (s == 0 or not bits[s - 1]) and (e == n or not bits[e])]
    if r["outcome"] != "ok":
        return f"where raises {r['outcome']} on {bits}"
    if r["runs"] != want:
        return f"where({bits}) = {r['runs']}, the maximal runs of true values are {want}"
    if r["mutated"]:
        return "where modified its argument"
    return None


# ------------------------------------------------------------------------------------ the check


def run(chk: core.Check):
    tier = chk.tier
    N = {"quick": 3000, "thorough": 60000}[tier]
    nmax = {"quick": 16, "thorough": 40}[tier]
    status = {}

    def pre():
        st, _ = translate.run()
        status.update(st)
    skip = {}
    with core.LeanLock():  # the translator writes the generated Lean files
        pre()
    skip = {m: "translator (route T2): " + ", ".join(f"{k}: {status.get(k, {}).get('reason')}" for k in ks
                                                     if status.get(k, {}).get("state") != "translated")
            for m, ks in L1_LOOPS.items() if any(status.get(k, {}).get("state") != "translated" for k in ks)}
    chk.lean(extra_modules=list(L1_LOOPS), skip_modules=skip, pre_build=pre)
    chk.notes["translator"] = {k: status.get(k, {}).get("state") for ks in L1_LOOPS.values() for k in ks}
    chk.rules.append(
        "gen-where: boolean arrays of length 0..%d (iid at three densities, alternating runs, runs touching either end, constant), "
        "passed as bool arrays or as a comparison result; `skchange.utils.numba.general.where` against the maximal-runs definition "
        "and, line by line, against the Lean definition regenerated from its source by harness/translate_loops.py (driver op "
        "`genwhere`), which Skc/L1/Loops.lean proves equal to the model `whereRuns` for every input. " % (3 * nmax))
    wrng = core.rng_for(chk.seed, "C08/where")
    wcases = core.Gen(gen_where, wrng, nmax, N // 2)
    translated = status.get("loop_where", {}).get("state") == "translated"
    chk.run_stream("gen-where", wcases, impl_where, line=where_line if translated else None, canon=canon_where if translated else None,
                   oracle=oracle_where, site="where", nontrivial=lambda c, r: r.get("outcome") == "ok" and len(r["runs"]) > 0)
    chk.rules.append(
        "gen-mwcp: integer score curves of length 0..%d (iid, plateaus with tied maxima, runs touching either end), thresholds at and "
        "between the score values, min_detection_interval 0..4; `get_moving_window_changepoints` against the peak-of-run definition "
        "and against the Lean definition regenerated from its source (driver op `genmwcp`), which Skc/L1/Loops.lean proves equal to "
        "the model `mwCpts` for every input. " % (3 * nmax))
    translated2 = all(status.get(k, {}).get("state") == "translated" for k in L1_LOOPS["Skc.L1.Loops"])
    chk.run_stream("gen-mwcp", core.Gen(gen_mwcp, core.rng_for(chk.seed, "C08/mwcp"), nmax, N // 2), impl_mwcp,
                   line=mwcp_line if translated2 else None, canon=canon_mwcp if translated2 else None, oracle=oracle_mwcp,
                   site="get_moving_window_changepoints", nontrivial=lambda c, r: r.get("outcome") == "ok" and len(r["cps"]) > 0)
    chk.rules.append(
        "mw-hash: MovingWindow with hash change scores (integer landscapes modulo R, negative values included), bandwidth 1..4, "
        "n in 2b..%d, every admissible min_detection_interval, exact thresholds 0..R via the scale or tuned thresholds, scores "
        "read through predict/.scores or transform_scores; builtin: CUSUM / L2 / Gaussian scores on small-integer data incl. the "
        "time-reversed series. Non-trivial = at least one changepoint; distinct by case hash" % nmax
    )
    chk.assumptions += ["hash scores are small integers: float comparisons are exact",
                        "reversal of built-in scores is compared under a 1e-9 relative tolerance; changepoints only where every decision margin exceeds 1e-7"]
    rng = core.rng_for(chk.seed, "C08/hash")
    cases = core.Gen(gen_hash, rng, nmax, N)
    skipf = lambda c, r: r["outcome"][5:] if r["outcome"].startswith("skip:") else None  # noqa: E731
    res = chk.run_stream("mw-hash", cases, impl_hash, oracle=oracle_hash, site="MovingWindow", skip=skipf,
                         nontrivial=lambda c, r: r.get("outcome") == "ok" and len(r["cps"]) > 0)
    ok = [(c, r) for c, r in zip(cases, res) if r["outcome"] == "ok"]
    outs = core.run_driver([hash_line(cr) for cr in ok])
    dis = 0
    for (c, r), o in zip(ok, outs):
        if canon(r) != o:
            dis += 1
            if dis <= 5:
                chk.violations.append({"kind": "correspondence", "stream": "mw-hash", "case": c, "impl": r, "impl_canon": canon(r),
                                       "model": o, "msg": "model and implementation disagree on stream mw-hash",
                                       "site": "MovingWindow", "signature": "correspondence"})
    dis += sum(1 for c, r in zip(cases, res) if r["outcome"] != "ok" and not r["outcome"].startswith("skip:"))
    chk.streams["mw-hash"]["disagreements"] = dis
    if ok:
        chk.samples.append({"stream": "mw-hash/model", "line": hash_line(ok[0]), "model": outs[0][:200]})
    rng = core.rng_for(chk.seed, "C08/builtin")
    chk.run_stream("long", [long_builtin(rng) for _ in range({"quick": 6, "thorough": 24}[tier])], impl_builtin, oracle=oracle_builtin,
                   site="MovingWindow/long", per_case_timeout=120, describe=lambda c: {k: v for k, v in c.items() if k != "X"})
    chk.run_stream("builtin", core.Gen(gen_builtin, rng, nmax + 8, N // 3), impl_builtin, oracle=oracle_builtin,
                   site="MovingWindow/builtin", nontrivial=lambda c, r: r.get("outcome") == "ok" and len(r["cps"]) > 0,
                   describe=lambda c: {k: v for k, v in c.items() if k != "X"} | {"X[:4]": c["X"][:4]})
    return chk.finish(trusted_extra=["the loop translator harness/translate_loops.py (reading of Python's for / if / append / None over lists and "
                                     "optional ints, with the type annotations it lists), validated line by line in stream gen-where"])


def replay(path):
    v = json.load(open(path))
    case = v["case"]
    if case is None:
        print(json.dumps(v, indent=1)[:3000])
        return 0
    if v["stream"] in ("builtin", "long"):
        r = impl_builtin(case)
        print("implementation:", {k: r[k] for k in r if k != "tab"}, "\noracle:", oracle_builtin(case, r))
    else:
        r = impl_hash(case)
        print("implementation:", canon(r))
        if r["outcome"] == "ok":
            print("model         :", core.run_driver([hash_line((case, r))])[0])
            print("oracle        :", oracle_hash(case, r))
    return 0
