"""C11 — outputs do not depend on how the same numbers are passed in  (partial).

Lean: Skc/Props/C11.lean (parametricity of the conversion logic in labels and containers).
Tie / decision: differential run — every detector and scorer x {2-D ndarray, 1-D ndarray, Series,
DataFrame} x {int64, float64 holding the same values, incl. large integers} x {RangeIndex(0..n),
offset RangeIndex, DatetimeIndex, PeriodIndex} x column labels {default, strings incl. "labels" /
"values"} x entry points {fit, update, predict, transform, transform_scores}; all outputs compared
with the float DataFrame / default index run.  Known finding: update() with a NumPy array."""
from __future__ import annotations

import json

import numpy as np
import pandas as pd

from .. import core
from .c10 import SCORER_KINDS, frame_sig, mk_det, mk_scorer

DETS = ["pelt", "mw", "sbs", "cbs", "capa", "mvcapa", "stat"]
CONTAINERS = ["frame", "array2d", "array1d", "series"]
INDEXES = ["range", "offset", "datetime", "period"]
COLS = ["default", "strings", "labels"]


# narrow integer dtypes: (NumPy type, scale of the values)
NARROW = {"int8": (np.int8, 1), "int16": (np.int16, 30), "int32": (np.int32, 10**4), "float32": (np.float32, 4096)}
DTYPES = ["int", "float", "int", "float", "int8", "int16", "int32", "float32"]


def base_values(c):
    g = np.random.default_rng(c["seed"])
    n, p = c["n"], c["p"]
    X = g.integers(-3, 4, size=(n, p))
    t = int(g.integers(4, n - 4))
    if c.get("quiet"):
        X = X * 0 + (X % 2 == 0) * (np.arange(n).reshape(-1, 1) % 7 == 3)  # almost all zeros: at the baseline of every saving
    if not c.get("quiet"):  # quiet series: nothing to detect (empty sparse output, all-zero dense labels)
        X[t:] += int(g.choice([4, -5, 6]))
        X[int(g.integers(n))] += 9
    if c["dtype"] in NARROW:  # values that fit the narrow integer type while their squares do not
        return X * NARROW[c["dtype"]][1]
    if c["big"]:
        X = X * 10**8  # large integers: exactly representable in float64, squares need care in int64
    return X


def wrap(vals, c, container=None, index=None, cols=None, dtype=None):
    container, index, cols, dtype = container or c["container"], index or c["index"], cols or c["cols"], dtype or c["dtype"]
    A = vals.astype(np.int64 if dtype == "int" else NARROW[dtype][0] if dtype in NARROW else np.float64)
    n, p = A.shape
    idx = {"range": pd.RangeIndex(n), "offset": pd.RangeIndex(50, 50 + n), "datetime": pd.date_range("2020-05-01", periods=n, freq="D"),
           "period": pd.period_range("2019-01", periods=n, freq="M")}[index]
    if core._bits(c, 9, 3) == 1:  # a named index: the name belongs to the caller's labels and travels with them
        idx = idx.rename("time")
    if container == "array2d":
        return A
    if container == "array1d":
        return A[:, 0]
    if container == "series":
        return pd.Series(A[:, 0], index=idx, name={"default": None, "strings": "y", "labels": "labels"}[cols])
    names = {"default": list(range(p)), "strings": [f"v{j}" for j in range(p)], "labels": (["labels", "values", "ilocs"] * 2)[:p]}[cols]
    return pd.DataFrame(A, index=idx, columns=names)


def gen_det(rng):
    kind = rng.choice(DETS)
    p = 1 if kind == "stat" or rng.random() < 0.5 else rng.randint(2, 3)
    container = rng.choice(CONTAINERS if p == 1 else ["frame", "array2d"])
    return {"t": "det", "kind": kind, "n": rng.randint(20, 36), "p": p, "seed": rng.randint(0, 10**6), "container": container,
            "index": rng.choice(INDEXES), "cols": rng.choice(COLS), "dtype": rng.choice(DTYPES), "big": rng.random() < 0.3,
            "scale": rng.choice([0.5, 1.0, None]), "m": rng.randint(1, 3), "entry": rng.choice(["predict", "transform", "transform_scores", "transform_scores", "update", "fit_predict"]),
            "ov": rng.choice([0, 1, 4]), "quiet": rng.random() < 0.15, "prior": rng.choice([0, 0, 0, 0, 1, 1, 2, 2])}


def _same_labels(a, b):
    """same labels and same index name(s); the concrete Index subclass is not part of the claim"""
    return bool(a.equals(b)) and list(a.names) == list(b.names)


def outputs(det, kind, X, c, is_ref):
    """what the entry point returns, as comparable signatures; dense outputs also carry their index"""
    out = {}
    if c["entry"] == "update":
        n = c["n"]
        k = n - 8
        if isinstance(X, np.ndarray):
            det.fit(X[:k])
            det.update(X[k - c["ov"]:])
        else:
            det.fit(X.iloc[:k])
            batch = X.iloc[k - c["ov"]:]
            if core._bits(c, 12, 2) == 0:  # the new batch holds real-valued measurements whatever the dtype of the training data was
                batch = batch.astype(np.float64) + 0.25
            det.update(batch)
        out["fitted"] = {a: float(getattr(det, a)) for a in vars(det) if a.endswith("_") and not a.startswith("_") and np.isscalar(getattr(det, a))}
        y = det.predict(X)
        out["predict"] = frame_sig(y)
        return out
    det.fit(X)
    out["fitted"] = {a: float(getattr(det, a)) for a in vars(det) if a.endswith("_") and not a.startswith("_") and np.isscalar(getattr(det, a))}
    if c.get("prior") == 1:  # the fitted detector first sees OTHER numbers, passed as a plain array (default index), in every representation
        other = np.asarray(X, dtype=float)[::-1] * 2.0 + 1.0
        det.predict(other.reshape(len(other), -1))
    elif c.get("prior") == 2:  # ... or the SAME numbers as a plain float array, through the same entry point
        plain = np.asarray(X, dtype=float).reshape(len(X), -1).copy()
        try:
            getattr(det, c["entry"] if c["entry"] != "fit_predict" else "predict")(plain)
        except NotImplementedError:
            pass
    idx0 = X.index.copy(deep=True) if isinstance(X, (pd.Series, pd.DataFrame)) else None  # the caller's labels before the judged call
    if c["entry"] in ("predict", "fit_predict"):
        y = det.predict(X) if c["entry"] == "predict" else det.fit_predict(X)
        out["predict"] = frame_sig(y)
    elif c["entry"] == "transform":
        d = det.transform(X)
        out["dense"] = json.dumps(np.asarray(d).tolist())
        want_idx = idx0 if idx0 is not None else pd.RangeIndex(len(X))
        out["index_ok"] = _same_labels(d.index, want_idx) and (idx0 is None or _same_labels(X.index, idx0))
    else:
        try:
            s = det.transform_scores(X)
            out["scores"] = [float(v) for v in np.asarray(s).reshape(-1)]
            want_idx = idx0 if idx0 is not None else pd.RangeIndex(len(X))
            out["index_ok"] = (_same_labels(s.index, want_idx) if hasattr(s, "index") and len(s) == len(X) else True) and (
                idx0 is None or _same_labels(X.index, idx0))
        except NotImplementedError:
            out["scores"] = "not-implemented"
    return out


def impl_det(c):
    vals = base_values(c)
    prm = {"scale": c["scale"], "m": c["m"]}
    if c["kind"] in ("capa", "mvcapa") and not c.get("quiet"):  # (a quiet series is only quiet relative to the default saving's baseline)
        prm["saving"] = [None, "gvar", "gcov"][c["seed"] % 3]
    try:
        ref = outputs(mk_det(c["kind"], prm), c["kind"], wrap(vals, c, "frame", "range", "default", "float"), c, True)
    except Exception as ex:
        return {"outcome": "ref-error:" + type(ex).__name__, "msg": str(ex)[:200]}
    try:
        X = wrap(vals, c)
        X0 = X.copy()
        got = outputs(mk_det(c["kind"], prm), c["kind"], X, c, False)
        same_input = bool(np.array_equal(np.asarray(X), np.asarray(X0)))
        return {"outcome": "ok", "ref": ref, "got": got, "same_input": same_input}
    except Exception as ex:
        return {"outcome": "other:" + type(ex).__name__, "msg": str(ex)[:200], "ref": ref}


def describe(c):
    return {k: v for k, v in c.items() if k not in ("seed",)}


def oracle_det(c, r):
    if "not positive definite" in r.get("msg", ""):
        return None  # documented error of the multivariate cost on a window with a singular sample covariance (integer data)
    if r["outcome"].startswith("ref-error"):
        return None if "min_size" in r.get("msg", "") else f"reference run (float DataFrame, default index) raised {r['outcome']} {r.get('msg')}"
    if r["outcome"] != "ok":
        if c["entry"] == "update" and c["container"] in ("array2d", "array1d") and r["outcome"] == "other:AttributeError":
            return "KNOWN:update-ndarray"
        return f"{describe(c)} raised {r['outcome']} {r.get('msg', '')} while the float DataFrame run succeeds"
    for k, v in r["ref"].items():
        if k == "index_ok":
            continue
        g = r["got"].get(k)
        if k == "scores" and isinstance(v, list):
            sc = 1.0 + max((abs(t) for t in v), default=0.0)
            if not isinstance(g, list) or len(g) != len(v) or any(not abs(a - b) <= 1e-9 * sc for a, b in zip(g, v)):
                return f"{describe(c)}: scores differ from the float DataFrame / default index run"
            continue
        if k == "fitted":
            if any(not abs(v[a] - g.get(a, float("nan"))) <= 1e-9 * (1 + abs(v[a])) for a in v):
                return f"{describe(c)}: fitted values {g} differ from those for the float DataFrame / default index {v}"
        elif g != v:
            return f"{describe(c)}: {k} output differs from the float DataFrame / default index run"
    if r["got"].get("index_ok") is False:
        return f"{describe(c)}: the dense output does not carry X's own index (values and name), or the call changed the caller's index"
    if not r["same_input"]:
        return f"{describe(c)}: the input container was modified"
    return None


# ---------------------------------------------------------------------------------- scorers


def gen_scorer(rng):
    p = rng.choice([1, 1, 2, 3])
    return {"t": "scorer", "kind": rng.choice(SCORER_KINDS), "n": rng.randint(20, 40), "p": p, "seed": rng.randint(0, 10**6),
            "container": rng.choice(CONTAINERS if p == 1 else ["frame", "array2d"]), "index": rng.choice(INDEXES), "cols": rng.choice(COLS),
            "dtype": rng.choice(DTYPES), "big": rng.random() < 0.4}


def impl_scorer(c):
    vals = base_values(c)
    try:
        sc = mk_scorer(c["kind"]).fit(wrap(vals, c, "frame", "range", "default", "float"))
        k, ms = sc.expected_cut_entries, int(sc.min_size or 1)
        step = max(ms, 3)
        cuts = np.array([[i * step for i in range(k)], [2 + i * step for i in range(k)]])
        if cuts.max() > c["n"]:
            return {"outcome": "skip:short"}
        ref = sc.evaluate(cuts)
    except RuntimeError:
        return {"outcome": "skip:not-positive-definite"}
    except Exception as ex:
        return {"outcome": "ref-error:" + type(ex).__name__, "msg": str(ex)[:200]}
    try:
        got = mk_scorer(c["kind"]).fit(wrap(vals, c)).evaluate(cuts)
        scale = float(np.abs(ref).max()) + 1.0
        return {"outcome": "ok", "maxdiff": float(np.abs(got - ref).max()) / scale, "shape_ok": got.shape == ref.shape}
    except Exception as ex:
        return {"outcome": "other:" + type(ex).__name__, "msg": str(ex)[:200]}


def oracle_scorer(c, r):
    if r["outcome"].startswith("ref-error"):
        return f"reference run raised {r['outcome']} {r.get('msg')}"
    if r["outcome"] != "ok":
        return f"scorer {describe(c)} raised {r['outcome']} {r.get('msg', '')} while the float DataFrame run succeeds"
    if not r["shape_ok"] or not r["maxdiff"] <= 1e-9:
        return f"scorer {describe(c)} evaluates differently from the float DataFrame / default index run (relative difference {r['maxdiff']})"
    return None


def run(chk: core.Check):
    tier = chk.tier
    N = {"quick": 1500, "thorough": 30000}[tier]
    chk.lean()
    chk.rules.append(
        "det: all seven detectors x containers x {int64, float64} x four index kinds x three column-label kinds (incl. columns named "
        "'labels' / 'values' / 'ilocs') x entry points {fit+predict, fit_predict, transform, transform_scores, fit+update+predict with "
        "chunks overlapping by 0 / 1 / 4 rows}, small and 1e8-scaled integers; scorer: the 12 scorer kinds over the same container grid; "
        "every output compared with the float64 DataFrame / RangeIndex run. Non-trivial: a non-reference representation; distinct by case hash"
    )
    chk.assumptions += ["pandas / NumPy container semantics are exercised, not modelled",
                        "scores compared after rounding to 1e-9 (integer and float inputs take the same float code path)"]
    skipf = lambda c, r: r["outcome"][5:] if r["outcome"].startswith("skip:") else None  # noqa: E731
    rng = core.rng_for(chk.seed, "C11/det")
    cases = [gen_det(rng) for _ in range(N)]
    res = chk.run_stream("det", cases, impl_det, oracle=lambda c, r: (lambda m: None if m and m.startswith("KNOWN:") else m)(oracle_det(c, r)),
                         site="detectors/containers", nontrivial=lambda c, r: (c["container"], c["index"], c["cols"], c["dtype"]) != ("frame", "range", "default", "float"),
                         describe=describe)
    # known finding: matched by (property, site, signature), never added at run time
    if any(oracle_det(c, r) == "KNOWN:update-ndarray" for c, r in zip(cases, res)):
        k = core.match_known("C11", "BaseDetector.update", "ndarray:AttributeError")
        if k:
            if k["what"] not in chk.known_hits:
                chk.known_hits.append(k["what"])
        else:
            c0 = next(c for c, r in zip(cases, res) if oracle_det(c, r) == "KNOWN:update-ndarray")
            chk.add_violation("det", c0, "update() with a NumPy array raises AttributeError while the DataFrame run succeeds",
                              site="BaseDetector.update", signature="ndarray:AttributeError")
    rng = core.rng_for(chk.seed, "C11/scorer")
    chk.run_stream("scorer", [gen_scorer(rng) for _ in range(N)], impl_scorer, oracle=oracle_scorer, skip=skipf, site="scorers/containers",
                   describe=describe)
    return chk.finish()


def replay(path):
    v = json.load(open(path))
    case = v["case"]
    if case is None:
        print(json.dumps(v, indent=1)[:4000])
        return 0
    if case.get("t") == "scorer":
        r = impl_scorer(case)
        print("implementation:", r, "\noracle:", oracle_scorer(case, r))
    else:
        r = impl_det(case)
        print("implementation:", {k: (x if k not in ("ref", "got") else "…") for k, x in r.items()}, "\noracle:", oracle_det(case, r))
    return 0
