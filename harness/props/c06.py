"""C06 — scores derived from costs equal their defining cost differences.

Lean: Skc/Props/C06.lean (closed-form identities and inequalities) + L1 modules (generated CUSUM /
L2 kernels = closed forms, and the identities restated on the generated code).
Tie: route T as in C01; route K: the three adapters composed with a user-defined integer cost that
has an extra hyper-parameter and depends on the multiset of rows (exact), and with the built-in costs
(numeric): adapter value vs the defining cost difference computed from fresh evaluations; CUSUM² vs
ChangeScore(L2Cost); L2Saving vs Saving(L2Cost(0)); sign / ordering / split inequalities."""
from __future__ import annotations

import json

import numpy as np

from .. import core, translate
from ..scorers import MultisetCost

L1 = {"Skc.L1.L2Cost": ["l2_cost_optim", "l2_cost_fixed", "l2_saving"], "Skc.L1.Cusum": ["cusum_score", "l2_cost_optim"]}


def gen_cuts(rng, n, k, ms, count):
    """admissible k-point cuts with each part >= ms; consecutive rows often share entries, and a third
    of the batches are pure: every row has the same first (or the same last) entry while the others differ
    (expanding / contracting windows — shapes a batch-level shortcut in an adapter would key on)"""
    out = []
    tries = 0
    mode = rng.choice(["mixed", "mixed", "mixed", "mixed", "same-first", "same-last"])
    anchor = None
    while len(out) < count and tries < 50 * count:
        tries += 1
        if mode != "mixed" and n + 1 >= k:
            if anchor is None:
                anchor = rng.randint(0, max(0, n - ms * (k - 1))) if mode == "same-first" else rng.randint(min(n, ms * (k - 1)), n)
            rest = sorted(rng.sample(range(0, n + 1), k - 1))
            c = [anchor] + rest if mode == "same-first" else rest + [anchor]
            if tuple(c) in out:
                continue
        elif out and rng.random() < 0.5:  # perturb the previous cut in one coordinate (same start, other end, …)
            c = list(out[-1])
            i = rng.randrange(k)
            c[i] += rng.choice([-2, -1, 1, 2, 3])
        else:
            c = sorted(rng.sample(range(0, n + 1), k)) if n + 1 >= k else None
        if c is None:
            break
        if all(0 <= v <= n for v in c) and all(b - a >= ms for a, b in zip(c, c[1:])):
            out.append(tuple(c))
    return out


def gen_user(rng, nmax):
    p = rng.randint(1, 3)
    n = rng.randint(4, nmax)
    X = [[rng.randint(-3, 3) for _ in range(p)] for _ in range(n)]
    adapter = rng.choice(["change", "saving", "local"])
    k = {"change": 3, "saving": 2, "local": 4}[adapter]
    # the inner cost of ChangeScore / LocalAnomalyScore may carry a fixed parameter too ("every composition")
    inner = None if rng.random() < 0.5 else rng.choice([-2, 1, 3])
    return {"adapter": adapter, "n": n, "p": p, "X": X, "weight": rng.choice([1, 2, 3]), "param": rng.choice([-2, 1, 3]),
            "inner": inner, "cuts": gen_cuts(rng, n, k, 1, rng.randint(1, 8))}


def impl_user(case):
    from skchange.anomaly_scores import LocalAnomalyScore, Saving
    from skchange.change_scores import ChangeScore

    X = np.array(case["X"], dtype=float)
    w, prm = case["weight"], case["param"]
    if not case["cuts"]:
        return {"outcome": "skip:no-cuts"}
    try:
        if case["adapter"] == "change":
            sc = ChangeScore(MultisetCost(param=case.get("inner"), weight=w))
        elif case["adapter"] == "saving":
            sc = Saving(MultisetCost(param=prm, weight=w))
        else:
            sc = LocalAnomalyScore(MultisetCost(param=case.get("inner"), weight=w))
        sc.fit(X)
        cuts = np.array(case["cuts"])
        batch = sc.evaluate(cuts)
        single = np.vstack([sc.evaluate(np.array([c])) for c in case["cuts"]])
        return {"outcome": "ok", "batch": batch.tolist(), "single": single.tolist()}
    except Exception as ex:
        return {"outcome": "other:" + type(ex).__name__, "msg": str(ex)[:200]}


def oracle_user(case, r):
    if r["outcome"] != "ok":
        return f"adapter raised {r['outcome']} {r.get('msg', '')}"
    X = np.array(case["X"], dtype=float)
    w, prm = case["weight"], case["param"]
    inner = case.get("inner")
    V = lambda rows, par=inner: MultisetCost.value(rows, w, par)  # noqa: E731
    for i, c in enumerate(case["cuts"]):
        if case["adapter"] == "change":
            s, k, e = c
            want = V(X[s:e]) - V(X[s:k]) - V(X[k:e])
            what = f"C({s},{e}) - C({s},{k}) - C({k},{e})"
        elif case["adapter"] == "saving":
            s, e = c
            want = V(X[s:e], prm) - V(X[s:e], None)
            what = f"C_baseline({s},{e}) - C_optimal({s},{e})"
        else:
            s, a, b, e = c
            want = V(X[s:e]) - V(X[a:b]) - V(np.concatenate((X[s:a], X[b:e])))
            what = f"C({s},{e}) - C({a},{b}) - C(rows of [{s},{a}) and [{b},{e}) pooled)"
        for tag in ("batch", "single"):
            got = np.array(r[tag][i])
            if not np.array_equal(got, want):
                return (f"{case['adapter']} adapter ({tag} evaluation, cut {c}, user cost with weight={w}, param={inner if case['adapter'] != 'saving' else prm}) gives {got.tolist()}; "
                        f"{what} = {want.tolist()}")
    return None


# ------------------------------------------------------------------------------- built-in costs


def gen_builtin(rng, nmax):
    p = rng.randint(1, 3)
    n = rng.randint(6, nmax)
    scale = rng.choice([1.0, 1.0, 1e-3, 2e-5, 50.0])
    as_int = scale == 1.0 and rng.random() < 0.5  # integer-typed data (counts) with a fractional baseline
    X = [[rng.randint(-4, 4) if as_int else (rng.randint(-4, 4) + rng.choice([0, 0.5, 0.25])) * scale for _ in range(p)] for _ in range(n)]
    case = {"n": n, "p": p, "X": X, "scale": scale, "cost": rng.choice(["l2", "gvar", "gcov"]), "int": as_int,
            "mean": rng.choice([0.0, 0.5, -1.0, 2.5, 0.75]) * scale, "var": rng.choice([0.5, 1.0, 4.0]) * scale * scale,
            "seed": rng.randint(0, 10**6)}
    if rng.random() < 0.01:
        # many variables in small or large units: the determinant of the fixed covariance is far outside the float range
        # although every single variance is ordinary
        p, n = rng.choice([60, 80]), rng.randint(100, 120)
        unit = rng.choice([1e-3, 1e4])
        g = np.random.default_rng(rng.randint(0, 10**6))
        case.update({"p": p, "n": n, "cost": "gcov", "int": False, "scale": unit, "mean": 0.5 * unit, "var": unit * unit,
                     "X": (g.normal(size=(n, p)) * unit).tolist(), "wide": True})
        return case
    if p >= 2 and case["cost"] == "gcov" and rng.random() < 0.5:
        # a correlated fixed covariance var * ((1 - rho) I + rho 11'), in every unit (in small units its off-diagonal entries are
        # tiny in absolute terms although the correlation is strong)
        case["rho"] = rng.choice([0.8, 0.3, -0.3])
    if p >= 2 and rng.random() < 0.4:  # a baseline mean per column, exactly 0 in some columns and not in others
        case["mean"] = [rng.choice([0.0, 0.0, 0.5, -1.0, 2.5]) * scale for _ in range(p)]
    return case


def direct_cost(case, rows, fixed):
    """the cost of a set of rows from its definition (NumPy on the rows themselves; the multivariate
    cost by a fresh fit on exactly these rows)"""
    rows = np.asarray(rows, dtype=float)
    m = len(rows)
    if case["cost"] == "l2":
        mu = np.asarray(case["mean"], dtype=float) if fixed else rows.mean(axis=0)
        return ((rows - mu) ** 2).sum(axis=0)
    if case["cost"] == "gvar":
        if fixed:
            return m * np.log(2 * np.pi * case["var"]) + ((rows - np.asarray(case["mean"], dtype=float)) ** 2).sum(axis=0) / case["var"]
        return m * np.log(2 * np.pi * np.maximum(rows.var(axis=0), 1e-16)) + m
    # multivariate Gaussian: twice the negative log-likelihood, from the rows with NumPy's own slogdet / solve
    p = rows.shape[1]
    if fixed:
        mu = np.broadcast_to(np.asarray(case["mean"], dtype=float), (p,))
        cov = _fixed_cov(case, p)
        sign, logdet = np.linalg.slogdet(cov)
        R = rows - mu
        quad = float(np.sum(R * np.linalg.solve(cov, R.T).T))
        return np.array([m * p * np.log(2 * np.pi) + m * logdet + quad])
    S = np.cov(rows, rowvar=False, ddof=0).reshape(p, p)
    sign, logdet = np.linalg.slogdet(S)
    if not sign > 0:
        raise RuntimeError("sample covariance not positive definite")
    return np.array([m * p * np.log(2 * np.pi) + m * logdet + m * p])


def _fixed_cov(case, p):
    rho = case.get("rho", 0.0)
    return float(case["var"]) * ((1.0 - rho) * np.eye(p) + rho * np.ones((p, p)))


def _mk(case, fixed):
    from skchange.costs import GaussianCovCost, GaussianVarCost, L2Cost

    def f(v):  # integral fixed parameters are also passed as Python / NumPy integers (a third of the cases)
        k = core._bits(case, 4, 3)
        if isinstance(v, list):  # one mean per column: as an array or as a plain list
            return np.array(v, dtype=float) if k != 1 else list(v)
        if k and float(v) == int(float(v)) and abs(v) < 2**31:
            return int(v) if k == 1 else np.int64(int(v))
        return v

    if case["cost"] == "l2":
        return L2Cost(param=f(case["mean"]) if fixed else None)
    if case["cost"] == "gvar":
        return GaussianVarCost(param=(f(case["mean"]), f(case["var"])) if fixed else None)
    if fixed and case.get("rho"):
        return GaussianCovCost(param=(f(case["mean"]), _fixed_cov(case, case["p"])))
    return GaussianCovCost(param=(f(case["mean"]), f(case["var"])) if fixed else None)


def impl_builtin(case):
    import random

    from skchange.anomaly_scores import L2Saving, LocalAnomalyScore, Saving
    from skchange.change_scores import CUSUM, ChangeScore

    X = np.array(case["X"], dtype=np.int64 if case.get("int") else float)
    if not case.get("int") and case["cost"] in ("l2", "gvar") and core._bits(case, 8, 4) == 0:
        X = X.astype(np.float32)  # single-precision input: scores are still computed in double precision from these values
    n = case["n"]
    rng = random.Random(case["seed"])
    try:
        opt = _mk(case, False).fit(X)
        ms = int(opt.min_size)
        c2 = gen_cuts(rng, n, 2, ms, 6)
        c3 = gen_cuts(rng, n, 3, ms, 6)
        c4 = gen_cuts(rng, n, 4, 1, 10)
        c4 = [c for c in c4 if c[2] - c[1] >= ms and (c[1] - c[0]) + (c[3] - c[2]) >= ms]
        # a pure equal-length batch whose first split is centred and the others are not
        c3e = []
        if n >= 12 and ms <= 4:
            L = 2 * rng.randint(max(2, ms), 4)
            s0 = rng.randint(0, n - L - 3)
            c3e = [(s0, s0 + L // 2, s0 + L)] + [(s0 + d, s0 + d + rng.randint(ms, L - ms), s0 + d + L) for d in (0, 1, 2, 3)]
        out = {"outcome": "ok", "min_size": ms, "c2": c2, "c3": c3 + c3e, "c4": c4}

        def ev(sc, cuts):
            if cuts is c3full:  # the two 3-point batches are evaluated in separate calls
                return (sc.evaluate(np.array(c3)).tolist() if c3 else []) + (sc.evaluate(np.array(c3e)).tolist() if c3e else [])
            return sc.evaluate(np.array(cuts)).tolist() if cuts else []

        c3full = out["c3"]
        D = lambda rows, fixed=False: direct_cost(case, rows, fixed)  # noqa: E731
        for tag, fixed in (("", False), ("F", True)):  # the inner cost at its optimal and at a fixed parameter
            out["change" + tag] = ev(ChangeScore(_mk(case, fixed)).fit(X), c3full)
            out["change" + tag + "_def"] = [(D(X[s:e], fixed) - D(X[s:k], fixed) - D(X[k:e], fixed)).tolist() for s, k, e in c3full]
            out["local" + tag] = ev(LocalAnomalyScore(_mk(case, fixed)).fit(X), c4)
            out["local" + tag + "_def"] = [(D(X[s:e], fixed) - D(X[a:b], fixed) - D(np.concatenate((X[s:a], X[b:e])), fixed)).tolist()
                                           for s, a, b, e in c4]
        out["saving"] = ev(Saving(_mk(case, True)).fit(X), c2)
        out["saving_def"] = [(D(X[s:e], True) - D(X[s:e], False)).tolist() for s, e in c2]
        if case["cost"] == "l2":
            out["cusum"] = ev(CUSUM().fit(X), c3full)
            out["l2saving"] = ev(L2Saving().fit(X), c2)
            from skchange.costs import L2Cost

            out["l2saving_def"] = ev(Saving(L2Cost(param=0.0)).fit(X), c2)
        return out
    except Exception as ex:
        return {"outcome": "other:" + type(ex).__name__, "msg": str(ex)[:200]}


def oracle_builtin(case, r):
    if r["outcome"] != "ok":
        if r["outcome"] == "other:RuntimeError" and case["cost"] == "gcov":
            return None  # documented error for a non-positive-definite sample covariance
        return f"raised {r['outcome']} {r.get('msg', '')}"
    sc2 = max(max(abs(v) for row in case["X"] for v in row), abs(float(np.max(np.abs(case["mean"])))), 1e-150) ** 2 * case["n"]
    # absolute tolerance: far above double-precision prefix-sum rounding (~1e-16 * n * max|x|^2), far below what single-precision
    # accumulation would produce (~1e-7 * n * max|x|^2)
    tol = 1e-10 * sc2 if case["cost"] == "l2" else 1e-7 * max(1.0, case["n"] * 40.0)

    def close(a, b):
        return np.allclose(np.array(a, dtype=float), np.array(b, dtype=float), rtol=1e-7, atol=tol)

    for name, cuts in (("change", r["c3"]), ("changeF", r["c3"]), ("saving", r["c2"]), ("local", r["c4"]), ("localF", r["c4"])):
        for c, got, want in zip(cuts, r[name], r[name + "_def"]):
            if not close(got, want):
                what = name.rstrip("F") + (" (inner cost at the fixed parameter)" if name.endswith("F") else "")
                return (f"{what} score of {case['cost']} at cut {c} is {got}; the defining cost difference computed from the rows is "
                        f"{want}" + (" (integer-typed data)" if case.get("int") else ""))
    if case["cost"] == "l2":
        for c, cu, ch in zip(r["c3"], r["cusum"], r["change"]):
            if not close(np.array(cu) ** 2, ch):
                return f"squared CUSUM at {c} is {(np.array(cu) ** 2).tolist()}; the squared-error change score is {ch}"
        for c, a, b in zip(r["c2"], r["l2saving"], r["l2saving_def"]):
            if not close(a, b):
                return f"L2Saving at {c} is {a}; Saving(L2Cost(0)) gives {b}"
    if case["cost"] in ("l2", "gvar"):
        # variances well above the 1e-16 floor by construction of the data scales
        neg = -tol
        for c, v in zip(r["c3"], r["change"]):
            if not min(v) >= neg:
                return f"change score of {case['cost']} at {c} is negative: {v} (splitting must not increase the optimal cost)"
        for c, v in zip(r["c2"], r["saving"]):
            if not min(v) >= neg:
                return f"saving of {case['cost']} at {c} is negative: {v} (the optimal cost must not exceed the fixed-parameter cost)"
    return None


def skip_builtin(case, r):
    """constant slices put the Gaussian variance at the floor, outside "well above the floor" """
    if r["outcome"] != "ok" or case["cost"] != "gvar":
        return None
    X = np.array(case["X"])
    ms = r["min_size"]
    for cuts in (r["c2"], r["c3"], r["c4"]):
        for c in cuts:
            for a, b in zip(c, c[1:]):
                if b - a >= ms and np.any(X[a:b].var(axis=0) < 1e-13):
                    return "variance-at-floor"
    return None



# ------------------------------------------------------------------- re-fitting (stale state)


def gen_refit(rng, nmax):
    p = rng.randint(1, 2)
    n = rng.randint(5, nmax)
    adapter = rng.choice(["change", "saving", "local", "cusum", "l2saving"])
    k = {"change": 3, "saving": 2, "local": 4, "cusum": 3, "l2saving": 2}[adapter]
    scen = rng.choice(["inplace", "inplace", "fresh", "shared", "nested", "nested", "two-alive"] if adapter in ("change", "saving", "local")
                      else ["inplace", "fresh", "two-alive"])
    mk = lambda: [[rng.randint(-3, 3) for _ in range(p)] for _ in range(n)]  # noqa: E731
    return {"adapter": adapter, "scenario": scen, "n": n, "p": p, "X1": mk(), "X2": mk(), "weight": rng.choice([1, 2]),
            "param": rng.choice([-2, 1, 3]), "cuts": gen_cuts(rng, n, k, 1, rng.randint(2, 6)), "eval_between": rng.random() < 0.5,
            # nested scenario: the wrapped cost is re-configured through the adapter (set_params(<cost>__weight=..., <cost>__param=...))
            "weight2": rng.choice([2, 3, 5]), "param2": rng.choice([-1, 2, 4]), "inner0": rng.choice([None, 1]),
            # "fresh" scenario: the first data are integer-typed counts, the second real-valued (halves)
            "x1int": rng.random() < 0.5, "x2frac": rng.random() < 0.5}


def impl_refit(case):
    """fit, then fit again — on the same array object whose contents were replaced in place, on a fresh
    array, or after another adapter sharing the cost object was fitted to other data — and evaluate"""
    from skchange.anomaly_scores import L2Saving, LocalAnomalyScore, Saving
    from skchange.change_scores import CUSUM, ChangeScore

    if not case["cuts"]:
        return {"outcome": "skip:no-cuts"}
    try:
        w, prm, ad = case["weight"], case["param"], case["adapter"]
        nested = case["scenario"] == "nested"
        cost = MultisetCost(param=prm if ad == "saving" else (case.get("inner0") if nested else None), weight=w)
        sc = {"change": lambda: ChangeScore(cost), "saving": lambda: Saving(cost), "local": lambda: LocalAnomalyScore(cost),
              "cusum": CUSUM, "l2saving": L2Saving}[ad]()
        fresh_mix = case["scenario"] == "fresh"
        X = np.array(case["X1"], dtype=np.int64 if fresh_mix and case.get("x1int") else float)
        cuts = np.array(case["cuts"])
        if nested:
            if case["eval_between"]:
                sc.fit(X)
                sc.evaluate(cuts)
            key = "baseline_cost" if ad == "saving" else "cost"
            sc.set_params(**{key + "__weight": case["weight2"], key + "__param": case["param2"]})
            sc.fit(X)
            return {"outcome": "ok", "final": "X1", "vals": sc.evaluate(cuts).tolist()}
        if case["scenario"] == "two-alive":
            # two scorers of the same kind (separate cost objects) are fitted to different data and used in turn
            cost2 = MultisetCost(param=cost.param, weight=w)
            sc2 = {"change": lambda: ChangeScore(cost2), "saving": lambda: Saving(cost2), "local": lambda: LocalAnomalyScore(cost2),
                   "cusum": CUSUM, "l2saving": L2Saving}[ad]()
            sc.fit(X)
            sc2.fit(np.array(case["X2"], dtype=float))
            first = sc.evaluate(cuts).tolist()
            second = sc2.evaluate(cuts).tolist()
            if case["eval_between"]:  # judge the first scorer, evaluated again after the second one was used
                return {"outcome": "ok", "final": "X1", "vals": sc.evaluate(cuts).tolist(), "first": first}
            return {"outcome": "ok", "final": "X2", "vals": second}
        sc.fit(X)
        if case["eval_between"]:
            sc.evaluate(cuts)
        if case["scenario"] == "inplace":
            X[...] = np.array(case["X2"], dtype=float)
            sc.fit(X)
            final = "X2"
        elif case["scenario"] == "fresh":
            sc.fit(np.array(case["X2"], dtype=float) + (0.5 if case.get("x2frac") else 0.0))
            final = "X2"
        else:  # another adapter holding the same cost object is fitted to other data in between
            other = (LocalAnomalyScore if ad == "change" else ChangeScore)(cost)
            other.fit(np.array(case["X2"], dtype=float))
            sc.fit(X)
            final = "X1"
        return {"outcome": "ok", "final": final, "vals": sc.evaluate(cuts).tolist()}
    except Exception as ex:
        return {"outcome": "other:" + type(ex).__name__, "msg": str(ex)[:200]}


def oracle_refit(case, r):
    if r["outcome"] != "ok":
        return f"raised {r['outcome']} {r.get('msg', '')}"
    X = np.array(case[r["final"]], dtype=float)
    if case["scenario"] == "fresh" and case.get("x2frac"):
        X = X + 0.5
    w, prm, ad = case["weight"], case["param"], case["adapter"]
    inner = None
    if case["scenario"] == "nested":  # the definitions with the cost as re-configured through the adapter
        w, prm, inner = case["weight2"], case["param2"], case["param2"]
    V = lambda rows, par=inner: MultisetCost.value(rows, w, par)  # noqa: E731
    L2 = lambda rows: ((rows - rows.mean(axis=0)) ** 2).sum(axis=0)  # noqa: E731
    for c, got in zip(case["cuts"], r["vals"]):
        got = np.array(got)
        if ad == "change":
            s, k, e = c
            want = V(X[s:e]) - V(X[s:k]) - V(X[k:e])
        elif ad == "saving":
            s, e = c
            want = V(X[s:e], prm) - V(X[s:e], None)
        elif ad == "local":
            s, a, b, e = c
            want = V(X[s:e]) - V(X[a:b]) - V(np.concatenate((X[s:a], X[b:e])))
        elif ad == "cusum":
            s, k, e = c
            got, want = got ** 2, L2(X[s:e]) - L2(X[s:k]) - L2(X[k:e])
        else:
            s, e = c
            want = (X[s:e] ** 2).sum(axis=0) - L2(X[s:e])
        if not np.allclose(got, want, rtol=1e-9, atol=1e-9):
            how = {"inplace": "re-fitted on the same array object after its contents were replaced in place",
                   "two-alive": "used alongside a second scorer of the same kind that was fitted to other data (the defining difference is taken on its own data)",
                   "fresh": "re-fitted on a new array", "shared": "re-fitted after another adapter sharing its cost object was fitted to other data",
                   "nested": f"fitted after set_params(<cost>__weight={case.get('weight2')}, <cost>__param={case.get('param2')})"}
            return (f"{ad} score at cut {c} is {got.tolist()} after the scorer was {how[case['scenario']]}; the defining cost difference on "
                    f"the data it was last fitted to is {np.asarray(want).tolist()}")
    return None


def run(chk: core.Check):
    tier = chk.tier
    N = {"quick": 1500, "thorough": 30000}[tier]
    status = {}
    with core.LeanLock():
        st, _ = translate.run()
        status.update(st)
    skip = {m: "translator: " + ", ".join(k for k in ks if status[k]["state"] != "translated")
            for m, ks in L1.items() if any(status[k]["state"] != "translated" for k in ks)}
    chk.lean(extra_modules=list(L1), skip_modules=skip)
    chk.notes["translator"] = {k: v["state"] for k, v in status.items() if k in ("cusum_score", "l2_saving", "l2_cost_optim", "l2_cost_fixed")}
    chk.rules.append(
        "user: ChangeScore / Saving / LocalAnomalyScore composed with a user-defined integer cost that has an extra hyper-parameter and "
        "depends on the multiset of rows, batches of 1-8 cuts in which consecutive rows share entries, batch and single evaluation, exact; "
        "builtin: the adapters with L2 / univariate / multivariate Gaussian costs on data of scales 2e-5 .. 50 against fresh cost "
        "definitions computed from the rows (inner cost at its optimal and at a fixed parameter; float and integer-typed data), CUSUM^2 vs "
        "ChangeScore(L2), L2Saving vs Saving(L2Cost(0)), sign and ordering checks; refit: a scorer fitted, then re-fitted on the same array "
        "object with replaced contents / on a fresh array / after a sibling adapter sharing the cost was fitted elsewhere, judged on the data "
        "of the last fit. Non-trivial = at least 2 cuts"
    )
    chk.assumptions += ["built-in costs: 1e-7 relative tolerance; Gaussian slices with variance at the floor are skipped and counted",
                        "multivariate log-det inequalities are not proved (numeric check only)"]
    rng = core.rng_for(chk.seed, "C06/user")
    chk.run_stream("user", core.Gen(gen_user, rng, 12, N), impl_user, oracle=oracle_user, site="adapters",
                   skip=lambda c, r: r["outcome"][5:] if r["outcome"].startswith("skip:") else None,
                   nontrivial=lambda c, r: len(c["cuts"]) >= 2,
                   describe=lambda c: {k: v for k, v in c.items() if k != "X"} | {"X[:3]": c["X"][:3]})
    rng = core.rng_for(chk.seed, "C06/builtin")
    chk.run_stream("builtin", core.Gen(gen_builtin, rng, 14, N // 2), impl_builtin, oracle=oracle_builtin, skip=skip_builtin,
                   site="adapters/builtin", nontrivial=lambda c, r: r.get("outcome") == "ok" and len(r["c3"]) >= 2,
                   describe=lambda c: {k: v for k, v in c.items() if k != "X"} | {"X[:3]": c["X"][:3]})
    rng = core.rng_for(chk.seed, "C06/refit")
    chk.run_stream("refit", core.Gen(gen_refit, rng, 10, N // 3), impl_refit, oracle=oracle_refit, site="adapters/refit",
                   skip=lambda c, r: r["outcome"][5:] if r["outcome"].startswith("skip:") else None,
                   nontrivial=lambda c, r: r.get("outcome") == "ok", describe=lambda c: {k: v for k, v in c.items() if k not in ("X1", "X2")})
    return chk.finish(trusted_extra=["the translator harness/translate.py, validated numerically in the C01 check"])


def replay(path):
    v = json.load(open(path))
    case = v["case"]
    if case is None:
        print(json.dumps(v, indent=1)[:4000])
        return 0
    if v["stream"] == "user":
        r = impl_user(case)
        print("implementation:", r, "\noracle:", oracle_user(case, r))
    elif v["stream"] == "refit":
        r = impl_refit(case)
        print("implementation:", r, "\noracle:", oracle_refit(case, r))
    else:
        r = impl_builtin(case)
        print("implementation:", r, "\noracle:", oracle_builtin(case, r) if not skip_builtin(case, r) else "skipped")
    return 0
