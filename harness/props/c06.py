"""C06 — scores derived from costs equal their defining cost differences.

Lean: Skc/Props/C06.lean (closed-form identities and inequalities) + L1 modules (generated CUSUM /
L2 kernels = closed forms, and the identities restated on the generated code).
Tie: route T as in C01; route K: the three adapters composed with a user-defined integer cost that
has an extra hyper-parameter and depends on the multiset of rows (exact), and with the built-in costs
(numeric): adapter value vs the defining cost difference computed from fresh evaluations; CUSUM² vs
ChangeScore(L2Cost); L2Saving vs Saving(L2Cost(0)); sign / ordering / split inequalities."""
from __future__ import annotations

import json

import numpy as np

from .. import core, translate
from ..scorers import MultisetCost

L1 = {"Skc.L1.L2Cost": ["l2_cost_optim", "l2_cost_fixed", "l2_saving"], "Skc.L1.Cusum": ["cusum_score", "l2_cost_optim"]}


def gen_cuts(rng, n, k, ms, count):
    """admissible k-point cuts with each part >= ms; consecutive rows often share entries"""
    out = []
    tries = 0
    while len(out) < count and tries < 50 * count:
        tries += 1
        if out and rng.random() < 0.5:  # perturb the previous cut in one coordinate (same start, other end, …)
            c = list(out[-1])
            i = rng.randrange(k)
            c[i] += rng.choice([-2, -1, 1, 2, 3])
        else:
            c = sorted(rng.sample(range(0, n + 1), k)) if n + 1 >= k else None
        if c is None:
            break
        if all(0 <= v <= n for v in c) and all(b - a >= ms for a, b in zip(c, c[1:])):
            out.append(tuple(c))
    return out


def gen_user(rng, nmax):
    p = rng.randint(1, 3)
    n = rng.randint(4, nmax)
    X = [[rng.randint(-3, 3) for _ in range(p)] for _ in range(n)]
    adapter = rng.choice(["change", "saving", "local"])
    k = {"change": 3, "saving": 2, "local": 4}[adapter]
    return {"adapter": adapter, "n": n, "p": p, "X": X, "weight": rng.choice([1, 2, 3]), "param": rng.choice([-2, 1, 3]),
            "cuts": gen_cuts(rng, n, k, 1, rng.randint(1, 8))}


def impl_user(case):
    from skchange.anomaly_scores import LocalAnomalyScore, Saving
    from skchange.change_scores import ChangeScore

    X = np.array(case["X"], dtype=float)
    w, prm = case["weight"], case["param"]
    if not case["cuts"]:
        return {"outcome": "skip:no-cuts"}
    try:
        if case["adapter"] == "change":
            sc = ChangeScore(MultisetCost(weight=w))
        elif case["adapter"] == "saving":
            sc = Saving(MultisetCost(param=prm, weight=w))
        else:
            sc = LocalAnomalyScore(MultisetCost(weight=w))
        sc.fit(X)
        cuts = np.array(case["cuts"])
        batch = sc.evaluate(cuts)
        single = np.vstack([sc.evaluate(np.array([c])) for c in case["cuts"]])
        return {"outcome": "ok", "batch": batch.tolist(), "single": single.tolist()}
    except Exception as ex:
        return {"outcome": "other:" + type(ex).__name__, "msg": str(ex)[:200]}


def oracle_user(case, r):
    if r["outcome"] != "ok":
        return f"adapter raised {r['outcome']} {r.get('msg', '')}"
    X = np.array(case["X"], dtype=float)
    w, prm = case["weight"], case["param"]
    V = lambda rows, par=None: MultisetCost.value(rows, w, par)  # noqa: E731
    for i, c in enumerate(case["cuts"]):
        if case["adapter"] == "change":
            s, k, e = c
            want = V(X[s:e]) - V(X[s:k]) - V(X[k:e])
            what = f"C({s},{e}) - C({s},{k}) - C({k},{e})"
        elif case["adapter"] == "saving":
            s, e = c
            want = V(X[s:e], prm) - V(X[s:e])
            what = f"C_baseline({s},{e}) - C_optimal({s},{e})"
        else:
            s, a, b, e = c
            want = V(X[s:e]) - V(X[a:b]) - V(np.concatenate((X[s:a], X[b:e])))
            what = f"C({s},{e}) - C({a},{b}) - C(rows of [{s},{a}) and [{b},{e}) pooled)"
        for tag in ("batch", "single"):
            got = np.array(r[tag][i])
            if not np.array_equal(got, want):
                return (f"{case['adapter']} adapter ({tag} evaluation, cut {c}, user cost with weight={w}) gives {got.tolist()}; "
                        f"{what} = {want.tolist()}")
    return None


# ------------------------------------------------------------------------------- built-in costs


def gen_builtin(rng, nmax):
    p = rng.randint(1, 3)
    n = rng.randint(6, nmax)
    scale = rng.choice([1.0, 1.0, 1e-3, 2e-5, 50.0])
    X = [[(rng.randint(-4, 4) + rng.choice([0, 0.5, 0.25])) * scale for _ in range(p)] for _ in range(n)]
    return {"n": n, "p": p, "X": X, "scale": scale, "cost": rng.choice(["l2", "gvar", "gcov"]),
            "mean": rng.choice([0.0, 0.5, -1.0]) * scale, "var": rng.choice([0.5, 1.0, 4.0]) * scale * scale,
            "seed": rng.randint(0, 10**6)}


def _mk(case, fixed):
    from skchange.costs import GaussianCovCost, GaussianVarCost, L2Cost

    if case["cost"] == "l2":
        return L2Cost(param=case["mean"] if fixed else None)
    if case["cost"] == "gvar":
        return GaussianVarCost(param=(case["mean"], case["var"]) if fixed else None)
    return GaussianCovCost(param=(case["mean"], case["var"]) if fixed else None)


def impl_builtin(case):
    import random

    from skchange.anomaly_scores import L2Saving, LocalAnomalyScore, Saving
    from skchange.change_scores import CUSUM, ChangeScore

    X = np.array(case["X"], dtype=float)
    n = case["n"]
    rng = random.Random(case["seed"])
    try:
        opt, fix = _mk(case, False).fit(X), _mk(case, True).fit(X)
        ms = int(opt.min_size)
        c2 = gen_cuts(rng, n, 2, ms, 6)
        c3 = gen_cuts(rng, n, 3, ms, 6)
        c4 = gen_cuts(rng, n, 4, 1, 10)
        c4 = [c for c in c4 if c[2] - c[1] >= ms and (c[1] - c[0]) + (c[3] - c[2]) >= ms]
        # a pure equal-length batch whose first split is centred and the others are not
        c3e = []
        if n >= 12:
            L = 2 * rng.randint(max(2, ms), 4)
            s0 = rng.randint(0, n - L - 3)
            c3e = [(s0, s0 + L // 2, s0 + L)] + [(s0 + d, s0 + d + rng.randint(ms, L - ms), s0 + d + L) for d in (0, 1, 2, 3)]
        out = {"outcome": "ok", "min_size": ms, "c2": c2, "c3": c3 + c3e, "c4": c4}

        def ev(sc, cuts):
            if cuts is c3full:  # the two 3-point batches are evaluated in separate calls
                return (sc.evaluate(np.array(c3)).tolist() if c3 else []) + (sc.evaluate(np.array(c3e)).tolist() if c3e else [])
            return sc.evaluate(np.array(cuts)).tolist() if cuts else []

        c3full = out["c3"]
        C = lambda s, e, sc=opt: sc.evaluate(np.array([[s, e]]))[0]  # noqa: E731
        out["change"] = ev(ChangeScore(_mk(case, False)).fit(X), c3full)
        out["change_def"] = [(C(s, e) - C(s, k) - C(k, e)).tolist() for s, k, e in c3full]
        out["saving"] = ev(Saving(_mk(case, True)).fit(X), c2)
        out["saving_def"] = [(C(s, e, fix) - C(s, e)).tolist() for s, e in c2]
        out["local"] = ev(LocalAnomalyScore(_mk(case, False)).fit(X), c4)
        loc = []
        for s, a, b, e in c4:
            sur = np.concatenate((X[s:a], X[b:e]))
            loc.append((C(s, e) - C(a, b) - _mk(case, False).fit(sur).evaluate(np.array([[0, len(sur)]]))[0]).tolist())
        out["local_def"] = loc
        if case["cost"] == "l2":
            out["cusum"] = ev(CUSUM().fit(X), c3full)
            out["l2saving"] = ev(L2Saving().fit(X), c2)
            from skchange.costs import L2Cost

            out["l2saving_def"] = ev(Saving(L2Cost(param=0.0)).fit(X), c2)
        return out
    except Exception as ex:
        return {"outcome": "other:" + type(ex).__name__, "msg": str(ex)[:200]}


def oracle_builtin(case, r):
    if r["outcome"] != "ok":
        if r["outcome"] == "other:RuntimeError" and case["cost"] == "gcov":
            return None  # documented error for a non-positive-definite sample covariance
        return f"raised {r['outcome']} {r.get('msg', '')}"
    sc2 = (1 + max(abs(v) for row in case["X"] for v in row)) ** 2 * case["n"]
    tol = 1e-7 * (sc2 if case["cost"] == "l2" else max(1.0, case["n"] * 40.0))

    def close(a, b):
        return np.allclose(np.array(a, dtype=float), np.array(b, dtype=float), rtol=1e-7, atol=tol)

    for name, cuts in (("change", r["c3"]), ("saving", r["c2"]), ("local", r["c4"])):
        for c, got, want in zip(cuts, r[name], r[name + "_def"]):
            if not close(got, want):
                return f"{name} score of {case['cost']} at cut {c} is {got}; the defining cost difference is {want}"
    if case["cost"] == "l2":
        for c, cu, ch in zip(r["c3"], r["cusum"], r["change"]):
            if not close(np.array(cu) ** 2, ch):
                return f"squared CUSUM at {c} is {(np.array(cu) ** 2).tolist()}; the squared-error change score is {ch}"
        for c, a, b in zip(r["c2"], r["l2saving"], r["l2saving_def"]):
            if not close(a, b):
                return f"L2Saving at {c} is {a}; Saving(L2Cost(0)) gives {b}"
    if case["cost"] in ("l2", "gvar"):
        # variances well above the 1e-16 floor by construction of the data scales
        neg = -tol
        for c, v in zip(r["c3"], r["change"]):
            if min(v) < neg:
                return f"change score of {case['cost']} at {c} is negative: {v} (splitting must not increase the optimal cost)"
        for c, v in zip(r["c2"], r["saving"]):
            if min(v) < neg:
                return f"saving of {case['cost']} at {c} is negative: {v} (the optimal cost must not exceed the fixed-parameter cost)"
    return None


def skip_builtin(case, r):
    """constant slices put the Gaussian variance at the floor, outside "well above the floor" """
    if r["outcome"] != "ok" or case["cost"] != "gvar":
        return None
    X = np.array(case["X"])
    ms = r["min_size"]
    for cuts in (r["c2"], r["c3"], r["c4"]):
        for c in cuts:
            for a, b in zip(c, c[1:]):
                if b - a >= ms and np.any(X[a:b].var(axis=0) < 1e-13):
                    return "variance-at-floor"
    return None


def run(chk: core.Check):
    tier = chk.tier
    N = {"quick": 1500, "thorough": 30000}[tier]
    status = {}
    with core.LeanLock():
        st, _ = translate.run()
        status.update(st)
    skip = {m: "translator: " + ", ".join(k for k in ks if status[k]["state"] != "translated")
            for m, ks in L1.items() if any(status[k]["state"] != "translated" for k in ks)}
    chk.lean(extra_modules=list(L1), skip_modules=skip)
    chk.notes["translator"] = {k: v["state"] for k, v in status.items() if k in ("cusum_score", "l2_saving", "l2_cost_optim", "l2_cost_fixed")}
    chk.rules.append(
        "user: ChangeScore / Saving / LocalAnomalyScore composed with a user-defined integer cost that has an extra hyper-parameter and "
        "depends on the multiset of rows, batches of 1-8 cuts in which consecutive rows share entries, batch and single evaluation, exact; "
        "builtin: the adapters with L2 / univariate / multivariate Gaussian costs on data of scales 2e-5 .. 50 against fresh cost "
        "evaluations, CUSUM^2 vs ChangeScore(L2), L2Saving vs Saving(L2Cost(0)), sign and ordering checks. Non-trivial = at least 2 cuts"
    )
    chk.assumptions += ["built-in costs: 1e-7 relative tolerance; Gaussian slices with variance at the floor are skipped and counted",
                        "multivariate log-det inequalities are not proved (numeric check only)"]
    rng = core.rng_for(chk.seed, "C06/user")
    chk.run_stream("user", [gen_user(rng, 12) for _ in range(N)], impl_user, oracle=oracle_user, site="adapters",
                   skip=lambda c, r: r["outcome"][5:] if r["outcome"].startswith("skip:") else None,
                   nontrivial=lambda c, r: len(c["cuts"]) >= 2,
                   describe=lambda c: {k: v for k, v in c.items() if k != "X"} | {"X[:3]": c["X"][:3]})
    rng = core.rng_for(chk.seed, "C06/builtin")
    chk.run_stream("builtin", [gen_builtin(rng, 14) for _ in range(N // 2)], impl_builtin, oracle=oracle_builtin, skip=skip_builtin,
                   site="adapters/builtin", nontrivial=lambda c, r: r.get("outcome") == "ok" and len(r["c3"]) >= 2,
                   describe=lambda c: {k: v for k, v in c.items() if k != "X"} | {"X[:3]": c["X"][:3]})
    return chk.finish(trusted_extra=["the translator harness/translate.py, validated numerically in the C01 check"])


def replay(path):
    v = json.load(open(path))
    case = v["case"]
    if case is None:
        print(json.dumps(v, indent=1)[:4000])
        return 0
    if v["stream"] == "user":
        r = impl_user(case)
        print("implementation:", r, "\noracle:", oracle_user(case, r))
    else:
        r = impl_builtin(case)
        print("implementation:", r, "\noracle:", oracle_builtin(case, r) if not skip_builtin(case, r) else "skipped")
    return 0
