"""C13 — evaluate either rejects a cuts array or scores exactly the cuts it describes.

Lean: Skc/Props/C13.lean (accept ⇔ valid; accepted positions lie in [0, n]).
Tie: EXHAUSTIVE over the box [-2, n+2]^k (k = 2, 3, 4) for every scorer class and adapter
composition: outcome (accepted / ValueError / anything else) against `checkRow` / `checkRowLocal`,
on data with p in {1, 2, 3} columns and on scorer objects that were fitted before on data with a
different number of columns; accepted cuts are also re-scored from the definition for the L2-based
scorers.  Plus malformed containers (float / bool dtype, wrong width, 1-D, 3-D, empty)."""
from __future__ import annotations

import itertools
import json

import numpy as np

from .. import core

SCORERS = ["l2", "l2-fixed", "gvar", "gvar-fixed", "gcov", "gcov-fixed", "cusum", "chg-l2", "chg-gvar", "chg-gcov", "l2saving",
           "sav-l2", "sav-gvar", "loc-l2", "loc-gvar", "loc-gcov", "chg-gvar-fixed", "loc-gvar-fixed", "loc-gcov-fixed", "gcov-fixed-scalar-mean"]


def mk(name, p):
    from skchange.anomaly_scores import L2Saving, LocalAnomalyScore, Saving
    from skchange.change_scores import CUSUM, ChangeScore
    from skchange.costs import GaussianCovCost, GaussianVarCost, L2Cost

    return {
        "l2": lambda: L2Cost(), "l2-fixed": lambda: L2Cost(param=0.5), "gvar": lambda: GaussianVarCost(),
        "gvar-fixed": lambda: GaussianVarCost(param=(0.0, 1.5)), "gcov": lambda: GaussianCovCost(),
        "gcov-fixed": lambda: GaussianCovCost(param=(0.0, 2.0)), "cusum": lambda: CUSUM(), "chg-l2": lambda: ChangeScore(L2Cost()),
        "chg-gvar": lambda: ChangeScore(GaussianVarCost()), "chg-gcov": lambda: ChangeScore(GaussianCovCost()),
        "l2saving": lambda: L2Saving(), "sav-l2": lambda: Saving(L2Cost(param=0.0)), "sav-gvar": lambda: Saving(GaussianVarCost(param=(0.0, 1.0))),
        "loc-l2": lambda: LocalAnomalyScore(L2Cost()), "loc-gvar": lambda: LocalAnomalyScore(GaussianVarCost()),
        "loc-gcov": lambda: LocalAnomalyScore(GaussianCovCost()),
        # adapters around costs with a fixed parameter and a minimum size above 1; a scalar mean broadcast over all columns
        "chg-gvar-fixed": lambda: ChangeScore(GaussianVarCost(param=(0.2, 1.5))),
        "loc-gvar-fixed": lambda: LocalAnomalyScore(GaussianVarCost(param=(0.2, 1.5))),
        "loc-gcov-fixed": lambda: LocalAnomalyScore(GaussianCovCost(param=(0.0, 2.0))),
        "gcov-fixed-scalar-mean": lambda: GaussianCovCost(param=(0.5, 1.0)),
    }[name]()


def data(n, p, seed):
    g = np.random.default_rng(seed)
    return g.integers(-3, 4, size=(n, p)).astype(float) + g.random((n, p)) * 0.01


def box_cases(tier):
    out = []
    for name in SCORERS:
        for p in (1, 2, 3):
            for refit in (False, True):
                if refit and p == 2:
                    continue
                k = 4 if name.startswith("loc") else 3 if name in ("cusum", "chg-l2", "chg-gvar", "chg-gcov", "chg-gvar-fixed") else 2
                n = {2: 6, 3: 5, 4: 4}[k] + (1 if tier == "thorough" else 0)
                if "gcov" in name:
                    n += 1  # min_size = p + 1
                out.append({"scorer": name, "p": p, "n": n, "k": k, "refit": refit, "seed": 11 * p + n})
    return out


def classify(fn):
    try:
        v = fn()
        return "ok", v
    except ValueError:
        return "err", None
    except Exception as ex:
        return "other:" + type(ex).__name__, None


def impl_box(c):
    n, p, k = c["n"], c["p"], c["k"]
    X = data(n, p, c["seed"])
    try:
        sc = mk(c["scorer"], p)
        if c["refit"]:  # the same object was fitted before on data with another number of columns
            q = 3 if p == 1 else 1
            Z = data(n + 2, q, c["seed"] + 1)
            sc.fit(Z)
            ms0 = sc.min_size
            classify(lambda: sc.evaluate(np.array([list(range(0, k * (ms0 or 1) + 1, ms0 or 1))[:k]])))
        sc.fit(X)
        ms = int(sc.min_size)
    except Exception as ex:
        return {"outcome": "other:" + type(ex).__name__, "msg": str(ex)[:200]}
    res = {}
    vals = {}
    # half of the cases hand every tuple to evaluate in ONE array object whose contents are replaced in place between the calls
    # (callers that fill a pre-allocated buffer): validity is a property of the contents at the time of the call
    buf = np.zeros((1, k), dtype=np.int64) if (c["seed"] + c["p"] + int(c["refit"])) % 2 == 0 else None
    for t in itertools.product(range(-2, n + 3), repeat=k):
        if buf is not None:
            buf[0, :] = t
            cls, v = classify(lambda: sc.evaluate(buf))
        else:
            cls, v = classify(lambda: sc.evaluate(np.array([t])))
        if cls.startswith("other:RuntimeError") and "gcov" in c["scorer"]:
            cls = "ok"  # documented error of a valid cut with a singular sample covariance
        res[" ".join(map(str, t))] = cls
        if cls == "ok" and v is not None and c["scorer"] in ("l2", "cusum", "l2saving", "loc-l2", "chg-l2"):
            vals[" ".join(map(str, t))] = [float(x) for x in v[0]]
    return {"outcome": "ok", "min_size": ms, "res": res, "vals": vals}


def box_lines(c, r):
    variant = "local" if c["scorer"].startswith("loc") else "std"
    lines = []
    for key in r["res"]:
        if variant == "std":
            lines.append(f"cutrow std {c['n']} {r['min_size']} {c['k']} {key}")
        else:
            lines.append(f"cutrow local {c['n']} {r['min_size']} {key}")
    return lines


def valid_by_property(c, ms, t):
    """C13's own words: integer tuple of the expected width, strictly increasing with the required
    minimum spacing, positions inside 0..n"""
    n = c["n"]
    if any(not (0 <= v <= n) for v in t):
        return False
    if c["scorer"].startswith("loc"):
        s, a, b, e = t
        return s < a < b < e and b - a >= ms and (a - s) + (e - b) >= ms
    return all(y - x >= ms for x, y in zip(t, t[1:]))


def definition_value(c, X, t):
    n = len(X)
    S = lambda a, b: X[a:b]  # noqa: E731
    rss = lambda seg: ((seg - seg.mean(axis=0)) ** 2).sum(axis=0)  # noqa: E731
    if c["scorer"] == "l2":
        return rss(S(*t))
    if c["scorer"] == "l2saving":
        seg = S(*t)
        return seg.sum(axis=0) ** 2 / len(seg)
    if c["scorer"] in ("cusum", "chg-l2"):
        s, k, e = t
        v = rss(S(s, e)) - rss(S(s, k)) - rss(S(k, e))
        return np.sqrt(np.maximum(v, 0)) if c["scorer"] == "cusum" else v
    s, a, b, e = t
    return rss(S(s, e)) - rss(S(a, b)) - rss(np.concatenate((S(s, a), S(b, e))))


def oracle_box(c, r):
    if r["outcome"] != "ok":
        return f"fit raised {r['outcome']} {r.get('msg', '')}"
    ms = r["min_size"]
    want_ms = {"l2": 1, "l2-fixed": 1, "cusum": 1, "l2saving": 1, "chg-l2": 1, "sav-l2": 1, "loc-l2": 1}.get(c["scorer"])
    if want_ms is None:
        want_ms = c["p"] + 1 if "gcov" in c["scorer"] else 2
    if ms != want_ms:
        return f"{c['scorer']} fitted on {c['p']} columns reports min_size={ms}, expected {want_ms}" + (" (object was fitted before on other data)" if c["refit"] else "")
    X = data(c["n"], c["p"], c["seed"])
    for key, cls in r["res"].items():
        t = tuple(int(v) for v in key.split())
        ok = valid_by_property(c, ms, t)
        if ok and cls != "ok":
            return f"{c['scorer']} (p={c['p']}, n={c['n']}): the valid cut {t} is rejected / fails with {cls}"
        if not ok and cls == "ok":
            return f"{c['scorer']} (p={c['p']}, n={c['n']}): the invalid cut {t} is evaluated silently"
        if not ok and cls != "err":
            return f"{c['scorer']} (p={c['p']}, n={c['n']}): the invalid cut {t} raises {cls} instead of ValueError"
        if ok and key in r["vals"]:
            want = definition_value(c, X, t)
            got = np.array(r["vals"][key])
            if not np.allclose(got, want, rtol=1e-7, atol=1e-7):
                return f"{c['scorer']}: accepted cut {t} is scored {got.tolist()}, the definition gives {want.tolist()}"
    return None


# --------------------------------------------------------------------------- malformed containers


def malformed_cases():
    out = []
    for name in SCORERS:
        for kind in ["float", "bool", "wide", "narrow", "1d-ok", "1d-bad", "1d-multi", "1d-empty", "3d", "empty", "float-integral", "list",
                     "frame-float", "series-float", "frame-out-of-range-float", "column", "column-list", "column-frame", "row-of-columns"]:
            out.append({"scorer": name, "kind": kind})
    return out


def impl_malformed(c):
    p, n = 2, 9
    X = data(n, p, 5)
    try:
        sc = mk(c["scorer"], p).fit(X)
    except Exception as ex:
        return {"outcome": "other:" + type(ex).__name__, "msg": str(ex)[:200]}
    k = sc.expected_cut_entries
    good = [0, 3, 6, 9][:k] if k < 4 else [0, 3, 6, 9]
    if k == 2:
        good = [0, 4]
    kind = c["kind"]
    arr = {"float": np.array([good], dtype=float) + 0.5, "bool": np.array([good]) > 1, "wide": np.array([good + [9]]),
           "narrow": np.array([good[:-1]]), "1d-ok": np.array(good), "1d-bad": np.array(good[:-1]),
           "3d": np.array([[good]]), "empty": np.zeros((0, k), dtype=int), "float-integral": np.array([good], dtype=float),
           "list": [good],
           # pandas containers holding non-integers must not be truncated into valid cuts
           "frame-float": __import__("pandas").DataFrame(np.array([good], dtype=float) + 0.5),
           "series-float": __import__("pandas").Series(np.array(good, dtype=float) + 0.5),
           "frame-out-of-range-float": __import__("pandas").DataFrame(np.array([[-0.5] + good[1:-1] + [n + 0.9]], dtype=float)),
           # a flat vector as long as two rows (it is ONE row of twice the width, not two rows), and an empty flat vector
           "1d-multi": np.array({2: [0, 4, 5, 9], 3: [0, 3, 6, 6, 7, 9][:3] + [1, 5, 9], 4: [0, 2, 4, 6, 1, 3, 6, 9]}[k]),
           "1d-empty": np.array([], dtype=int),
           # ONE column with as many rows as a cut has entries (increasing, in range): that is k rows of width 1, not one row
           "column": np.array(good).reshape(-1, 1), "column-list": [[g] for g in good],
           "column-frame": __import__("pandas").DataFrame(np.array(good).reshape(-1, 1)),
           "row-of-columns": np.array(good).reshape(1, -1, 1)}[kind]
    cls, v = classify(lambda: sc.evaluate(arr))
    return {"outcome": "ok", "cls": cls, "shape": None if v is None else list(np.shape(v))}


def oracle_malformed(c, r):
    if r["outcome"] != "ok":
        return f"fit raised {r['outcome']}"
    accept = c["kind"] in ("1d-ok", "empty", "list")
    if accept and r["cls"] != "ok":
        return f"{c['scorer']}: a valid cuts argument ({c['kind']}) is rejected with {r['cls']}"
    if not accept and r["cls"] != "err":
        return f"{c['scorer']}: a cuts argument that is not an integer array of the expected width ({c['kind']}) gives {r['cls']} instead of ValueError"
    return None



# ----------------------------------------------------------------------- integer dtypes of the cuts

DTYPES = ["int8", "int16", "int32", "int64", "uint8", "uint16", "uint32", "uint64"]
DT_SCORERS = ["l2", "gvar", "cusum", "chg-l2", "l2saving", "loc-l2"]


def dtype_cases():
    """cuts of every NumPy integer dtype: validity is a property of the integers the array holds, so differences and
    products must not be taken in a dtype that wraps (unsigned, or narrower than the positions)"""
    out = []
    for name in DT_SCORERS:
        for dt in DTYPES:
            out.append({"scorer": name, "dtype": dt, "n": 200 if dt in ("int16", "uint16", "int32", "uint32", "int64", "uint64") else 120})
    # long series: products of two positions exceed 2^31 (and 2^32), so 32-bit cuts must be widened before any arithmetic
    for name in ("cusum", "l2", "gvar", "chg-l2"):
        for dt in ("int32", "uint32", "int64"):
            out.append({"scorer": name, "dtype": dt, "n": 100000, "long": True})
    return out


def dtype_rows(c, k, ms):
    n = c["n"]
    info = np.iinfo(c["dtype"])
    cand = []
    base = [0, 1, 2, 3, 5, 10, 50, 60, 90, 100, 110, 118, 119, n - 1, n]
    if c.get("long"):
        base = [0, 3, 40000, 46341, 50000, 65536, 70000, 99990, n - 1, n]
    rng = np.random.default_rng(len(c["scorer"]) * 31 + DTYPES.index(c["dtype"]))
    for _ in range(12 if c.get("long") else 60):  # increasing rows inside the data (mostly valid)
        cand.append(sorted(int(v) for v in rng.choice(base, size=k, replace=False)))
    for _ in range(6 if c.get("long") else 40):  # arbitrary order: ties, inversions
        cand.append([int(v) for v in rng.choice(base, size=k, replace=True)])
    ext = [info.min, info.min + 1, -2, -1, info.max - 1, info.max, n + 1, n + 2, 126, 127]
    for _ in range(8 if c.get("long") else 60):  # values at the ends of the dtype's range mixed in (wrap-around candidates)
        row = [int(v) for v in rng.choice(base, size=k, replace=True)]
        row[int(rng.integers(k))] = int(rng.choice(ext))
        if rng.random() < 0.5:
            row[int(rng.integers(k))] = int(rng.choice(ext))
        cand.append(row)
    return [r for r in cand if all(info.min <= v <= info.max for v in r)]


def impl_dtype(c):
    n = c["n"]
    X = data(n, 1, 5)
    try:
        sc = mk(c["scorer"], 1).fit(X)
        ms = int(sc.min_size)
        k = sc.expected_cut_entries
    except Exception as ex:
        return {"outcome": "other:" + type(ex).__name__, "msg": str(ex)[:200]}
    rows = dtype_rows(c, k, ms)
    out = []
    for row in rows:
        arr = np.array([row], dtype=c["dtype"])
        with np.errstate(all="ignore"):
            cls, v = classify(lambda: sc.evaluate(arr))
            ref = None
            if all(0 <= x <= n for x in row):
                rc, rv = classify(lambda: sc.evaluate(np.array([row], dtype=np.int64)))
                ref = [float(x) for x in rv[0]] if rc == "ok" else rc
        out.append({"row": row, "cls": cls, "val": [float(x) for x in v[0]] if cls == "ok" and v is not None else None, "ref": ref})
    return {"outcome": "ok", "min_size": ms, "k": int(k), "rows": out}


def oracle_dtype(c, r):
    if r["outcome"] != "ok":
        return f"fit raised {r['outcome']}"
    for e in r["rows"]:
        t = tuple(e["row"])
        valid = valid_by_property({"n": c["n"], "scorer": c["scorer"]}, r["min_size"], t)
        if valid and e["cls"] != "ok":
            return f"{c['scorer']}: the valid cut {t} given as {c['dtype']} is rejected / fails with {e['cls']}"
        if not valid and e["cls"] == "ok":
            return f"{c['scorer']}: the invalid cut {t} given as {c['dtype']} is evaluated silently (value {e['val']})"
        if not valid and e["cls"] != "err":
            return f"{c['scorer']}: the invalid cut {t} given as {c['dtype']} raises {e['cls']} instead of ValueError"
        if valid and isinstance(e["ref"], list) and not np.allclose(e["val"], e["ref"], rtol=1e-9, atol=1e-9, equal_nan=False):
            return f"{c['scorer']}: the valid cut {t} scores {e['val']} as {c['dtype']} but {e['ref']} as int64"
    return None



# ------------------------------------------------------------------------------------ batches


def batch_cases():
    out = []
    for name in ("l2", "cusum", "chg-l2", "l2saving", "loc-l2", "gvar"):
        for seed in range(6):
            out.append({"scorer": name, "n": 9, "seed": seed})
    # scorers whose minimum size exceeds 2 (two columns: at least three rows per part), so that a row can fail the size
    # requirement of ONE of its parts (inner interval, pooled surroundings) while other rows of the batch meet it
    for name in ("loc-gcov", "loc-gcov-fixed", "gcov", "chg-gcov"):
        for seed in range(4):
            out.append({"scorer": name, "n": 11, "seed": seed, "p": 2})
    return out


def impl_batch(c):
    """batches of 2-4 rows in which valid and invalid rows (out of range, ties, inversions) occupy every position: a batch
    is accepted iff every row is (theorem checkCuts_ok_iff), and accepted batches score like their rows one by one"""
    n = c["n"]
    X = data(n, c.get("p", 1), 7)
    g = np.random.default_rng(c["seed"] + 1000 * len(c["scorer"]))
    try:
        sc = mk(c["scorer"], c.get("p", 1)).fit(X)
        ms, k = int(sc.min_size), sc.expected_cut_entries
    except Exception as ex:
        return {"outcome": "other:" + type(ex).__name__, "msg": str(ex)[:200]}
    out = []
    pool = list(range(-2, n + 3))
    for _ in range(120):
        rows = []
        for _ in range(int(g.integers(2, 5))):
            r = sorted(int(v) for v in g.choice(range(0, n + 1), size=k, replace=False)) if g.random() < 0.7 else [int(v) for v in g.choice(pool, size=k)]
            rows.append(r)
        if g.random() < 0.25:  # the first row again at the end (repeated cuts are ordinary input)
            rows.append(list(rows[0]))
        cls, v = classify(lambda: sc.evaluate(np.array(rows)))
        singles = [classify(lambda r=r: sc.evaluate(np.array([r]))) for r in rows]
        same = None
        if cls == "ok" and all(sc_ == "ok" for sc_, _ in singles):
            same = bool(np.allclose(v, np.vstack([sv for _, sv in singles]), rtol=1e-12, atol=1e-12))
        out.append({"rows": rows, "cls": cls, "same": same})
    return {"outcome": "ok", "min_size": ms, "batches": out}


def oracle_batch(c, r):
    if r["outcome"] != "ok":
        return f"fit raised {r['outcome']}"
    for b in r["batches"]:
        valid = [valid_by_property({"n": c["n"], "scorer": c["scorer"]}, r["min_size"], tuple(row)) for row in b["rows"]]
        if all(valid) and b["cls"] != "ok":
            return f"{c['scorer']}: the batch {b['rows']} of valid cuts is rejected / fails with {b['cls']}"
        if not all(valid) and b["cls"] == "ok":
            return f"{c['scorer']}: the batch {b['rows']} is evaluated although row {valid.index(False)} is invalid"
        if not all(valid) and b["cls"] != "err":
            return f"{c['scorer']}: the batch {b['rows']} with invalid row {valid.index(False)} raises {b['cls']} instead of ValueError"
        if b["same"] is False:
            return f"{c['scorer']}: the batch {b['rows']} scores differently from its rows one by one"
    return None


# ------------------------------------------------------------------------- after a rejected re-fit


def mk_percol(name):
    """scorers whose fixed parameter has one entry per column (two columns): re-fitting them to data with another number
    of columns is rejected by the parameter check inside `_fit`"""
    from skchange.anomaly_scores import LocalAnomalyScore, Saving
    from skchange.change_scores import ChangeScore
    from skchange.costs import GaussianCovCost, GaussianVarCost, L2Cost

    return {"l2": lambda: L2Cost(param=[1.5, -0.5]), "gvar": lambda: GaussianVarCost(param=([0.0, 1.0], [1.0, 2.0])),
            "gcov": lambda: GaussianCovCost(param=([0.0, 1.0], [[2.0, 0.5], [0.5, 1.0]])),
            "sav-l2": lambda: Saving(L2Cost(param=[0.5, 0.0])), "chg-l2": lambda: ChangeScore(L2Cost(param=[1.5, -0.5])),
            "loc-gvar": lambda: LocalAnomalyScore(GaussianVarCost(param=([0.0, 1.0], [1.0, 2.0])))}[name]()


def failed_refit_cases():
    return [{"scorer": name, "n": 7, "dn": dn, "bad": bad} for name in ("l2", "gvar", "gcov", "sav-l2", "chg-l2", "loc-gvar")
            for dn in (-3, 0, 4) for bad in ("columns", "list")]


def impl_failed_refit(c):
    """fit (accepted), fit again with input that is rejected — data with another number of columns (rejected by the parameter
    check after the base class has taken the data) or a plain list (rejected by the container check) — then evaluate every
    tuple of the box [-1, max(n, n')+1]^k"""
    import itertools

    n, n2 = c["n"], c["n"] + c["dn"]
    X1 = data(n, 2, 5)
    try:
        sc = mk_percol(c["scorer"]).fit(X1)
        ref = mk_percol(c["scorer"]).fit(X1)
        k = sc.expected_cut_entries
    except Exception as ex:
        return {"outcome": "other:" + type(ex).__name__, "msg": str(ex)[:200]}
    bad = data(n2, 1, 6) if c["bad"] == "columns" else data(n2, 2, 6).tolist()
    try:
        sc.fit(bad)
        return {"outcome": "refit-accepted"}
    except Exception as ex:
        rej = type(ex).__name__
    rows = []
    for t in itertools.product(range(-1, max(n, n2) + 2), repeat=k):
        try:
            got, gv = "ok", sc.evaluate(np.array([t]))
        except Exception as ex:  # (NotFittedError is a ValueError: keep the class name)
            got, gv = ("other:NotFittedError" if type(ex).__name__ == "NotFittedError" else "err" if isinstance(ex, ValueError)
                       else "other:" + type(ex).__name__), None
        want, wv = classify(lambda: ref.evaluate(np.array([t])))
        same = got == want and (got != "ok" or bool(np.allclose(gv, wv, rtol=1e-12, atol=1e-12)))
        rows.append((list(t), got, same))
    return {"outcome": "ok", "rejected_with": rej, "rows": rows}


def oracle_failed_refit(c, r):
    if r["outcome"] == "refit-accepted":
        return None  # nothing to judge: the re-fit was accepted
    if r["outcome"] != "ok":
        return f"first fit raised {r['outcome']} {r.get('msg', '')}"
    if all(got == "other:NotFittedError" for _, got, _ in r["rows"]):
        return None  # the scorer counts as not fitted after the rejected fit
    for t, got, same in r["rows"]:
        if not same:
            return (f"{c['scorer']}: after a re-fit that was rejected ({r['rejected_with']}; {c['bad']}, {c['n'] + c['dn']} rows) evaluate({t}) gives {got}: "
                    f"neither NotFittedError nor what the scorer fitted to the accepted data ({c['n']} rows) gives")
    return None


def run(chk: core.Check):
    tier = chk.tier
    chk.lean()
    chk.rules.append(
        "box: EVERY integer tuple of [-2, n+2]^k for each of the 16 scorers / adapter compositions (k=2: n=6, k=3: n=5, k=4: n=4; +1 in "
        "the thorough tier; +1 for multivariate costs), data with p in {1,2,3} columns, scorer objects fresh or fitted before on another "
        "number of columns; malformed: float / bool / wrong-width / 1-D / 3-D / empty containers, one-column arrays with as many rows as a cut has entries; dtypes: cuts of the eight NumPy integer dtypes (rows inside the "
        "data, ties, inversions, and values at the ends of the dtype's range) for six scorers, valid ones also compared with their int64 "
        "evaluation. Non-trivial: every box (each contains "
        "valid and invalid tuples); distinct by (scorer, p, refit)"
    )
    chk.exhaustive = True
    cases = box_cases(tier)
    res = chk.run_stream("box", cases, impl_box, oracle=oracle_box, site="evaluate/cuts", per_case_timeout=300,
                         describe=lambda c: c)
    lines, owner = [], []
    for i, (c, r) in enumerate(zip(cases, res)):
        if r["outcome"] != "ok":
            continue
        ls = box_lines(c, r)
        lines += ls
        owner += [(i, key) for key in r["res"]]
    outs = core.run_driver(lines)
    dis = 0
    for (i, key), o in zip(owner, outs):
        got = res[i]["res"][key]
        want = "ok" if o == "ok" else "err"
        if got != want:
            dis += 1
            if dis <= 5:
                chk.violations.append({"kind": "correspondence", "stream": "box", "case": dict(cases[i], cut=key), "impl": got, "impl_canon": got,
                                       "model": o, "msg": "model and implementation disagree on stream box", "site": "evaluate/cuts",
                                       "signature": "correspondence"})
    chk.streams["box"]["disagreements"] = dis
    chk.streams["box"]["tuples"] = len(lines)
    chk.evaluations += len(lines)
    if lines:
        chk.samples.append({"stream": "box/model", "line": lines[len(lines) // 2], "model": outs[len(lines) // 2]})
    chk.run_stream("malformed", malformed_cases(), impl_malformed, oracle=oracle_malformed, site="evaluate/container")
    chk.run_stream("dtypes", dtype_cases(), impl_dtype, oracle=oracle_dtype, site="evaluate/dtype", per_case_timeout=120,
                   describe=lambda c: c)
    chk.run_stream("batches", batch_cases(), impl_batch, oracle=oracle_batch, site="evaluate/batch", per_case_timeout=120,
                   describe=lambda c: c)
    chk.rules.append("failed-refit: six scorers with per-column fixed parameters are fitted, then re-fitted with input that is rejected (another "
                     "number of columns, shorter / equal / longer; or a plain list); afterwards every tuple of the box must either raise "
                     "NotFittedError or be treated exactly as by the scorer fitted to the accepted data")
    chk.run_stream("failed-refit", failed_refit_cases(), impl_failed_refit, oracle=oracle_failed_refit, site="evaluate/after-rejected-fit",
                   per_case_timeout=120, describe=lambda c: c)
    return chk.finish()


def replay(path):
    v = json.load(open(path))
    case = v["case"]
    if case is None:
        print(json.dumps(v, indent=1)[:4000])
        return 0
    if v["stream"] == "malformed":
        r = impl_malformed(case)
        print("implementation:", r, "\noracle:", oracle_malformed(case, r))
    elif v["stream"] == "dtypes":
        r = impl_dtype(case)
        print("oracle:", oracle_dtype(case, r))
    elif v["stream"] == "batches":
        r = impl_batch(case)
        print("oracle:", oracle_batch(case, r))
    elif v["stream"] == "failed-refit":
        r = impl_failed_refit(case)
        print("oracle:", oracle_failed_refit(case, r))
    else:
        r = impl_box({k: x for k, x in case.items() if k != "cut"})
        print("oracle:", oracle_box(case, r))
        if "cut" in case and r["outcome"] == "ok":
            print("implementation on", case["cut"], ":", r["res"].get(case["cut"]))
    return 0
