"""C18 — data generators are reproducible and place segments exactly where requested.

Lean: Skc/Props/C18.lean (placement under disjoint segments, disjointness of the segments built from
sorted changepoints, ideal outlier rows, validation ⇔ consistency).
Tie: `generate_changing_data` / `generate_anomalous_data` / `generate_alternating_data` against
`applySegs` over Rat with z taken from the implementation itself at mean 0 / variance 1 and the same
seed (1e-12 relative tolerance: one float multiply-add per entry); validation outcome against
`validChanging` / `validAnomalous`; `add_linspace_outliers` rows against the driver's replica of
NumPy's float `linspace` on the full grid n<=120, and against the ideal spacing within one row."""
from __future__ import annotations

import json
from fractions import Fraction

import numpy as np
import pandas as pd

from .. import core

SDS = [(1.0, 1.0), (4.0, 2.0), (0.25, 0.5), (9.0, 3.0), (2.25, 1.5)]  # (variance, exact sqrt)


def gen_case(rng, nmax):
    kind = rng.choice(["changing", "anomalous", "alternating"])
    n = rng.randint(1, nmax)
    p = rng.randint(1, 3)
    # seeds at the boundary of "truthiness" as well: 0 is a seed like any other; NumPy integers are accepted seeds
    c = {"kind": kind, "n": n, "p": p, "seed": rng.choice([0, 0, 1, 2, rng.randint(0, 10**6), rng.randint(0, 10**6)]),
         "seed_np": rng.random() < 0.3, "bad": None}
    if kind == "changing":
        k = rng.randint(0, min(4, max(0, n - 1)))
        cps = sorted(rng.sample(range(0, n), k)) if n > 0 else []
        if cps and rng.random() < 0.25:  # a repeated changepoint delimits an empty segment (its mean / variance apply to no row)
            cps = sorted(cps + [rng.choice(cps)])
            k = len(cps)
        c["cps"] = cps
        nseg = k + 1
        c["means"], c["vars"] = param_lists(rng, nseg, p)
    elif kind == "anomalous":
        an, t = [], rng.randint(0, max(0, n - 1))
        while t < n and len(an) < 3:
            e = min(n, t + rng.randint(1, 4))
            an.append((t, e))
            t = e + rng.randint(0, 3)
        if not an:
            an = [(0, 1)] if n >= 1 else []
        if rng.random() < 0.4:  # anomalies need not be listed in increasing order; means / variances go with their positions in the list
            rng.shuffle(an)
        c["anoms"] = an
        c["means"], c["vars"] = param_lists(rng, len(an), p)
    else:
        c["nseg"] = rng.randint(1, 5)
        c["seglen"] = rng.randint(1, 6)
        c["n"] = c["nseg"] * c["seglen"]
        c["mean"] = rng.choice([0.0, 1.5, -2.0])
        c["var"] = rng.choice([v for v, _ in SDS])
        c["prop"] = rng.choice([1.0, 0.5, 0.34, 0.0])
    if rng.random() < 0.25 and kind != "alternating":  # inconsistent arguments
        c["bad"] = rng.choice(["extra-mean", "missing-var", "negative-pos", "past-end", "empty-anom"])
        if c["bad"] == "extra-mean" and isinstance(c["means"], list) and len(c["means"]) != 1:
            c["means"] = c["means"] + [c["means"][-1]]
        elif c["bad"] == "missing-var" and isinstance(c["vars"], list) and len(c["vars"]) > 2:
            c["vars"] = c["vars"][:-1]
        elif c["bad"] == "negative-pos":
            if kind == "changing":
                c["cps"] = [-1 - rng.randint(0, 2)] + c["cps"]
                c["means"], c["vars"] = param_lists(rng, len(c["cps"]) + 1, p)
            else:
                pos = rng.randrange(len(c["anoms"]))  # the offender is not necessarily first or last
                c["anoms"][pos] = (-rng.randint(1, 3), rng.randint(1, max(1, n)))
        elif c["bad"] == "past-end":
            if kind == "changing":
                c["cps"] = c["cps"] + [n + rng.randint(0, 2)]
                c["means"], c["vars"] = param_lists(rng, len(c["cps"]) + 1, p)
            else:
                pos = rng.randrange(len(c["anoms"]))
                c["anoms"][pos] = (max(0, n - 2), n + rng.randint(1, 3))
        elif c["bad"] == "empty-anom" and kind == "anomalous":
            pos = rng.randrange(len(c["anoms"]))
            c["anoms"][pos] = (c["anoms"][pos][0], c["anoms"][pos][0])
        else:
            c["bad"] = None
    return c


def param_lists(rng, k, p):
    style = rng.choice(["scalar", "list-scalar", "per-col", "single-broadcast"])
    mv = lambda: rng.choice([0.0, 1.5, -2.0, 5.0])  # noqa: E731
    vv = lambda: rng.choice([v for v, _ in SDS])  # noqa: E731
    if style == "scalar":
        return mv(), vv()
    if style == "single-broadcast":
        return [mv()], [vv()]
    if style == "list-scalar":
        return [mv() for _ in range(k)], [vv() for _ in range(k)]
    return [[mv() for _ in range(p)] for _ in range(k)], [[vv() for _ in range(p)] for _ in range(k)]


def call(c, means, variances, seed, positions=None, prebuilt=None, build_only=False):
    if c.get("seed_np"):
        seed = np.int64(seed)
    from skchange.datasets import generate_alternating_data, generate_anomalous_data, generate_changing_data

    form = core._bits({k: v for k, v in c.items() if k != "bad"}, 0, 3)  # argument forms: as generated / integral values as ints / NumPy integers for positions

    def num(x):
        return int(x) if form == 1 and isinstance(x, float) and x == int(x) else x

    def conv(v):
        if isinstance(v, list):
            return [np.array(x, dtype=np.int64 if form == 1 and all(float(t) == int(t) for t in x) else float) if isinstance(x, list) else num(x) for x in v]
        return num(v)

    pos = (lambda t: np.int64(t)) if form == 2 else (lambda t: t)
    if prebuilt is not None:  # the caller's own argument objects, used for several calls
        conv = lambda v: v  # noqa: E731
        means, variances = prebuilt
    elif build_only:
        return conv(means), conv(variances)
    if c["kind"] == "changing":
        where = [pos(t) for t in c["cps"]] if positions is None else positions
        return generate_changing_data(pos(c["n"]), where, conv(means), conv(variances), seed)
    if c["kind"] == "anomalous":
        where = [(pos(a[0]), pos(a[1])) for a in c["anoms"]] if positions is None else positions
        return generate_anomalous_data(pos(c["n"]), where, conv(means), conv(variances), seed)
    return generate_alternating_data(pos(c["nseg"]), pos(c["seglen"]), c["p"], conv(means), conv(variances), c["prop"], seed)


def width(c):
    """number of columns the generator must produce"""
    if c["kind"] == "alternating":
        return c["p"]
    m = c["means"]
    if isinstance(m, list) and m and isinstance(m[0], list):
        return len(m[0])
    return 1


def neutral(c):
    """arguments of the same shape with mean 0 / variance 1: the standard-normal output"""
    if c["kind"] == "alternating":
        return 0.0, 1.0
    w = width(c)
    k = (len(c["cps"]) + 1) if c["kind"] == "changing" else len(c["anoms"])
    return [[0.0] * w for _ in range(k)], [[1.0] * w for _ in range(k)]


def impl(c):
    try:
        if c["kind"] == "alternating":
            a = call(c, c["mean"], c["var"], c["seed"])
            b = call(c, c["mean"], c["var"], c["seed"])
        else:
            means_before = json.dumps(c["means"])
            shared = None
            if not c.get("bad") and core._bits(c, 16, 3) == 0 and isinstance(c["means"], list) and c["means"] and isinstance(c["means"][0], list):
                # the caller's own list of positions is first used in a call that is rejected while the data are being built
                # (one mean vector too long), then re-used for the judged calls: it must come back unchanged every time
                shared = list(c["cps"]) if c["kind"] == "changing" else [tuple(a) for a in c["anoms"]]
                before = json.dumps(shared)
                broken = [list(m) for m in c["means"]]
                broken[-1] = broken[-1] + [0.0]
                try:
                    call(c, broken, c["vars"], c["seed"], positions=shared)
                except Exception:
                    pass
                if json.dumps(shared) != before:
                    return {"outcome": "other:caller-list-modified", "msg": f"the caller's list of positions {before} came back as {json.dumps(shared)} from a rejected call"}
            # the very same argument objects (arrays where the form says so) are handed to both calls and must come back unchanged
            pre = call(c, c["means"], c["vars"], c["seed"], build_only=True)
            snap = json.dumps(pre, default=lambda o: np.asarray(o).tolist())
            a = call(c, None, None, c["seed"], positions=shared, prebuilt=pre)
            b = call(c, None, None, c["seed"], positions=shared, prebuilt=pre)
            if json.dumps(pre, default=lambda o: np.asarray(o).tolist()) != snap:
                return {"outcome": "other:caller-arguments-modified", "msg": "the caller's mean / variance objects were modified by the call"}
            assert json.dumps(c["means"]) == means_before
        z = call(c, *neutral(c), c["seed"])
        return {"outcome": "ok", "out": a.to_numpy().tolist(), "again": bool(a.equals(b)), "z": z.to_numpy().tolist(),
                "index_ok": isinstance(a.index, (pd.RangeIndex, pd.Index)) and list(a.index) == list(range(len(a))), "shape": list(a.shape)}
    except ValueError as ex:
        return {"outcome": "ValueError", "msg": str(ex)[:120]}
    except Exception as ex:
        return {"outcome": "other:" + type(ex).__name__, "msg": str(ex)[:200]}


def seg_params(c):
    """per segment: (start, end, per-column means, per-column sds) as the arguments request"""
    p = width(c)

    def col(v, k, j):
        if not isinstance(v, list):
            return v
        x = v[k] if len(v) > 1 else v[0]
        return x[j] if isinstance(x, list) else x

    sd = dict(SDS)
    if c["kind"] == "alternating":
        naff = int(np.round(c["p"] * c["prop"]))
        out = []
        for k in range(c["nseg"]):
            odd = k % 2 == 1
            out.append((k * c["seglen"], (k + 1) * c["seglen"], [c["mean"] if odd and j < naff else 0.0 for j in range(p)],
                        [sd[c["var"]] if odd and j < naff else 1.0 for j in range(p)]))
        return out
    if c["kind"] == "changing":
        b = [0] + list(c["cps"]) + [c["n"]]
        ivs = list(zip(b, b[1:]))
    else:
        ivs = [tuple(a) for a in c["anoms"]]
    return [(s, e, [col(c["means"], k, j) for j in range(p)], [sd[col(c["vars"], k, j)] for j in range(p)]) for k, (s, e) in enumerate(ivs)]


def valid_args(c):
    """C18's consistency rule, directly"""
    if c["kind"] == "alternating":
        return True
    k = (len(c["cps"]) + 1) if c["kind"] == "changing" else len(c["anoms"])
    nm = len(c["means"]) if isinstance(c["means"], list) else 1
    nv = len(c["vars"]) if isinstance(c["vars"], list) else 1
    if (nm not in (1, k)) or (nv not in (1, k)):
        return False
    if c["kind"] == "changing":
        return all(0 <= v <= c["n"] - 1 for v in c["cps"])
    return all(0 <= a < b <= c["n"] for a, b in c["anoms"])


def valid_line(c):
    if c["kind"] == "changing":
        k = len(c["cps"])
        nm = len(c["means"]) if isinstance(c["means"], list) and len(c["means"]) != 1 else k + 1
        nv = len(c["vars"]) if isinstance(c["vars"], list) and len(c["vars"]) != 1 else k + 1
        return "genvalid changing " + " ".join(map(str, [c["n"], k] + list(c["cps"]) + [nm, nv]))
    k = len(c["anoms"])
    nm = len(c["means"]) if isinstance(c["means"], list) and len(c["means"]) != 1 else k
    nv = len(c["vars"]) if isinstance(c["vars"], list) and len(c["vars"]) != 1 else k
    return "genvalid anomalous " + " ".join(map(str, [c["n"], k] + [v for a in c["anoms"] for v in a] + [nm, nv]))


def seg_lines(c, r):
    """one driver line per column"""
    segs = seg_params(c)
    lines = []
    for j in range(width(c)):
        rec = []
        for s, e, ms, sds in segs:
            rec += [str(s), str(e), core.rat(Fraction(ms[j])), core.rat(Fraction(sds[j]))]
        zcol = [core.rat(Fraction(row[j])) for row in r["z"]]
        lines.append("gensegs " + " ".join([str(c["n"]), str(len(segs))] + rec + zcol))
    return lines


def oracle(c, r):
    ok = valid_args(c)
    if not ok:
        return None if r["outcome"] == "ValueError" else f"inconsistent arguments ({c['bad']}) give {r['outcome']} instead of ValueError"
    if r["outcome"] != "ok":
        return f"consistent arguments raise {r['outcome']} {r.get('msg', '')}"
    n, p = c["n"], width(c)
    if r["shape"] != [n, p] or not r["index_ok"]:
        return f"output has shape {r['shape']} / index not 0..n-1, expected an {n} x {p} frame"
    if not r["again"]:
        return "identical arguments and seed give different data"
    out, z = np.array(r["out"], dtype=float).reshape(n, p), np.array(r["z"], dtype=float).reshape(n, p)
    want = z.copy()
    covered = np.zeros(n, dtype=bool)
    for s, e, ms, sds in seg_params(c):
        if covered[s:e].any():
            return None  # overlapping anomalies are outside the statement
        covered[s:e] = True
        want[s:e] = np.array(ms) + np.array(sds) * z[s:e]
    if not np.allclose(out, want, rtol=1e-12, atol=1e-12):
        i, j = np.argwhere(~np.isclose(out, want, rtol=1e-12, atol=1e-12))[0]
        return (f"row {i} column {j} is {out[i, j]!r}; mean + sqrt(variance) x standard-normal output for the same seed is {want[i, j]!r} "
                f"({c['kind']}, segments {[(s, e) for s, e, _, _ in seg_params(c)]})")
    return None


# ----------------------------------------------------------------------------------- outliers


def outlier_cases(nmax):
    # "build": how the frame was put together — one array, two frames concatenated column-wise, a column assigned afterwards,
    # or an integer-typed column next to float ones (several internal blocks: `.values` is then a copy)
    return [{"n": n, "k": k, "p": 1 + (n + k) % 3, "index": ["range", "sliced", "datetime"][(n * 7 + k) % 3],
             "build": ["single", "concat", "assigned", "mixed"][(n * 3 + k) % 4]}
            for n in range(1, nmax + 1) for k in range(0, n + 1)]


def impl_outliers(c):
    from skchange.datasets import add_linspace_outliers

    n, p = c["n"], c["p"]
    base = pd.DataFrame(np.arange(n * p, dtype=float).reshape(n, p))
    if c["index"] == "sliced":
        base = pd.DataFrame(np.arange((n + 3) * p, dtype=float).reshape(n + 3, p)).iloc[3:]
    elif c["index"] == "datetime":
        base.index = pd.date_range("2020-01-01", periods=n, freq="h")
    build = c.get("build", "single")
    if build == "concat":
        base = pd.concat([base, (base + 1000.0).rename(columns=lambda j: j + p)], axis=1)
    elif build == "assigned":
        base = base.copy()
        base["extra"] = np.arange(n, dtype=float) * 2.0
    elif build == "mixed":
        base = base.copy()
        base["count"] = np.arange(n, dtype=np.int64)
    before = base.to_numpy().astype(float).copy()
    try:
        out = add_linspace_outliers(base.copy(), c["k"], 100.0)
        d = out.to_numpy().astype(float) - before
        rows = [int(i) for i in range(n) if np.all(d[i] == 100.0)]
        clean = bool(np.all((d == 0.0) | (d == 100.0))) and all(np.all(d[i] == 0.0) or np.all(d[i] == 100.0) for i in range(n))
        return {"outcome": "ok", "rows": rows, "clean": clean}
    except Exception as ex:
        return {"outcome": "other:" + type(ex).__name__, "msg": str(ex)[:200]}


def oracle_outliers(c, r):
    n, k = c["n"], c["k"]
    if r["outcome"] != "ok":
        return f"add_linspace_outliers raised {r['outcome']} {r.get('msg', '')} (n={n}, n_outliers={k}, p={c['p']}, {c['index']} index)"
    if not r["clean"]:
        return "outlier_size was not added to whole rows only"
    rows = r["rows"]
    if len(rows) != k:
        return f"{len(rows)} rows were shifted, expected exactly n_outliers={k} (n={n})"
    if k >= 2 and (rows[0] != 0 or rows[-1] != n - 1):
        return f"outlier rows {rows} do not run from the first to the last row"
    ideal = [i * (n - 1) / (k - 1) for i in range(k)] if k >= 2 else [0] * k
    if any(not abs(a - b) <= 1.0 + 1e-9 for a, b in zip(rows, ideal)):
        return f"outlier rows {rows} are not evenly spaced (ideal {ideal})"
    return None


def run(chk: core.Check):
    tier = chk.tier
    N = {"quick": 2500, "thorough": 50000}[tier]
    grid = {"quick": 60, "thorough": 160}[tier]
    chk.lean()
    chk.rules.append(
        "gen: changing / anomalous / alternating data, n<=30, p<=3, scalar / broadcast / per-segment / per-column means and variances (exact "
        "square roots), sorted changepoints / disjoint anomalies incl. adjacency and the ends, 25%% inconsistent argument sets (wrong counts, "
        "negative or past-the-end positions at arbitrary list positions, empty anomalies); outliers: EVERY (n<=%d, 0<=k<=n) with 1-3 columns "
        "and three index kinds. Non-trivial = at least 2 segments / consistent arguments; distinct by case hash" % grid
    )
    chk.assumptions += ["scipy's seeded multivariate_normal.rvs is reproducible (checked by calling twice)",
                        "placement compared under 1e-12 relative tolerance (one float multiply-add per entry)"]
    rng = core.rng_for(chk.seed, "C18/gen")
    cases = core.Gen(gen_case, rng, 30, N)
    res = chk.run_stream("gen", cases, impl, oracle=oracle, site="generate_*",
                         nontrivial=lambda c, r: r.get("outcome") == "ok" and len(seg_params(c)) >= 2,
                         describe=lambda c: c)
    # model: validation outcome
    vc = [(c, r) for c, r in zip(cases, res) if c["kind"] != "alternating"]
    outs = core.run_driver([valid_line(c) for c, _ in vc])
    dis = 0
    for (c, r), o in zip(vc, outs):
        if (r["outcome"] != "ValueError") != (o == "true"):
            dis += 1
            if dis <= 3:
                chk.violations.append({"kind": "correspondence", "stream": "gen", "case": c, "impl": r["outcome"], "impl_canon": r["outcome"],
                                       "model": o, "msg": "validation model and implementation disagree", "site": "generate_*/validation",
                                       "signature": "correspondence"})
    # model: placement
    pc = [(c, r) for c, r in zip(cases, res) if r["outcome"] == "ok"]
    lines, owner = [], []
    for i, (c, r) in enumerate(pc):
        for j, ln in enumerate(seg_lines(c, r)):
            lines.append(ln)
            owner.append((i, j))
    outs = core.run_driver(lines)
    for (i, j), o in zip(owner, outs):
        c, r = pc[i]
        want = [float(Fraction(t)) for t in o.strip("[]").split(", ")] if o != "[]" else []
        got = [row[j] for row in np.array(r["out"], dtype=float).reshape(c["n"], width(c)).tolist()]
        segs = seg_params(c)
        overlapping = any(a[0] < b[1] and b[0] < a[1] for x, a in enumerate(segs) for b in segs[x + 1:])
        if not overlapping and not np.allclose(got, want, rtol=1e-12, atol=1e-12):
            dis += 1
            if dis <= 3:
                chk.violations.append({"kind": "correspondence", "stream": "gen", "case": c, "impl": got, "impl_canon": got, "model": want,
                                       "msg": "placement model and implementation disagree", "site": "generate_*/placement",
                                       "signature": "correspondence"})
    chk.streams["gen"]["disagreements"] = dis
    chk.streams["gen"]["columns_compared"] = len(lines)
    if lines:
        chk.samples.append({"stream": "gen/model", "line": lines[0][:160], "model": outs[0][:160]})
    oc = outlier_cases(grid)
    res = chk.run_stream("outliers", oc, impl_outliers, oracle=oracle_outliers, site="add_linspace_outliers")
    outs = core.run_driver([f"linpos {c['n']} {c['k']}" for c in oc])
    dis = sum(1 for c, r, o in zip(oc, res, outs) if r["outcome"] == "ok" and str(r["rows"]) != o)
    for c, r, o in zip(oc, res, outs):
        if r["outcome"] == "ok" and str(r["rows"]) != o:
            chk.violations.append({"kind": "correspondence", "stream": "outliers", "case": c, "impl": r["rows"], "impl_canon": str(r["rows"]),
                                   "model": o, "msg": "outlier-row model and implementation disagree", "site": "add_linspace_outliers",
                                   "signature": "correspondence"})
            break
    chk.streams["outliers"]["disagreements"] = dis
    chk.streams["outliers"]["exhaustive_n_max"] = grid
    return chk.finish()


def replay(path):
    v = json.load(open(path))
    case = v["case"]
    if case is None:
        print(json.dumps(v, indent=1)[:4000])
        return 0
    if v["stream"] == "outliers":
        r = impl_outliers(case)
        print("implementation:", r, "\nmodel:", core.run_driver([f"linpos {case['n']} {case['k']}"])[0], "\noracle:", oracle_outliers(case, r))
    else:
        r = impl(case)
        print("implementation:", {k: r[k] for k in r if k not in ("out", "z")}, "\noracle:", oracle(case, r))
    return 0
