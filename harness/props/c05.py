"""C05 — dense labels and sparse detections describe the same events for any index.

Lean: Skc/Props/C05.lean (round trips and label semantics of the position-based conversions).
Tie: `sparse_to_dense` / `dense_to_sparse` of the three detector kinds on hand-built valid sparse
outputs (adjacent, length-1, touching 0 and n, empty) under five index types and two kinds of
column labels, against the models on positions; plus `transform` / `predict` / `dense_to_sparse`
of all seven detectors on data carrying those indexes.  Oracle: the labelling rule stated directly."""
from __future__ import annotations

import json

import numpy as np
import pandas as pd

from .. import core

INDEXES = ["range", "offset", "stepped", "stepped0", "int64", "datetime", "period", "dup-datetime"]


def make_index(kind, n):
    if kind == "range":
        return pd.RangeIndex(n)
    if kind == "offset":
        return pd.RangeIndex(7, 7 + n)
    if kind == "stepped":
        return pd.RangeIndex(3, 3 + 5 * n, 5)
    if kind == "stepped0":  # starts at 0 like the default index, but is not the positions (e.g. `df.iloc[::2]`)
        return pd.RangeIndex(0, 2 * n, 2)
    if kind == "int64":  # the positions, but not as a RangeIndex
        return pd.Index(np.arange(n, dtype=np.int64))
    if kind == "datetime":
        return pd.date_range("2021-03-01", periods=n, freq="h")
    if kind == "period":
        return pd.period_range("2020-01", periods=n, freq="M")
    if kind == "dup-datetime":  # sorted, with repeated stamps
        return pd.DatetimeIndex(pd.to_datetime("2021-03-01") + pd.to_timedelta(np.arange(n) // 2, unit="D"))
    raise ValueError(kind)


def make_columns(kind, p):
    if kind == "dup":  # repeated names: conversions are positional
        return (["a", "a", "b", "b", "a", "c"] * 2)[:p]
    return list(range(p)) if kind == "default" else [f"c{j}" for j in range(p)][::-1]


# ------------------------------------------------------------------------------- hand-built sparse


def gen_intervals(rng, n):
    """valid sparse output: sorted, disjoint, non-empty; adjacency / length 1 / ends frequent"""
    out, t = [], 0 if rng.random() < 0.5 else rng.randint(0, max(0, n - 1))
    while t < n and rng.random() < 0.75:
        e = min(n, t + rng.choice([1, 1, 2, 3, 4]))
        if rng.random() < 0.3:
            e = n
        out.append((t, e))
        t = e + rng.choice([0, 0, 1, 2])
    return out


def gen_hand(rng, nmax):
    n = rng.randint(1, nmax)
    kind = rng.choice(["coll", "cp", "sub"])
    many = rng.random() < 0.02  # hundreds of detections: labels beyond 127 / 255 / 300
    if many:
        n = rng.randint(400, 900)
    c = {"kind": kind, "n": n, "index": rng.choice(INDEXES), "columns": rng.choice(["default", "strings", "dup"])}
    if many and kind == "cp":
        c["cps"] = sorted(rng.sample(range(1, n), rng.randint(130, min(n - 1, 400))))
    elif many:
        t, iv = rng.randint(0, 3), []
        while t < n:
            e = min(n, t + rng.choice([1, 1, 2, 3]))
            iv.append((t, e))
            t = e + rng.choice([0, 0, 1, 2])
        p = rng.randint(1, 4)
        c["p"] = p
        c["anoms"] = iv if kind == "coll" else [(a, b, sorted(rng.sample(range(p), rng.randint(1, p)), key=lambda _: rng.random())) for a, b in iv]
    elif kind == "coll":
        c["anoms"] = gen_intervals(rng, n)
    elif kind == "cp":
        k = rng.randint(0, min(4, max(0, n - 1)))
        cps = sorted(rng.sample(range(1, n), k)) if n > 1 else []
        if n > 2 and rng.random() < 0.3:
            cps = sorted(set(cps) | {1, n - 1})
        c["cps"] = cps
    else:
        p = rng.randint(1, 4)
        c["p"] = p
        c["anoms"] = [(a, b, sorted(rng.sample(range(p), rng.randint(1, p)), key=lambda _: rng.random()))
                      for a, b in gen_intervals(rng, n)]
    return c


def impl_hand(case):
    from skchange.anomaly_detectors.base import CollectiveAnomalyDetector as CAD
    from skchange.anomaly_detectors.base import SubsetCollectiveAnomalyDetector as SCAD
    from skchange.change_detectors.base import ChangeDetector as CD

    n = case["n"]
    idx = make_index(case["index"], n)
    try:
        if case["kind"] == "coll":
            y = CAD._format_sparse_output([tuple(a) for a in case["anoms"]])
            d = CAD.sparse_to_dense(y, idx)
            back = CAD.dense_to_sparse(d)
            return {"outcome": "ok", "dense": [int(v) for v in d["labels"].to_numpy()], "index_ok": bool(d.index.equals(idx)),
                    "cols": list(map(str, d.columns)), "dtype": str(d["labels"].dtype),
                    "back": [(int(i.left), int(i.right)) for i in back["ilocs"]], "back_labels": [int(v) for v in back["labels"]],
                    "back_index": list(back.index) == list(range(len(back)))}
        if case["kind"] == "cp":
            y = CD._format_sparse_output(case["cps"])
            d = CD.sparse_to_dense(y, idx)
            back = CD.dense_to_sparse(d)
            return {"outcome": "ok", "dense": [int(v) for v in d["labels"].to_numpy()], "index_ok": bool(d.index.equals(idx)),
                    "cols": list(map(str, d.columns)), "dtype": str(d["labels"].dtype),
                    "back": [int(v) for v in back["ilocs"]], "back_index": list(back.index) == list(range(len(back)))}
        p = case["p"]
        cols = pd.Index(make_columns(case["columns"], p))
        y = SCAD._format_sparse_output([(a, b, np.array(c)) for a, b, c in case["anoms"]])
        d = SCAD.sparse_to_dense(y, idx, cols)
        back = SCAD.dense_to_sparse(d)
        return {"outcome": "ok", "dense": [[int(v) for v in row] for row in d.to_numpy()], "index_ok": bool(d.index.equals(idx)),
                "cols": list(map(str, d.columns)), "want_cols": [f"labels_{c}" for c in cols],
                "back": [((int(i.left), int(i.right)), sorted(int(c) for c in cs)) for i, cs in zip(back["ilocs"], back["icolumns"])],
                "back_labels": [int(v) for v in back["labels"]], "back_index": list(back.index) == list(range(len(back)))}
    except Exception as ex:
        return {"outcome": "other:" + type(ex).__name__, "msg": str(ex)[:200]}


def hand_lines(case):
    n = case["n"]
    if case["kind"] == "coll":
        return "s2d_coll " + " ".join(map(str, [n] + [v for a in case["anoms"] for v in a]))
    if case["kind"] == "cp":
        return "s2d_cp " + " ".join(map(str, [n] + case["cps"]))
    rec = []
    for a, b, cols in case["anoms"]:
        rec += [a, b, len(cols)] + list(cols)
    return "s2d_sub " + " ".join(map(str, [n, case["p"]] + rec))


def back_line(case, r):
    if case["kind"] == "coll":
        return "d2s_coll " + " ".join(map(str, r["dense"]))
    if case["kind"] == "cp":
        return "d2s_cp " + " ".join(map(str, r["dense"]))
    return "d2s_sub " + " ".join(map(str, [case["n"], case["p"]] + [v for row in r["dense"] for v in row]))


def canon_back(case, r):
    if case["kind"] == "coll":
        return "[" + ", ".join(f"({a}, {b})" for a, b in r["back"]) + "]"
    if case["kind"] == "cp":
        return str(r["back"])
    return "[" + ", ".join(f"(({a}, {b}), {cols})" for (a, b), cols in r["back"]) + "]"


def oracle_hand(case, r):
    """the labelling rule of C05 stated directly, and the round trip"""
    if r["outcome"] != "ok":
        return f"conversion raised {r['outcome']} {r.get('msg', '')}"
    n = case["n"]
    if not r["index_ok"]:
        return f"dense output does not carry the given {case['index']} index"
    if not r["back_index"]:
        return "sparse output of dense_to_sparse is not range-indexed"
    if case["kind"] == "cp":
        want = [sum(1 for c in case["cps"] if c <= i) for i in range(n)]
        if r["dense"] != want:
            return f"dense segment labels {r['dense']} for changepoints {case['cps']}, expected {want} ({case['index']} index)"
        if r["back"] != case["cps"]:
            return f"dense_to_sparse(sparse_to_dense(.)) gives changepoints {r['back']} for {case['cps']} ({case['index']} index)"
        return None
    if case["kind"] == "coll":
        want = [next((k + 1 for k, (a, b) in enumerate(case["anoms"]) if a <= i < b), 0) for i in range(n)]
        if r["dense"] != want:
            return f"dense labels {r['dense']} for anomalies {case['anoms']}, expected {want} ({case['index']} index)"
        if [tuple(a) for a in r["back"]] != [tuple(a) for a in case["anoms"]] or r["back_labels"] != list(range(1, len(case["anoms"]) + 1)):
            return f"dense_to_sparse(sparse_to_dense(.)) gives {r['back']} for {case['anoms']} ({case['index']} index)"
        return None
    p = case["p"]
    want = [[next((k + 1 for k, (a, b, cols) in enumerate(case["anoms"]) if a <= i < b and j in cols), 0) for j in range(p)] for i in range(n)]
    if r["dense"] != want:
        return f"dense labels {r['dense']} for subset anomalies {case['anoms']}, expected {want} ({case['index']} index)"
    if r["cols"] != r["want_cols"]:
        return f"dense columns {r['cols']}, expected {r['want_cols']}"
    exp = [((a, b), sorted(cols)) for a, b, cols in case["anoms"]]
    got = [((a, b), cols) for (a, b), cols in r["back"]]
    if [(tuple(x), y) for x, y in got] != [(tuple(x), y) for x, y in exp]:
        return f"dense_to_sparse(sparse_to_dense(.)) gives {got} for {exp} ({case['index']} index)"
    return None


# ---------------------------------------------------------------------------------- real detectors


DETS = ["pelt", "mw", "sbs", "capa", "mvcapa", "cbs", "stat"]


def gen_det(rng, nmax):
    det = rng.choice(DETS)
    n = rng.randint(12, nmax)
    p = 1 if det == "stat" else rng.choice([1, 2, 3])
    X = [[rng.choice([0, 0, 1, -1]) for _ in range(p)] for _ in range(n)]
    kind = rng.choice(["levels", "anoms", "tiling", "flat"])
    if kind == "levels":
        for c in sorted(rng.sample(range(1, n), 2)):
            lv = rng.choice([4, -5, 6])
            for i in range(c, n):
                for j in range(p):
                    X[i][j] += lv
    elif kind == "anoms":
        t = rng.choice([0, 0, 2])
        while t < n:
            e = min(n, t + rng.choice([1, 2, 3, 4]))
            lv = rng.choice([6, -7, 9])
            cols = [j for j in range(p) if rng.random() < 0.7] or [0]
            for i in range(t, e):
                for j in cols:
                    X[i][j] += lv
            t = e + rng.choice([0, 0, 3, 5])
    elif kind == "tiling":  # every sample anomalous: adjacent anomalies covering [0, n)
        for i in range(n):
            for j in range(p):
                X[i][j] += 8 if (i // 3) % 2 == 0 else -8
    return {"det": det, "n": n, "p": p, "X": X, "index": rng.choice(INDEXES), "columns": rng.choice(["default", "strings", "dup"]),
            "m": rng.choice([1, 2, 3]), "M": rng.choice([3, 4, 100]), "ignore": rng.random() < 0.3,
            # the frame is first predicted on while it holds other values, then overwritten in place before transform
            "mutate": rng.random() < 0.3}


def build(case):
    from skchange.anomaly_detectors import CAPA, MVCAPA, CircularBinarySegmentation, StatThresholdAnomaliser
    from skchange.change_detectors import PELT, MovingWindow, SeededBinarySegmentation

    d, m = case["det"], case["m"]
    if d == "pelt":
        return PELT(min_segment_length=m, penalty_scale=0.5)
    if d == "mw":
        return MovingWindow(bandwidth=m, threshold_scale=0.5)
    if d == "sbs":
        return SeededBinarySegmentation(min_segment_length=m, threshold_scale=0.5)
    if d == "capa":
        return CAPA(min_segment_length=max(m, 2), max_segment_length=max(case["M"], max(m, 2)), collective_penalty_scale=0.3, point_penalty_scale=0.3,
                    ignore_point_anomalies=case.get("ignore", False))
    if d == "mvcapa":
        return MVCAPA(min_segment_length=max(m, 2), max_segment_length=max(case["M"], max(m, 2)), collective_penalty_scale=0.3, point_penalty_scale=0.3,
                      ignore_point_anomalies=case.get("ignore", False))
    if d == "cbs":
        return CircularBinarySegmentation(min_segment_length=m, threshold_scale=0.3)
    return StatThresholdAnomaliser(PELT(min_segment_length=m, penalty_scale=0.5), stat=np.mean, stat_lower=-2.0, stat_upper=2.0)


def impl_det(case):
    n, p = case["n"], case["p"]
    idx = make_index(case["index"], n)
    X = pd.DataFrame(np.array(case["X"], dtype=float), index=idx, columns=make_columns(case["columns"], p))
    if p == 1 and not case.get("mutate") and core._bits({k: v for k, v in case.items() if k != "X"}, 0, 2):
        X = X.iloc[:, 0]  # a Series (named after its column) carries its index just like a frame
    try:
        det = build(case).fit(X)
        if case.get("mutate"):
            Z = X.to_numpy()[::-1] * 1.0 + 0.0
            det.predict(X)
            core.overwrite(X, Z)  # same object, new contents
            d = det.transform(X)
            y = det.predict(X)
        else:
            y = det.predict(X)
            d = det.transform(X)
        back = det.dense_to_sparse(d)
        out = {"outcome": "ok", "index_ok": bool(d.index.equals(idx)), "cols": list(map(str, d.columns))}
        if case["det"] in ("pelt", "mw", "sbs"):
            out.update(kind="cp", sparse=[int(v) for v in y["ilocs"]], dense=[int(v) for v in d["labels"].to_numpy()],
                       back=[int(v) for v in back["ilocs"]])
        elif case["det"] == "mvcapa":
            out.update(kind="sub", sparse=[((int(i.left), int(i.right)), sorted(int(c) for c in cs)) for i, cs in zip(y["ilocs"], y["icolumns"])],
                       dense=[[int(v) for v in row] for row in d.to_numpy()],
                       back=[((int(i.left), int(i.right)), sorted(int(c) for c in cs)) for i, cs in zip(back["ilocs"], back["icolumns"])],
                       want_cols=[f"labels_{c}" for c in (X.columns if hasattr(X, "columns") else [X.name])])
        else:
            out.update(kind="coll", sparse=[(int(i.left), int(i.right)) for i in y["ilocs"]], dense=[int(v) for v in d["labels"].to_numpy()],
                       back=[(int(i.left), int(i.right)) for i in back["ilocs"]])
        if "labels" in y:  # the labels predict itself reports for the anomalies (the property speaks about these)
            out["labels"] = [int(v) for v in y["labels"]]
            out["back_labels"] = [int(v) for v in back["labels"]] if "labels" in back else None
        return out
    except Exception as ex:
        return {"outcome": "other:" + type(ex).__name__, "msg": str(ex)[:200]}


def oracle_det(case, r):
    if r["outcome"] != "ok":
        return f"{case['det']} with a {case['index']} index raised {r['outcome']} {r.get('msg', '')}"
    n = case["n"]
    if not r["index_ok"]:
        return f"transform(X) does not carry X's {case['index']} index ({case['det']})"
    sp = r["sparse"]
    lab = r.get("labels") if r.get("labels") is not None and r["kind"] != "cp" else list(range(1, len(sp) + 1))
    if r["kind"] != "cp" and r.get("labels") is not None and (len(lab) != len(sp) or r.get("back_labels") != lab):
        return f"{case['det']}: predict labels the anomalies {lab}; dense_to_sparse(transform(X)) labels them {r.get('back_labels')}"
    if r["kind"] == "cp":
        want = [sum(1 for c in sp if c <= i) for i in range(n)]
    elif r["kind"] == "coll":
        want = [next((lab[k] for k, (a, b) in enumerate(sp) if a <= i < b), 0) for i in range(n)]
    else:
        want = [[next((lab[k] for k, ((a, b), cols) in enumerate(sp) if a <= i < b and j in cols), 0) for j in range(case["p"])] for i in range(n)]
        if r["cols"] != r["want_cols"]:
            return f"dense columns {r['cols']}, expected {r['want_cols']}"
    if r["dense"] != want:
        return f"transform(X) labels do not describe predict(X)={sp} ({case['det']}, {case['index']} index): {r['dense']}"
    nb = [(tuple(x[0]), x[1]) if r["kind"] == "sub" else (tuple(x) if r["kind"] == "coll" else x) for x in r["back"]]
    ns = [(tuple(x[0]), x[1]) if r["kind"] == "sub" else (tuple(x) if r["kind"] == "coll" else x) for x in sp]
    if nb != ns:
        return f"dense_to_sparse(transform(X)) = {r['back']} differs from predict(X) = {sp} ({case['det']}, {case['index']} index)"
    return None


# ------------------------------------------------------------------------------------ the check


def run(chk: core.Check):
    tier = chk.tier
    N = {"quick": 3000, "thorough": 60000}[tier]
    chk.lean()
    chk.rules.append(
        "hand: valid sparse outputs of the three kinds (adjacent / length-1 / end-touching / empty frequent), n<=14, p<=4, x 5 index "
        "types x 2 column-label kinds through sparse_to_dense and back; detectors: all seven detectors on small-integer data "
        "(level shifts, planted anomalies incl. adjacent ones and full tilings, flat) with those indexes through predict / transform / "
        "dense_to_sparse. Non-trivial = at least one event; distinct by case hash"
    )
    chk.assumptions += ["pandas index semantics are exercised, not modelled: the models work on positions only"]
    rng = core.rng_for(chk.seed, "C05/hand")
    cases = core.Gen(gen_hand, rng, 14, N)
    # exhaustive small supplement: every valid collective sparse output for n <= 5 (as bit patterns)
    res = chk.run_stream("hand", cases, impl_hand, oracle=oracle_hand, site="sparse_to_dense/dense_to_sparse",
                         nontrivial=lambda c, r: bool(c.get("anoms") or c.get("cps")))
    ok = [(c, r) for c, r in zip(cases, res) if r["outcome"] == "ok"]
    outs = core.run_driver([hand_lines(c) for c, _ in ok])
    outs2 = core.run_driver([back_line(c, r) for c, r in ok])
    dis = 0
    for (c, r), o, o2 in zip(ok, outs, outs2):
        exp = str(r["dense"])
        if exp != o or canon_back(c, r) != o2:
            dis += 1
            if dis <= 5:
                chk.violations.append({"kind": "correspondence", "stream": "hand", "case": c, "impl": r, "impl_canon": [exp, canon_back(c, r)],
                                       "model": [o, o2], "msg": "model and implementation disagree on stream hand",
                                       "site": "sparse_to_dense/dense_to_sparse", "signature": "correspondence"})
    dis += sum(1 for c, r in zip(cases, res) if r["outcome"] != "ok")
    chk.streams["hand"]["disagreements"] = dis
    if ok:
        chk.samples.append({"stream": "hand/model", "line": hand_lines(ok[0][0]), "model": outs[0], "back": outs2[0]})
    rng = core.rng_for(chk.seed, "C05/detectors")
    chk.run_stream("detectors", core.Gen(gen_det, rng, 30, N // 6), impl_det, oracle=oracle_det, site="transform",
                   nontrivial=lambda c, r: r.get("outcome") == "ok" and len(r["sparse"]) > 0,
                   describe=lambda c: {k: v for k, v in c.items() if k != "X"} | {"X[:4]": c["X"][:4]})
    return chk.finish()


def replay(path):
    v = json.load(open(path))
    case = v["case"]
    if case is None:
        print(json.dumps(v, indent=1)[:3000])
        return 0
    if v["stream"] == "detectors":
        r = impl_det(case)
        print("implementation:", r, "\noracle:", oracle_det(case, r))
    else:
        r = impl_hand(case)
        print("implementation:", r)
        if r["outcome"] == "ok":
            print("model dense   :", core.run_driver([hand_lines(case)])[0])
            print("model back    :", core.run_driver([back_line(case, r)])[0])
        print("oracle        :", oracle_hand(case, r))
    return 0
