"""C12 — detections respect the model's symmetries: permutation, shift, scale, reversal.

Lean: Skc/Props/C12.lean (algebraic symmetries of the closed forms and of the algorithm models) +
L1 modules tying the closed forms to the generated kernels.
Tie / oracle: pairs of runs on X and on the transformed X through the public API — scorer values
(batches of cuts incl. equal-length batches) under tolerance, detector outputs exactly; a differing
discrete output counts only if it persists under tiny perturbations of the data (decision margin
above the rounding-error bound)."""
from __future__ import annotations

import json
import random

import numpy as np

from .. import core, translate
from .c06 import gen_cuts

L1 = {"Skc.L1.L2Cost": ["l2_cost_optim", "l2_cost_fixed", "l2_saving"], "Skc.L1.Cusum": ["cusum_score", "l2_cost_optim"],
      "Skc.L1.Gauss": ["var_from_sums", "gaussian_var_cost_optim", "gaussian_var_cost_fixed"]}
SYMS = ["perm", "shift", "scale", "reverse"]


def make_data(c):
    g = np.random.default_rng(c["seed"])
    n, p = c["n"], c["p"]
    X = g.normal(size=(n, p)) * c["sd"]
    for _ in range(c["nchg"]):
        t = int(g.integers(1, n))
        cols = g.random(p) < 0.7
        X[t:, cols] += g.normal(scale=4 * c["sd"], size=int(cols.sum()))
    for _ in range(c["nanom"]):
        t = int(g.integers(0, n - 1))
        L = int(g.choice([1, 1, 3, 5]))
        cols = g.random(p) < 0.6
        if not cols.any():
            cols[int(g.integers(p))] = True
        X[t:t + L, cols] += g.normal(scale=8 * c["sd"], size=int(cols.sum())) + 6 * c["sd"]
    if c.get("f32"):  # values that are exact in single precision
        X = np.round(X * 64) / 64
    return X


def _gaps(c, Z):
    """the point gaps that bound window variances from below: adjacent differences for contiguous
    windows; all pairwise differences where the scorer pools the two sides of an inner interval
    (LocalAnomalyScore, i.e. circular binary segmentation), which makes non-adjacent points neighbours"""
    if c.get("det") == "cbs" or c.get("scorer", "").startswith("loc-"):
        Zs = np.sort(Z, axis=0)
        return np.abs(np.diff(Zs, axis=0))
    return np.abs(np.diff(Z, axis=0))


def at_floor(c, *datasets):
    """Gaussian costs are only claimed invariant above the 1e-16 variance floor"""
    uses_gauss = "gvar" in c.get("scorer", "") or c.get("cost") == "gvar"
    if not uses_gauss or c.get("f32"):  # single-precision cases: judged on the windows actually scored (impl_scorer)
        return False
    for Z in datasets:
        d = _gaps(c, Z)  # window variances are bounded below by ~0.2 x the squared smallest adjacent difference; 1e-13 leaves three orders of margin
        if d.size and (d.min() / 2) ** 2 < 1e-13:
            return True
    return False


def gauss_log_error(c, *datasets):
    """a bound on the rounding error of one Gaussian log-variance term: the variance of a short window
    is a difference of prefix-sum quotients whose absolute error is about eps * n * max|x|^2, so the
    error of its logarithm is that divided by the window variance (>= ~0.2 * min adjacent diff^2)"""
    uses_gauss = "gvar" in c.get("scorer", "") or c.get("cost") == "gvar"
    if not uses_gauss:
        return 0.0
    worst = 0.0
    for Z in datasets:
        d = _gaps(c, Z)
        vmin = 0.2 * float(d.min()) ** 2 if d.size else 1.0
        mag2 = float(np.abs(Z).max()) ** 2
        worst = max(worst, 2.2e-16 * len(Z) * mag2 / max(vmin, 1e-300))
    return worst


def transform(c, X):
    g = np.random.default_rng(c["seed"] + 1)
    sym = c["sym"]
    if sym == "perm":
        perm = g.permutation(c["p"])
        return X[:, perm], {"perm": [int(v) for v in perm]}
    if sym == "shift":
        # (a level of several thousand spreads for single-precision input: squares no longer fit 24 bits)
        # single-precision input: large enough that squares (and, for the scorers without a log-variance, running sums) no longer
        # fit 24 bits
        big = 24 if "gvar" in c.get("scorer", "") else 4096
        return X + g.choice([-7.5, 3.25, 11.0], size=c["p"]) * max(c["sd"], 1e-3) * (big if c.get("f32") else 3), {}
    if sym == "scale":
        return X * float(g.choice([1000.0, 0.001] if c.get("wide") else [0.5, 3.0, 10.0, 1000.0])), {}
    return X[::-1].copy(), {}


def gen_case(rng, kind):
    sym = rng.choice(SYMS)
    p = rng.randint(2, 4) if sym == "perm" else rng.randint(1, 3)
    c = {"kind": kind, "sym": sym, "n": rng.randint(16, 48), "p": p, "seed": rng.randint(0, 10**6),
         "sd": rng.choice([1.0, 1.0, 2e-5, 30.0]) if sym == "scale" else 1.0, "nchg": rng.randint(0, 2), "nanom": rng.randint(0, 2)}
    # single-precision input holding exactly representable values (shift / permutation / reversal keep them exact): the
    # arithmetic on them is still expected in double precision
    c["f32"] = kind == "scorer" and sym != "scale" and rng.random() < 0.2
    if kind == "scorer":
        c["scorer"] = rng.choice(["l2", "gvar", "gcov", "cusum", "l2saving", "chg-l2", "chg-gvar", "loc-l2", "loc-gvar"])
        if sym == "scale":
            c["scorer"] = rng.choice(["chg-gvar", "loc-gvar", "chg-gvar"])
        if sym == "shift":
            c["scorer"] = rng.choice(["l2", "gvar", "cusum", "chg-l2", "chg-gvar", "loc-l2", "loc-gvar", "gcov"])
        c["cutseed"] = rng.randint(0, 10**6)
    else:
        dets = {"perm": ["pelt", "mw", "sbs", "cbs", "capa", "mvcapa", "mvcapa"], "shift": ["pelt", "mw", "sbs", "cbs"],
                "scale": ["pelt", "mw", "sbs", "cbs"], "reverse": ["pelt"]}[sym]
        c["det"] = rng.choice(dets)
        c["cost"] = "gvar" if sym == "scale" else rng.choice(["l2", "gvar", "default"])
        c["m"] = rng.randint(2, 3)
        c["pfam"] = rng.choice(["sparse", "combined", "intermediate", "dense"])
        c["scale"] = rng.choice([0.3, 0.6, 1.0])
    if kind == "scorer" and rng.random() < 0.004:
        # many columns: under rescaling by a the determinant of a covariance changes by a^(2p), far outside the floating-point range,
        # while its logarithm changes by 2 p log a — the multivariate change score is still invariant
        c.update(sym="scale", scorer="chg-gcov", p=rng.choice([60, 80]), sd=1.0, nchg=1, nanom=0, f32=False, wide=True)
        c["n"] = 2 * c["p"] + rng.randint(8, 20)
    return c


# --------------------------------------------------------------------------------- scorers


def mk_scorer(name):
    from skchange.anomaly_scores import L2Saving, LocalAnomalyScore
    from skchange.change_scores import CUSUM, ChangeScore
    from skchange.costs import GaussianCovCost, GaussianVarCost, L2Cost

    return {"l2": lambda: L2Cost(), "gvar": lambda: GaussianVarCost(), "gcov": lambda: GaussianCovCost(), "cusum": lambda: CUSUM(),
            "l2saving": lambda: L2Saving(), "chg-l2": lambda: ChangeScore(L2Cost()), "chg-gvar": lambda: ChangeScore(GaussianVarCost()),
            "loc-l2": lambda: LocalAnomalyScore(L2Cost()), "loc-gvar": lambda: LocalAnomalyScore(GaussianVarCost()),
            "chg-gcov": lambda: ChangeScore(GaussianCovCost())}[name]()


def windows_of(q):
    """the row sets a cut is scored on: contiguous parts, the whole, and for 4-point cuts the pooled surroundings"""
    if len(q) == 2:
        return [[(q[0], q[1])]]
    if len(q) == 3:
        return [[(q[0], q[1])], [(q[1], q[2])], [(q[0], q[2])]]
    return [[(q[1], q[2])], [(q[0], q[3])], [(q[0], q[1]), (q[2], q[3])]]


def min_window_var(Z, cuts):
    """smallest per-column variance over the windows actually scored"""
    best = np.inf
    for q in cuts:
        for parts in windows_of(q):
            rows = np.concatenate([Z[a:b] for a, b in parts])
            if len(rows) >= 2:
                best = min(best, float(rows.astype(float).var(axis=0).min()))
    return best


def scorer_cuts(c, sc):
    """batches of cuts: a random one and, for 3-point cuts, a pure equal-length batch whose first
    split is centred while the others are not"""
    rng = random.Random(c["cutseed"])
    n = c["n"]
    k = sc.expected_cut_entries
    ms = int(sc.min_size) if sc.min_size else 1
    cuts = gen_cuts(rng, n, k, ms, 8)
    if k == 4:
        cuts = [q for q in cuts if q[2] - q[1] >= ms and (q[1] - q[0]) + (q[3] - q[2]) >= ms]
    batches = [cuts] if cuts else []
    if k == 3 and n >= 14 and ms <= 5:
        L = 2 * rng.randint(max(2, ms), 5)
        s0 = rng.randint(0, n - L - 3)
        batches.append([(s0, s0 + L // 2, s0 + L)] + [(s0 + d, s0 + d + rng.randint(ms, L - ms), s0 + d + L) for d in (0, 1, 2, 3)])
    if k == 3 and n >= 16 and ms <= 3:
        # pure batches of odd-length cuts, every row split at the floor (or at the ceiling) of its midpoint: almost balanced
        # windows, for which a "balanced" shortcut would be wrong
        L = 2 * rng.randint(max(2, ms), 5) + 1
        up = rng.randint(0, 1)
        batches.append([(s_, s_ + L // 2 + up, s_ + L) for s_ in sorted(rng.sample(range(0, n - L + 1), min(4, n - L + 1)))])
    if k == 3 and n >= 20 and ms <= 4:
        # a fixed reference window of b rows before every split, test windows of b, b+1, b+2, ... rows after it: every left
        # length equals the first row's right length, the right lengths differ
        b = rng.randint(max(2, ms), 5)
        s0 = rng.randint(0, n - 2 * b - 6)
        batches.append([(s0 + d, s0 + d + b, s0 + d + 2 * b + d) for d in (0, 1, 2, 3)])
        # and its mirror image: equal right lengths, growing left lengths
        batches.append([(s0, s0 + b + d, s0 + 2 * b + d) for d in (0, 1, 2, 3)])
    return batches


def impl_scorer(c):
    X = make_data(c)
    Y, info = transform(c, X)
    n = c["n"]
    if at_floor(c, X, Y):
        return {"outcome": "skip:variance-at-floor"}
    try:
        # the SAME scorer object is re-used on the transformed data in a third of the cases, and the transformed data are then
        # a view of / the very array the scorer already holds (reversed view, in-place shift or scale): nothing remembered
        # about the earlier fit may survive
        reuse = core._bits(c, 4, 3) == 0
        if c.get("f32"):
            X, Y = X.astype(np.float32), Y.astype(np.float32)
        X0 = X.copy()
        a = mk_scorer(c["scorer"]).fit(X)
        batches = scorer_cuts(c, a)
        if not batches:
            return {"outcome": "skip:no-cuts"}
        cuts, va, vb = [], [], []
        for bt in batches:
            va += a.evaluate(np.array(bt)).tolist()
            cuts += bt
        if reuse:
            if c["sym"] == "reverse":
                Yv = X[::-1]  # a view
            elif c["sym"] in ("shift", "scale"):
                X[...] = Y  # in place: the held array now contains the transformed data
                Yv = X
            else:
                Yv = Y
            b = a.fit(Yv)
        else:
            b = mk_scorer(c["scorer"]).fit(Y)
        for bt in batches:
            cb = [tuple(n - v for v in reversed(q)) for q in bt] if c["sym"] == "reverse" else bt
            vb += b.evaluate(np.array(cb)).tolist()
        X = X0
        gerr = gauss_log_error(c, X, Y)
        if c.get("f32") and gerr > 0:
            # the generic bound assumes the worst 2-point window; here the windows actually scored are known
            Yc = Y.astype(float)
            Yw = [tuple(n - v for v in reversed(q)) for q in cuts] if c["sym"] == "reverse" else cuts
            vmin = min(min_window_var(X0.astype(float), cuts), min_window_var(Yc, Yw))
            if vmin < 1e-3:
                return {"outcome": "skip:variance-at-floor"}
            gerr = 2.2e-16 * n * float(max(np.abs(X0).max(), np.abs(Yc).max())) ** 2 / vmin
        if 200 * n * gerr > 1e-3:
            return {"outcome": "skip:ill-conditioned-variance"}
        return {"outcome": "ok", "cuts": cuts, "a": va, "b": vb, "info": info, "gerr": gerr,
                "mag": float(np.abs(np.concatenate((X, Y))).max())}
    except RuntimeError as ex:
        return {"outcome": "skip:not-positive-definite"}
    except Exception as ex:
        return {"outcome": "other:" + type(ex).__name__, "msg": str(ex)[:200]}


def oracle_scorer(c, r):
    if r["outcome"] != "ok":
        return f"scorer raised {r['outcome']} {r.get('msg', '')}"
    a, b = np.array(r["a"]), np.array(r["b"])
    if c["sym"] == "perm" and a.shape[1] > 1:
        a = a[:, r["info"]["perm"]]
    is_l2 = c["scorer"] in ("l2", "l2saving", "chg-l2", "loc-l2")
    if c["scorer"] == "cusum":
        tol = 1e-9 * (1 + r["mag"]) * np.sqrt(c["n"])
    elif is_l2:
        tol = 1e-9 * (1 + r["mag"] ** 2) * c["n"]
    else:
        tol = 1e-7 * c["n"] * (1 + np.log1p(r["mag"])) + 200 * c["n"] * r.get("gerr", 0.0)
    bad = np.argwhere(~(np.abs(a - b) <= tol + 1e-9 * np.abs(a)))
    if len(bad):
        i, j = bad[0]
        return (f"{c['scorer']} under {c['sym']}: value at cut {r['cuts'][i]} column {j} is {a[i, j]!r} on X but {b[i, j]!r} on the "
                f"transformed data (batch of {len(r['cuts'])} cuts)")
    return None


# -------------------------------------------------------------------------------- detectors


def build(c):
    from skchange.anomaly_detectors import CAPA, MVCAPA, CircularBinarySegmentation
    from skchange.change_detectors import PELT, MovingWindow, SeededBinarySegmentation
    from skchange.costs import GaussianVarCost, L2Cost

    cost = {"l2": L2Cost, "gvar": GaussianVarCost, "default": lambda: None}[c["cost"]]()
    d, m, s = c["det"], c["m"], c["scale"]
    if d == "pelt":
        return PELT(cost, penalty_scale=s, min_segment_length=m)
    if d == "mw":
        return MovingWindow(cost, bandwidth=m + 2, threshold_scale=s)
    if d == "sbs":
        return SeededBinarySegmentation(cost, threshold_scale=s, min_segment_length=m)
    if d == "cbs":
        return CircularBinarySegmentation(cost if c["cost"] != "default" else None, threshold_scale=s, min_segment_length=m)
    if d == "capa":
        return CAPA(collective_penalty_scale=s, point_penalty_scale=s, min_segment_length=m)
    pf = c["pfam"] if c["p"] >= 2 or c["pfam"] != "intermediate" else "sparse"
    return MVCAPA(collective_penalty_scale=s, point_penalty=pf, point_penalty_scale=s, min_segment_length=m)


def det_output(c, X):
    det = build(c)
    data, _ = core.fit_for(det, dict(c, fitmode=c.get("fitmode", ["same", "same", "inplace"][core._bits(c, 4, 3)])), X)
    y = det.predict(data)
    if c["det"] in ("pelt", "mw", "sbs"):
        out = {"ev": [int(v) for v in y["ilocs"]]}
    else:
        out = {"ev": [(int(i.left), int(i.right)) for i in y["ilocs"]]}
        if c["det"] == "mvcapa":
            out["cols"] = [[int(v) for v in cs] for cs in y["icolumns"]]
    if c["det"] == "pelt":
        out["final"] = float(det.scores.iloc[-1])
    return out


def expected(c, a, info):
    """what the transformed run must return, given the run on X"""
    n = c["n"]
    e = dict(a)
    if c["sym"] == "reverse":
        e["ev"] = sorted(n - v for v in a["ev"])
    if c["sym"] == "perm" and "cols" in a:
        inv = {int(src): dst for dst, src in enumerate(info["perm"])}
        e["cols"] = [[inv[v] for v in cs] for cs in a["cols"]]
    return e


def same(c, e, b, gerr=0.0):
    if c["sym"] == "reverse":  # only PELT's optimal cost is claimed
        return abs(e["final"] - b["final"]) <= 1e-8 * (1 + abs(e["final"])) + 200 * c["n"] * gerr
    if e["ev"] != b["ev"]:
        return False
    if "cols" in e and [sorted(x) for x in e["cols"]] != [sorted(x) for x in b["cols"]]:
        return False
    if "cols" in e and e["cols"] != b["cols"]:
        return False
    return True


def impl_det(c):
    X = make_data(c)
    try:
        Y, info = transform(c, X)
        if at_floor(c, X, Y):
            return {"outcome": "skip:variance-at-floor"}
        gerr = gauss_log_error(c, X, Y)
        if 200 * c["n"] * gerr > 1e-3:
            return {"outcome": "skip:ill-conditioned-variance"}
        a, b = det_output(c, X), det_output(c, Y)
        e = expected(c, a, info)
        ok = same(c, e, b, gerr)
        persists = 0
        if not ok:  # is the difference a rounding-level tie?  perturb the data slightly and retry
            g = np.random.default_rng(c["seed"] + 7)
            for _ in range(3):
                Xp = X * (1 + 1e-9 * g.normal(size=X.shape))
                Yp, info_p = transform(c, Xp)
                ap, bp = det_output(c, Xp), det_output(c, Yp)
                persists += 0 if same(c, expected(c, ap, info_p), bp, gerr) else 1
        return {"outcome": "ok", "same": ok, "persists": persists, "a": a, "b": b, "expected": e}
    except RuntimeError:
        return {"outcome": "skip:not-positive-definite"}
    except Exception as ex:
        return {"outcome": "other:" + type(ex).__name__, "msg": str(ex)[:200]}


def oracle_det(c, r):
    if r["outcome"] != "ok":
        return f"detector raised {r['outcome']} {r.get('msg', '')}"
    if not r["same"] and r["persists"] == 3:
        return (f"{c['det']} ({c['cost']}) under {c['sym']}: output on X {r['a']}, expected on the transformed data {r['expected']}, "
                f"got {r['b']} (difference persists under 1e-9 perturbations)")
    return None


def run(chk: core.Check):
    tier = chk.tier
    N = {"quick": 1500, "thorough": 30000}[tier]
    status = {}
    with core.LeanLock():
        st, _ = translate.run()
        status.update(st)
    skip = {m: "translator: " + ", ".join(k for k in ks if status[k]["state"] != "translated")
            for m, ks in L1.items() if any(status[k]["state"] != "translated" for k in ks)}
    chk.lean(extra_modules=list(L1), skip_modules=skip)
    chk.rules.append(
        "scorer: the nine built-in scorers / adapter compositions on Gaussian data with planted changes and anomalies (sd 1, and 2e-5 / 30 "
        "for the scale symmetry) evaluated on batches of cuts (random, and equal-length batches with a centred first split) on X and on "
        "the permuted / shifted / scaled / reversed X; detector: PELT, MW, SBS, CBS, CAPA, MVCAPA (all point-penalty families) on such "
        "pairs. Non-trivial = at least one detection (detector) / 4 cuts (scorer); distinct by case hash"
    )
    chk.assumptions += ["float values compared under stated tolerances; a differing discrete output counts only if it persists under three "
                        "1e-9 relative perturbations of the data (decision margin above rounding error)"]
    skipf = lambda c, r: r["outcome"][5:] if r["outcome"].startswith("skip:") else None  # noqa: E731
    rng = core.rng_for(chk.seed, "C12/scorer")
    chk.run_stream("scorer", [gen_case(rng, "scorer") for _ in range(N)], impl_scorer, oracle=oracle_scorer, skip=skipf, site="scorers",
                   nontrivial=lambda c, r: r.get("outcome") == "ok" and len(r["cuts"]) >= 4)
    rng = core.rng_for(chk.seed, "C12/detector")
    chk.run_stream("detector", [gen_case(rng, "detector") for _ in range(N)], impl_det, oracle=oracle_det, skip=skipf, site="detectors",
                   nontrivial=lambda c, r: r.get("outcome") == "ok" and len(r["a"]["ev"]) > 0)
    return chk.finish(trusted_extra=["the translator harness/translate.py, validated numerically in the C01 check"])


def replay(path):
    v = json.load(open(path))
    case = v["case"]
    if case is None:
        print(json.dumps(v, indent=1)[:4000])
        return 0
    if case["kind"] == "scorer":
        r = impl_scorer(case)
        print("oracle:", oracle_scorer(case, r) if r["outcome"] == "ok" else r)
    else:
        r = impl_det(case)
        print("implementation:", r, "\noracle:", oracle_det(case, r) if r["outcome"] == "ok" else r)
    return 0
