"""C17 — StatThresholdAnomaliser flags exactly the out-of-range segments.

Lean: Skc/Props/C17.lean.  Tie: `StatThresholdAnomaliser(<detector returning prescribed
changepoints>, stat, lo, hi).fit(X).predict(X)` against `statAnoms` over Rat, exactly (integer data,
quarter-integer bounds, exact statistics mean / sum / range / first); plus real detectors (PELT,
MovingWindow, SeededBinarySegmentation) and NumPy statistics (mean, median, std, var, user lambdas)
judged by the property stated directly.  The user's detector must stay unfitted and unaltered; a
second fit after re-tuning the user's detector must use the new settings."""
from __future__ import annotations

import json
from fractions import Fraction

import numpy as np
import pandas as pd

from .. import core

core.use_repo()
from skchange.change_detectors.base import ChangeDetector  # noqa: E402

STATS = {"mean": np.mean, "sum": np.sum, "range": lambda v: float(np.max(v) - np.min(v)), "first": lambda v: float(v[0])}
def _std1(v):
    with np.errstate(all="ignore"):
        import warnings

        with warnings.catch_warnings():
            warnings.simplefilter("ignore")
            return float(np.std(v, ddof=1))  # NaN on a one-sample segment


# statistics that can be undefined (NaN) on a segment: NaN is neither below the lower nor above the upper bound
# (the last two call METHODS of what they are handed: a segment arrives as a plain NumPy array, whose std / var are the population ones)
NPSTATS = {"std-method": lambda v: float(v.std()), "var-method": lambda v: float(v.var()), "mean": np.mean, "median": np.median, "std": np.std, "var": np.var, "max": np.max, "absmean": lambda v: float(np.abs(v).mean()),
           "std-ddof1": _std1, "mean-if-3": lambda v: float(np.mean(v)) if len(v) >= 3 else float("nan")}


class FixedChangeDetector(ChangeDetector):
    """a user-defined change detector that reports prescribed changepoints"""

    def __init__(self, cps=None):
        self.cps = cps
        super().__init__()

    def _fit(self, X, y=None):
        self.fitted_on_ = len(X)
        return self

    def _predict(self, X):
        return ChangeDetector._format_sparse_output([c for c in (self.cps or []) if 0 < c < len(X)])


def gen_fixed(rng, nmax):
    n = rng.randint(2, nmax)
    k = rng.randint(0, min(5, n - 1))
    cps = sorted(rng.sample(range(1, n), k))
    if n > 2 and rng.random() < 0.35:
        cps = sorted(set(cps) | {n - 1})
    if n > 2 and rng.random() < 0.2:
        cps = sorted(set(cps) | {1})
    if rng.random() < 0.02:  # hundreds of segments (segment labels beyond 127 / 255)
        n = rng.randint(400, 900)
        cps = sorted(rng.sample(range(1, n), rng.randint(130, min(n - 1, 400))))
    lo = Fraction(rng.randint(-8, 4), 4)
    hi = lo + Fraction(rng.randint(0, 12), 4)
    inf = rng.choice([None, None, None, None, None, "lo", "hi", "both"])  # one-sided / unbounded ranges: an infinite bound is legal
    if inf in ("lo", "both"):
        lo = Fraction(-10**9)  # (the model and the oracle see a bound far below every statistic; the implementation sees -inf)
    if inf in ("hi", "both"):
        hi = Fraction(10**9)
    return {"n": n, "cps": cps, "X": [rng.randint(-3, 3) for _ in range(n)], "stat": rng.choice(list(STATS)), "inf": inf,
            "lo": str(lo), "hi": str(hi), "container": rng.choice(["frame", "series", "array", "array1d", "offset-index", "datetime"])}


def wrap(c, x):
    n = len(x)
    a = np.array(x, dtype=float)
    k = c["container"]
    if k == "frame":
        return pd.DataFrame(a)
    if k == "series":
        return pd.Series(a, name="y")
    if k == "array":
        return a.reshape(-1, 1)
    if k == "array1d":
        return a
    if k == "offset-index":
        return pd.DataFrame(a, index=pd.RangeIndex(10, 10 + n), columns=["labels"])  # a column that happens to be called "labels"
    return pd.DataFrame(a, index=pd.date_range("2022-01-01", periods=n, freq="D"), columns=["v"])


def impl_fixed(c):
    from skchange.anomaly_detectors import StatThresholdAnomaliser

    X = wrap(c, c["X"])
    user = FixedChangeDetector(cps=list(c["cps"]))
    before = (dict(user.get_params()), user.is_fitted)
    try:
        lo, hi = float(Fraction(c["lo"])), float(Fraction(c["hi"]))
        form = core._bits(c, 0, 3)  # bounds as floats, as Python ints when integral, or as NumPy scalars
        if form == 1:
            lo, hi = (int(lo) if lo == int(lo) else lo), (int(hi) if hi == int(hi) else hi)
        elif form == 2:
            lo, hi = np.float64(lo), np.float64(hi)
        if c.get("inf") in ("lo", "both"):
            lo = -np.inf if form else -float("inf")
        if c.get("inf") in ("hi", "both"):
            hi = np.inf if form else float("inf")
        det = StatThresholdAnomaliser(user, stat=STATS[c["stat"]], stat_lower=lo, stat_upper=hi)
        y = det.fit(X).predict(X)
        an = [(int(i.left), int(i.right)) for i in y["ilocs"]]
        wf = list(y.index) == list(range(len(an))) and list(y["labels"]) == list(range(1, len(an) + 1))
        untouched = (dict(user.get_params()), user.is_fitted) == before and not hasattr(user, "fitted_on_")
        return {"outcome": "ok", "anoms": an, "wellformed": bool(wf), "user_untouched": bool(untouched)}
    except Exception as ex:
        return {"outcome": "other:" + type(ex).__name__, "msg": str(ex)[:200]}


def line_fixed(c):
    return ("statanom " + " ".join([c["stat"], str(c["n"]), core.rat(Fraction(c["lo"])), core.rat(Fraction(c["hi"])), str(len(c["cps"]))]
                                   + [str(v) for v in c["cps"]] + [str(v) for v in c["X"]]))


def canon(c, r):
    return r["outcome"] if r["outcome"] != "ok" else "[" + ", ".join(f"({a}, {b})" for a, b in r["anoms"]) + "]"


def exact_stat(name, seg):
    seg = [Fraction(v) for v in seg]
    return {"mean": sum(seg) / len(seg), "sum": sum(seg), "range": max(seg) - min(seg), "first": seg[0]}[name]


def oracle_fixed(c, r):
    if r["outcome"] != "ok":
        return f"anomaliser raised {r['outcome']} {r.get('msg', '')} ({c['container']} input)"
    b = [0] + c["cps"] + [c["n"]]
    lo, hi = Fraction(c["lo"]), Fraction(c["hi"])
    want = [(s, e) for s, e in zip(b, b[1:]) if exact_stat(c["stat"], c["X"][s:e]) < lo or exact_stat(c["stat"], c["X"][s:e]) > hi]
    if [tuple(a) for a in r["anoms"]] != want:
        return (f"anomalies {r['anoms']} for changepoints {c['cps']} (n={c['n']}, stat={c['stat']}, bounds [{lo},{hi}], {c['container']} input); "
                f"the out-of-range segments are {want}")
    if not r["wellformed"]:
        return "sparse output is not range-indexed with labels 1..K"
    if not r["user_untouched"]:
        return "the change detector passed by the user was fitted or altered"
    return None


# -------------------------------------------------------------------------------- real detectors


def gen_real(rng, nmax):
    n = rng.randint(12, nmax)
    x = [0.0] * n
    t = 0
    while t < n:
        L = rng.choice([1, 2, 3, 5, 8])
        lv = rng.choice([0.0, 0.0, 4.0, -5.0, 9.0])
        for i in range(t, min(n, t + L)):
            x[i] = lv + rng.choice([0.0, 0.1, -0.2, 0.3])
        t += L
    if rng.random() < 0.4:
        x[-1] += 12.0  # an outlier in the last sample
    return {"n": n, "X": x, "det": rng.choice(["pelt", "mw", "sbs"]), "m": rng.choice([1, 1, 2, 3]), "stat": rng.choice(list(NPSTATS)),
            "lo": rng.choice([-2.0, -0.5, 0.0, 0.5]), "width": rng.choice([0.0, 0.5, 1.0, 3.0]), "container": rng.choice(["frame", "series", "array"]),
            "retune": rng.random() < 0.3,
            # the wrapped detector tunes its threshold on the training data, and the same anomaliser was fitted before on OTHER data
            # of the same shape
            "tuned": rng.random() < 0.3}


def mk_real(c, scale=0.5):
    from skchange.change_detectors import PELT, MovingWindow, SeededBinarySegmentation

    m = c["m"]
    if c.get("tuned") and not c.get("retune") and c["det"] != "pelt":
        scale = None
    return {"pelt": lambda: PELT(min_segment_length=m, penalty_scale=scale), "mw": lambda: MovingWindow(bandwidth=m, threshold_scale=scale),
            "sbs": lambda: SeededBinarySegmentation(min_segment_length=m, threshold_scale=scale)}[c["det"]]()


def impl_real(c):
    from skchange.anomaly_detectors import StatThresholdAnomaliser

    X = wrap(c, c["X"])
    stat = NPSTATS[c["stat"]]
    try:
        user = mk_real(c, 5.0 if c["retune"] else 0.5)
        det = StatThresholdAnomaliser(user, stat=stat, stat_lower=c["lo"], stat_upper=c["lo"] + c["width"])
        if c.get("tuned") and not c["retune"]:
            det.fit(wrap(c, [v * -0.01 + 1.0 for v in c["X"]][::-1]))  # (much smaller changes: a threshold tuned on these would be far too low)
        det.fit(X)
        if c["retune"]:  # the user re-tunes the detector they passed in and fits again
            det.predict(X)
            key = "penalty_scale" if c["det"] == "pelt" else "threshold_scale"
            user.set_params(**{key: 0.5})
            det.fit(X)
        y = det.predict(X)
        cps = [int(v) for v in mk_real(c, 0.5).fit(X).predict(X)["ilocs"]]
        return {"outcome": "ok", "anoms": [(int(i.left), int(i.right)) for i in y["ilocs"]], "cps": cps, "user_fitted": bool(user.is_fitted)}
    except Exception as ex:
        return {"outcome": "other:" + type(ex).__name__, "msg": str(ex)[:200]}


def oracle_real(c, r):
    if r["outcome"] != "ok":
        return f"anomaliser raised {r['outcome']} {r.get('msg', '')}"
    x = np.array(c["X"], dtype=float)
    b = [0] + r["cps"] + [c["n"]]
    stat, lo, hi = NPSTATS[c["stat"]], c["lo"], c["lo"] + c["width"]
    want = []
    for s, e in zip(b, b[1:]):
        v = float(stat(x[s:e]))
        if abs(v - lo) < 1e-9 or abs(v - hi) < 1e-9:
            return None  # statistic on a bound up to rounding: not judged
        if v < lo or v > hi:
            want.append((s, e))
    if [tuple(a) for a in r["anoms"]] != want:
        return (f"anomalies {r['anoms']}; the segments delimited by the wrapped {c['det']}'s changepoints {r['cps']} whose {c['stat']} is outside "
                f"[{lo},{hi}] are {want}" + (" (after re-tuning the user's detector and fitting again)" if c["retune"] else ""))
    if r["user_fitted"]:
        return "the change detector passed by the user was fitted"
    return None


def run(chk: core.Check):
    tier = chk.tier
    N = {"quick": 2500, "thorough": 50000}[tier]
    chk.lean()
    chk.rules.append(
        "fixed: a user-defined detector returning prescribed changepoints (incl. changepoints at 1 and n-1, none, adjacent) on integer series "
        "n<=16, exact statistics mean / sum / range / first, quarter-integer bounds lo<=hi, six input containers; real: PELT / MovingWindow / "
        "SeededBinarySegmentation (length-1 segments allowed) with NumPy statistics mean / median / std / var / max / user lambda, incl. "
        "refits after re-tuning the user's detector. Non-trivial = at least one flagged segment; distinct by case hash"
    )
    rng = core.rng_for(chk.seed, "C17/fixed")
    chk.run_stream("fixed", core.Gen(gen_fixed, rng, 16, N), impl_fixed, line=line_fixed, canon=canon, oracle=oracle_fixed,
                   site="StatThresholdAnomaliser", nontrivial=lambda c, r: r.get("outcome") == "ok" and len(r["anoms"]) > 0)
    rng = core.rng_for(chk.seed, "C17/real")
    chk.run_stream("real", core.Gen(gen_real, rng, 40, N // 4), impl_real, oracle=oracle_real, site="StatThresholdAnomaliser/real",
                   nontrivial=lambda c, r: r.get("outcome") == "ok" and len(r["anoms"]) > 0,
                   describe=lambda c: {k: v for k, v in c.items() if k != "X"} | {"X[:6]": c["X"][:6]})
    return chk.finish()


def replay(path):
    v = json.load(open(path))
    case = v["case"]
    if case is None:
        print(json.dumps(v, indent=1)[:4000])
        return 0
    if v["stream"] == "real":
        r = impl_real(case)
        print("implementation:", r, "\noracle:", oracle_real(case, r))
    else:
        r = impl_fixed(case)
        print("implementation:", canon(case, r), "\nmodel         :", core.run_driver([line_fixed(case)])[0], "\noracle        :", oracle_fixed(case, r))
    return 0
