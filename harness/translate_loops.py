"""Route T2 — Python-AST → Lean translator for small *imperative* kernels of /repo (loops over a
sequence with mutable local variables), re-run on every check that depends on them.

What is translated: a function whose body is a sequence of
  * assignments `x = e`, tuple assignments `a, b = e1, e2`, `xs.append(e)`,
  * `if / elif / else` over boolean expressions (`and`, `or`, `not`, `is None`, `is not None`, comparisons),
  * ONE level of `for i, v in enumerate(seq)` / `for v in seq` loops whose bodies are again such statements,
  * a final `return e`,
over Python ints (read as naturals; a subtraction that would go negative makes the Lean function return
`none`), booleans, `None`-able ints (`Option Nat`), tuples and lists.

Reading of Python (the trusted part, validated on every run by running the generated definitions through
the driver against the real functions — harness/props/c08.py, stream `gen-where`):
  * the function becomes a Lean function into `Option`: `none` = "Python would raise, or leaves the subset"
    (an optional variable used where an int is needed, a negative difference, `argmax` of an empty slice);
  * every local variable that is assigned becomes a `let mut` of a do-block in the `Option` monad, with the
    Lean type given in `TYPES` below (Python has no declarations; the annotation is checked by Lean's
    elaborator: an ill-typed reading does not compile and the kernel is reported `unsupported`);
  * a `for` loop becomes a structurally recursive function over the list (`<name>_loop<k>`), threading the
    tuple of all mutable variables; its body is `<name>_body<k>`;
  * variables assigned only inside a loop body and not used outside it are local to the body.

Outputs: lean/Skc/Gen/Loops.lean (core Lean only, executable; used by the L1 theorems in Skc/L1/Loops.lean
and by the driver) and entries `loop_*` in lean/Skc/Gen/status.json."""
from __future__ import annotations

import ast
import hashlib
import os

from . import core


class Unsupported(Exception):
    pass


# lean name, file, python function, {variable: Lean type}, [(parameter, Lean type)], result type
SPECS = [
    ("where_", "skchange/utils/numba/general.py", "where",
     {"intervals": "List (Nat × Nat)", "start": "Option Nat", "end": "Option Nat", "i": "Nat", "val": "Bool"},
     [("indicator", "List Bool")], "List (Nat × Nat)"),
    ("mw_changepoints", "skchange/change_detectors/moving_window.py", "get_moving_window_changepoints",
     {"detection_intervals": "List (Nat × Nat)", "changepoints": "List Nat", "interval": "(Nat × Nat)", "start": "Nat", "end": "Nat",
      "cpt": "Nat"},
     [("scores", "Arr α"), ("threshold", "α"), ("min_detection_interval", "Nat")], "List Nat"),
]
SPECS.append(
    ("anomaly_intervals", "skchange/anomaly_detectors/circular_binseg.py", "make_anomaly_intervals",
     {"starts": "List Nat", "ends": "List Nat", "baseline_n": "Nat"},
     [("interval_start", "Nat"), ("interval_end", "Nat"), ("min_segment_length", "Nat")], "(List Nat × List Nat)"))
SPECS.append(
    ("pelt_changepoints", "skchange/change_detectors/pelt.py", "get_changepoints",
     {"changepoints": "List Nat", "i": "Int", "cpt_i": "Nat",
      # bound on the number of iterations of the `while` loop (the loop variable strictly decreases from len - 1 to -1);
      # a run that needs more leaves the modelled subset (`none`)
      "__fuel__": "prev_cpts_n + 1"},
     [("prev_cpts", "Arr Nat")], "List Nat"))
# translated functions that later ones may call: python name -> (lean name, argument types, result type)
CALLABLE = {"where": ("where_", ["List Bool"], "List (Nat × Nat)")}
GENERIC = "{α : Type} [LT α] [DecidableLT α] "
KEYWORDS = {"end": "end_", "from": "from_", "at": "at_", "where": "where_", "then": "then_", "do": "do_", "in": "in_"}
OPT = "Option Nat"


def nm(x):
    return KEYWORDS.get(x, x)


class Fn:
    def __init__(self, lean, fn, types, params, rettype):
        self.lean, self.fn, self.types, self.params, self.rettype = lean if lean.endswith("_") else lean + "_", fn, dict(types), params, rettype
        self.name = lean
        for p, t in params:
            self.types[p] = t
        self.generic = any("α" in t for _, t in params)
        self.extra = []  # targets of the enclosing loops: further parameters of the definitions generated for an inner loop
        self.aux = []  # generated auxiliary definitions (bodies, loops)
        self.k = 0
        self.kl = 0  # loops are numbered separately so that their names do not depend on temporaries

    def psig(self):
        """binders for the function's parameters (an array is read as its index function and its length)"""
        out = []
        for p, t in self.params:
            if t.startswith("Arr "):
                out.append(f"({nm(p)} : Nat → {t[4:]}) ({nm(p)}_n : Nat)")
            else:
                out.append(f"({nm(p)} : {t})")
        out += [f"({nm(v)} : {t})" for v, t in self.extra]
        return (GENERIC if self.generic else "") + " ".join(out)

    def pargs(self):
        return " ".join([f"{nm(p)} {nm(p)}_n" if t.startswith("Arr ") else nm(p) for p, t in self.params] + [nm(v) for v, _ in self.extra])

    # ---- expressions -------------------------------------------------------------------------
    def typeof(self, e):
        if isinstance(e, ast.Name):
            if e.id not in self.types:
                raise Unsupported(f"no type annotation for {e.id}")
            return self.types[e.id]
        if isinstance(e, ast.Constant):
            if e.value is None:
                return OPT
            if isinstance(e.value, bool):
                return "Bool"
            if isinstance(e.value, int):
                return "Nat"
        if isinstance(e, ast.Call) and isinstance(e.func, ast.Name) and e.func.id == "len":
            return "Nat"
        if isinstance(e, ast.Call) and isinstance(e.func, ast.Name) and e.func.id in CALLABLE:
            return CALLABLE[e.func.id][2]
        if self._is_argmax_slice(e):
            return "Nat"
        if self._is_range(e):
            return "List Nat"
        if self._is_np_array_of_list(e) is not None:
            return self.typeof(self._is_np_array_of_list(e))
        if isinstance(e, ast.Subscript) and isinstance(e.value, ast.Name) and isinstance(e.slice, ast.Constant) \
                and isinstance(e.slice.value, int) and self._ty(e.value.id).startswith("("):
            parts = _split_prod(self._ty(e.value.id))
            if 0 <= e.slice.value < len(parts):
                return parts[e.slice.value]
        if isinstance(e, ast.Compare) and len(e.ops) == 1 and isinstance(e.left, ast.Name) and self.types.get(e.left.id, "").startswith("Arr "):
            return "List Bool"
        if isinstance(e, ast.BinOp):
            return "Int" if "Int" in (self.typeof(e.left), self.typeof(e.right)) else "Nat"
        if isinstance(e, ast.Subscript) and isinstance(e.value, ast.Name) and self.types.get(e.value.id, "").startswith("Arr ") \
                and not isinstance(e.slice, ast.Slice):
            return self.types[e.value.id][4:]
        if self._is_drop_last_reversed(e) is not None:
            return self._ty(self._is_drop_last_reversed(e))
        if isinstance(e, (ast.BoolOp, ast.Compare)) or (isinstance(e, ast.UnaryOp) and isinstance(e.op, ast.Not)):
            return "Bool"
        if isinstance(e, ast.Tuple):
            return "(" + " × ".join(self.typeof(x) for x in e.elts) + ")"
        raise Unsupported("type of " + type(e).__name__)

    def expr(self, e, want=None):
        """Lean term for `e`; `want` = expected Lean type (drives Nat <-> Option Nat coercions)"""
        if want is not None and want.startswith("(") and isinstance(e, ast.Tuple):
            parts = _split_prod(want)
            if len(parts) != len(e.elts):
                raise Unsupported("tuple arity")
            return "(" + ", ".join(self.expr(x, w) for x, w in zip(e.elts, parts)) + ")"
        if want == "Int" and isinstance(e, ast.BinOp) and isinstance(e.op, (ast.Add, ast.Sub, ast.Mult)):
            op = {ast.Add: "+", ast.Sub: "-", ast.Mult: "*"}[type(e.op)]
            return f"({self.expr(e.left, 'Int')} {op} {self.expr(e.right, 'Int')})"
        have = self.typeof(e)
        if want == "Nat" and have == "Int":
            raise Unsupported("an Int used where a natural is needed")
        s = self._raw(e)
        if want is None or want == have:
            return s
        if want == "Int" and have == "Nat":
            return f"(({s} : Nat) : Int)"
        if want == OPT and have == "Nat":
            return f"(some {s})"
        if want == "Nat" and have == OPT:
            return f"(← {s})"  # None where an int is needed: Python raises -> none
        raise Unsupported(f"cannot use {have} as {want}")

    def _is_range(self, e):
        return (isinstance(e, ast.Call) and isinstance(e.func, ast.Name) and e.func.id == "range" and len(e.args) in (1, 2)
                and not e.keywords)

    def _is_np_array_of_list(self, e):
        """`np.array(xs)` / `np.array(xs, dtype=np.int64)` for a list variable `xs` of naturals: the same sequence"""
        if (isinstance(e, ast.Call) and isinstance(e.func, ast.Attribute) and isinstance(e.func.value, ast.Name)
                and e.func.value.id == "np" and e.func.attr == "array" and len(e.args) == 1 and isinstance(e.args[0], ast.Name)
                and self.types.get(e.args[0].id, "") == "List Nat" and all(k.arg == "dtype" for k in e.keywords)):
            return e.args[0]
        return None

    def _is_drop_last_reversed(self, e):
        """`np.array(xs[-2::-1])` / `xs[-2::-1]` for a list `xs`: all but the last element, in reverse order"""
        if isinstance(e, ast.Call) and isinstance(e.func, ast.Attribute) and isinstance(e.func.value, ast.Name) \
                and e.func.value.id == "np" and e.func.attr == "array" and len(e.args) == 1 and not e.keywords:
            e = e.args[0]
        if (isinstance(e, ast.Subscript) and isinstance(e.value, ast.Name) and self.types.get(e.value.id, "").startswith("List ")
                and isinstance(e.slice, ast.Slice) and e.slice.upper is None
                and isinstance(e.slice.lower, ast.UnaryOp) and isinstance(e.slice.lower.op, ast.USub)
                and isinstance(e.slice.lower.operand, ast.Constant) and e.slice.lower.operand.value == 2
                and isinstance(e.slice.step, ast.UnaryOp) and isinstance(e.slice.step.op, ast.USub)
                and isinstance(e.slice.step.operand, ast.Constant) and e.slice.step.operand.value == 1):
            return e.value.id
        return None

    def _is_argmax_slice(self, e):
        return (isinstance(e, ast.Call) and isinstance(e.func, ast.Attribute) and isinstance(e.func.value, ast.Name)
                and e.func.value.id == "np" and e.func.attr == "argmax" and len(e.args) == 1 and not e.keywords
                and isinstance(e.args[0], ast.Subscript) and isinstance(e.args[0].value, ast.Name)
                and self.types.get(e.args[0].value.id, "").startswith("Arr ") and isinstance(e.args[0].slice, ast.Slice)
                and e.args[0].slice.step is None and e.args[0].slice.lower is not None and e.args[0].slice.upper is not None)

    def _raw(self, e):
        if isinstance(e, ast.Name):
            if self.types.get(e.id, "").startswith("Arr "):
                raise Unsupported("an array used as a value")
            return nm(e.id)
        if isinstance(e, ast.Call) and isinstance(e.func, ast.Name) and e.func.id in CALLABLE:
            lean, argt, _ = CALLABLE[e.func.id]
            if len(e.args) != len(argt) or e.keywords:
                raise Unsupported("call arity")
            return f"(← {lean} " + " ".join(self.expr(a, t) for a, t in zip(e.args, argt)) + ")"
        if self._is_range(e):
            lo = "0" if len(e.args) == 1 else self.expr(e.args[0], "Nat")
            hi = self.expr(e.args[-1], "Nat")
            return f"(List.range' {lo} ({hi} - {lo}))"
        if self._is_np_array_of_list(e) is not None and self._is_drop_last_reversed(e) is None:
            return self._raw(self._is_np_array_of_list(e))
        if self._is_argmax_slice(e):
            a = e.args[0]
            return f"(← pyArgmaxSlice {nm(a.value.id)} {nm(a.value.id)}_n {self.expr(a.slice.lower, 'Nat')} {self.expr(a.slice.upper, 'Nat')})"
        if isinstance(e, ast.Subscript) and isinstance(e.value, ast.Name) and isinstance(e.slice, ast.Constant) \
                and isinstance(e.slice.value, int) and self._ty(e.value.id).startswith("("):
            k = len(_split_prod(self._ty(e.value.id)))
            i = e.slice.value
            if not 0 <= i < k:
                raise Unsupported("tuple index")
            return f"{nm(e.value.id)}" + ".2" * i + (".1" if i < k - 1 else "")
        if isinstance(e, ast.Compare) and len(e.ops) == 1 and isinstance(e.left, ast.Name) and self.types.get(e.left.id, "").startswith("Arr "):
            # elementwise comparison of an array with a scalar: the list of truth values
            el = self.types[e.left.id][4:]
            b = e.comparators[0]
            if not (isinstance(b, ast.Name) and self._ty(b.id) == el):
                raise Unsupported("array compared with a non-scalar")
            a = nm(e.left.id)
            rel = {ast.Gt: f"{nm(b.id)} < {a} t", ast.Lt: f"{a} t < {nm(b.id)}"}.get(type(e.ops[0]))
            if rel is None:
                raise Unsupported("elementwise comparison " + type(e.ops[0]).__name__)
            return f"((List.range {a}_n).map (fun t => decide ({rel})))"
        if isinstance(e, ast.Constant):
            if e.value is None:
                return "none"
            if isinstance(e.value, bool):
                return "true" if e.value else "false"
            if isinstance(e.value, int) and e.value >= 0:
                return str(e.value)
            raise Unsupported("constant " + repr(e.value))
        if isinstance(e, ast.Call) and isinstance(e.func, ast.Name) and e.func.id == "len" and len(e.args) == 1:
            if isinstance(e.args[0], ast.Name) and self.types.get(e.args[0].id, "").startswith("Arr "):
                return f"{nm(e.args[0].id)}_n"
            return f"{self.expr(e.args[0])}.length"
        if isinstance(e, ast.BoolOp):
            op = " && " if isinstance(e.op, ast.And) else " || "
            return "(" + op.join(self.expr(v, "Bool") for v in e.values) + ")"
        if isinstance(e, ast.UnaryOp) and isinstance(e.op, ast.Not):
            return f"(!{self.expr(e.operand, 'Bool')})"
        if isinstance(e, ast.Compare) and len(e.ops) == 1:
            a, op, b = e.left, e.ops[0], e.comparators[0]
            if isinstance(b, ast.Constant) and b.value is None and isinstance(op, (ast.Is, ast.IsNot)):
                if self.typeof(a) != OPT:
                    raise Unsupported("`is None` on a non-optional")
                return f"{self.expr(a)}.{'isNone' if isinstance(op, ast.Is) else 'isSome'}"
            rel = {ast.Lt: "<", ast.LtE: "≤", ast.Gt: ">", ast.GtE: "≥", ast.Eq: "=", ast.NotEq: "≠"}.get(type(op))
            if rel is None:
                raise Unsupported("comparison " + type(op).__name__)
            num = "Int" if "Int" in (self.typeof(a), self.typeof(b)) else "Nat"
            return f"(decide ({self.expr(a, num)} {rel} {self.expr(b, num)}))"
        if isinstance(e, ast.Subscript) and isinstance(e.value, ast.Name) and self.types.get(e.value.id, "").startswith("Arr ") \
                and not isinstance(e.slice, ast.Slice):
            a = nm(e.value.id)
            return f"(← pyIndex {a} {a}_n {self.expr(e.slice, 'Int')})"
        if self._is_drop_last_reversed(e) is not None:
            return f"{nm(self._is_drop_last_reversed(e))}.dropLast.reverse"
        if isinstance(e, ast.BinOp) and self.typeof(e) == "Int":
            return self.expr(e, "Int")
        if isinstance(e, ast.BinOp):
            a, b = self.expr(e.left, "Nat"), self.expr(e.right, "Nat")
            if isinstance(e.op, ast.Add):
                return f"({a} + {b})"
            if isinstance(e.op, ast.Mult):
                return f"({a} * {b})"
            if isinstance(e.op, ast.Sub):
                return f"(← pySub {a} {b})"
            raise Unsupported("operator " + type(e.op).__name__)
        if isinstance(e, ast.Tuple):
            return "(" + ", ".join(self.expr(x) for x in e.elts) + ")"
        raise Unsupported("expression " + type(e).__name__)

    # ---- statements --------------------------------------------------------------------------
    def assigned(self, stmts):
        out = []
        for st in stmts:
            for n in ast.walk(st):
                if isinstance(n, ast.Assign):
                    for t in n.targets:
                        for x in (t.elts if isinstance(t, ast.Tuple) else [t]):
                            if isinstance(x, ast.Name) and x.id not in out:
                                out.append(x.id)
                if (isinstance(n, ast.Call) and isinstance(n.func, ast.Attribute) and n.func.attr == "append"
                        and isinstance(n.func.value, ast.Name) and n.func.value.id not in out):
                    out.append(n.func.value.id)
        return out

    def stmts(self, body, ind, state, declared):
        """Lean do-block lines for a statement list; `state` = tuple of mutable variables threaded through loops"""
        out = []
        pad = "  " * ind
        for st in body:
            if isinstance(st, ast.Expr) and isinstance(st.value, ast.Constant):
                continue
            if isinstance(st, ast.Assign) and len(st.targets) == 1:
                t, v = st.targets[0], st.value
                pairs = list(zip(t.elts, v.elts)) if isinstance(t, ast.Tuple) and isinstance(v, ast.Tuple) and len(t.elts) == len(v.elts) \
                    else [(t, v)] if isinstance(t, ast.Name) else None
                if pairs is None or not all(isinstance(a, ast.Name) for a, _ in pairs):
                    raise Unsupported("assignment target")
                if len(pairs) > 1:
                    # Python evaluates the whole right-hand side first
                    tmp = [f"tmp{self.k}_{j}" for j in range(len(pairs))]
                    self.k += 1
                    for (a, b), tn in zip(pairs, tmp):
                        out.append(f"{pad}let {tn} : {self._ty(a.id)} := {self.expr(b, self._ty(a.id))}")
                    for (a, _), tn in zip(pairs, tmp):
                        out.append(self._set(pad, a.id, tn, declared))
                else:
                    a, b = pairs[0]
                    if isinstance(b, ast.List) and not b.elts:
                        out.append(self._set(pad, a.id, "[]", declared))
                    else:
                        out.append(self._set(pad, a.id, self.expr(b, self._ty(a.id)), declared))
            elif (isinstance(st, ast.Expr) and isinstance(st.value, ast.Call) and isinstance(st.value.func, ast.Attribute)
                  and st.value.func.attr == "append" and isinstance(st.value.func.value, ast.Name) and len(st.value.args) == 1):
                x = st.value.func.value.id
                ty = self._ty(x)
                if not ty.startswith("List "):
                    raise Unsupported("append to a non-list")
                el = ty[5:].strip()
                out.append(self._set(pad, x, f"{nm(x)} ++ [{self.expr(st.value.args[0], el)}]", declared))
            elif isinstance(st, ast.If):
                out.append(f"{pad}if {self.expr(st.test, 'Bool')} then")
                out += self.stmts(st.body, ind + 1, state, declared) or [f"{pad}  pure ()"]
                if st.orelse:
                    if len(st.orelse) == 1 and isinstance(st.orelse[0], ast.If):
                        sub = self.stmts(st.orelse, ind, state, declared)
                        out.append(f"{pad}else " + sub[0].lstrip())
                        out += sub[1:]
                    else:
                        out.append(f"{pad}else")
                        out += self.stmts(st.orelse, ind + 1, state, declared)
            elif isinstance(st, ast.For):
                if st.orelse:
                    raise Unsupported("for-else")
                if any(isinstance(n, (ast.While, ast.Break, ast.Continue, ast.Return)) for b in st.body for n in ast.walk(b)):
                    raise Unsupported("while / break / continue / return inside a for loop")
                k = self.kl
                self.kl += 1
                it, tg = st.iter, st.target
                enum = isinstance(it, ast.Call) and isinstance(it.func, ast.Name) and it.func.id == "enumerate" and len(it.args) == 1
                seq = it.args[0] if enum else it
                sty = self.typeof(seq)
                if not sty.startswith("List "):
                    raise Unsupported("loop over a non-list")
                el = sty[5:].strip()
                if enum:
                    if not (isinstance(tg, ast.Tuple) and len(tg.elts) == 2 and all(isinstance(x, ast.Name) for x in tg.elts)):
                        raise Unsupported("enumerate target")
                    iv, vv = tg.elts[0].id, tg.elts[1].id
                else:
                    if not isinstance(tg, ast.Name):
                        raise Unsupported("loop target")
                    iv, vv = None, tg.id
                self.types.setdefault(vv, el)
                if iv:
                    self.types.setdefault(iv, "Nat")
                # variables that live inside this loop body only (assigned there, never mentioned outside the loop)
                outside = set()
                for other in self.fn.body:
                    for n in ast.walk(other):
                        if n is st:
                            continue
                    if other is not st:
                        outside |= {x.id for x in ast.walk(other) if isinstance(x, ast.Name)}
                local = [v for v in self.assigned(st.body) if v not in outside and v not in (iv, vv)] if st in self.fn.body else []
                inner_targets = {x.id for b in st.body for n in ast.walk(b) if isinstance(n, ast.For) for x in ast.walk(n.target)
                                 if isinstance(x, ast.Name)}
                state = [v for v in state if v not in local and v not in inner_targets]
                missing = [v for v in state if v not in declared]
                if missing:
                    raise Unsupported(f"loop state variable(s) {missing} not initialised before the loop")
                sty_t = " × ".join(self._ty(v) for v in state)
                pat = ", ".join(nm(v) for v in state)
                args = self.psig() + " " + (f"({nm(iv)} : Nat) " if iv else "") + f"({nm(vv)} : {el}) " + " ".join(f"({nm(v)}0 : {self._ty(v)})" for v in state)
                inner_declared = set(state)
                body = [f"  let mut {nm(v)} := {nm(v)}0" for v in state]
                saved = list(self.extra)
                self.extra = saved + ([(iv, "Nat")] if iv else []) + [(vv, el)]
                try:
                    inner = self.stmts(st.body, 1, state, inner_declared)
                finally:
                    self.extra = saved
                body += inner
                body.append(f"  return ({pat})")
                self.aux.append(f"def {self.lean}body{k} {args} : Option ({sty_t}) := do\n" + "\n".join(body))
                pa = self.pargs()
                call = f"{self.lean}body{k} {pa} " + (f"{nm(iv)} " if iv else "") + f"{nm(vv)} " + " ".join(nm(v) for v in state)
                if iv:
                    self.aux.append(
                        f"def {self.lean}loop{k} {self.psig()} : List {el} → Nat → ({sty_t}) → Option ({sty_t})\n"
                        f"  | [], _, st => some st\n"
                        f"  | {nm(vv)} :: rest, {nm(iv)}, ({pat}) => ({call}).bind (fun st => {self.lean}loop{k} {pa} rest ({nm(iv)} + 1) st)")
                    out.append(f"{pad}({pat}) ← {self.lean}loop{k} {pa} {self.expr(seq)} 0 ({pat})")
                else:
                    self.aux.append(
                        f"def {self.lean}loop{k} {self.psig()} : List {el} → ({sty_t}) → Option ({sty_t})\n"
                        f"  | [], st => some st\n"
                        f"  | {nm(vv)} :: rest, ({pat}) => ({call}).bind (fun st => {self.lean}loop{k} {pa} rest st)")
                    out.append(f"{pad}({pat}) ← {self.lean}loop{k} {pa} {self.expr(seq)} ({pat})")
            elif isinstance(st, ast.While):
                if st.orelse or "__fuel__" not in self.types:
                    raise Unsupported("while loop without an iteration bound annotation")
                if any(isinstance(n, (ast.For, ast.While, ast.Break, ast.Continue, ast.Return)) for b in st.body for n in ast.walk(b)):
                    raise Unsupported("nested loop / break / continue / return inside a loop")
                k = self.kl
                self.kl += 1
                outside = set()
                for other in self.fn.body:
                    if other is not st:
                        outside |= {x.id for x in ast.walk(other) if isinstance(x, ast.Name)}
                outside |= {x.id for x in ast.walk(st.test) if isinstance(x, ast.Name)}
                local = [v for v in self.assigned(st.body) if v not in outside]
                state = [v for v in state if v not in local]
                missing = [v for v in state if v not in declared]
                if missing:
                    raise Unsupported(f"loop state variable(s) {missing} not initialised before the loop")
                sty_t = " × ".join(self._ty(v) for v in state)
                pat = ", ".join(nm(v) for v in state)
                pa = self.pargs()
                body = [f"  let mut {nm(v)} := {nm(v)}0" for v in state]
                body += self.stmts(st.body, 1, state, set(state))
                body.append(f"  return ({pat})")
                self.aux.append(f"def {self.lean}body{k} {self.psig()} " + " ".join(f"({nm(v)}0 : {self._ty(v)})" for v in state)
                                + f" : Option ({sty_t}) := do\n" + "\n".join(body))
                self.aux.append(
                    f"def {self.lean}loop{k} {self.psig()} : Nat → ({sty_t}) → Option ({sty_t})\n"
                    f"  | 0, _ => none\n"
                    f"  | fuel + 1, ({pat}) => if {self.expr(st.test, 'Bool')} then\n"
                    f"      ({self.lean}body{k} {pa} " + " ".join(nm(v) for v in state) + f").bind (fun st => {self.lean}loop{k} {pa} fuel st)\n"
                    f"    else some ({pat})")
                out.append(f"{pad}({pat}) ← {self.lean}loop{k} {pa} ({self.types['__fuel__']}) ({pat})")
            elif isinstance(st, ast.Return):
                out.append(f"{pad}return {self.expr(st.value, self.rettype)}")
            else:
                raise Unsupported(type(st).__name__ + " statement")
        return out

    def _ty(self, x):
        if x not in self.types:
            raise Unsupported(f"no type annotation for {x}")
        return self.types[x]

    def _set(self, pad, x, rhs, declared):
        if x in declared:
            return f"{pad}{nm(x)} := {rhs}"
        declared.add(x)
        return f"{pad}let mut {nm(x)} : {self._ty(x)} := {rhs}"

    def function(self):
        fn = self.fn
        pnames = [a.arg for a in fn.args.args]
        if pnames != [p for p, _ in self.params] or fn.args.vararg or fn.args.kwarg or fn.args.kwonlyargs:
            raise Unsupported(f"parameters {pnames} differ from the expected {[p for p, _ in self.params]}")
        body = [st for st in fn.body if not (isinstance(st, ast.Expr) and isinstance(st.value, ast.Constant))]
        if not body or not isinstance(body[-1], ast.Return) or any(isinstance(n, ast.Return) for st in body[:-1] for n in ast.walk(st)):
            raise Unsupported("exactly one return, as the last statement, is required")
        state = [v for v in self.assigned(body) if v not in pnames]
        for st in body:
            if isinstance(st, ast.For):
                tnames = [x.id for x in ast.walk(st.target) if isinstance(x, ast.Name)]
                state = [v for v in state if v not in tnames]
        lines = self.stmts(body, 1, state, set())
        main = f"def {self.name} {self.psig()} : Option ({self.rettype}) := do\n" + "\n".join(lines)
        return "\n\n".join(self.aux + [main])


def _split_prod(t):
    t = t.strip()
    if t.startswith("(") and t.endswith(")"):
        t = t[1:-1]
    parts, depth, cur = [], 0, ""
    for ch in t:
        if ch == "(":
            depth += 1
        if ch == ")":
            depth -= 1
        if ch == "×" and depth == 0:
            parts.append(cur.strip())
            cur = ""
        else:
            cur += ch
    parts.append(cur.strip())
    return parts


PRELUDE = """/-- first position of the maximum of `a` on `[i, i+len)` given the best so far `b` -/
def pyArgmaxFrom {α : Type} [LT α] [DecidableLT α] (a : Nat → α) : Nat → Nat → Nat → Nat
  | _, 0, b => b
  | i, len + 1, b => if a b < a i then pyArgmaxFrom a (i + 1) len i else pyArgmaxFrom a (i + 1) len b

/-- `np.argmax(a[lo:hi])` for an array of length `n`: the position, relative to `lo`, of the first maximum of the slice
    (the slice is clipped to the array); numpy raises on an empty slice -/
def pyArgmaxSlice {α : Type} [LT α] [DecidableLT α] (a : Nat → α) (n lo hi : Nat) : Option Nat :=
  if lo < min hi n then some (pyArgmaxFrom a (lo + 1) (min hi n - lo - 1) lo - lo) else none

/-- `a[i]` for an array of length `n` and a Python int `i`: a negative index (which Python would wrap) or one past the end
    leaves the modelled subset -/
def pyIndex {α : Type} (a : Nat → α) (n : Nat) (i : Int) : Option α :=
  if 0 ≤ i ∧ i < (n : Int) then some (a i.toNat) else none

/-- Python `a - b` on non-negative ints, read as naturals: a negative result leaves the modelled subset -/
def pySub (a b : Nat) : Option Nat := if b ≤ a then some (a - b) else none
"""


def stub(lean, params, rettype):
    f = Fn(lean, None, {}, params, rettype)
    return f"def {lean} {f.psig()} : Option ({rettype}) :=\n  none"


HEAD = ("/-! GENERATED by harness/translate_loops.py from /repo's working tree — do not edit. -/\n"
        "set_option linter.unusedVariables false\nnamespace Skc.GenL\n\n")
_ELAB = {}  # sha1 of a candidate definition -> does it elaborate (per process; translation units are tiny)


def elaborates(txt):
    """a reading that Lean's elaborator rejects (ill-typed under the annotations, a variable used out of its scope) must
    not break the build of the driver: such a kernel is reported `unsupported` instead"""
    import subprocess
    import tempfile

    key = hashlib.sha1(txt.encode()).hexdigest()
    if key not in _ELAB:
        with tempfile.NamedTemporaryFile("w", suffix=".lean", dir=os.path.join(core.LEAN), delete=False) as f:
            f.write(HEAD + PRELUDE + "\n" + txt + "\n\nend Skc.GenL\n")
            name = f.name
        try:
            r = subprocess.run(["lake", "env", "lean", name], cwd=core.LEAN, capture_output=True, text=True, timeout=300)
            _ELAB[key] = (r.returncode == 0, (r.stdout + r.stderr)[-300:])
        except Exception as ex:  # noqa: BLE001
            _ELAB[key] = (False, f"{type(ex).__name__}")
        finally:
            os.remove(name)
    return _ELAB[key]


def generate(repo=None):
    repo = repo or core.REPO
    status, parts = {}, []
    for lean, path, fname, types, params, rettype in SPECS:
        key = "loop_" + lean.rstrip("_")
        try:
            src = open(os.path.join(repo, path)).read()
            tree = ast.parse(src)
            fn = next((n for n in tree.body if isinstance(n, ast.FunctionDef) and n.name == fname), None)
            if fn is None:
                raise Unsupported(f"function {fname} not found")
            seg = ast.get_source_segment(src, fn) or ""
            txt = Fn(lean, fn, types, params, rettype).function()
            ok, log = elaborates("\n\n".join(parts_ok(parts)) + "\n\n" + txt)
            if not ok:
                raise Unsupported("the translation does not elaborate under the type annotations: " + log.replace("\n", " ")[-160:])
            parts.append(f"-- from {path}::{fname}\n" + txt)
            status[key] = {"state": "translated", "source_sha1": hashlib.sha1(seg.encode()).hexdigest()[:12]}
        except (Unsupported, OSError, SyntaxError) as ex:
            status[key] = {"state": "unsupported", "reason": f"{type(ex).__name__}: {ex}"[:300]}
            parts.append(stub(lean, params, rettype))
    sup = "\n".join(f"def {k}_translated : Bool := {'true' if v['state'] == 'translated' else 'false'}" for k, v in status.items())
    src = HEAD + PRELUDE + "\n" + "\n\n".join(parts) + "\n\n" + sup + "\n\nend Skc.GenL\n"
    return src, status


def parts_ok(parts):
    return list(parts)


if __name__ == "__main__":
    s, st = generate()
    print(s)
    print(st)
