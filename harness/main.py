"""./check <Cxx> [--tier quick|thorough] [--replay <file>]

exit 0: the property held on everything explored (KNOWN-FINDING lines are informational);
exit 1: `VIOLATION property=<id> replay=<path>` printed;
exit 2: infrastructure failure (never a VIOLATION line)."""
import argparse
import importlib
import os
import sys
import traceback

from . import core


def main():
    ap = argparse.ArgumentParser()
    ap.add_argument("prop")
    ap.add_argument("--tier", default=os.environ.get("VERIF_TIER") or "quick", choices=["quick", "thorough"])
    ap.add_argument("--replay")
    a = ap.parse_args()
    try:
        seed = int(os.environ.get("VERIF_SEED", "0") or 0)
    except ValueError:
        seed = 0
    try:
        core.use_repo()
        mod = importlib.import_module(f"harness.props.{a.prop.lower()}")
        if a.replay:
            return mod.replay(a.replay)
        chk = core.Check(a.prop, a.tier, seed)
        status = mod.run(chk)
        st = {k: v.get("cases") for k, v in chk.streams.items()}
        print(f"{a.prop} tier={a.tier} seed={seed}: obligations {len(chk.discharged)}/{len(chk.obligations)} discharged, "
              f"cases {st}, wall {round(__import__('time').time() - chk.t0, 1)} s, exit {status}")
        return status
    except core.Infra as ex:
        print(f"INFRASTRUCTURE FAILURE ({a.prop}): {ex}", file=sys.stderr)
        return 2
    except Exception:
        traceback.print_exc()
        print(f"INFRASTRUCTURE FAILURE ({a.prop}): unexpected exception in the harness", file=sys.stderr)
        return 2


if __name__ == "__main__":
    sys.exit(main())
