"""./check <Cxx> [--tier quick|thorough] [--replay <file>]

exit 0: the property held on everything explored (KNOWN-FINDING lines are informational);
exit 1: `VIOLATION property=<id> replay=<path>` printed;
exit 2: infrastructure failure (never a VIOLATION line)."""
import argparse
import importlib
import os
import sys
import traceback

from . import core


def main():
    ap = argparse.ArgumentParser()
    ap.add_argument("prop")
    ap.add_argument("--tier", default=os.environ.get("VERIF_TIER") or "quick", choices=["quick", "thorough"])
    ap.add_argument("--replay")
    a = ap.parse_args()
    try:
        seed = int(os.environ.get("VERIF_SEED", "0") or 0)
    except ValueError:
        seed = 0
    # an infrastructure failure (a build or worker process killed under memory pressure, a lock held too long) is retried
    # once after a pause before it is reported; it never turns into a VIOLATION line
    for attempt in (1, 2):
        try:
            core.use_repo()
            mod = importlib.import_module(f"harness.props.{a.prop.lower()}")
            if a.replay:
                return mod.replay(a.replay)
            chk = core.Check(a.prop, a.tier, seed)
            status = mod.run(chk)
            st = {k: v.get("cases") for k, v in chk.streams.items()}
            print(f"{a.prop} tier={a.tier} seed={seed}: obligations {len(chk.discharged)}/{len(chk.obligations)} discharged, "
                  f"cases {st}, wall {round(__import__('time').time() - chk.t0, 1)} s, exit {status}")
            return status
        except core.Infra as ex:
            print(f"INFRASTRUCTURE FAILURE ({a.prop}, attempt {attempt}): {ex}", file=sys.stderr)
        except Exception:
            traceback.print_exc()
            print(f"INFRASTRUCTURE FAILURE ({a.prop}, attempt {attempt}): unexpected exception in the harness", file=sys.stderr)
        if attempt == 1 and not a.replay:
            __import__("time").sleep(20)
    return 2


if __name__ == "__main__":
    sys.exit(main())
