"""Route T — Python-AST → Lean translator for the closed-form score kernels and the penalty /
threshold formulas of /repo (run on every check that depends on them).

What is translated: straight-line functions (assignments of arithmetic expressions to names and one
`return`) over `+ - * /`, integer powers, unary minus, `np.log / np.sqrt / np.abs / np.pi`, int and
float literals (floats become exact rationals), `table[index_vector]` look-ups in prefix-sum tables,
`.reshape(-1, 1)` (identity per element), calls of already translated functions, `truncate_below(x, c)`
(↦ `max x c`), and tuple returns `(expr, np.zeros(p) | np.full(p, expr))` (↦ `<name>_alpha`, `<name>_beta`).

The translation is *per output element*: an index vector becomes one `Nat`, a prefix-sum table one
column `Nat → R`, a per-column parameter one scalar.  That reading of NumPy broadcasting is the
trusted part; it is validated on every run by evaluating the `Float` instantiation through the driver
against `scorer.evaluate` on random matrices (harness/props/c01.py).

Outputs (written atomically, only when the content changes):
  lean/Skc/Gen/KernelsReal.lean   definitions over ℝ, used by the L1 theorems (Skc/L1/*.lean)
  lean/Skc/Gen/KernelsFloat.lean  the same definitions over Float, used by the driver
  lean/Skc/Gen/status.json        per kernel: translated | unsupported (+ reason) and a source hash
Anything outside the subset makes that kernel `unsupported`: its L1 obligations are skipped and the
property falls back to the numeric correspondence (route K) for that kernel."""
from __future__ import annotations

import ast
import hashlib
import json
import os
from fractions import Fraction

from . import core

IDX = ["starts", "ends", "splits"]  # per-row index vectors → Nat
TAB = ["sums", "sums2"]  # prefix-sum tables → Nat → R
# canonical parameter order of the generated definitions (independent of the Python order)
ORDER = IDX + TAB + ["mean", "var", "n", "p", "n_params", "n_params_per_variable", "max_interval_length", "bandwidth",
                     "level", "scale"]

# lean name, file, python function name, class name (or None)
SPECS = [
    ("l2_cost_optim", "skchange/costs/l2_cost.py", "l2_cost_optim", None),
    ("l2_cost_fixed", "skchange/costs/l2_cost.py", "l2_cost_fixed", None),
    ("var_from_sums", "skchange/costs/gaussian_var_cost.py", "var_from_sums", None),
    ("gaussian_var_cost_optim", "skchange/costs/gaussian_var_cost.py", "gaussian_var_cost_optim", None),
    ("gaussian_var_cost_fixed", "skchange/costs/gaussian_var_cost.py", "gaussian_var_cost_fixed", None),
    ("cusum_score", "skchange/change_scores/cusum.py", "cusum_score", None),
    ("l2_saving", "skchange/anomaly_scores/l2_saving.py", "l2_saving", None),
    ("capa_penalty", "skchange/anomaly_detectors/mvcapa.py", "capa_penalty", None),
    ("dense_mvcapa_penalty", "skchange/anomaly_detectors/mvcapa.py", "dense_mvcapa_penalty", None),
    ("sparse_mvcapa_penalty", "skchange/anomaly_detectors/mvcapa.py", "sparse_mvcapa_penalty", None),
    ("pelt_default_penalty", "skchange/change_detectors/pelt.py", "get_default_penalty", "PELT"),
    ("sbs_default_threshold", "skchange/change_detectors/seeded_binseg.py", "get_default_threshold", "SeededBinarySegmentation"),
    ("cbs_default_threshold", "skchange/anomaly_detectors/circular_binseg.py", "get_default_threshold", "CircularBinarySegmentation"),
    ("mw_default_threshold", "skchange/change_detectors/moving_window.py", "get_default_threshold", "MovingWindow"),
]
# signature every generated definition must have (canonical order); a kernel whose Python
# parameters differ is `unsupported` rather than silently re-bound
SIGS = {
    "l2_cost_optim": ["starts", "ends", "sums", "sums2"],
    "l2_cost_fixed": ["starts", "ends", "sums", "sums2", "mean"],
    "var_from_sums": ["starts", "ends", "sums", "sums2"],
    "gaussian_var_cost_optim": ["starts", "ends", "sums", "sums2"],
    "gaussian_var_cost_fixed": ["starts", "ends", "sums", "sums2", "mean", "var"],
    "cusum_score": ["starts", "ends", "splits", "sums"],
    "l2_saving": ["starts", "ends", "sums"],
    "capa_penalty": ["n", "n_params", "scale"],
    "dense_mvcapa_penalty": ["n", "p", "n_params_per_variable", "scale"],
    "sparse_mvcapa_penalty": ["n", "p", "n_params_per_variable", "scale"],
    "pelt_default_penalty": ["n", "p"],
    "sbs_default_threshold": ["n", "p"],
    "cbs_default_threshold": ["n", "p", "max_interval_length"],
    "mw_default_threshold": ["n", "p", "bandwidth", "level"],
}
TUPLE = {"dense_mvcapa_penalty", "sparse_mvcapa_penalty"}


class Unsupported(Exception):
    pass


class Dialect:
    def __init__(self, real: bool):
        self.real = real
        self.R = "ℝ" if real else "Float"

    def lit_int(self, v):
        return f"({v} : {self.R})" if v >= 0 else f"(-({-v} : {self.R}))"

    def lit_float(self, v):
        fr = Fraction(repr(v)) if not float(v).is_integer() else Fraction(int(v))
        if self.real:
            return f"(({fr.numerator} : ℝ) / {fr.denominator})"
        return f"(({fr.numerator} : Float) / ({fr.denominator} : Float))"

    def idx(self, name):
        return f"(({name} : Nat) : ℝ)" if self.real else f"({name}.toFloat)"

    def fn(self, name):
        if self.real:
            return {"log": "Real.log", "sqrt": "Real.sqrt", "abs": "abs"}[name]
        return {"log": "Float.log", "sqrt": "Float.sqrt", "abs": "Float.abs"}[name]

    def pi(self):
        return "Real.pi" if self.real else "(3.141592653589793 : Float)"

    def maxf(self, a, b):
        return f"(max {a} {b})" if self.real else f"(if {a} < {b} then {b} else {a})"

    def pow(self, a, k):
        if self.real:
            return f"({a} ^ {k})"
        if k == 2:
            return f"({a} * {a})"
        return f"(Float.pow {a} ({k} : Float))"


def _find(tree, fname, cls):
    scope = tree
    if cls:
        scope = next((n for n in ast.walk(tree) if isinstance(n, ast.ClassDef) and n.name == cls), None)
        if scope is None:
            raise Unsupported(f"class {cls} not found")
    fn = next((n for n in ast.walk(scope) if isinstance(n, ast.FunctionDef) and n.name == fname), None)
    if fn is None:
        raise Unsupported(f"function {fname} not found")
    return fn


class Translator:
    def __init__(self, d: Dialect, known: dict):
        self.d = d
        self.known = known  # lean name -> python parameter list (python order), for calls
        self.py2lean = {}  # python function name -> lean name (for module-level kernels)

    def expr(self, e, locals_):
        d = self.d
        if isinstance(e, ast.Constant):
            if isinstance(e.value, bool):
                raise Unsupported("bool literal")
            if isinstance(e.value, int):
                return d.lit_int(e.value)
            if isinstance(e.value, float):
                return d.lit_float(e.value)
            raise Unsupported(f"literal {e.value!r}")
        if isinstance(e, ast.Name):
            if e.id in IDX:
                return d.idx(e.id)
            if e.id in TAB:
                raise Unsupported(f"table {e.id} used as a value")
            if e.id in locals_:
                return e.id
            raise Unsupported(f"unknown name {e.id}")
        if isinstance(e, ast.BinOp):
            if isinstance(e.op, ast.Pow):
                if isinstance(e.right, ast.Constant) and isinstance(e.right.value, int) and 0 <= e.right.value <= 4:
                    return d.pow(self.expr(e.left, locals_), e.right.value)
                raise Unsupported("non-literal power")
            op = {ast.Add: "+", ast.Sub: "-", ast.Mult: "*", ast.Div: "/"}.get(type(e.op))
            if not op:
                raise Unsupported(f"operator {type(e.op).__name__}")
            return f"({self.expr(e.left, locals_)} {op} {self.expr(e.right, locals_)})"
        if isinstance(e, ast.UnaryOp) and isinstance(e.op, ast.USub):
            return f"(-{self.expr(e.operand, locals_)})"
        if isinstance(e, ast.Subscript):
            if isinstance(e.value, ast.Name) and e.value.id in TAB and isinstance(e.slice, ast.Name) and e.slice.id in IDX:
                return f"({e.value.id} {e.slice.id})"
            raise Unsupported("subscript other than table[index_vector]")
        if isinstance(e, ast.Attribute):
            if isinstance(e.value, ast.Name) and e.value.id == "np" and e.attr == "pi":
                return d.pi()
            raise Unsupported(f"attribute {e.attr}")
        if isinstance(e, ast.Call):
            f = e.func
            if e.keywords:
                raise Unsupported("keyword arguments")
            if isinstance(f, ast.Attribute) and f.attr == "reshape":
                a = e.args
                if len(a) == 2 and isinstance(a[0], ast.UnaryOp) and isinstance(a[0].op, ast.USub) and \
                        isinstance(a[0].operand, ast.Constant) and a[0].operand.value == 1 and \
                        isinstance(a[1], ast.Constant) and a[1].value == 1:
                    return self.expr(f.value, locals_)  # column-vector reshape: identity per element
                raise Unsupported("reshape other than (-1, 1)")
            if isinstance(f, ast.Attribute) and isinstance(f.value, ast.Name) and f.value.id == "np":
                if f.attr in ("log", "sqrt", "abs") and len(e.args) == 1:
                    return f"({d.fn(f.attr)} {self.expr(e.args[0], locals_)})"
                raise Unsupported(f"np.{f.attr}")
            if isinstance(f, ast.Name) and f.id == "truncate_below" and len(e.args) == 2:
                return d.maxf(self.expr(e.args[0], locals_), self.expr(e.args[1], locals_))
            if isinstance(f, ast.Name) and f.id in self.py2lean:
                lean = self.py2lean[f.id]
                params = self.known[lean]
                if len(e.args) != len(params):
                    raise Unsupported(f"call of {f.id} with {len(e.args)} arguments")
                bound = {}
                for prm, a in zip(params, e.args):
                    if prm in IDX or prm in TAB:
                        if not (isinstance(a, ast.Name) and a.id == prm):
                            raise Unsupported(f"index/table argument {prm} of {f.id} is not passed through by name")
                        bound[prm] = prm
                    else:
                        bound[prm] = self.expr(a, locals_)
                return "(" + lean + " " + " ".join(bound[q] for q in SIGS[lean]) + ")"
            raise Unsupported("call " + ast.dump(f)[:60])
        raise Unsupported(type(e).__name__)

    def function(self, lean, fn):
        d = self.d
        params = [a.arg for a in fn.args.args if a.arg not in ("self", "cls")]
        if fn.args.vararg or fn.args.kwarg or fn.args.kwonlyargs:
            raise Unsupported("varargs")
        if sorted(params) != sorted(SIGS[lean]):
            raise Unsupported(f"parameters {params} differ from the expected {SIGS[lean]}")
        sig = " ".join(f"({a} : Nat)" if a in IDX else f"({a} : Nat → {d.R})" if a in TAB else f"({a} : {d.R})" for a in SIGS[lean])
        locals_ = set(p for p in params if p not in IDX and p not in TAB)
        lets, ret = [], None
        for st in fn.body:
            if isinstance(st, ast.Expr) and isinstance(st.value, ast.Constant):
                continue  # docstring
            if ret is not None:
                raise Unsupported("statement after return")
            if isinstance(st, ast.Assign) and len(st.targets) == 1 and isinstance(st.targets[0], ast.Name):
                name = st.targets[0].id
                if name in IDX or name in TAB:
                    raise Unsupported(f"assignment to {name}")
                lets.append(f"  let {name} := {self.expr(st.value, locals_)}")
                locals_.add(name)
            elif isinstance(st, ast.Return):
                ret = st.value
            else:
                raise Unsupported(type(st).__name__ + " statement")
        if ret is None:
            raise Unsupported("no return")
        kw = "noncomputable def" if d.real else "def"
        out = []
        if lean in TUPLE:
            if not (isinstance(ret, ast.Tuple) and len(ret.elts) == 2):
                raise Unsupported("expected a (alpha, betas) tuple")
            a, b = ret.elts
            if not (isinstance(b, ast.Call) and isinstance(b.func, ast.Attribute) and isinstance(b.func.value, ast.Name)
                    and b.func.value.id == "np" and b.func.attr in ("zeros", "full") and isinstance(b.args[0], ast.Name)
                    and b.args[0].id == "p"):
                raise Unsupported("betas are not np.zeros(p) / np.full(p, x)")
            beta = d.lit_int(0) if b.func.attr == "zeros" else self.expr(b.args[1], locals_)
            out.append(f"{kw} {lean}_alpha {sig} : {d.R} :=\n" + "\n".join(lets + ["  " + self.expr(a, locals_)]))
            out.append(f"{kw} {lean}_beta {sig} : {d.R} :=\n" + "\n".join(lets + ["  " + beta]))
        else:
            out.append(f"{kw} {lean} {sig} : {d.R} :=\n" + "\n".join(lets + ["  " + self.expr(ret, locals_)]))
        return "\n\n".join(out), params


def stub(lean, d: Dialect):
    sig = " ".join(f"({a} : Nat)" if a in IDX else f"({a} : Nat → {d.R})" if a in TAB else f"({a} : {d.R})" for a in SIGS[lean])
    names = [lean + "_alpha", lean + "_beta"] if lean in TUPLE else [lean]
    nan = "(0 : Float) / (0 : Float)"
    return "\n\n".join(f"def {nm} {sig} : Float :=\n  let _ := ({', '.join(SIGS[lean])})\n  {nan}" for nm in names)


def generate(repo=None):
    """returns (real_src, float_src, status)"""
    repo = repo or core.REPO
    status = {}
    real_parts, float_parts = [], []
    kr, kf = {}, {}
    tr_r, tr_f = Translator(Dialect(True), kr), Translator(Dialect(False), kf)
    for lean, path, fname, cls in SPECS:
        full = os.path.join(repo, path)
        try:
            src = open(full).read()
            fn = _find(ast.parse(src), fname, cls)
            seg = ast.get_source_segment(src, fn) or ""
            r_txt, params = tr_r.function(lean, fn)
            f_txt, _ = tr_f.function(lean, fn)
            kr[lean] = params
            kf[lean] = params
            if cls is None:
                tr_r.py2lean[fname] = lean
                tr_f.py2lean[fname] = lean
            real_parts.append(f"-- from {path}::{(cls + '.') if cls else ''}{fname}\n" + r_txt)
            float_parts.append(f_txt)
            status[lean] = {"state": "translated", "source_sha1": hashlib.sha1(seg.encode()).hexdigest()[:12]}
        except (Unsupported, OSError, SyntaxError, StopIteration) as ex:
            status[lean] = {"state": "unsupported", "reason": f"{type(ex).__name__}: {ex}"[:200]}
            float_parts.append(stub(lean, Dialect(False)))
    head = "/-! GENERATED by harness/translate.py from /repo's working tree — do not edit. -/\n"
    real_src = ("import Mathlib.Analysis.SpecialFunctions.Log.Basic\nimport Mathlib.Analysis.SpecialFunctions.Sqrt\n"
                "import Mathlib.Analysis.SpecialFunctions.Trigonometric.Basic\n" + head + "set_option linter.unusedVariables false\n"
                "namespace Skc.Gen\n\n"
                + "\n\n".join(real_parts) + "\n\nend Skc.Gen\n")
    sup = "\n".join(f"def {k}_translated : Bool := {'true' if v['state'] == 'translated' else 'false'}" for k, v in status.items())
    float_src = head + "set_option linter.unusedVariables false\nnamespace Skc.GenF\n\n" + "\n\n".join(float_parts) + "\n\n" + sup + "\n\nend Skc.GenF\n"
    return real_src, float_src, status


def _write_if_changed(path, txt):
    if os.path.exists(path) and open(path).read() == txt:
        return False
    tmp = path + f".{os.getpid()}.tmp"
    with open(tmp, "w") as f:
        f.write(txt)
    os.replace(tmp, path)
    return True


def run(repo=None):
    """regenerate the Gen files; call while holding core.LeanLock; returns the status dict"""
    from . import translate_loops
    real_src, float_src, status = generate(repo)
    loops_src, loops_status = translate_loops.generate(repo)  # route T2: imperative kernels
    status.update(loops_status)
    d = os.path.join(core.LEAN, "Skc", "Gen")
    os.makedirs(d, exist_ok=True)
    ch = [_write_if_changed(os.path.join(d, "KernelsReal.lean"), real_src),
          _write_if_changed(os.path.join(d, "KernelsFloat.lean"), float_src),
          _write_if_changed(os.path.join(d, "Loops.lean"), loops_src)]
    _write_if_changed(os.path.join(d, "status.json"), json.dumps(status, indent=1, sort_keys=True))
    return status, any(ch)


if __name__ == "__main__":
    with core.LeanLock():
        st, changed = run()
    print(json.dumps(st, indent=1), "changed:", changed)
