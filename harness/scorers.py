"""User-defined interval scorers used by the correspondence checks: integer-valued *table* scorers
(the properties quantify over them explicitly) and *hash* scorers whose value is a fixed integer
function of (seed, cut) that the Lean driver computes too.  All float operations on these values
are exact (small integers), so model and implementation can be compared without tolerance."""
from __future__ import annotations

import numpy as np

from . import core

core.use_repo()

from skchange.anomaly_scores.base import BaseLocalAnomalyScore, BaseSaving  # noqa: E402
from skchange.change_scores.base import BaseChangeScore  # noqa: E402
from skchange.costs.base import BaseCost  # noqa: E402
from skchange.utils.validation.data import as_2d_array  # noqa: E402


class TableCost(BaseCost):
    """cost(s, e) = table[s][e] (one output column)"""

    def __init__(self, param=None, table=None, msize=1, int_out=False):
        self.table = table
        self.msize = msize
        self.int_out = int_out  # a user cost may return an integer-typed array (counts): results must not depend on that
        super().__init__(param)

    @property
    def min_size(self):
        return self.msize

    def _fit(self, X, y=None):
        self._T = np.asarray(self.table, dtype=float)
        if self.int_out and np.all(self._T == np.round(self._T)):
            self._T = self._T.astype(np.int64)
        return self

    def _evaluate_optim_param(self, starts, ends):
        return self._T[starts, ends].reshape(-1, 1)

    _evaluate_fixed_param = _evaluate_optim_param


class TableSaving(BaseSaving):
    """saving(s, e)[j] = table[s][e][j]  (p output columns)"""

    def __init__(self, table=None, msize=1):
        self.table = table
        self.msize = msize
        super().__init__()

    @property
    def min_size(self):
        return self.msize

    def _fit(self, X, y=None):
        T = self.table
        n1 = len(T)
        p = next(len(v) for row in T for v in row if v is not None)
        A = np.zeros((n1, n1, p))
        for i, row in enumerate(T):
            for j, v in enumerate(row):
                if v is not None:
                    A[i, j] = v
        if (n1 + p) % 3 == 0 and np.all(A == np.round(A)):  # integer-typed output for a third of the (integral) tables
            A = A.astype(np.int64)
        self._T = A
        return self

    def _evaluate(self, cuts):
        return self._T[cuts[:, 0], cuts[:, 1]]


def hscore(seed: int, R: int, cut, neg: int = 0) -> int:
    """the shared pseudo-random integer score; identical definition in Driver.lean"""
    x = seed
    for v in cut:
        x = x * 64 + int(v)
    return ((x * 1103515245 + 12345) // 65536) % R - neg


class HashChangeScore(BaseChangeScore):
    def __init__(self, seed=0, R=5, msize=1, neg=0):
        self.seed = seed
        self.R = R
        self.msize = msize
        self.neg = neg
        super().__init__()

    @property
    def min_size(self):
        return self.msize

    def _fit(self, X, y=None):
        return self

    def _evaluate(self, cuts):
        # every third scorer returns an integer-typed array, as a user-defined count-based score might
        return np.array([[hscore(self.seed, self.R, c, self.neg)] for c in cuts], dtype=np.int64 if self.seed % 3 == 0 else float).reshape(-1, 1)


class HashLocalAnomalyScore(BaseLocalAnomalyScore):
    def __init__(self, seed=0, R=5, msize=1, neg=0):
        self.seed = seed
        self.R = R
        self.msize = msize
        self.neg = neg
        super().__init__()

    @property
    def min_size(self):
        return self.msize

    def _fit(self, X, y=None):
        return self

    def _evaluate(self, cuts):
        # every third scorer returns an integer-typed array, as a user-defined count-based score might
        return np.array([[hscore(self.seed, self.R, c, self.neg)] for c in cuts], dtype=np.int64 if self.seed % 3 == 0 else float).reshape(-1, 1)


class MultisetCost(BaseCost):
    """A user-defined cost with an extra hyper-parameter (`weight`) whose value is an integer function
    of the *multiset of rows* of the interval it is evaluated on.  Used to check that the adapters
    evaluate the cost on exactly the rows the definition names and keep its hyper-parameters (C06)."""

    def __init__(self, param=None, weight=1):
        self.weight = weight
        super().__init__(param)

    def _fit(self, X, y=None):
        self._A = as_2d_array(X).astype(float)
        return self

    @staticmethod
    def value(seg, weight, param):
        """the definition: seg = rows (k x p array); returns one value per column"""
        k = len(seg)
        v = weight * (3 * (seg ** 3).sum(axis=0) + 7 * (seg ** 2).sum(axis=0) + k * k)
        if param is not None:
            v = v + weight * (abs(param) * k + 5)
        return v

    def _evaluate_optim_param(self, starts, ends):
        return np.array([self.value(self._A[s:e], self.weight, None) for s, e in zip(starts, ends)]).reshape(len(starts), -1)

    def _evaluate_fixed_param(self, starts, ends):
        return np.array([self.value(self._A[s:e], self.weight, self.param) for s, e in zip(starts, ends)]).reshape(len(starts), -1)


from skchange.costs import L2Cost as _L2Cost  # noqa: E402


class QuarterL2Cost(_L2Cost):
    """a user-defined cost that SUBCLASSES a built-in one and changes its value (a quarter of the squared-error cost): code that
    special-cases built-in costs by isinstance must not treat it as the plain cost"""

    def _evaluate_optim_param(self, starts, ends):
        return super()._evaluate_optim_param(starts, ends) / 4.0

    def _evaluate_fixed_param(self, starts, ends):
        return super()._evaluate_fixed_param(starts, ends) / 4.0


def find_scale(K: float, d: float):
    """a float `s` with `s * d == K` exactly in float arithmetic, or None"""
    if K == 0:
        return 0.0
    if d == 0:
        return None
    s0 = K / d
    for k in range(0, 12):
        for sign in (1, -1):
            s = s0
            for _ in range(k):
                s = np.nextafter(s, np.inf if sign > 0 else -np.inf)
            if s * d == K:
                return float(s)
    return None


def tri_values(table, n):
    """row-major upper triangle (s < e <= n) of a table"""
    return [table[s][e] for s in range(n) for e in range(s + 1, n + 1)]


def superadditive_table(rng, n, slack, p_slack=0.6):
    """integer table with c(s,t) + c(t,e) <= c(s,e) for all s < t < e; slack 0 on many entries so
    that exact ties at the pruning boundary are frequent"""
    c = [[0] * (n + 1) for _ in range(n + 1)]
    for L in range(1, n + 1):
        for s in range(0, n - L + 1):
            e = s + L
            base = max([c[s][t] + c[t][e] for t in range(s + 1, e)], default=0)
            c[s][e] = base + (rng.randint(0, slack) if rng.random() < p_slack else 0)
    return c


def subadditive_table(rng, n, hi, p_tight=0.5):
    """non-negative integer table with c(s,e) <= c(s,t) + c(t,e) (savings)"""
    c = [[0] * (n + 1) for _ in range(n + 1)]
    for L in range(1, n + 1):
        for s in range(0, n - L + 1):
            e = s + L
            if L == 1:
                c[s][e] = rng.randint(0, hi)
            else:
                cap = min(c[s][t] + c[t][e] for t in range(s + 1, e))
                c[s][e] = cap if rng.random() < p_tight else rng.randint(0, cap)
    return c
