import Skc.Model.Basic
import Skc.Model.Pelt
import Skc.Lemmas.PeltInv
