import Skc.Model.Pelt
/-! Line-protocol driver over the executable models (`lake exe skcdrv` or
    `lake env lean --run Driver.lean`): one operation per input line, one canonical output line
    per operation; ill-formed lines answer `bad-op` (never a default). Carrier: `Rat`. -/
open Skc

def parseRat (w : String) : Option Rat :=
  match w.splitOn "/" with
  | [a] => a.toInt?.map (fun i => (i : Rat))
  | [a, b] => match a.toInt?, b.toInt? with
    | some x, some y => if y = 0 then none else some ((x : Rat) / (y : Rat))
    | _, _ => none
  | _ => none

def fmt (r : Rat) : String := if r.den = 1 then toString r.num else s!"{r.num}/{r.den}"
def fmtL (l : List Rat) : String := "[" ++ ", ".intercalate (l.map fmt) ++ "]"

/-- index of `(s,e)`, `s < e ≤ n`, in the row-major upper triangle -/
def triIdx (n s e : Nat) : Nat := s * n - s * (s - 1) / 2 + (e - s - 1)

def pickOf : String → Option ((Nat → Rat) → List Nat → Nat)
  | "first" => some argminL
  | "last" => some argminLast
  | _ => none
def prOf : String → Option (Rat → Rat → Bool)
  | "strict" => some prStrict
  | "nonstrict" => some (fun c b => decide (b ≤ c))
  | "never" => some (fun _ _ => false)
  | _ => none

/-- `pelt n m delay pick pr pen c(0,1) c(0,2) … c(n-1,n)` → `opt […] cps […]` -/
def handlePelt (ws : List String) : String :=
  match ws with
  | n :: m :: delay :: pick :: pr :: rest =>
    match n.toNat?, m.toNat?, delay.toNat?, pickOf pick, prOf pr, rest.mapM parseRat with
    | some n, some m, some delay, some pick, some pr, some (pen :: tbl) =>
      if tbl.length ≠ n * (n + 1) / 2 ∨ m = 0 ∨ n < 2 * m then "bad-op" else
      let arr := tbl.toArray
      let cost (s e : Nat) : Rat := arr.getD (triIdx n s e) 0
      let r := runPelt pick pr cost pen m delay n
      s!"opt {fmtL ((List.range n).map (fun i => r.1 (i + 1)))} cps {r.2}"
    | _, _, _, _, _, _ => "bad-op"
  | _ => "bad-op"

def handle (line : String) : String :=
  let ws := (line.trimAscii.toString.splitOn " ").filter (· ≠ "")
  match ws with
  | "pelt" :: rest => handlePelt rest
  | _ => "bad-op"

partial def loop (h : IO.FS.Stream) : IO Unit := do
  let line ← h.getLine
  if line.isEmpty then return ()
  IO.println (handle line)
  loop h

def main : IO Unit := do loop (← IO.getStdin)
