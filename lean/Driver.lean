import Skc.Model.Pelt
import Skc.Model.Capa
import Skc.Model.Pen
import Skc.Model.Det
import Skc.Model.Conv
import Skc.Model.Cuts
import Skc.Model.Anomaliser
import Skc.Model.Datagen
import Skc.Model.Config
import Skc.Gen.KernelsFloat
import Skc.Gen.Loops
/-! Line-protocol driver over the executable models (`lake exe skcdrv` or
    `lake env lean --run Driver.lean`): one operation per input line, one canonical output line
    per operation; ill-formed lines answer `bad-op` (never a default). Carrier: `Rat`. -/
open Skc

def parseRat (w : String) : Option Rat :=
  match w.splitOn "/" with
  | [a] => a.toInt?.map (fun i => (i : Rat))
  | [a, b] => match a.toInt?, b.toInt? with
    | some x, some y => if y = 0 then none else some ((x : Rat) / (y : Rat))
    | _, _ => none
  | _ => none

def fmt (r : Rat) : String := if r.den = 1 then toString r.num else s!"{r.num}/{r.den}"
def fmtL (l : List Rat) : String := "[" ++ ", ".intercalate (l.map fmt) ++ "]"

/-- index of `(s,e)`, `s < e ≤ n`, in the row-major upper triangle -/
def triIdx (n s e : Nat) : Nat := s * n - s * (s - 1) / 2 + (e - s - 1)

def pickOf : String → Option ((Nat → Rat) → List Nat → Nat)
  | "first" => some argminL
  | "last" => some argminLast
  | _ => none
def prOf : String → Option (Rat → Rat → Bool)
  | "strict" => some prStrict
  | "nonstrict" => some (fun c b => decide (b ≤ c))
  | "never" => some (fun _ _ => false)
  | _ => none

/-- `pelt n m delay pick pr pen c(0,1) c(0,2) … c(n-1,n)` → `opt […] cps […]` -/
def handlePelt (ws : List String) : String :=
  match ws with
  | n :: m :: delay :: pick :: pr :: rest =>
    match n.toNat?, m.toNat?, delay.toNat?, pickOf pick, prOf pr, rest.mapM parseRat with
    | some n, some m, some delay, some pick, some pr, some (pen :: tbl) =>
      if tbl.length ≠ n * (n + 1) / 2 ∨ m = 0 ∨ n < 2 * m then "bad-op" else
      let arr := tbl.toArray
      let cost (s e : Nat) : Rat := arr.getD (triIdx n s e) 0
      let r := runPelt pick pr cost pen m delay n
      s!"opt {fmtL ((List.range n).map (fun i => r.1 (i + 1)))} cps {r.2}"
    | _, _, _, _, _, _ => "bad-op"
  | _ => "bad-op"

def epsBeta : Rat := 1 / 100000000   -- the `1e-8` of `penalise_savings`

def pickMaxOf : String → Option ((Nat → Rat) → List Nat → Nat)
  | "first" => some argmaxL
  | "last" => some argmaxLast
  | _ => none
def prCOf : String → Option (Rat → Rat → Bool)
  | "lt" => some prLt
  | "le" => some (fun x v => decide (x ≤ v))
  | "never" => some (fun _ _ => false)
  | _ => none

/-- `capa <pick> <prune> kadj n p m M delay ca cb_0..cb_{p-1} pa pb_0..pb_{p-1} <collective savings: for s<e row-major,
    p values each> <point savings: n rows of p values>`; `cb`/`pb` lists have `p` entries (CAPA
    passes the single 0 as p zeros — same branch); `kadj` is added to the pruning slack (0 = code)
    → `opt […] anoms […]` -/
def handleCapaWith (pick : (Nat → Rat) → List Nat → Nat) (prC : Rat → Rat → Bool) (nums : List Rat) : String :=
  match nums with
  | kadj :: n :: p :: m :: M :: delay :: rest =>
    let n := n.num.toNat; let p := p.num.toNat; let m := m.num.toNat; let M := M.num.toNat
    let delay := delay.num.toNat
    let arr := rest.toArray
    if arr.size ≠ 2 + 2 * p + (n * (n + 1) / 2) * p + n * p ∨ p = 0 then "bad-op" else
    let ca := arr.getD 0 0
    let cb := (List.range p).map (fun j => arr.getD (1 + j) 0)
    let pa := arr.getD (1 + p) 0
    let pb := (List.range p).map (fun j => arr.getD (2 + p + j) 0)
    let off := 2 + 2 * p
    let csav (s e : Nat) : List Rat :=
      (List.range p).map (fun j => arr.getD (off + (triIdx n s e) * p + j) 0)
    let off2 := off + (n * (n + 1) / 2) * p
    let psav (t : Nat) : List Rat := (List.range p).map (fun j => arr.getD (off2 + t * p + j) 0)
    let PS (s e : Nat) : Rat := penalise epsBeta (csav s e) ca cb
    let PP (t : Nat) : Rat := penalise epsBeta (psav t) pa pb
    -- `kadj` (0 for the code) perturbs the pruning slack; used only to mine boundary inputs
    let K : Rat := ca + sumL cb + kadj
    let r := runCapaG pick prC PS PP K m M delay n
    s!"opt {fmtL ((List.range n).map (fun i => r.1 (i + 1)))} anoms {r.2}"
  | _ => "bad-op"

def handleCapa (ws0 : List String) : String :=
  match ws0 with
  | pk :: prn :: ws =>
    (match pickMaxOf pk, prCOf prn, ws.mapM parseRat with
     | some pick, some prC, some nums => handleCapaWith pick prC nums
     | _, _, _ => "bad-op")
  | _ => "bad-op"

/-- `penalise p alpha b_0.. s_0..` → value;  `affected p alpha b_0.. s_0..` → column list -/
def handlePen (aff : Bool) (ws : List String) : String :=
  match ws.mapM parseRat with
  | some (p :: alpha :: rest) =>
    let p := p.num.toNat
    if rest.length ≠ 2 * p ∨ p = 0 then "bad-op" else
    let betas := rest.take p
    let sav := rest.drop p
    if aff then toString (findAffected sav alpha betas) else fmt (penalise epsBeta sav alpha betas)
  | _ => "bad-op"

/-- shared pseudo-random integer score (same definition in harness/scorers.py): a fixed hash of
    `(seed, cut)` reduced modulo `R`, minus `neg` (so that negative scores occur) -/
def hscore (seed R : Nat) (neg : Int) (c : List Nat) : Rat :=
  let x := c.foldl (fun acc v => acc * 64 + v) seed
  (((((x * 1103515245 + 12345) / 65536) % R : Nat) : Int) - neg : Int)

def pairs : List Nat → List (Nat × Nat)
  | a :: b :: l => (a, b) :: pairs l
  | _ => []

/-- `layout n minLen len1 step1 len2 step2 …` → the seeded intervals -/
def handleLayout (ws : List String) : String :=
  match ws.mapM (·.toNat?) with
  | some (n :: minLen :: sched) =>
    if sched.length % 2 ≠ 0 then "bad-op" else toString (seededFrom n minLen (pairs sched))
  | _ => "bad-op"

/-- `sbs n m seed R neg thr s1 e1 s2 e2 …` → `rows [(maximiser, score)…] cps […]` -/
def handleSbs (ws : List String) : String :=
  match ws with
  | n :: m :: seed :: R :: neg :: thr :: rest =>
    match n.toNat?, m.toNat?, seed.toNat?, R.toNat?, neg.toInt?, parseRat thr, rest.mapM (·.toNat?) with
    | some _, some m, some seed, some R, some neg, some thr, some iv =>
      if iv.length % 2 ≠ 0 ∨ R = 0 then "bad-op" else
      let cs (s k e : Nat) : Rat := hscore seed R neg [s, k, e]
      match runSbs cs m thr (pairs iv) with
      | none => "err:empty-argmax"
      | some (rows, cps) => s!"rows {rows.map (fun r => (r.1, fmt r.2))} cps {cps}"
    | _, _, _, _, _, _, _ => "bad-op"
  | _ => "bad-op"

/-- `cbs n m seed R neg thr s1 e1 …` → `rows [((a, b), score)…] anoms […]` -/
def handleCbs (ws : List String) : String :=
  match ws with
  | n :: m :: seed :: R :: neg :: thr :: rest =>
    match n.toNat?, m.toNat?, seed.toNat?, R.toNat?, neg.toInt?, parseRat thr, rest.mapM (·.toNat?) with
    | some _, some m, some seed, some R, some neg, some thr, some iv =>
      if iv.length % 2 ≠ 0 ∨ R = 0 then "bad-op" else
      let las (s a b e : Nat) : Rat := hscore seed R neg [s, a, b, e]
      let (rows, an) := runCbs las m thr (pairs iv)
      s!"rows {rows.map (fun r => (r.1, fmt r.2))} anoms {an}"
    | _, _, _, _, _, _, _ => "bad-op"
  | _ => "bad-op"

/-- `mw n b off mdi seed R neg thr` → `scores […] cps […]` (`off = 0` is the code) -/
def handleMw (ws : List String) : String :=
  match ws with
  | [n, b, off, mdi, seed, R, neg, thr] =>
    match n.toNat?, b.toNat?, off.toNat?, mdi.toNat?, seed.toNat?, R.toNat?, neg.toInt?, parseRat thr with
    | some n, some b, some off, some mdi, some seed, some R, some neg, some thr =>
      if R = 0 ∨ b = 0 ∨ n < 2 * b then "bad-op" else
      let cs (s k e : Nat) : Rat := hscore seed R neg [s, k, e]
      let sc := mwScores cs n b off
      s!"scores {fmtL ((List.range n).map sc)} cps {mwCpts sc n thr mdi}"
    | _, _, _, _, _, _, _, _ => "bad-op"
  | _ => "bad-op"

def chunk (k : Nat) : Nat → List Nat → List (List Nat)
  | 0, _ => []
  | fuel + 1, l => if l.isEmpty then [] else l.take k :: chunk k fuel (l.drop k)

/-- parse `s e ncols c_1 … c_ncols` records -/
def parseSub : Nat → List Nat → Option (List ((Nat × Nat) × List Nat))
  | _, [] => some []
  | 0, _ => none
  | fuel + 1, s :: e :: nc :: rest =>
      if rest.length < nc then none else
      (parseSub fuel (rest.drop nc)).map (fun t => ((s, e), rest.take nc) :: t)
  | _, _ => none

/-- sparse ↔ dense conversions, on positions:
    `s2d_coll n s1 e1 …`, `d2s_coll l_0 … l_{n-1}`, `s2d_cp n c1 …`, `d2s_cp l_0 …`,
    `s2d_sub n p (s e ncols cols…)…`, `d2s_sub n p <n·p labels row-major>` -/
def handleConv (op : String) (ws : List String) : String :=
  match ws.mapM (·.toNat?) with
  | none => "bad-op"
  | some nums =>
    match op, nums with
    | "s2d_coll", n :: rest => if rest.length % 2 ≠ 0 then "bad-op" else toString (collS2D (pairs rest) n)
    | "d2s_coll", labels => toString (collD2S labels)
    | "s2d_cp", n :: cps => toString (cpS2D cps n)
    | "d2s_cp", labels => toString (cpD2S labels)
    | "s2d_sub", n :: p :: rest =>
      match parseSub (rest.length + 1) rest with
      | some an => toString (subS2D an n p)
      | none => "bad-op"
    | "d2s_sub", n :: p :: labels =>
      if labels.length ≠ n * p then "bad-op" else toString (subD2S (chunk p (n + 1) labels) p)
    | _, _ => "bad-op"

/-- Float prefix sums with a leading zero, accumulated sequentially like `np.cumsum` -/
def fpsum (xs : Array Float) : Array Float := Id.run do
  let mut acc : Float := 0.0
  let mut out : Array Float := #[0.0]
  for x in xs do
    acc := acc + x
    out := out.push acc
  return out

def bitsOf (x : Float) : String := toString x.toBits.toNat
def floatOf (w : String) : Option Float := w.toNat?.map (fun n => Float.ofBits n.toUInt64)

/-- Float instantiation of the *generated* kernels (validates the translator's per-element reading
    of the vectorised NumPy code).  Floats travel as the decimal value of their IEEE-754 bits.
    `kern <name> <scalar args…> | <data column…>` -/
def handleKern (ws : List String) : String :=
  match ws with
  | name :: rest =>
    let (args, data) := rest.span (· ≠ "|")
    let data := data.drop 1
    match data.mapM floatOf with
    | none => "bad-op"
    | some xs =>
      let xa := xs.toArray
      let S := fpsum xa
      let S2 := fpsum (xa.map (fun x => x * x))
      let sums (k : Nat) : Float := S.getD k 0.0
      let sums2 (k : Nat) : Float := S2.getD k 0.0
      let nat (i : Nat) : Option Nat := (args.getD i "").toNat?
      let flt (i : Nat) : Option Float := floatOf (args.getD i "")
      let r : Option (List Float) :=
        match name with
        | "l2_cost_optim" => do some [GenF.l2_cost_optim (← nat 0) (← nat 1) sums sums2]
        | "l2_cost_fixed" => do some [GenF.l2_cost_fixed (← nat 0) (← nat 1) sums sums2 (← flt 2)]
        | "var_from_sums" => do some [GenF.var_from_sums (← nat 0) (← nat 1) sums sums2]
        | "gaussian_var_cost_optim" => do some [GenF.gaussian_var_cost_optim (← nat 0) (← nat 1) sums sums2]
        | "gaussian_var_cost_fixed" => do
            some [GenF.gaussian_var_cost_fixed (← nat 0) (← nat 1) sums sums2 (← flt 2) (← flt 3)]
        | "cusum_score" => do some [GenF.cusum_score (← nat 0) (← nat 1) (← nat 2) sums]
        | "l2_saving" => do some [GenF.l2_saving (← nat 0) (← nat 1) sums]
        | "capa_penalty" => do some [GenF.capa_penalty (← flt 0) (← flt 1) (← flt 2)]
        | "dense_mvcapa_penalty" => do
            some [GenF.dense_mvcapa_penalty_alpha (← flt 0) (← flt 1) (← flt 2) (← flt 3),
                  GenF.dense_mvcapa_penalty_beta (← flt 0) (← flt 1) (← flt 2) (← flt 3)]
        | "sparse_mvcapa_penalty" => do
            some [GenF.sparse_mvcapa_penalty_alpha (← flt 0) (← flt 1) (← flt 2) (← flt 3),
                  GenF.sparse_mvcapa_penalty_beta (← flt 0) (← flt 1) (← flt 2) (← flt 3)]
        | "pelt_default_penalty" => do some [GenF.pelt_default_penalty (← flt 0) (← flt 1)]
        | "sbs_default_threshold" => do some [GenF.sbs_default_threshold (← flt 0) (← flt 1)]
        | "cbs_default_threshold" => do some [GenF.cbs_default_threshold (← flt 0) (← flt 1) (← flt 2)]
        | "mw_default_threshold" => do
            some [GenF.mw_default_threshold (← flt 0) (← flt 1) (← flt 2) (← flt 3)]
        | _ => none
      match r with
      | none => "bad-op"
      | some vs => " ".intercalate (vs.map bitsOf)
  | _ => "bad-op"

def fmtCuts : Except Skc.CutsErr Unit → String
  | .ok () => "ok"
  | .error .width => "err:width"
  | .error .spacing => "err:spacing"
  | .error .inner => "err:inner"
  | .error .surround => "err:surround"
  | .error .range => "err:range"

/-- `cutrow std n minSize k c_1 …` / `cutrow local n minSize c_1 …` → `ok | err:<kind>` -/
def handleCutRow (ws : List String) : String :=
  match ws with
  | "std" :: n :: ms :: k :: rest =>
    match n.toNat?, ms.toNat?, k.toNat?, rest.mapM (·.toInt?) with
    | some n, some ms, some k, some row => fmtCuts (checkRow n ms k row)
    | _, _, _, _ => "bad-op"
  | "local" :: n :: ms :: rest =>
    match n.toNat?, ms.toNat?, rest.mapM (·.toInt?) with
    | some n, some ms, some row => fmtCuts (checkRowLocal n ms row)
    | _, _, _ => "bad-op"
  | _ => "bad-op"

/-- `statanom <stat> n lo hi k c_1 … c_k v_0 … v_{n-1}` with `stat` in {mean, sum, range, first}
    (exact rational statistics of the rows of a segment) → the flagged segments -/
def handleStatAnom (ws : List String) : String :=
  match ws with
  | st :: n :: lo :: hi :: k :: rest =>
    match n.toNat?, parseRat lo, parseRat hi, k.toNat?, rest.mapM parseRat with
    | some n, some lo, some hi, some k, some nums =>
      if nums.length ≠ k + n then "bad-op" else
      let cps := (nums.take k).map (fun r => r.num.toNat)
      let vals := (nums.drop k).toArray
      let seg (s e : Nat) : List Rat := (List.range (e - s)).map (fun i => vals.getD (s + i) 0)
      let stat : Option (Nat → Nat → Rat) :=
        match st with
        | "mean" => some (fun s e => sumL (seg s e) / ((e - s : Nat) : Rat))
        | "sum" => some (fun s e => sumL (seg s e))
        | "range" => some (fun s e =>
            (seg s e).foldl max (vals.getD s 0) - (seg s e).foldl min (vals.getD s 0))
        | "first" => some (fun s _ => vals.getD s 0)
        | _ => none
      match stat with
      | some f => toString (statAnoms f lo hi cps n)
      | none => "bad-op"
    | _, _, _, _, _ => "bad-op"
  | _ => "bad-op"

/-- `np.linspace(0, n-1, k, dtype=int)` as NumPy computes it: `trunc(i * ((n-1)/(k-1)))` in double
    precision, the last element set to `n-1` exactly -/
def linspaceFloat (n k : Nat) : List Nat :=
  if k = 0 then [] else if k = 1 then [0] else
  let step : Float := (n - 1).toFloat / (k - 1).toFloat
  (List.range k).map (fun i => if i = k - 1 then n - 1 else (i.toFloat * step).floor.toUInt64.toNat)

/-- `gensegs n nseg (s e m sd)×nseg z_0 … z_{n-1}` → the transformed column (exact rationals);
    `genvalid changing n k c_1..c_k nMeans nVars` / `genvalid anomalous n k (s e)×k nMeans nVars`;
    `linpos n k` (NumPy's float computation) and `linideal n k` (exact floor) -/
def handleGen (op : String) (ws : List String) : String :=
  match op with
  | "gensegs" =>
    match ws.mapM parseRat with
    | some (n :: k :: rest) =>
      let n := n.num.toNat; let k := k.num.toNat
      if rest.length ≠ 4 * k + n then "bad-op" else
      let arr := rest.toArray
      let segs : List (Seg Rat) := (List.range k).map (fun j =>
        ⟨(arr.getD (4 * j) 0).num.toNat, (arr.getD (4 * j + 1) 0).num.toNat, arr.getD (4 * j + 2) 0,
          arr.getD (4 * j + 3) 0⟩)
      let z (i : Nat) : Rat := arr.getD (4 * k + i) 0
      fmtL ((List.range n).map (applySegs z segs))
    | _ => "bad-op"
  | "genvalid" =>
    match ws with
    | "changing" :: rest =>
      match rest.mapM (·.toInt?) with
      | some (n :: k :: more) =>
        let k := k.toNat
        if more.length ≠ k + 2 then "bad-op" else
        toString (validChanging n.toNat (more.take k) (more.getD k 0).toNat (more.getD (k + 1) 0).toNat)
      | _ => "bad-op"
    | "anomalous" :: rest =>
      match rest.mapM (·.toInt?) with
      | some (n :: k :: more) =>
        let k := k.toNat
        if more.length ≠ 2 * k + 2 then "bad-op" else
        let an := (List.range k).map (fun j => (more.getD (2 * j) 0, more.getD (2 * j + 1) 0))
        toString (validAnomalous n.toNat an (more.getD (2 * k) 0).toNat (more.getD (2 * k + 1) 0).toNat)
      | _ => "bad-op"
    | _ => "bad-op"
  | "linpos" =>
    match ws.mapM (·.toNat?) with
    | some [n, k] => toString (linspaceFloat n k)
    | _ => "bad-op"
  | "linideal" =>
    match ws.mapM (·.toNat?) with
    | some [n, k] => toString (linspaceRows n k)
    | _ => "bad-op"
  | _ => "bad-op"

def parseOptRat (w : String) : Option (Option Rat) :=
  if w = "none" then some none else (parseRat w).map some

def cfgOut (ctor fit : Bool) : String := if !ctor then "ctor-err" else if !fit then "fit-err" else "ok"

/-- `cfg <detector> <hyper-parameters…> <n> <hasNaN 0|1>` → `ok | ctor-err | fit-err` -/
def handleCfg (ws : List String) : String :=
  match ws with
  | ["pelt", sc, m, n, nan] =>
    match parseOptRat sc, parseRat m, n.toNat? with
    | some sc, some m, some n =>
      let c : PeltCfg := ⟨sc, m⟩
      cfgOut c.ctorOk (c.fitOk n (nan = "1"))
    | _, _, _ => "bad-op"
  | ["mw", b, sc, lev, mdi, n, nan] =>
    match parseRat b, parseOptRat sc, parseRat lev, parseRat mdi, n.toNat? with
    | some b, some sc, some lev, some mdi, some n =>
      let c : MwCfg := ⟨b, sc, lev, mdi⟩
      cfgOut c.ctorOk (c.fitOk n (nan = "1"))
    | _, _, _, _, _ => "bad-op"
  | [d, sc, lev, m, mx, g, n, nan] =>
    if d ≠ "sbs" ∧ d ≠ "cbs" then "bad-op" else
    match parseOptRat sc, parseRat lev, parseRat m, parseRat mx, parseRat g, n.toNat? with
    | some sc, some lev, some m, some mx, some g, some n =>
      let c : BinsegCfg := ⟨sc, lev, m, mx, g⟩
      cfgOut c.ctorOk (c.fitOk n (nan = "1"))
    | _, _, _, _, _, _ => "bad-op"
  | [d, cs, ps, m, mx, n, nan] =>
    if d ≠ "capa" ∧ d ≠ "mvcapa" then "bad-op" else
    match parseOptRat cs, parseOptRat ps, parseRat m, parseRat mx, n.toNat? with
    | some cs, some ps, some m, some mx, some n =>
      let c : CapaCfg := ⟨cs, ps, m, mx⟩
      cfgOut c.ctorOk (c.fitOk n (nan = "1"))
    | _, _, _, _, _ => "bad-op"
  | ["stat", lo, hi, n, nan] =>   -- the wrapped detector is PELT(min_segment_length=2, penalty_scale=2)
    match parseRat lo, parseRat hi, n.toNat? with
    | some lo, some hi, some n =>
      cfgOut (StatCfg.ctorOk ⟨lo, hi⟩) ((⟨some 2, 2⟩ : PeltCfg).fitOk n (nan = "1"))
    | _, _, _ => "bad-op"
  | _ => "bad-op"

/-- `genwhere <bits>`: the definition regenerated from /repo's `where` (route T2) on a 0/1 string -/
def handleGenWhere : List String → String
  | [bits] =>
    if GenL.loop_where_translated then
      match bits.toList.mapM (fun c => if c = '1' then some true else if c = '0' then some false else none) with
      | some ind =>
        let ind := if bits = "-" then [] else ind
        match GenL.where_ ind with
        | some r => toString r
        | none => "raises"
      | none => if bits = "-" then (match GenL.where_ [] with | some r => toString r | none => "raises") else "bad-op"
    else "untranslated"
  | _ => "bad-op"

/-- `genmwcp <mdi> <thr> <s_0> … <s_{n-1}>`: the definition regenerated from /repo's
    `get_moving_window_changepoints` (route T2) on an explicit score curve -/
def handleGenMwcp : List String → String
  | mdi :: thr :: scores =>
    if !(GenL.loop_mw_changepoints_translated && GenL.loop_where_translated) then "untranslated" else
    match mdi.toNat?, parseRat thr, scores.mapM parseRat with
    | some mdi, some thr, some sc =>
      let arr := sc.toArray
      match GenL.mw_changepoints (fun t => arr.getD t 0) arr.size thr mdi with
      | some r => toString r
      | none => "raises"
    | _, _, _ => "bad-op"
  | _ => "bad-op"

/-- `genpeltcp <prev_0> … <prev_{n-1}>` (`-` for the empty array): the definition regenerated from /repo's
    `get_changepoints` (route T2) on an explicit back-pointer array -/
def handleGenPeltCp : List String → String
  | ws =>
    if !GenL.loop_pelt_changepoints_translated then "untranslated" else
    let ws := if ws = ["-"] then [] else ws
    match ws.mapM (·.toNat?) with
    | some prev =>
      let arr := prev.toArray
      match GenL.pelt_changepoints (fun t => arr.getD t 0) arr.size with
      | some r => toString r
      | none => "raises"
    | none => "bad-op"

/-- `gencands <interval_start> <interval_end> <min_segment_length>`: the definition regenerated from /repo's
    `make_anomaly_intervals` (route T2) -/
def handleGenCands : List String → String
  | [a, b, c] =>
    if !GenL.loop_anomaly_intervals_translated then "untranslated" else
    match a.toNat?, b.toNat?, c.toNat? with
    | some s, some e, some m =>
      match GenL.anomaly_intervals s e m with
      | some r => s!"starts {r.1} ends {r.2}"
      | none => "raises"
    | _, _, _ => "bad-op"
  | _ => "bad-op"

def handle (line : String) : String :=
  let ws := (line.trimAscii.toString.splitOn " ").filter (· ≠ "")
  match ws with
  | "pelt" :: rest => handlePelt rest
  | "capa" :: rest => handleCapa rest
  | "penalise" :: rest => handlePen false rest
  | "affected" :: rest => handlePen true rest
  | "layout" :: rest => handleLayout rest
  | "sbs" :: rest => handleSbs rest
  | "cbs" :: rest => handleCbs rest
  | "mw" :: rest => handleMw rest
  | "kern" :: rest => handleKern rest
  | "genwhere" :: rest => handleGenWhere rest
  | "genmwcp" :: rest => handleGenMwcp rest
  | "genpeltcp" :: rest => handleGenPeltCp rest
  | "gencands" :: rest => handleGenCands rest
  | "cutrow" :: rest => handleCutRow rest
  | "statanom" :: rest => handleStatAnom rest
  | "cfg" :: rest => handleCfg rest
  | "gensegs" :: rest => handleGen "gensegs" rest
  | "genvalid" :: rest => handleGen "genvalid" rest
  | "linpos" :: rest => handleGen "linpos" rest
  | "linideal" :: rest => handleGen "linideal" rest
  | "s2d_coll" :: rest => handleConv "s2d_coll" rest
  | "d2s_coll" :: rest => handleConv "d2s_coll" rest
  | "s2d_cp" :: rest => handleConv "s2d_cp" rest
  | "d2s_cp" :: rest => handleConv "d2s_cp" rest
  | "s2d_sub" :: rest => handleConv "s2d_sub" rest
  | "d2s_sub" :: rest => handleConv "d2s_sub" rest
  | _ => "bad-op"

partial def loop (h : IO.FS.Stream) : IO Unit := do
  let line ← h.getLine
  if line.isEmpty then return ()
  IO.println (handle line)
  loop h

def main : IO Unit := do loop (← IO.getStdin)
