import Skc.Lemmas.Where
import Skc.Model.Det
import Skc.Lemmas.Sbs
import Mathlib.Data.List.Sort

/-! Moving window: changepoints as peaks of runs, stated on the scores, and their behaviour under
    time reversal `t ↦ n − t` (C08). -/
namespace Skc

/-- the indicator the code passes to `where`: `scores > threshold` at every position -/
def aboveInd {α : Type} [LT α] [DecidableLT α] (scores : Nat → α) (n : Nat) (thr : α) : List Bool :=
  (List.range n).map (fun t => decide (thr < scores t))

variable {α : Type} [LinearOrder α]

theorem aboveInd_length (scores : Nat → α) (n : Nat) (thr : α) : (aboveInd scores n thr).length = n := by
  simp [aboveInd]

theorem aboveInd_get (scores : Nat → α) (n : Nat) (thr : α) (i : Nat) (hi : i < n) :
    (aboveInd scores n thr)[i]? = some (decide (thr < scores i)) := by
  simp [aboveInd, hi]

/-- `[a,b)` is a maximal run of above-threshold scores among positions `0..n-1` -/
def RunS (scores : Nat → α) (n : Nat) (thr : α) (a b : Nat) : Prop :=
  a < b ∧ b ≤ n ∧ (∀ i, a ≤ i → i < b → thr < scores i) ∧
    (a = 0 ∨ ¬ thr < scores (a - 1)) ∧ (b = n ∨ ¬ thr < scores b)

theorem isRun_iff_runS (scores : Nat → α) (n : Nat) (thr : α) (a b : Nat) :
    IsRun (aboveInd scores n thr) a b ↔ RunS scores n thr a b := by
  unfold IsRun RunS
  rw [aboveInd_length]
  constructor
  · rintro ⟨h1, h2, h3, h4, h5⟩
    refine ⟨h1, h2, ?_, ?_, ?_⟩
    · intro i hi1 hi2
      have := h3 i hi1 hi2
      rw [aboveInd_get scores n thr i (by omega)] at this
      simpa using this
    · rcases h4 with h4 | h4
      · left; exact h4
      · by_cases ha : a = 0
        · left; exact ha
        · right
          rw [aboveInd_get scores n thr (a - 1) (by omega)] at h4
          simpa using h4
    · rcases h5 with h5 | h5
      · left; exact h5
      · by_cases hb : b = n
        · left; exact hb
        · right
          rw [aboveInd_get scores n thr b (by omega)] at h5
          simpa using h5
  · rintro ⟨h1, h2, h3, h4, h5⟩
    refine ⟨h1, h2, ?_, ?_, ?_⟩
    · intro i hi1 hi2
      rw [aboveInd_get scores n thr i (by omega)]
      simpa using h3 i hi1 hi2
    · rcases h4 with h4 | h4
      · left; exact h4
      · by_cases ha : a = 0
        · left; exact ha
        · right
          rw [aboveInd_get scores n thr (a - 1) (by omega)]
          simpa using h4
    · rcases h5 with h5 | h5
      · left; exact h5
      · by_cases hb : b = n
        · left; exact hb
        · right
          rw [aboveInd_get scores n thr b (by omega)]
          simpa using h5

/-- `c` is the position of the maximum score of a maximal above-threshold run of length `≥ mdi` -/
def IsPeak (scores : Nat → α) (n : Nat) (thr : α) (mdi c : Nat) : Prop :=
  ∃ a b, RunS scores n thr a b ∧ mdi ≤ b - a ∧ a ≤ c ∧ c < b ∧
    ∀ t, a ≤ t → t < b → scores t ≤ scores c

/-- all above-threshold scores are distinct (the property excludes ties: the peak of a run with
    equal maxima is reported at its first position, which time reversal does not preserve) -/
def DistinctAbove (scores : Nat → α) (n : Nat) (thr : α) : Prop :=
  ∀ t u, t < n → u < n → thr < scores t → thr < scores u → scores t = scores u → t = u

theorem mem_mwCpts_isPeak (scores : Nat → α) (n : Nat) (thr : α) (mdi c : Nat)
    (hc : c ∈ mwCpts scores n thr mdi) : IsPeak scores n thr mdi c := by
  simp only [mwCpts, List.mem_map, List.mem_filter, decide_eq_true_eq] at hc
  obtain ⟨⟨a, b⟩, ⟨hrun, hlen⟩, rfl⟩ := hc
  have hR : IsRun (aboveInd scores n thr) a b := (whereRuns_spec _ a b).1 hrun
  have hab : a < b := hR.1
  obtain ⟨h1, h2, h3⟩ := argmaxRange_spec scores (b - a - 1) (a + 1) a
  refine ⟨a, b, (isRun_iff_runS scores n thr a b).1 hR, hlen, ?_, ?_, ?_⟩
  · rcases h1 with h1 | h1 <;> (simp only at h1 ⊢; omega)
  · rcases h1 with h1 | h1 <;> (simp only at h1 ⊢; omega)
  · intro t ht1 ht2
    by_cases hta : t = a
    · subst hta; exact h2
    · exact h3 t (by omega) (by omega)

theorem isPeak_mem_mwCpts (scores : Nat → α) (n : Nat) (thr : α) (mdi c : Nat)
    (hd : DistinctAbove scores n thr) (hc : IsPeak scores n thr mdi c) :
    c ∈ mwCpts scores n thr mdi := by
  obtain ⟨a, b, hR, hlen, hac, hcb, hmax⟩ := hc
  have hrun : (a, b) ∈ whereRuns (aboveInd scores n thr) :=
    (whereRuns_spec _ a b).2 ((isRun_iff_runS scores n thr a b).2 hR)
  obtain ⟨hab, hbn, habove, _, _⟩ := hR
  obtain ⟨h1, h2, h3⟩ := argmaxRange_spec scores (b - a - 1) (a + 1) a
  set c' := argmaxRange scores (a + 1) (b - a - 1) a with hc'
  have hc'r : a ≤ c' ∧ c' < b := by rcases h1 with h1 | h1 <;> omega
  have hle : scores c ≤ scores c' := by
    by_cases hca : c = a
    · subst hca; exact h2
    · exact h3 c (by omega) (by omega)
  have hge : scores c' ≤ scores c := hmax c' hc'r.1 hc'r.2
  have heq : c' = c := hd c' c (by omega) (by omega) (habove c' hc'r.1 hc'r.2)
    (habove c hac hcb) (le_antisymm hge hle)
  simp only [mwCpts, List.mem_map, List.mem_filter, decide_eq_true_eq]
  exact ⟨(a, b), ⟨hrun, hlen⟩, heq⟩

/-- the reversed scores: `scores' t = scores (n − t)` on `1..n−1`; position 0 is below the
    threshold on both sides (its score is 0 for every bandwidth `≥ 1` and the threshold is `≥ 0`) -/
structure Reversed (scores scores' : Nat → α) (n : Nat) (thr : α) : Prop where
  rev : ∀ t, 1 ≤ t → t < n → scores' t = scores (n - t)
  zero : ¬ thr < scores 0
  zero' : ¬ thr < scores' 0

theorem Reversed.symm {scores scores' : Nat → α} {n : Nat} {thr : α}
    (h : Reversed scores scores' n thr) : Reversed scores' scores n thr := by
  refine ⟨?_, h.zero', h.zero⟩
  intro t ht1 ht2
  have := h.rev (n - t) (by omega) (by omega)
  rw [this]; congr 1; omega

theorem runS_reverse {scores scores' : Nat → α} {n : Nat} {thr : α}
    (h : Reversed scores scores' n thr) (a b : Nat) (hR : RunS scores' n thr a b) :
    1 ≤ a ∧ RunS scores n thr (n + 1 - b) (n + 1 - a) := by
  obtain ⟨hab, hbn, habove, hl, hr⟩ := hR
  have ha1 : 1 ≤ a := by
    by_contra hcon
    have : a = 0 := by omega
    subst this
    exact h.zero' (habove 0 (le_refl _) hab)
  refine ⟨ha1, by omega, by omega, ?_, ?_, ?_⟩
  · intro i hi1 hi2
    have := habove (n - i) (by omega) (by omega)
    rw [h.rev (n - i) (by omega) (by omega)] at this
    have e : n - (n - i) = i := by omega
    rwa [e] at this
  · right
    by_cases hb : b = n
    · have e : n + 1 - b - 1 = 0 := by omega
      rw [e]; exact h.zero
    · rcases hr with hr | hr
      · exact absurd hr hb
      · rw [h.rev b (by omega) (by omega)] at hr
        have e : n + 1 - b - 1 = n - b := by omega
        rwa [e]
  · by_cases ha : a = 1
    · left; omega
    · right
      rcases hl with hl | hl
      · omega
      · rw [h.rev (a - 1) (by omega) (by omega)] at hl
        have e : n - (a - 1) = n + 1 - a := by omega
        rwa [e] at hl

theorem isPeak_reverse {scores scores' : Nat → α} {n : Nat} {thr : α}
    (h : Reversed scores scores' n thr) (mdi c : Nat) (hc : IsPeak scores' n thr mdi c) :
    1 ≤ c ∧ c < n ∧ IsPeak scores n thr mdi (n - c) := by
  obtain ⟨a, b, hR, hlen, hac, hcb, hmax⟩ := hc
  obtain ⟨ha1, hR'⟩ := runS_reverse h a b hR
  have hbn : b ≤ n := hR.2.1
  refine ⟨by omega, by omega, n + 1 - b, n + 1 - a, hR', by omega, by omega, by omega, ?_⟩
  intro t ht1 ht2
  have := hmax (n - t) (by omega) (by omega)
  rw [h.rev (n - t) (by omega) (by omega), h.rev c (by omega) (by omega)] at this
  have e : n - (n - t) = t := by omega
  rwa [e] at this

theorem distinctAbove_reverse {scores scores' : Nat → α} {n : Nat} {thr : α}
    (h : Reversed scores scores' n thr) (hd : DistinctAbove scores n thr) :
    DistinctAbove scores' n thr := by
  intro t u ht hu hat hau heq
  have ht1 : 1 ≤ t := by
    by_contra hcon
    have : t = 0 := by omega
    subst this; exact h.zero' hat
  have hu1 : 1 ≤ u := by
    by_contra hcon
    have : u = 0 := by omega
    subst this; exact h.zero' hau
  rw [h.rev t ht1 ht] at hat heq
  rw [h.rev u hu1 hu] at hau heq
  have := hd (n - t) (n - u) (by omega) (by omega) hat hau heq
  omega

/-- membership form of the time-reversal claim -/
theorem mem_mwCpts_reverse {scores scores' : Nat → α} {n : Nat} {thr : α}
    (h : Reversed scores scores' n thr) (hd : DistinctAbove scores n thr) (mdi c : Nat) :
    c ∈ mwCpts scores' n thr mdi ↔ 1 ≤ c ∧ c < n ∧ (n - c) ∈ mwCpts scores n thr mdi := by
  constructor
  · intro hc
    obtain ⟨h1, h2, h3⟩ := isPeak_reverse h mdi c (mem_mwCpts_isPeak scores' n thr mdi c hc)
    exact ⟨h1, h2, isPeak_mem_mwCpts scores n thr mdi (n - c) hd h3⟩
  · rintro ⟨h1, h2, h3⟩
    obtain ⟨_, _, h4⟩ := isPeak_reverse h.symm mdi (n - c) (mem_mwCpts_isPeak scores n thr mdi _ h3)
    have e : n - (n - c) = c := by omega
    rw [e] at h4
    exact isPeak_mem_mwCpts scores' n thr mdi c (distinctAbove_reverse h hd) h4

end Skc
