import Skc.Model.Det
import Mathlib.Order.Basic
import Mathlib.Order.Defs.LinearOrder
import Mathlib.Data.List.Infix

/-! Facts about the greedy selection loop shared by seeded and circular binary segmentation. -/
namespace Skc
variable {α : Type} [LinearOrder α] [Zero α]

/-- **threshold monotonicity**: raising the threshold can only remove picks — the pick list for
    the higher threshold is a prefix of the pick list for the lower one (any fuel, any scores,
    any kill relation: the choice of the next pick does not depend on the threshold). -/
theorem greedyGen_prefix (kill : Nat → Nat → Bool) (thr₁ thr₂ : α) (h : thr₁ ≤ thr₂) :
    ∀ fuel scores, greedyGen kill thr₂ fuel scores <+: greedyGen kill thr₁ fuel scores := by
  intro fuel
  induction fuel with
  | zero => intro scores; simp [greedyGen]
  | succ fuel ih =>
    intro scores
    simp only [greedyGen]
    cases hm : argmaxList scores 0 none with
    | none => simp
    | some iv =>
      obtain ⟨i, v⟩ := iv
      simp only
      by_cases h2 : thr₂ < v
      · have h1 : thr₁ < v := lt_of_le_of_lt h h2
        simp only [h2, h1, if_true]
        exact (List.prefix_cons_inj _).2 (ih _)
      · simp only [h2, if_false]
        exact List.nil_prefix

theorem greedyPicks_prefix (ivs : List (Nat × Nat × Nat)) (thr₁ thr₂ : α) (h : thr₁ ≤ thr₂)
    (fuel : Nat) (scores : List α) :
    greedyPicks ivs thr₂ fuel scores <+: greedyPicks ivs thr₁ fuel scores := by
  unfold greedyPicks
  exact (greedyGen_prefix (killCpt ivs) thr₁ thr₂ h fuel scores).map _

theorem greedyAnoms_prefix (ivs inner : List (Nat × Nat)) (thr₁ thr₂ : α) (h : thr₁ ≤ thr₂)
    (fuel : Nat) (scores : List α) :
    greedyAnoms ivs inner thr₂ fuel scores <+: greedyAnoms ivs inner thr₁ fuel scores := by
  unfold greedyAnoms
  exact (greedyGen_prefix (killOverlap ivs inner) thr₁ thr₂ h fuel scores).map _

end Skc
