import Skc.Spec.Kernels
import Skc.Spec.Segmentation
import Skc.Lemmas.Kernels
import Mathlib.Algebra.BigOperators.Intervals
import Mathlib.Tactic.Linarith
import Mathlib.Tactic.Positivity
import Mathlib.Tactic.FieldSimp
import Mathlib.Tactic.Ring
import Skc.Lemmas.PenH

/-! Cost tables of a univariate series, from its rows: the objects the detector theorems are
    instantiated with when a statement is composed down to the data (C02, C12). -/
open Finset
namespace Skc

theorem segSum_shift (x : ℕ → ℝ) (c : ℝ) (s e : ℕ) (hse : s ≤ e) :
    segSum (fun i => x i + c) s e = segSum x s e + ((e : ℝ) - s) * c := by
  unfold segSum
  rw [Finset.sum_add_distrib, Finset.sum_const, Nat.card_Ico, nsmul_eq_mul, Nat.cast_sub hse]

theorem segSum_sq_shift (x : ℕ → ℝ) (c : ℝ) (s e : ℕ) (hse : s ≤ e) :
    segSum (fun i => (x i + c) ^ 2) s e =
      segSum (fun i => x i ^ 2) s e + 2 * c * segSum x s e + ((e : ℝ) - s) * c ^ 2 := by
  unfold segSum
  have : ∀ i, (x i + c) ^ 2 = x i ^ 2 + 2 * c * x i + c ^ 2 := fun i => by ring
  simp only [this]
  rw [Finset.sum_add_distrib, Finset.sum_add_distrib, Finset.sum_const, Nat.card_Ico, nsmul_eq_mul,
    Nat.cast_sub hse, ← Finset.mul_sum]

/-- the squared-error / Gaussian cost tables of a univariate series, from its rows -/
noncomputable def l2Table (x : ℕ → ℝ) (s e : ℕ) : ℝ :=
  CF.l2Optim (segSum x s e) (segSum (fun i => x i ^ 2) s e) ((e : ℝ) - s)
noncomputable def gaussTable (x : ℕ → ℝ) (s e : ℕ) : ℝ :=
  CF.gaussOptim (segSum x s e) (segSum (fun i => x i ^ 2) s e) ((e : ℝ) - s)


theorem segSum_consecutive (x : ℕ → ℝ) (s t e : ℕ) (hst : s ≤ t) (hte : t ≤ e) :
    segSum x s t + segSum x t e = segSum x s e := by
  unfold segSum
  exact Finset.sum_Ico_consecutive x hst hte

/-- the squared-error cost table satisfies the split inequality PELT's exactness needs -/
theorem l2Table_split_core (x : ℕ → ℝ) (s t e : ℕ) (hst : s < t) (hte' : t < e) :
    l2Table x s t + l2Table x t e ≤ l2Table x s e := by
  have ha : (0 : ℝ) < (t : ℝ) - s := by
    have : (s : ℝ) < t := by exact_mod_cast hst
    linarith
  have hb : (0 : ℝ) < (e : ℝ) - t := by
    have : (t : ℝ) < e := by exact_mod_cast hte'
    linarith
  have h := l2_split_le (segSum x s t) (segSum x t e) (segSum (fun i => x i ^ 2) s t)
    (segSum (fun i => x i ^ 2) t e) ((t : ℝ) - s) ((e : ℝ) - t) ha hb
  simp only [l2Table]
  rw [segSum_consecutive x s t e hst.le hte'.le,
    segSum_consecutive (fun i => x i ^ 2) s t e hst.le hte'.le] at h
  have e1 : ((t : ℝ) - s) + ((e : ℝ) - t) = (e : ℝ) - s := by ring
  rw [e1] at h
  exact h

theorem l2Table_split (x : ℕ → ℝ) (m n : ℕ) (hm : 1 ≤ m) : SplitIneq (l2Table x) m n := by
  intro s t e hadm hte _
  have hst : s < t := by
    rcases hadm with ⟨h0, h1⟩ | ⟨_, h1⟩ <;> omega
  exact l2Table_split_core x s t e hst (by omega)

/-- the table entries are the residual sums of squares around the segment means -/
theorem l2Table_eq_rss (x : ℕ → ℝ) (s e : ℕ) (h : s < e) :
    l2Table x s e = rss x (segMean x s e) s e := by
  have := l2Optim_direct x s e h
  rw [psum_sub x s e h.le, psum_sub (fun i => x i ^ 2) s e h.le] at this
  exact this

/-- the penalised cost of an admissible segmentation only reads the table at non-empty intervals -/
theorem segCost_congr_valid {α : Type} [Add α] (cost cost' : Nat → Nat → α) (pen : α) (m : Nat) (hm : 1 ≤ m)
    (h : ∀ a b, a < b → cost a b = cost' a b) :
    ∀ (cps : List Nat) (s e : Nat), ValidFrom m s cps e →
      segCost cost pen s cps e = segCost cost' pen s cps e
  | [], s, e, hv => by
    simp only [segCost]
    exact h s e (by simp only [ValidFrom] at hv; omega)
  | c :: cs, s, e, hv => by
    obtain ⟨h1, h2⟩ := hv
    simp only [segCost]
    rw [h s c (by omega), segCost_congr_valid cost cost' pen m hm h cs c e h2]

/-! ### the squared-error savings of a multivariate series -/

/-- `(Sa + Sb)² / (a + b) ≤ Sa² / a + Sb² / b`: the L2 saving is sub-additive under splitting -/
theorem l2Saving_subadd (Sa Sb a b : ℝ) (ha : 0 < a) (hb : 0 < b) :
    CF.l2Saving (Sa + Sb) (a + b) ≤ CF.l2Saving Sa a + CF.l2Saving Sb b := by
  simp only [CF.l2Saving]
  have hab : 0 < a + b := by positivity
  have key : Sa ^ 2 / a + Sb ^ 2 / b - (Sa + Sb) ^ 2 / (a + b) =
      (b * Sa - a * Sb) ^ 2 / (a * b * (a + b)) := by
    field_simp
    ring
  have : 0 ≤ (b * Sa - a * Sb) ^ 2 / (a * b * (a + b)) := by positivity
  linarith

/-- per-column L2 savings (baseline mean 0) of the rows `[s, e)` of a series with `p` columns
    (`X j i` = row `i` of column `j`) -/
noncomputable def l2Savings (X : ℕ → ℕ → ℝ) (p s e : ℕ) : List ℝ :=
  (List.range p).map (fun j => CF.l2Saving (segSum (X j) s e) ((e : ℝ) - s))

theorem l2Savings_length (X : ℕ → ℕ → ℝ) (p s e : ℕ) : (l2Savings X p s e).length = p := by
  simp [l2Savings]

theorem l2Savings_nonneg (X : ℕ → ℕ → ℝ) (p s e : ℕ) : ∀ v ∈ l2Savings X p s e, 0 ≤ v := by
  intro v hv
  obtain ⟨j, _, rfl⟩ := List.mem_map.1 hv
  by_cases h : s < e
  · apply l2Saving_nonneg
    have : (s : ℝ) < e := by exact_mod_cast h
    linarith
  · have : segSum (X j) s e = 0 := by
      unfold segSum
      rw [Finset.Ico_eq_empty (by omega)]
      simp
    simp [CF.l2Saving, this]

theorem subAdd_map (f g h : ℕ → ℝ) : ∀ (l : List ℕ), (∀ j ∈ l, f j ≤ g j + h j) →
    SubAdd (l.map f) (l.map g) (l.map h)
  | [], _ => by simp [SubAdd]
  | j :: l, H => by
    simp only [List.map_cons, SubAdd]
    exact ⟨H j (by simp), subAdd_map f g h l (fun k hk => H k (by simp [hk]))⟩

theorem l2Savings_subAdd (X : ℕ → ℕ → ℝ) (p s e0 T : ℕ) (h1 : s < e0) (h2 : e0 < T) :
    SubAdd (l2Savings X p s T) (l2Savings X p s e0) (l2Savings X p e0 T) := by
  apply subAdd_map
  intro j _
  have ha : (0 : ℝ) < (e0 : ℝ) - s := by
    have : (s : ℝ) < e0 := by exact_mod_cast h1
    linarith
  have hb : (0 : ℝ) < (T : ℝ) - e0 := by
    have : (e0 : ℝ) < T := by exact_mod_cast h2
    linarith
  have := l2Saving_subadd (segSum (X j) s e0) (segSum (X j) e0 T) _ _ ha hb
  rw [segSum_consecutive (X j) s e0 T h1.le h2.le] at this
  have e1 : ((e0 : ℝ) - s) + ((T : ℝ) - e0) = (T : ℝ) - s := by ring
  rw [e1] at this
  exact this

/-- empirical variance of the rows `[s, e)` from the partial sums (before flooring) -/
noncomputable def segVar (x : ℕ → ℝ) (s e : ℕ) : ℝ :=
  segSum (fun i => x i ^ 2) s e / ((e : ℝ) - s) - (segSum x s e / ((e : ℝ) - s)) ^ 2

theorem l2Table_eq_len_mul_var (x : ℕ → ℝ) (s e : ℕ) (h : s < e) :
    l2Table x s e = ((e : ℝ) - s) * segVar x s e := by
  have hne : ((e : ℝ) - s) ≠ 0 := by
    have : (s : ℝ) < e := by exact_mod_cast h
    linarith
  simp only [l2Table, CF.l2Optim, segVar]
  field_simp

/-- the univariate Gaussian cost table satisfies the split inequality wherever the empirical variances
    are at or above the floor (at the floor itself it can fail: the property says "above the floor") -/
theorem gaussTable_split_core (x : ℕ → ℝ) (m n : ℕ) (hm : 1 ≤ m)
    (habove : ∀ s e, s + m ≤ e → e ≤ n → varFloorConst ≤ segVar x s e)
    (s t e : ℕ) (hst : s + m ≤ t) (hte : t + m ≤ e) (hen : e ≤ n) :
    gaussTable x s t + gaussTable x t e ≤ gaussTable x s e := by
  have ha : (0 : ℝ) < (t : ℝ) - s := by
    have : (s : ℝ) < t := by exact_mod_cast (by omega : s < t)
    linarith
  have hb : (0 : ℝ) < (e : ℝ) - t := by
    have : (t : ℝ) < e := by exact_mod_cast (by omega : t < e)
    linarith
  have hf : (0 : ℝ) < varFloorConst := by unfold varFloorConst; norm_num
  have v1 := habove s t hst (by omega)
  have v2 := habove t e hte hen
  have v := habove s e (by omega) hen
  have hl2 := l2Table_split_core x s t e (by omega) (by omega)
  rw [l2Table_eq_len_mul_var x s t (by omega), l2Table_eq_len_mul_var x t e (by omega),
    l2Table_eq_len_mul_var x s e (by omega)] at hl2
  have e1 : ((t : ℝ) - s) + ((e : ℝ) - t) = (e : ℝ) - s := by ring
  have hσ : ((t : ℝ) - s) * segVar x s t + ((e : ℝ) - t) * segVar x t e
      ≤ (((t : ℝ) - s) + ((e : ℝ) - t)) * segVar x s e := by rw [e1]; exact hl2
  have hlog := gauss_split_le _ _ _ _ _ ha hb (lt_of_lt_of_le hf v1) (lt_of_lt_of_le hf v2) hσ
  have hpi : (0 : ℝ) < 2 * Real.pi := by positivity
  have m1 : max (segVar x s t) varFloorConst = segVar x s t := max_eq_left v1
  have m2 : max (segVar x t e) varFloorConst = segVar x t e := max_eq_left v2
  have m3 : max (segVar x s e) varFloorConst = segVar x s e := max_eq_left v
  simp only [gaussTable, CF.gaussOptim, CF.varFloor]
  change ((t : ℝ) - s) * Real.log (2 * Real.pi * max (segVar x s t) varFloorConst) + ((t : ℝ) - s)
      + (((e : ℝ) - t) * Real.log (2 * Real.pi * max (segVar x t e) varFloorConst) + ((e : ℝ) - t))
      ≤ ((e : ℝ) - s) * Real.log (2 * Real.pi * max (segVar x s e) varFloorConst) + ((e : ℝ) - s)
  rw [m1, m2, m3, Real.log_mul hpi.ne' (lt_of_lt_of_le hf v1).ne', Real.log_mul hpi.ne' (lt_of_lt_of_le hf v2).ne',
    Real.log_mul hpi.ne' (lt_of_lt_of_le hf v).ne']
  rw [e1] at hlog
  nlinarith [hlog]

theorem gaussTable_split (x : ℕ → ℝ) (m n : ℕ) (hm : 1 ≤ m)
    (habove : ∀ s e, s + m ≤ e → e ≤ n → varFloorConst ≤ segVar x s e) :
    SplitIneq (gaussTable x) m n := by
  intro s t e hadm hte hen
  have hst : s + m ≤ t := by rcases hadm with ⟨h0, h1⟩ | ⟨_, h1⟩ <;> omega
  exact gaussTable_split_core x m n hm habove s t e hst hte hen

end Skc
