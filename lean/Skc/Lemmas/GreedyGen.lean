import Skc.Model.Greedy
import Skc.Lemmas.ArgmaxList
import Mathlib.Algebra.Order.Group.Defs
import Mathlib.Tactic.Linarith

/-! The greedy selection loop (`greedyGen`): support, coverage, independence of the picks.
    Shared by seeded binary segmentation (C07) and circular binary segmentation (C09). -/
namespace Skc
variable {α : Type} [LinearOrder α] [Zero α]

/-- number of scores above the threshold -/
def countAbove (thr : α) : List α → Nat
  | [] => 0
  | a :: l => (if thr < a then 1 else 0) + countAbove thr l

theorem countAbove_le_length (thr : α) : ∀ l : List α, countAbove thr l ≤ l.length
  | [] => by simp [countAbove]
  | a :: l => by
    have := countAbove_le_length thr l
    simp only [countAbove, List.length_cons]
    split <;> omega

theorem countAbove_zero (thr : α) : ∀ (l : List α), countAbove thr l = 0 →
    ∀ x ∈ l, ¬ thr < x
  | [], _, x, hx => by simp at hx
  | a :: l, h, x, hx => by
    simp only [countAbove] at h
    have ha : ¬ thr < a := by
      intro hc; simp [hc] at h
    have hl : countAbove thr l = 0 := by omega
    rcases List.mem_cons.1 hx with rfl | hx
    · exact ha
    · exact countAbove_zero thr l hl x hx

theorem killScores_length (kill : Nat → Nat → Bool) (i : Nat) :
    ∀ (l : List α) (j : Nat), (killScores kill i j l).length = l.length
  | [], _ => rfl
  | _ :: l, j => by simp [killScores, killScores_length kill i l (j + 1)]

theorem killScores_getElem? (kill : Nat → Nat → Bool) (i : Nat) :
    ∀ (l : List α) (j k : Nat),
      (killScores kill i j l)[k]? = (l[k]?).map (fun sc => if kill i (j + k) then 0 else sc)
  | [], _, _ => by simp [killScores]
  | a :: l, j, 0 => by simp [killScores]
  | a :: l, j, k + 1 => by
    simp only [killScores, List.getElem?_cons_succ]
    rw [killScores_getElem? kill i l (j + 1) k]
    have : j + 1 + k = j + (k + 1) := by omega
    rw [this]

theorem countAbove_kill_le (kill : Nat → Nat → Bool) (i : Nat) (thr : α) (hthr : 0 ≤ thr) :
    ∀ (l : List α) (j : Nat), countAbove thr (killScores kill i j l) ≤ countAbove thr l
  | [], _ => by simp [killScores, countAbove]
  | a :: l, j => by
    have ih := countAbove_kill_le kill i thr hthr l (j + 1)
    simp only [killScores, countAbove]
    by_cases hk : kill i j = true
    · have : ¬ thr < (0 : α) := not_lt.2 hthr
      simp only [hk, if_true, this, if_false]
      split <;> omega
    · simp only [hk]
      split <;> simp_all <;> omega

theorem countAbove_kill_lt (kill : Nat → Nat → Bool) (i : Nat) (thr : α) (hthr : 0 ≤ thr) :
    ∀ (l : List α) (j k : Nat) (v : α), l[k]? = some v → thr < v → kill i (j + k) = true →
      countAbove thr (killScores kill i j l) + 1 ≤ countAbove thr l
  | [], _, _, _, h, _, _ => by simp at h
  | a :: l, j, 0, v, h, hv, hk => by
    simp only [List.getElem?_cons_zero, Option.some.injEq] at h
    subst h
    have ih := countAbove_kill_le kill i thr hthr l (j + 1)
    have h0 : ¬ thr < (0 : α) := not_lt.2 hthr
    simp only [Nat.add_zero] at hk
    simp only [killScores, countAbove, hk, if_true, h0, if_false, hv]
    omega
  | a :: l, j, k + 1, v, h, hv, hk => by
    simp only [List.getElem?_cons_succ] at h
    have hk' : kill i (j + 1 + k) = true := by
      have : j + 1 + k = j + (k + 1) := by omega
      rw [this]; exact hk
    have ih := countAbove_kill_lt kill i thr hthr l (j + 1) k v h hv hk'
    simp only [killScores, countAbove]
    by_cases hkj : kill i j = true
    · have h0 : ¬ thr < (0 : α) := not_lt.2 hthr
      simp only [hkj, if_true, h0, if_false]
      split <;> omega
    · simp only [hkj]
      split <;> simp_all <;> omega

/-- `cur` arises from `orig` by zeroing entries: every above-threshold entry of `cur` is the
    original one -/
def SubScores (thr : α) (cur orig : List α) : Prop :=
  ∀ (i : Nat) (v : α), cur[i]? = some v → thr < v → orig[i]? = some v

/-- **the greedy loop**, for any kill relation under which every above-threshold candidate kills
    itself, any threshold `≥ 0`, enough fuel:
    * support — every pick had a score above the threshold when it was picked (and that score is
      its original score);
    * coverage — when the loop stops, every candidate whose score was above the threshold has been
      killed by some pick;
    * independence — no pick is killed by an earlier pick. -/
theorem greedyGen_sound (kill : Nat → Nat → Bool) (thr : α) (hthr : 0 ≤ thr) (orig : List α)
    (hself : ∀ i v, orig[i]? = some v → thr < v → kill i i = true) :
    ∀ (fuel : Nat) (cur : List α), SubScores thr cur orig → countAbove thr cur ≤ fuel →
      (∀ i ∈ greedyGen kill thr fuel cur, ∃ v, cur[i]? = some v ∧ thr < v) ∧
      (∀ j v, cur[j]? = some v → thr < v → ∃ i ∈ greedyGen kill thr fuel cur, kill i j = true) ∧
      (greedyGen kill thr fuel cur).Pairwise (fun i i' => kill i i' = false)
  | 0, cur, _, hc => by
    have hz : countAbove thr cur = 0 := by omega
    refine ⟨by simp [greedyGen], ?_, by simp [greedyGen]⟩
    intro j v hj hv
    exact absurd hv (countAbove_zero thr cur hz v (List.mem_of_getElem? hj))
  | fuel + 1, cur, hsub, hc => by
    have hspec := argmaxList_spec cur
    simp only [greedyGen]
    cases hm : argmaxList cur 0 none with
    | none =>
      rw [hm] at hspec
      have hnil : cur = [] := hspec
      subst hnil
      simp
    | some iv =>
      obtain ⟨i, v⟩ := iv
      rw [hm] at hspec
      obtain ⟨hiv, hmax⟩ := hspec
      simp only
      by_cases hv : thr < v
      · simp only [hv, if_true]
        have hkii : kill i i = true := hself i v (hsub i v hiv hv) hv
        set cur' := killScores kill i 0 cur with hcur'
        have hget : ∀ k, cur'[k]? = (cur[k]?).map (fun sc => if kill i k then 0 else sc) := by
          intro k
          have := killScores_getElem? kill i cur 0 k
          simpa using this
        -- above-threshold entries of cur' are untouched entries of cur
        have hkeep : ∀ k w, cur'[k]? = some w → thr < w → cur[k]? = some w ∧ kill i k = false := by
          intro k w hk hw
          rw [hget k] at hk
          cases hck : cur[k]? with
          | none => rw [hck] at hk; cases hk
          | some c =>
            rw [hck] at hk
            simp only [Option.map_some, Option.some.injEq] at hk
            by_cases hkk : kill i k = true
            · simp only [hkk, if_true] at hk
              subst hk
              exact absurd hw (not_lt.2 hthr)
            · simp only [hkk] at hk
              simp only [Bool.false_eq_true, if_false] at hk
              subst hk
              exact ⟨rfl, by simpa using hkk⟩
        have hsub' : SubScores thr cur' orig := by
          unfold SubScores
          intro k w hk hw
          exact hsub k w (hkeep k w hk hw).1 hw
        have hc' : countAbove thr cur' ≤ fuel := by
          have := countAbove_kill_lt kill i thr hthr cur 0 i v hiv hv (by simpa using hkii)
          rw [hcur']
          omega
        obtain ⟨ih1, ih2, ih3⟩ := greedyGen_sound kill thr hthr orig hself fuel cur' hsub' hc'
        refine ⟨?_, ?_, ?_⟩
        · intro x hx
          rcases List.mem_cons.1 hx with rfl | hx
          · exact ⟨v, hiv, hv⟩
          · obtain ⟨w, hw1, hw2⟩ := ih1 x hx
            exact ⟨w, (hkeep x w hw1 hw2).1, hw2⟩
        · intro j w hj hw
          by_cases hkj : kill i j = true
          · exact ⟨i, by simp, hkj⟩
          · have hj' : cur'[j]? = some w := by
              rw [hget j, hj]; simp [hkj]
            obtain ⟨x, hx1, hx2⟩ := ih2 j w hj' hw
            exact ⟨x, by simp [hx1], hx2⟩
        · refine List.pairwise_cons.2 ⟨?_, ih3⟩
          intro x hx
          obtain ⟨w, hw1, hw2⟩ := ih1 x hx
          exact (hkeep x w hw1 hw2).2
      · simp only [hv, if_false]
        refine ⟨by simp, ?_, by simp⟩
        intro j w hj hw
        exact absurd (lt_of_lt_of_le hw (hmax w (List.mem_of_getElem? hj))) hv

/-- the first pick is an index holding the maximal score (NumPy `argmax`) -/
theorem greedyGen_head_max (kill : Nat → Nat → Bool) (thr : α) (fuel : Nat) (cur : List α)
    (i : Nat) (rest : List Nat) (h : greedyGen kill thr (fuel + 1) cur = i :: rest) :
    ∃ v, cur[i]? = some v ∧ thr < v ∧ ∀ x ∈ cur, x ≤ v := by
  have hspec := argmaxList_spec cur
  simp only [greedyGen] at h
  cases hm : argmaxList cur 0 none with
  | none => rw [hm] at h; simp at h
  | some iv =>
    obtain ⟨i', v⟩ := iv
    rw [hm] at h hspec
    simp only at h
    by_cases hv : thr < v
    · simp only [hv, if_true, List.cons.injEq] at h
      obtain ⟨rfl, _⟩ := h
      exact ⟨v, hspec.1, hv, hspec.2⟩
    · simp [hv] at h

end Skc
