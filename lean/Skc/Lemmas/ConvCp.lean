import Skc.Model.Conv
import Mathlib.Data.List.Basic
import Mathlib.Data.List.Range
import Mathlib.Data.List.Nodup
import Mathlib.Tactic.Linarith

/-! Round trip of the change-detector conversions (C05): dense segment labels → changepoints. -/
namespace Skc

/-- strictly increasing changepoints strictly inside the data: `1 ≤ c < n` -/
def ValidCps (cps : List Nat) (n : Nat) : Prop :=
  cps.Pairwise (· < ·) ∧ ∀ c ∈ cps, 1 ≤ c ∧ c < n

/-- segment number of position `i`: the number of changepoints `≤ i` -/
def segNo (cps : List Nat) (i : Nat) : Nat := (cps.filter (· ≤ i)).length

theorem cpD2SAux_map (f : Nat → Nat) : ∀ (len i : Nat),
    cpD2SAux ((List.range' i len).map f) i (f (i - 1)) =
      (List.range' i len).filter (fun t => decide (f t ≠ f (t - 1)))
  | 0, i => by simp [cpD2SAux]
  | len + 1, i => by
    simp only [List.range'_succ, List.map_cons, cpD2SAux]
    have ih := cpD2SAux_map f len (i + 1)
    simp only [Nat.add_sub_cancel] at ih
    by_cases h : f i = f (i - 1)
    · simp only [h, if_true, List.filter_cons, ne_eq, not_true_eq_false, decide_false]
      rw [← h]; simpa using ih
    · simp only [h, if_false, List.filter_cons, ne_eq, not_false_eq_true, decide_true, if_true]
      rw [ih]

theorem segNo_step (cps : List Nat) (h : cps.Pairwise (· < ·)) (t : Nat) (ht : 1 ≤ t) :
    segNo cps t = segNo cps (t - 1) + (if t ∈ cps then 1 else 0) := by
  induction cps with
  | nil => simp [segNo]
  | cons c rest ih =>
    have hr := (List.pairwise_cons.1 h).2
    have hc := (List.pairwise_cons.1 h).1
    have ih' := ih hr
    simp only [segNo, List.filter_cons] at ih' ⊢
    by_cases h1 : c ≤ t - 1
    · have h2 : c ≤ t := by omega
      have h3 : t ≠ c := by omega
      have h4 : t ∉ rest ∨ t ∈ rest := by tauto
      simp only [h1, h2, decide_true, if_true, List.length_cons, List.mem_cons, h3, false_or]
      omega
    · by_cases h2 : c = t
      · subst h2
        have hnot : c ∉ rest := fun hm => by have := hc c hm; omega
        have hz : ∀ (k : Nat), k ≤ c → (rest.filter (fun x => decide (x ≤ k))).length = 0 := by
          intro k hk
          rw [List.length_eq_zero_iff, List.filter_eq_nil_iff]
          intro x hx
          have := hc x hx
          simp; omega
        have e1 := hz c (le_refl _)
        have e2 := hz (c - 1) (by omega)
        simp only [le_refl, decide_true, if_true, List.length_cons, List.mem_cons, true_or, h1,
          decide_false]
        simp only [Bool.false_eq_true, if_false]
        omega
      · have h3 : ¬ c ≤ t := by omega
        have h4 : t ≠ c := fun h => h2 h.symm
        simp only [h1, h3, decide_false, List.mem_cons, h4, false_or]
        exact ih'

theorem filter_mem_range' (cps : List Nat) (n : Nat) (h : ValidCps cps n) :
    (List.range' 1 (n - 1)).filter (fun t => decide (t ∈ cps)) = cps := by
  obtain ⟨hs, hb⟩ := h
  apply List.Perm.eq_of_pairwise (le := (· < ·))
  · intro a b _ _ h1 h2; omega
  · exact List.Pairwise.filter _ (List.pairwise_lt_range')
  · exact hs
  · rw [List.perm_ext_iff_of_nodup]
    · intro a
      simp only [List.mem_filter, List.mem_range'_1, decide_eq_true_eq]
      constructor
      · exact fun h => h.2
      · intro ha
        have := hb a ha
        exact ⟨by omega, ha⟩
    · exact List.Nodup.filter _ (List.nodup_range')
    · exact hs.imp (fun h => Nat.ne_of_lt h)

/-- **C05 (change detectors), model level**: dense segment labels converted back give exactly
    the changepoints, for any strictly increasing changepoints in `[1, n-1]` (changepoints at 1
    and at `n-1`, adjacent changepoints included). -/
theorem cp_roundtrip (cps : List Nat) (n : Nat) (h : ValidCps cps n) :
    cpD2S (cpS2D cps n) = cps := by
  cases n with
  | zero =>
    have : cps = [] := by
      cases cps with
      | nil => rfl
      | cons c _ => have := h.2 c (by simp); omega
    subst this; simp [cpS2D, cpD2S]
  | succ n =>
    have hr : List.range (n + 1) = 0 :: List.range' 1 n := by
      rw [List.range_eq_range', List.range'_succ]
    simp only [cpS2D, hr, List.map_cons, cpD2S]
    have hA := cpD2SAux_map (segNo cps) n 1
    simp only [Nat.sub_self] at hA
    change cpD2SAux ((List.range' 1 n).map (segNo cps)) 1 (segNo cps 0) = cps
    rw [hA]
    have hB : (List.range' 1 n).filter (fun t => decide (segNo cps t ≠ segNo cps (t - 1))) =
        (List.range' 1 n).filter (fun t => decide (t ∈ cps)) := by
      apply List.filter_congr
      intro t ht
      have ht1 : 1 ≤ t := (List.mem_range'_1.1 ht).1
      rw [segNo_step cps h.1 t ht1]
      by_cases hm : t ∈ cps <;> simp [hm]
    rw [hB]
    have := filter_mem_range' cps (n + 1) h
    simpa using this

/-- the dense label of position `i` is the number of the segment containing it -/
theorem cpS2D_getElem (cps : List Nat) (n i : Nat) (hi : i < n) :
    (cpS2D cps n)[i]? = some (segNo cps i) := by
  simp [cpS2D, segNo, hi]

end Skc
