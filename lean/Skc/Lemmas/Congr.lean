import Skc.Model.Pelt
import Skc.Model.Capa
import Skc.Model.Det
import Skc.Lemmas.Cbs
import Mathlib.Tactic.Set

/-! The detectors' outputs depend on the scorer only through its values on *admissible* cuts inside
    `[0, n]`: two score tables that agree there give identical outputs (scores and detections).
    This lifts every scorer-level invariance (C12: column permutation, shift, scale) to the detector
    output, and is the model-level content of "outputs are a function of the evaluated scores". -/
namespace Skc
set_option linter.unusedSectionVars false
variable {α : Type}

/-- a selector that looks at `f` only on the listed candidates -/
def PickExt (pick : (Nat → α) → List Nat → Nat) : Prop :=
  ∀ (f g : Nat → α) (l : List Nat), (∀ s ∈ l, f s = g s) → pick f l = pick g l

def PickMem (pick : (Nat → α) → List Nat → Nat) : Prop :=
  ∀ (f : Nat → α) (l : List Nat), l ≠ [] → pick f l ∈ l

section picks
variable [LT α] [DecidableLT α]

theorem argminFrom_congr (f g : Nat → α) : ∀ (l : List Nat) (b : Nat),
    (∀ s ∈ l, f s = g s) → f b = g b → argminFrom f l b = argminFrom g l b
  | [], _, _, _ => rfl
  | s :: l, b, h, hb => by
    have hs : f s = g s := h s (by simp)
    have hl : ∀ x ∈ l, f x = g x := fun x hx => h x (by simp [hx])
    simp only [argminFrom, hs, hb]
    split
    · exact argminFrom_congr f g l s hl hs
    · exact argminFrom_congr f g l b hl hb

theorem pickExt_argminL : PickExt (α := α) argminL := by
  intro f g l h
  cases l with
  | nil => rfl
  | cons s l =>
    exact argminFrom_congr f g l s (fun x hx => h x (by simp [hx])) (h s (by simp))

theorem argminLastFrom_congr (f g : Nat → α) : ∀ (l : List Nat) (b : Nat),
    (∀ s ∈ l, f s = g s) → f b = g b → argminLastFrom f l b = argminLastFrom g l b
  | [], _, _, _ => rfl
  | s :: l, b, h, hb => by
    have hs : f s = g s := h s (by simp)
    have hl : ∀ x ∈ l, f x = g x := fun x hx => h x (by simp [hx])
    simp only [argminLastFrom, hs, hb]
    split
    · exact argminLastFrom_congr f g l b hl hb
    · exact argminLastFrom_congr f g l s hl hs

theorem pickExt_argminLast : PickExt (α := α) argminLast := by
  intro f g l h
  cases l with
  | nil => rfl
  | cons s l =>
    exact argminLastFrom_congr f g l s (fun x hx => h x (by simp [hx])) (h s (by simp))

theorem argmaxFrom_congr (f g : Nat → α) : ∀ (l : List Nat) (b : Nat),
    (∀ s ∈ l, f s = g s) → f b = g b → argmaxFrom f l b = argmaxFrom g l b
  | [], _, _, _ => rfl
  | s :: l, b, h, hb => by
    have hs : f s = g s := h s (by simp)
    have hl : ∀ x ∈ l, f x = g x := fun x hx => h x (by simp [hx])
    simp only [argmaxFrom, hs, hb]
    split
    · exact argmaxFrom_congr f g l s hl hs
    · exact argmaxFrom_congr f g l b hl hb

theorem pickExt_argmaxL : PickExt (α := α) argmaxL := by
  intro f g l h
  cases l with
  | nil => rfl
  | cons s l =>
    exact argmaxFrom_congr f g l s (fun x hx => h x (by simp [hx])) (h s (by simp))

theorem argmaxLastFrom_congr (f g : Nat → α) : ∀ (l : List Nat) (b : Nat),
    (∀ s ∈ l, f s = g s) → f b = g b → argmaxLastFrom f l b = argmaxLastFrom g l b
  | [], _, _, _ => rfl
  | s :: l, b, h, hb => by
    have hs : f s = g s := h s (by simp)
    have hl : ∀ x ∈ l, f x = g x := fun x hx => h x (by simp [hx])
    simp only [argmaxLastFrom, hs, hb]
    split
    · exact argmaxLastFrom_congr f g l b hl hb
    · exact argmaxLastFrom_congr f g l s hl hs

theorem pickExt_argmaxLast : PickExt (α := α) argmaxLast := by
  intro f g l h
  cases l with
  | nil => rfl
  | cons s l =>
    exact argmaxLastFrom_congr f g l s (fun x hx => h x (by simp [hx])) (h s (by simp))

theorem argmaxRange_congr (f g : Nat → α) : ∀ (len i b : Nat),
    (∀ t, i ≤ t → t < i + len → f t = g t) → f b = g b → argmaxRange f i len b = argmaxRange g i len b
  | 0, _, _, _, _ => rfl
  | len + 1, i, b, h, hb => by
    have hi : f i = g i := h i (Nat.le_refl _) (by omega)
    have hl : ∀ t, i + 1 ≤ t → t < i + 1 + len → f t = g t := fun t h1 h2 => h t (by omega) (by omega)
    simp only [argmaxRange, hi, hb]
    split
    · exact argmaxRange_congr f g len (i + 1) i hl hi
    · exact argmaxRange_congr f g len (i + 1) b hl hb

theorem pickMem_argminL : PickMem (α := α) argminL := by
  intro f l hl
  cases l with
  | nil => exact absurd rfl hl
  | cons s l =>
    have : ∀ (l : List Nat) (b : Nat), argminFrom f l b = b ∨ argminFrom f l b ∈ l := by
      intro l
      induction l with
      | nil => intro b; left; rfl
      | cons x l ih =>
        intro b
        simp only [argminFrom]
        split
        · rcases ih x with h | h
          · right; rw [h]; simp
          · right; simp [h]
        · rcases ih b with h | h
          · left; exact h
          · right; simp [h]
    simp only [argminL]
    rcases this l s with h | h
    · rw [h]; simp
    · simp [h]

theorem pickMem_argmaxL : PickMem (α := α) argmaxL := by
  intro f l hl
  cases l with
  | nil => exact absurd rfl hl
  | cons s l =>
    have : ∀ (l : List Nat) (b : Nat), argmaxFrom f l b = b ∨ argmaxFrom f l b ∈ l := by
      intro l
      induction l with
      | nil => intro b; left; rfl
      | cons x l ih =>
        intro b
        simp only [argmaxFrom]
        split
        · rcases ih x with h | h
          · right; rw [h]; simp
          · right; simp [h]
        · rcases ih b with h | h
          · left; exact h
          · right; simp [h]
    simp only [argmaxL]
    rcases this l s with h | h
    · rw [h]; simp
    · simp [h]

end picks

/-! ### PELT -/
section pelt
variable [Add α] [Neg α] [Zero α]

/-- `peltStep` with the candidate values abstracted -/
def peltStepC (pick : (Nat → α) → List Nat → Nat) (pr : α → α → Bool)
    (cand : Nat → α) (pen : α) (m delay : Nat) (st : PeltSt α) (t : Nat) : PeltSt α :=
  let e := t + 1
  let starts := st.starts ++ [t - (m - 1)]
  let best := pick cand starts
  let v := cand best
  let prune := starts.filter (fun s => pr (cand s) (v + pen))
  let pending := st.pending ++ [prune]
  let now := if pending.length > delay then pending.headD [] else []
  let pending' := if pending.length > delay then pending.tail else pending
  { opt := upd st.opt e v
    prev := upd st.prev t best
    starts := starts.filter (fun s => ¬ now.contains s)
    pending := pending' }

theorem peltStep_eq_C (pick : (Nat → α) → List Nat → Nat) (pr : α → α → Bool)
    (cost : Nat → Nat → α) (pen : α) (m delay : Nat) (st : PeltSt α) (t : Nat) :
    peltStep pick pr cost pen m delay st t =
      peltStepC pick pr (fun s => st.opt s + cost s (t + 1) + pen) pen m delay st t := rfl

theorem peltStepC_congr (pick : (Nat → α) → List Nat → Nat) (pr : α → α → Bool)
    (hext : PickExt pick) (hmem : PickMem pick)
    (cand cand' : Nat → α) (pen : α) (m delay : Nat) (st : PeltSt α) (t : Nat)
    (h : ∀ s ∈ st.starts ++ [t - (m - 1)], cand s = cand' s) :
    peltStepC pick pr cand pen m delay st t = peltStepC pick pr cand' pen m delay st t := by
  have hb : pick cand (st.starts ++ [t - (m - 1)]) = pick cand' (st.starts ++ [t - (m - 1)]) :=
    hext _ _ _ h
  have hv : cand (pick cand (st.starts ++ [t - (m - 1)])) =
      cand' (pick cand' (st.starts ++ [t - (m - 1)])) := by
    rw [← hb]; exact h _ (hmem _ _ (by simp))
  have hf : (st.starts ++ [t - (m - 1)]).filter
        (fun s => pr (cand s) (cand (pick cand (st.starts ++ [t - (m - 1)])) + pen)) =
      (st.starts ++ [t - (m - 1)]).filter
        (fun s => pr (cand' s) (cand' (pick cand' (st.starts ++ [t - (m - 1)])) + pen)) := by
    rw [← hv]
    apply List.filter_congr
    intro s hs
    rw [h s hs]
  simp only [peltStepC]
  rw [hf, hv, hb]

theorem peltIter_congr (pick : (Nat → α) → List Nat → Nat) (pr : α → α → Bool)
    (hext : PickExt pick) (hmem : PickMem pick)
    (cost cost' : Nat → Nat → α) (pen : α) (m delay n : Nat) (hm : 1 ≤ m)
    (h : ∀ s e, s < e → e ≤ n → cost s e = cost' s e) :
    ∀ k, 2 * m + k ≤ n + 1 →
      peltIter pick pr cost pen m delay k = peltIter pick pr cost' pen m delay k ∧
      ∀ s ∈ (peltIter pick pr cost pen m delay k).starts, s < m + k
  | 0, hk => by
    constructor
    · simp only [peltIter, peltInit]
      congr 1
      funext k
      split
      · rfl
      · split
        · exact h 0 k (by omega) (by omega)
        · rfl
    · intro s hs
      simp only [peltIter, peltInit, List.mem_singleton] at hs
      omega
  | k + 1, hk => by
    obtain ⟨ih1, ih2⟩ := peltIter_congr pick pr hext hmem cost cost' pen m delay n hm h k (by omega)
    have hst : ∀ s ∈ (peltIter pick pr cost pen m delay k).starts ++ [2 * m - 1 + k - (m - 1)],
        s < m + k + 1 := by
      intro s hs
      rcases List.mem_append.1 hs with hs | hs
      · have := ih2 s hs; omega
      · simp only [List.mem_singleton] at hs; omega
    constructor
    · simp only [peltIter]
      rw [← ih1, peltStep_eq_C, peltStep_eq_C]
      apply peltStepC_congr pick pr hext hmem
      intro s hs
      have := hst s hs
      rw [h s (2 * m - 1 + k + 1) (by omega) (by omega)]
    · intro s hs
      simp only [peltIter, peltStep] at hs
      have := hst s (List.mem_filter.1 hs).1
      omega

/-- **PELT**: cost tables that agree on every interval `[s, e)` with `s < e ≤ n` give the same
    scores and the same changepoints -/
theorem runPelt_congr (pick : (Nat → α) → List Nat → Nat) (pr : α → α → Bool)
    (hext : PickExt pick) (hmem : PickMem pick)
    (cost cost' : Nat → Nat → α) (pen : α) (m delay n : Nat) (hm : 1 ≤ m) (hn : 2 * m ≤ n)
    (h : ∀ s e, s < e → e ≤ n → cost s e = cost' s e) :
    runPelt pick pr cost pen m delay n = runPelt pick pr cost' pen m delay n := by
  simp only [runPelt]
  rw [(peltIter_congr pick pr hext hmem cost cost' pen m delay n hm h (n + 1 - 2 * m) (by omega)).1]

end pelt

/-! ### CAPA -/
section capa
variable [Add α] [Zero α] [LT α] [DecidableLT α] [LE α] [DecidableLE α]

/-- `capaStep` with the candidate values and the point value abstracted -/
def capaStepC (pick : (Nat → α) → List Nat → Nat) (pr : α → α → Bool)
    (cand : Nat → α) (pp : α) (K : α) (m M delay : Nat) (st : CapaSt α) (t : Nat) : CapaSt α :=
  let e := t + 1
  let starts := if m ≤ e then st.starts ++ [e - m] else st.starts
  let best := pick cand starts
  let vNone := st.opt t
  let vPoint := st.opt t + pp
  let collWins : Prop := starts ≠ [] ∧ vNone < cand best ∧ ¬ (cand best < vPoint)
  let v := if collWins then cand best else if vNone < vPoint then vPoint else vNone
  let a : Option Nat := if collWins then some best else if vNone < vPoint then some t else none
  let prune := starts.filter (fun s => pr (cand s + K) v)
  let pending := st.pending ++ [prune]
  let now := if pending.length > delay then pending.headD [] else []
  let pending' := if pending.length > delay then pending.tail else pending
  let starts1 := starts.filter (fun s => ¬ now.contains s)
  let starts2 := starts1.filter (fun s => ¬ (s + M ≤ e))
  { opt := upd st.opt e v, astart := upd st.astart t a, starts := starts2, pending := pending' }

theorem capaStep_eq_C (pick : (Nat → α) → List Nat → Nat) (pr : α → α → Bool)
    (PS : Nat → Nat → α) (PP : Nat → α) (K : α) (m M delay : Nat) (st : CapaSt α) (t : Nat) :
    capaStep pick pr PS PP K m M delay st t =
      capaStepC pick pr (fun s => st.opt s + PS s (t + 1)) (PP t) K m M delay st t := rfl

theorem capaStepC_congr (pick : (Nat → α) → List Nat → Nat) (pr : α → α → Bool)
    (hext : PickExt pick) (hmem : PickMem pick)
    (cand cand' : Nat → α) (pp K : α) (m M delay : Nat) (st : CapaSt α) (t : Nat)
    (h : ∀ s ∈ (if m ≤ t + 1 then st.starts ++ [t + 1 - m] else st.starts), cand s = cand' s) :
    capaStepC pick pr cand pp K m M delay st t = capaStepC pick pr cand' pp K m M delay st t := by
  set starts := (if m ≤ t + 1 then st.starts ++ [t + 1 - m] else st.starts) with hstarts
  have hb : pick cand starts = pick cand' starts := hext _ _ _ h
  by_cases hne : starts = []
  · -- no candidate start: the collective branch is dead and the filters are empty
    simp only [capaStepC, ← hstarts, hne, ne_eq, not_true_eq_false, false_and, if_false,
      List.filter_nil]
  · have hv : cand (pick cand starts) = cand' (pick cand' starts) := by
      rw [← hb]; exact h _ (hmem _ _ hne)
    have hf : ∀ v : α, starts.filter (fun s => pr (cand s + K) v) =
        starts.filter (fun s => pr (cand' s + K) v) := by
      intro v
      apply List.filter_congr
      intro s hs
      rw [h s hs]
    have hv' : cand (pick cand' starts) = cand' (pick cand' starts) := by
      have := hv; rw [hb] at this; exact this
    simp only [capaStepC, ← hstarts, hf, hb, hv']

theorem capaIterG_congr (pick : (Nat → α) → List Nat → Nat) (pr : α → α → Bool)
    (hext : PickExt pick) (hmem : PickMem pick)
    (PS PS' : Nat → Nat → α) (PP PP' : Nat → α) (K : α) (m M delay n : Nat) (hm : 1 ≤ m)
    (h : ∀ s e, s < e → e ≤ n → PS s e = PS' s e) (hp : ∀ t, t < n → PP t = PP' t) :
    ∀ k, k ≤ n →
      capaIterG pick pr PS PP K m M delay k = capaIterG pick pr PS' PP' K m M delay k ∧
      ∀ s ∈ (capaIterG pick pr PS PP K m M delay k).starts, s < k
  | 0, _ => by
    constructor
    · rfl
    · intro s hs; simp [capaIterG, capaInit] at hs
  | k + 1, hk => by
    obtain ⟨ih1, ih2⟩ := capaIterG_congr pick pr hext hmem PS PS' PP PP' K m M delay n hm h hp k (by omega)
    have hst : ∀ s ∈ (if m ≤ k + 1 then (capaIterG pick pr PS PP K m M delay k).starts ++ [k + 1 - m]
        else (capaIterG pick pr PS PP K m M delay k).starts), s < k + 1 := by
      intro s hs
      split at hs
      · rcases List.mem_append.1 hs with hs | hs
        · have := ih2 s hs; omega
        · simp only [List.mem_singleton] at hs; omega
      · have := ih2 s hs; omega
    constructor
    · simp only [capaIterG]
      rw [← ih1, capaStep_eq_C, capaStep_eq_C, hp k (by omega)]
      apply capaStepC_congr pick pr hext hmem
      intro s hs
      have := hst s hs
      rw [h s (k + 1) (by omega) (by omega)]
    · intro s hs
      simp only [capaIterG, capaStep] at hs
      exact hst s (List.mem_filter.1 (List.mem_filter.1 hs).1).1

/-- **CAPA / MVCAPA**: penalised savings that agree on every interval inside `[0, n]` give the same
    scores and the same anomalies -/
theorem runCapaG_congr (pick : (Nat → α) → List Nat → Nat) (pr : α → α → Bool)
    (hext : PickExt pick) (hmem : PickMem pick)
    (PS PS' : Nat → Nat → α) (PP PP' : Nat → α) (K : α) (m M delay n : Nat) (hm : 1 ≤ m)
    (h : ∀ s e, s < e → e ≤ n → PS s e = PS' s e) (hp : ∀ t, t < n → PP t = PP' t) :
    runCapaG pick pr PS PP K m M delay n = runCapaG pick pr PS' PP' K m M delay n := by
  simp only [runCapaG]
  rw [(capaIterG_congr pick pr hext hmem PS PS' PP PP' K m M delay n hm h hp n (Nat.le_refl _)).1]

end capa

/-! ### moving window, seeded and circular binary segmentation -/
section det
variable [LT α] [DecidableLT α] [Zero α]

/-- **moving window**: change scores that agree on cuts `s < k < e ≤ n` give the same score curve,
    hence the same changepoints -/
theorem mwScores_congr_read (cs cs' : Nat → Nat → Nat → α) (n b : Nat)
    (h : ∀ s k e, s + b = k → k + b = e → e ≤ n → cs s k e = cs' s k e) :
    mwScores cs n b 0 = mwScores cs' n b 0 := by
  funext t
  simp only [mwScores, Nat.add_zero]
  split
  · rename_i hc
    exact h _ _ _ (by omega) rfl hc.2
  · rfl

theorem mwScores_congr (cs cs' : Nat → Nat → Nat → α) (n b : Nat) (hb : 1 ≤ b)
    (h : ∀ s k e, s < k → k < e → e ≤ n → cs s k e = cs' s k e) :
    mwScores cs n b 0 = mwScores cs' n b 0 :=
  mwScores_congr_read cs cs' n b (fun s k e h1 h2 h3 => h s k e (by omega) (by omega) h3)

theorem amoc_congr_read (cs cs' : Nat → Nat → Nat → α) (m n : Nat) (iv : Nat × Nat)
    (hiv : iv.2 ≤ n) (h : ∀ s k e, s + m ≤ k → k + m ≤ e → e ≤ n → cs s k e = cs' s k e) :
    amoc cs m iv = amoc cs' m iv := by
  simp only [amoc]
  split
  · rfl
  · rename_i hcnt
    have hk : argmaxRange (fun k => cs iv.1 k iv.2) (iv.1 + m + 1) (iv.2 - m + 1 - (iv.1 + m) - 1) (iv.1 + m) =
        argmaxRange (fun k => cs' iv.1 k iv.2) (iv.1 + m + 1) (iv.2 - m + 1 - (iv.1 + m) - 1) (iv.1 + m) := by
      apply argmaxRange_congr
      · intro t h1 h2
        exact h _ _ _ (by omega) (by omega) hiv
      · exact h _ _ _ (by omega) (by omega) hiv
    rw [hk]
    congr 2
    -- the maximiser lies in the admissible range
    set k := argmaxRange (fun k => cs' iv.1 k iv.2) (iv.1 + m + 1) (iv.2 - m + 1 - (iv.1 + m) - 1) (iv.1 + m)
    have hk' : k = iv.1 + m ∨ (iv.1 + m + 1 ≤ k ∧ k < iv.1 + m + 1 + (iv.2 - m + 1 - (iv.1 + m) - 1)) := by
      have : ∀ (f : Nat → α) (len i b : Nat), argmaxRange f i len b = b ∨
          (i ≤ argmaxRange f i len b ∧ argmaxRange f i len b < i + len) := by
        intro f len
        induction len with
        | zero => intro i b; left; rfl
        | succ len ih =>
          intro i b
          simp only [argmaxRange]
          split
          · rcases ih (i + 1) i with h | h
            · right; rw [h]; omega
            · right; omega
          · rcases ih (i + 1) b with h | h
            · left; exact h
            · right; omega
      exact this _ _ _ _
    exact h _ _ _ (by omega) (by omega) hiv

theorem amoc_congr (cs cs' : Nat → Nat → Nat → α) (m n : Nat) (hm : 1 ≤ m) (iv : Nat × Nat)
    (hiv : iv.2 ≤ n) (h : ∀ s k e, s < k → k < e → e ≤ n → cs s k e = cs' s k e) :
    amoc cs m iv = amoc cs' m iv :=
  amoc_congr_read cs cs' m n iv hiv (fun s k e h1 h2 h3 => h s k e (by omega) (by omega) h3)

theorem mapOpt_congr {β γ : Type} (f g : β → Option γ) : ∀ (l : List β),
    (∀ b ∈ l, f b = g b) → mapOpt f l = mapOpt g l
  | [], _ => rfl
  | b :: l, h => by
    simp only [mapOpt, h b (by simp), mapOpt_congr f g l (fun x hx => h x (by simp [hx]))]

/-- **seeded binary segmentation**: change scores that agree on cuts inside `[0, n]` give the same
    table and the same changepoints -/
theorem runSbs_congr_read (cs cs' : Nat → Nat → Nat → α) (m n : Nat) (thr : α)
    (ivs : List (Nat × Nat)) (hivs : ∀ iv ∈ ivs, iv.2 ≤ n)
    (h : ∀ s k e, s + m ≤ k → k + m ≤ e → e ≤ n → cs s k e = cs' s k e) :
    runSbs cs m thr ivs = runSbs cs' m thr ivs := by
  simp only [runSbs]
  rw [mapOpt_congr (amoc cs m) (amoc cs' m) ivs (fun iv hiv => amoc_congr_read cs cs' m n iv (hivs iv hiv) h)]

theorem runSbs_congr (cs cs' : Nat → Nat → Nat → α) (m n : Nat) (hm : 1 ≤ m) (thr : α)
    (ivs : List (Nat × Nat)) (hivs : ∀ iv ∈ ivs, iv.2 ≤ n)
    (h : ∀ s k e, s < k → k < e → e ≤ n → cs s k e = cs' s k e) :
    runSbs cs m thr ivs = runSbs cs' m thr ivs :=
  runSbs_congr_read cs cs' m n thr ivs hivs (fun s k e h1 h2 h3 => h s k e (by omega) (by omega) h3)

end det
/-! ### circular binary segmentation -/
section cbs
variable [LT α] [DecidableLT α] [Zero α]

theorem foldl_argmax_congr (f g : Nat × Nat → α) : ∀ (l : List (Nat × Nat)) (b : (Nat × Nat) × α),
    (∀ c ∈ l, f c = g c) →
    l.foldl (fun (b : (Nat × Nat) × α) c => if b.2 < f c then (c, f c) else b) b =
      l.foldl (fun (b : (Nat × Nat) × α) c => if b.2 < g c then (c, g c) else b) b
  | [], _, _ => rfl
  | x :: l, b, h => by
    simp only [List.foldl_cons]
    rw [h x (by simp)]
    exact foldl_argmax_congr f g l _ (fun y hy => h y (by simp [hy]))

theorem argmaxCands_congr (f g : Nat × Nat → α) (l : List (Nat × Nat)) (h : ∀ c ∈ l, f c = g c) :
    argmaxCands f l = argmaxCands g l := by
  cases l with
  | nil => rfl
  | cons c l =>
    simp only [argmaxCands]
    rw [h c (by simp), foldl_argmax_congr f g l _ (fun x hx => h x (by simp [hx]))]

/-- **circular binary segmentation**, hypothesis only on the cuts the detector reads: inner interval of at
    least `m` rows strictly inside the candidate, at least `m` rows around it -/
theorem runCbs_congr_read (las las' : Nat → Nat → Nat → Nat → α) (m n : Nat) (thr : α)
    (ivs : List (Nat × Nat)) (hivs : ∀ iv ∈ ivs, iv.2 ≤ n)
    (h : ∀ s i j e, s < i → i + m ≤ j → j < e → m ≤ (e - j) + (i - s) → e ≤ n → las s i j e = las' s i j e) :
    runCbs las m thr ivs = runCbs las' m thr ivs := by
  have hrows : ivs.map (cbsRow las m) = ivs.map (cbsRow las' m) := by
    apply List.map_congr_left
    intro iv hiv
    simp only [cbsRow]
    rw [argmaxCands_congr (fun c => las iv.1 c.1 c.2 iv.2) (fun c => las' iv.1 c.1 c.2 iv.2)]
    intro c hc
    obtain ⟨h1, h2, h3, h4⟩ := (mem_anomalyIntervals iv.1 iv.2 m c.1 c.2).1 hc
    exact h _ _ _ _ h1 h2 h3 h4 (hivs iv hiv)
  simp only [runCbs, hrows]

/-- **circular binary segmentation**: local anomaly scores that agree on cuts
    `s < i < j < e ≤ n` give the same table and the same anomalies -/
theorem runCbs_congr (las las' : Nat → Nat → Nat → Nat → α) (m n : Nat) (hm : 1 ≤ m) (thr : α)
    (ivs : List (Nat × Nat)) (hivs : ∀ iv ∈ ivs, iv.2 ≤ n)
    (h : ∀ s i j e, s < i → i < j → j < e → e ≤ n → las s i j e = las' s i j e) :
    runCbs las m thr ivs = runCbs las' m thr ivs :=
  runCbs_congr_read las las' m n thr ivs hivs (fun s i j e h1 h2 h3 _ h5 => h s i j e h1 (by omega) h3 h5)

end cbs

end Skc
