import Skc.Lemmas.PenH
import Mathlib.Algebra.Order.BigOperators.Group.List

/-! The penalised saving of one candidate against its *specification*: the best, over non-empty
    selections of components, of their summed savings minus the constant penalty (once) minus the
    per-component penalties of that many components (C03). -/
namespace Skc
set_option linter.unusedSectionVars false
variable {α : Type} [AddCommGroup α] [LinearOrder α] [IsOrderedAddMonoid α]

/-- value of selecting the components with savings `J`: `Σ J − Σ_{i<|J|} β_i − alpha`
    (a `betas` list shorter than `|J|` charges nothing for the missing entries — CAPA passes `[0]`) -/
def selVal (alpha : α) (betas J : List α) : α := J.sum - (betas.take J.length).sum - alpha

/-- `v` is the specification's penalised saving: attained by a non-empty selection of components
    (a sub-multiset of the savings) and an upper bound for all of them -/
def IsBestSel (sav : List α) (alpha : α) (betas : List α) (v : α) : Prop :=
  (∃ J, J.Subperm sav ∧ J ≠ [] ∧ selVal alpha betas J = v) ∧
    ∀ J, J.Subperm sav → J ≠ [] → selVal alpha betas J ≤ v

theorem isBestSel_unique (sav : List α) (alpha : α) (betas : List α) (v w : α)
    (hv : IsBestSel sav alpha betas v) (hw : IsBestSel sav alpha betas w) : v = w := by
  obtain ⟨⟨J, hJ1, hJ2, hJ3⟩, hvu⟩ := hv
  obtain ⟨⟨J', hJ1', hJ2', hJ3'⟩, hwu⟩ := hw
  apply le_antisymm
  · rw [← hJ3]; exact hwu J hJ1 hJ2
  · rw [← hJ3']; exact hvu J' hJ1' hJ2'

theorem subperm_sum_le_of_nonneg (J sav : List α) (h : J.Subperm sav) (hs : ∀ s ∈ sav, 0 ≤ s) :
    J.sum ≤ sav.sum := by
  obtain ⟨J', hperm, hsub⟩ := h
  rw [← hperm.sum_eq]
  exact hsub.sum_le_sum (fun a ha => hs a ha)

theorem take_sum_zero (betas : List α) (h : ∀ b ∈ betas, b = 0) (k : Nat) : (betas.take k).sum = 0 := by
  apply List.sum_eq_zero
  intro b hb
  exact h b (List.mem_of_mem_take hb)

/-- general branch: the value is the specification's -/
theorem penGeneral_isBest (sav : List α) (alpha : α) (betas : List α)
    (hlen : betas.length = sav.length) (hp : sav ≠ []) :
    IsBestSel sav alpha betas (penGeneral sav alpha betas).2 := by
  obtain ⟨hk, hval, _⟩ := penGeneral_spec sav alpha betas hlen hp
  set k := (penGeneral sav alpha betas).1
  refine ⟨⟨((orderDesc sav).map (·.2)).take (k + 1), ?_, ?_, ?_⟩, ?_⟩
  · exact ((List.take_sublist _ _).subperm).trans (orderDesc_vals_perm sav).subperm
  · intro h
    have hl : (((orderDesc sav).map (·.2)).take (k + 1)).length = k + 1 := by
      simp [orderDesc_length]; omega
    rw [h] at hl; simp at hl
  · have hl : (((orderDesc sav).map (·.2)).take (k + 1)).length = k + 1 := by
      simp [orderDesc_length]; omega
    rw [hval]; simp only [selVal, prefVal, hl]
  · intro J hJ hne
    exact penGeneral_ge_subset sav alpha betas hlen J hJ hne

/-- dense branch (`Σ − alpha`) with all betas zero and non-negative savings: the specification's -/
theorem dense_isBest (sav : List α) (alpha : α) (betas : List α) (hp : sav ≠ [])
    (hb : ∀ b ∈ betas, b = 0) (hs : ∀ s ∈ sav, 0 ≤ s) :
    IsBestSel sav alpha betas (sav.sum - alpha) := by
  refine ⟨⟨sav, List.Subperm.refl _, hp, ?_⟩, ?_⟩
  · simp [selVal, take_sum_zero betas hb]
  · intro J hJ _
    simp only [selVal, take_sum_zero betas hb, sub_zero]
    have := subperm_sum_le_of_nonneg J sav hJ hs
    exact sub_le_sub_right this alpha

theorem sum_map_pos_nonneg (b : α) (l : List α) : 0 ≤ (l.map (pos b)).sum := by
  apply List.sum_nonneg
  intro x hx
  obtain ⟨s, _, rfl⟩ := List.mem_map.1 hx
  unfold pos; split <;> [exact le_refl _; (rename_i h; exact not_lt.1 h)]

theorem sub_le_pos (b s : α) : s - b ≤ pos b s := by
  unfold pos; split
  · rename_i h; exact le_of_lt h
  · exact le_refl _

theorem take_replicate_sum (b : α) (betas : List α) (hb : ∀ x ∈ betas, x = b) (k : Nat)
    (hk : k ≤ betas.length) : (betas.take k).sum = (List.replicate k b).sum := by
  have : betas.take k = List.replicate k b := by
    apply List.eq_replicate_iff.2
    refine ⟨by simp [hk], ?_⟩
    intro x hx
    exact hb x (List.mem_of_mem_take hx)
  rw [this]

theorem sum_sub_replicate (J : List α) (b : α) :
    J.sum - (List.replicate J.length b).sum = (J.map (fun s => s - b)).sum := by
  induction J with
  | nil => simp
  | cons a t ih =>
    simp only [List.sum_cons, List.length_cons, List.replicate_succ, List.map_cons]
    rw [← ih]; abel

/-- equal-betas branch (`Σ max(s − β, 0) − alpha`): an upper bound for every selection -/
theorem equal_ge (sav : List α) (alpha b : α) (betas : List α) (hb : ∀ x ∈ betas, x = b)
    (hlen : betas.length = sav.length) (J : List α) (hJ : J.Subperm sav) :
    selVal alpha betas J ≤ (sav.map (pos b)).sum - alpha := by
  have hJl : J.length ≤ betas.length := by rw [hlen]; exact hJ.length_le
  simp only [selVal, take_replicate_sum b betas hb J.length hJl, sum_sub_replicate]
  apply sub_le_sub_right
  have h1 : (J.map (fun s => s - b)).sum ≤ (J.map (pos b)).sum := by
    apply List.sum_le_sum
    intro s _
    exact sub_le_pos b s
  have h2 : (J.map (pos b)).sum ≤ (sav.map (pos b)).sum := by
    apply subperm_sum_le_of_nonneg
    · obtain ⟨J', hp, hs⟩ := hJ
      exact ⟨J'.map (pos b), hp.map _, hs.map _⟩
    · intro x hx
      obtain ⟨s, _, rfl⟩ := List.mem_map.1 hx
      unfold pos; split <;> [exact le_refl _; (rename_i h; exact not_lt.1 h)]
  exact le_trans h1 h2

theorem sum_map_pos_eq_filter (b : α) : ∀ (l : List α),
    (l.map (pos b)).sum = ((l.filter (fun s => decide (¬ s - b < 0))).map (fun s => s - b)).sum
  | [] => by simp
  | a :: t => by
    have ih := sum_map_pos_eq_filter b t
    by_cases h : a - b < 0
    · simp only [List.map_cons, List.sum_cons, pos, h, if_true, zero_add, List.filter_cons,
        not_true_eq_false, decide_false]
      simpa [pos] using ih
    · simp only [List.map_cons, List.sum_cons, pos, h, if_false, List.filter_cons,
        not_false_eq_true, decide_true, if_true]
      rw [← ih]

/-- equal-betas branch: when the value exceeds `−alpha` it is attained, hence the specification's -/
theorem equal_isBest (sav : List α) (alpha b : α) (betas : List α) (hb : ∀ x ∈ betas, x = b)
    (hlen : betas.length = sav.length) (hpos : -alpha < (sav.map (pos b)).sum - alpha) :
    IsBestSel sav alpha betas ((sav.map (pos b)).sum - alpha) := by
  refine ⟨?_, fun J hJ _ => equal_ge sav alpha b betas hb hlen J hJ⟩
  set J := sav.filter (fun s => decide (¬ s - b < 0)) with hJ
  have hsub : J.Subperm sav := (List.filter_sublist).subperm
  have hJl : J.length ≤ betas.length := by rw [hlen]; exact hsub.length_le
  refine ⟨J, hsub, ?_, ?_⟩
  · intro hnil
    have : (sav.map (pos b)).sum = 0 := by
      rw [sum_map_pos_eq_filter, ← hJ, hnil]; simp
    rw [this] at hpos
    simp at hpos
  · simp only [selVal, take_replicate_sum b betas hb J.length hJl, sum_sub_replicate]
    rw [sum_map_pos_eq_filter]

end Skc
