import Skc.Model.Pelt
import Skc.Lemmas.Argmin
import Skc.Lemmas.ListAux
import Skc.Spec.Segmentation
import Mathlib.Algebra.Order.Group.Defs
import Mathlib.Order.Basic
import Mathlib.Tactic.Linarith

/-! The invariant of the PELT main loop and its preservation (C02).  Proved for every selector
    `pick` that returns a minimiser, every pruning test `pr` that only selects starts whose
    candidate value is at least the bound, every `delay ≥ m - 1`. -/
namespace Skc
set_option linter.unusedSectionVars false
variable {α : Type} [AddCommGroup α] [LinearOrder α] [IsOrderedAddMonoid α]

/-- evidence that start `s` may be dropped for all prefixes `≥ e0 + m` -/
def Good (cost : Nat → Nat → α) (m : Nat) (opt : Nat → α) (s e0 : Nat) : Prop :=
  Adm m s e0 ∧ 2 * m ≤ e0 ∧ opt e0 ≤ opt s + cost s e0

structure Inv (cost : Nat → Nat → α) (pen : α) (m delay k : Nat) (st : PeltSt α) : Prop where
  /-- initial block -/
  opt_lt : ∀ j, j < m → st.opt j = -pen
  opt_mid : ∀ j, m ≤ j → j < 2 * m → st.opt j = cost 0 j
  prev_lo : ∀ j, j + 1 < 2 * m → st.prev j = 0
  /-- active starts are admissible for the last processed prefix `2m+k-1` -/
  starts_adm : ∀ s ∈ st.starts, Adm m s (2 * m + k - 1)
  /-- every admissible start is active or droppable from the next prefix on -/
  cover : ∀ s, Adm m s (2 * m + k - 1) →
      s ∈ st.starts ∨ ∃ e0, Good cost m st.opt s e0 ∧ e0 + m ≤ 2 * m + k
  /-- pending prune sets: the i-th newest was decided at prefix `2m+k-1-i` -/
  pend : ∀ i P, st.pending.reverse[i]? = some P → ∀ s ∈ P, i + 1 ≤ k ∧ Good cost m st.opt s (2 * m + k - 1 - i)
  pend_len : st.pending.length ≤ delay
  /-- Bellman equations on processed prefixes -/
  bell_eq : ∀ e, 2 * m ≤ e → e < 2 * m + k →
      Adm m (st.prev (e - 1)) e ∧ st.opt e = st.opt (st.prev (e - 1)) + cost (st.prev (e - 1)) e + pen
  bell_le : ∀ e, 2 * m ≤ e → e < 2 * m + k → ∀ s, Adm m s e → st.opt e ≤ st.opt s + cost s e + pen

theorem inv_init (cost : Nat → Nat → α) (pen : α) (m delay : Nat) (hm : 1 ≤ m) :
    Inv cost pen m delay 0 (peltInit cost pen m) := by
  refine ⟨?_, ?_, ?_, ?_, ?_, ?_, ?_, ?_, ?_⟩
  · intro j hj; simp [peltInit, hj]
  · intro j h1 h2; simp [peltInit, h2, Nat.not_lt.2 h1]
  · intro j _; rfl
  · intro s hs
    simp [peltInit] at hs
    subst hs
    left; omega
  · intro s hs
    left
    simp only [peltInit, List.mem_singleton]
    rcases hs with ⟨h, _⟩ | ⟨h1, h2⟩
    · exact h
    · omega
  · intro i P h; simp [peltInit] at h
  · simp [peltInit]
  · intro e h1 h2; omega
  · intro e h1 h2; omega

end Skc

namespace Skc
set_option linter.unusedSectionVars false
variable {α : Type} [AddCommGroup α] [LinearOrder α] [IsOrderedAddMonoid α]

theorem adm_lt {m s e : Nat} (hm : 1 ≤ m) (h : Adm m s e) : s < e := by
  rcases h with ⟨h, h'⟩ | ⟨h1, h2⟩ <;> omega

/-- domination: with the pre-state invariant, every admissible start for the new prefix `e = 2m+k`
    is beaten (weakly) by an active start. -/
theorem cover_le (cost : Nat → Nat → α) (pen : α) (m delay k n : Nat) (st : PeltSt α)
    (hm : 1 ≤ m) (hkn : 2 * m + k ≤ n)
    (hsplit : ∀ s t e, Adm m s t → t + m ≤ e → e ≤ n → cost s t + cost t e ≤ cost s e)
    (inv : Inv cost pen m delay k st) :
    ∀ d s, (2 * m + k) - s ≤ d → Adm m s (2 * m + k) →
      ∃ s' ∈ st.starts ++ [m + k],
        st.opt s' + cost s' (2 * m + k) + pen ≤ st.opt s + cost s (2 * m + k) + pen := by
  intro d
  induction d with
  | zero =>
    intro s hd hs
    have := adm_lt hm hs
    omega
  | succ d ih =>
    intro s hd hs
    by_cases hnew : s = m + k
    · exact ⟨s, by simp [hnew], le_refl _⟩
    · have hs' : Adm m s (2 * m + k - 1) := by
        rcases hs with ⟨h, h'⟩ | ⟨h1, h2⟩
        · left; omega
        · right; omega
      rcases inv.cover s hs' with hmem | ⟨e0, ⟨hadm, h2m, hlt⟩, he0⟩
      · exact ⟨s, by simp [hmem], le_refl _⟩
      · have hse0 := adm_lt hm hadm
        have hadm0 : Adm m e0 (2 * m + k) := by right; omega
        obtain ⟨s', hs'mem, hs'le⟩ := ih e0 (by omega) hadm0
        refine ⟨s', hs'mem, le_trans hs'le ?_⟩
        have hsp := hsplit s e0 (2 * m + k) hadm he0 hkn
        have : st.opt e0 + cost e0 (2 * m + k) + pen ≤ st.opt s + (cost s e0 + cost e0 (2 * m + k)) + pen := by
          have := hlt
          grind
        grind

end Skc

namespace Skc
set_option linter.unusedSectionVars false
variable {α : Type} [AddCommGroup α] [LinearOrder α] [IsOrderedAddMonoid α]

theorem good_mono (cost : Nat → Nat → α) (m : Nat) (opt opt' : Nat → α) (s e0 E : Nat)
    (hm : 1 ≤ m) (hE : e0 < E) (hfr : ∀ j, j < E → opt' j = opt j) (h : Good cost m opt s e0) :
    Good cost m opt' s e0 := by
  obtain ⟨ha, h2, hlt⟩ := h
  have := adm_lt hm ha
  refine ⟨ha, h2, ?_⟩
  rw [hfr e0 hE, hfr s (by omega)]
  exact hlt

theorem inv_step (pick : (Nat → α) → List Nat → Nat) (pr : α → α → Bool)
    (hpick_mem : ∀ (f : Nat → α) (l : List Nat), l ≠ [] → pick f l ∈ l) (hpick_le : ∀ (f : Nat → α) (l : List Nat), ∀ x ∈ l, f (pick f l) ≤ f x)
    (hpr : ∀ c b, pr c b = true → b ≤ c)
    (cost : Nat → Nat → α) (pen : α) (m delay k n : Nat) (st : PeltSt α)
    (hm : 1 ≤ m) (hd : m ≤ delay + 1) (hkn : 2 * m + k ≤ n)
    (hsplit : ∀ s t e, Adm m s t → t + m ≤ e → e ≤ n → cost s t + cost t e ≤ cost s e)
    (inv : Inv cost pen m delay k st) :
    Inv cost pen m delay (k + 1) (peltStep pick pr cost pen m delay st (2 * m - 1 + k)) := by
  -- abbreviations matching the body of `peltStep`
  have ht : 2 * m - 1 + k + 1 = 2 * m + k := by omega
  have hnew : 2 * m - 1 + k - (m - 1) = m + k := by omega
  set e := 2 * m + k with he
  set starts := st.starts ++ [m + k] with hstarts
  set cand : Nat → α := fun s => st.opt s + cost s e + pen with hcand
  set best := pick cand starts with hbest
  set v := cand best with hv
  set prune := starts.filter (fun s => pr (cand s) (v + pen)) with hprune
  set pending := st.pending ++ [prune] with hpending
  set now := if pending.length > delay then pending.headD [] else [] with hnow
  set pending' := if pending.length > delay then pending.tail else pending with hpending'
  have hst : peltStep pick pr cost pen m delay st (2 * m - 1 + k) =
      { opt := upd st.opt e v, prev := upd st.prev (2 * m - 1 + k) best,
        starts := starts.filter (fun s => ¬ now.contains s), pending := pending' } := by
    simp only [peltStep, ht, hnew]
    rfl
  rw [hst]
  have hne : starts ≠ [] := by simp [hstarts]
  have hbest_mem : best ∈ starts := hpick_mem cand starts hne
  have hbest_le : ∀ x ∈ starts, v ≤ cand x := hpick_le cand starts
  have hstarts_adm : ∀ s ∈ starts, Adm m s e := by
    intro s hs
    rcases List.mem_append.1 hs with h | h
    · rcases inv.starts_adm s h with ⟨h1, h2⟩ | ⟨h1, h2⟩
      · left; omega
      · right; omega
    · simp at h; subst h; right; omega
  have hfrozen : ∀ j, j < e → upd st.opt e v j = st.opt j := by
    intro j hj; simp [upd]; omega
  have hopt_e : upd st.opt e v e = v := by simp [upd]
  have hv_le : ∀ s, Adm m s e → v ≤ cand s := by
    intro s hs
    obtain ⟨s', hs'mem, hs'le⟩ := cover_le cost pen m delay k n st hm hkn hsplit inv (e - s) s (le_refl _) hs
    exact le_trans (hbest_le s' hs'mem) hs'le
  -- Good for members of the new prune set
  have hprune_good : ∀ s ∈ prune, Good cost m (upd st.opt e v) s e := by
    intro s hs
    obtain ⟨hs1, hs2⟩ := List.mem_filter.1 hs
    have hadm := hstarts_adm s hs1
    have hlt := adm_lt hm hadm
    refine ⟨hadm, by omega, ?_⟩
    rw [hopt_e, hfrozen s hlt]
    have : v + pen ≤ cand s := hpr _ _ hs2
    simp only [hcand] at this ⊢
    grind
  refine ⟨?_, ?_, ?_, ?_, ?_, ?_, ?_, ?_, ?_⟩ <;> dsimp only
  · intro j hj; rw [hfrozen j (by omega)]; exact inv.opt_lt j hj
  · intro j h1 h2; rw [hfrozen j (by omega)]; exact inv.opt_mid j h1 h2
  · intro j hj
    have : j ≠ 2 * m - 1 + k := by omega
    simp [upd, this]; exact inv.prev_lo j hj
  · intro s hs
    have := hstarts_adm s (List.mem_filter.1 hs).1
    have h' : 2 * m + (k + 1) - 1 = e := by omega
    rw [h']; exact this
  · -- cover
    intro s hs
    have h' : 2 * m + (k + 1) - 1 = e := by omega
    rw [h'] at hs
    by_cases hin : s ∈ starts
    · by_cases hnw : s ∈ now
      · right
        -- s is in the applied prune set: the head of `pending`
        have hlen : pending.length > delay := by
          by_contra hc; simp [hnow, hc] at hnw
        simp only [hnow, hlen, if_true] at hnw
        -- head of pending = last of reverse
        cases hsp : st.pending with
        | nil =>
          have hpn : pending = [prune] := by simp [hpending, hsp]
          rw [hpn] at hnw hlen
          simp at hnw hlen
          exact ⟨e, hprune_good s hnw, by omega⟩
        | cons P rest =>
          have hpn : pending = P :: (rest ++ [prune]) := by simp [hpending, hsp]
          rw [hpn] at hnw hlen
          simp at hnw hlen
          have hlen' := inv.pend_len
          rw [hsp] at hlen'
          simp at hlen'
          have hidx : st.pending.reverse[rest.length]? = some P := by
            rw [hsp, List.reverse_cons, List.getElem?_append_right (by simp)]
            simp
          obtain ⟨hik, hg⟩ := inv.pend rest.length P hidx s hnw
          refine ⟨2 * m + k - 1 - rest.length, good_mono cost m st.opt _ s _ e hm (by omega) hfrozen hg, by omega⟩
      · left
        exact List.mem_filter.2 ⟨hin, by simpa using hnw⟩
    · right
      -- not among starts: dominated already in the pre-state
      have hs' : Adm m s (2 * m + k - 1) := by
        have hne' : s ≠ m + k := by
          intro h; apply hin; simp [hstarts, h]
        rcases hs with ⟨h1, h2⟩ | ⟨h1, h2⟩
        · left; omega
        · right; omega
      rcases inv.cover s hs' with hmem | ⟨e0, hg, he0⟩
      · exact absurd (List.mem_append_left _ hmem) hin
      · exact ⟨e0, good_mono cost m st.opt _ s e0 e hm (by omega) hfrozen hg, by omega⟩
  · -- pend
    intro i P' hi s hs
    have hi' : pending.reverse[i]? = some P' := by
      by_cases hlen : pending.length > delay
      · simp only [hpending', hlen, if_true] at hi
        exact tail_reverse_getElem? _ _ _ hi
      · simp only [hpending', hlen, if_false] at hi
        exact hi
    rw [hpending, List.reverse_append] at hi'
    cases i with
    | zero =>
      simp at hi'
      subst hi'
      refine ⟨by omega, ?_⟩
      have : 2 * m + (k + 1) - 1 - 0 = e := by omega
      rw [this]; exact hprune_good s hs
    | succ j =>
      simp at hi'
      obtain ⟨hjk, hg⟩ := inv.pend j P' hi' s hs
      refine ⟨by omega, ?_⟩
      have : 2 * m + (k + 1) - 1 - (j + 1) = 2 * m + k - 1 - j := by omega
      rw [this]
      exact good_mono cost m st.opt _ s _ e hm (by omega) hfrozen hg
  · -- pend_len
    have := inv.pend_len
    by_cases hlen : pending.length > delay
    · simp only [hpending', hlen, if_true, List.length_tail]
      simp [hpending]; exact this
    · simp only [hpending', hlen, if_false]; omega
  · -- bell_eq
    intro e' h1 h2
    by_cases hee : e' = e
    · subst hee
      have : e - 1 = 2 * m - 1 + k := by omega
      rw [this]
      simp only [upd, if_true]
      have hb := hstarts_adm best hbest_mem
      have hbl := adm_lt hm hb
      refine ⟨hb, ?_⟩
      have : ¬ best = e := by omega
      simp [this, hv, hcand]
    · have hlt : e' < e := by omega
      have hp : e' - 1 ≠ 2 * m - 1 + k := by omega
      obtain ⟨ha, heq⟩ := inv.bell_eq e' h1 (by omega)
      have hpl := adm_lt hm ha
      simp only [upd, hp, if_false]
      refine ⟨ha, ?_⟩
      have h3 : ¬ e' = e := hee
      have h4 : ¬ st.prev (e' - 1) = e := by omega
      simp [h3, h4]; exact heq
  · -- bell_le
    intro e' h1 h2 s hs
    have hsl := adm_lt hm hs
    by_cases hee : e' = e
    · subst hee
      rw [hopt_e, hfrozen s hsl]
      exact hv_le s hs
    · have hlt : e' < e := by omega
      rw [hfrozen e' hlt, hfrozen s (by omega)]
      exact inv.bell_le e' h1 (by omega) s hs

end Skc
