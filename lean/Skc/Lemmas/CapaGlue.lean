import Skc.Lemmas.PenSpec
import Skc.Lemmas.CapaSpec

/-! Gluing `penalise` (the three branches of `penalise_savings`) to its specification and to the
    pruning inequality that the CAPA dynamic programme needs (C03). -/
namespace Skc
set_option linter.unusedSectionVars false
variable {α : Type} [AddCommGroup α] [LinearOrder α] [IsOrderedAddMonoid α]

/-- what the theorems assume about one `(alpha, betas)` pair for savings vectors of length `p`:
    non-negative terms; if the code's dense branch is taken (all betas below `eps`) the betas are
    exactly zero (betas in `(0, eps)` are approximated by the code and excluded here); otherwise
    there is one beta per component -/
structure PenOK (eps : α) (p : Nat) (alpha : α) (betas : List α) : Prop where
  alpha_nonneg : 0 ≤ alpha
  betas_nonneg : ∀ b ∈ betas, 0 ≤ b
  dense_zero : (∀ b ∈ betas, b < eps) → ∀ b ∈ betas, b = 0
  len : ¬ (∀ b ∈ betas, b < eps) → betas.length = p

theorem all_lt_iff (eps : α) (betas : List α) :
    betas.all (fun b => decide (b < eps)) = true ↔ ∀ b ∈ betas, b < eps := by
  simp [List.all_eq_true]

theorem all_eq_iff (betas : List α) :
    betas.all (fun b => decide (b = betas.headD 0)) = true ↔ ∀ b ∈ betas, b = betas.headD 0 := by
  simp [List.all_eq_true]

theorem penalise_equal_form (sav : List α) (b : α) :
    sumL (sav.map (fun s => if s - b < 0 then 0 else s - b)) = (sav.map (pos b)).sum := by
  rw [sumL_eq_sum]; rfl

/-- the code's value dominates every non-empty selection of components -/
theorem penalise_ge (eps : α) (sav : List α) (alpha : α) (betas : List α) (hp : sav ≠ [])
    (hs : ∀ s ∈ sav, 0 ≤ s) (ok : PenOK eps sav.length alpha betas) :
    ∀ J, J.Subperm sav → J ≠ [] → selVal alpha betas J ≤ penalise eps sav alpha betas := by
  intro J hJ hne
  unfold penalise
  by_cases h1 : betas.all (fun b => decide (b < eps)) = true
  · simp only [h1, if_true, sumL_eq_sum]
    exact (dense_isBest sav alpha betas hp (ok.dense_zero ((all_lt_iff eps betas).1 h1)) hs).2 J hJ hne
  · have hlen := ok.len (fun h => h1 ((all_lt_iff eps betas).2 h))
    by_cases h2 : betas.all (fun b => decide (b = betas.headD 0)) = true
    · simp only [h1, h2, if_true, Bool.false_eq_true, if_false, penalise_equal_form]
      exact equal_ge sav alpha _ betas ((all_eq_iff betas).1 h2) hlen J hJ
    · simp only [h1, h2, Bool.false_eq_true, if_false]
      exact penGeneral_ge_subset sav alpha betas hlen J hJ hne

/-- a strictly positive value of the code is the specification's value -/
theorem penalise_best_of_pos (eps : α) (sav : List α) (alpha : α) (betas : List α) (hp : sav ≠ [])
    (hs : ∀ s ∈ sav, 0 ≤ s) (ok : PenOK eps sav.length alpha betas)
    (hpos : 0 < penalise eps sav alpha betas) :
    IsBestSel sav alpha betas (penalise eps sav alpha betas) := by
  unfold penalise at hpos ⊢
  by_cases h1 : betas.all (fun b => decide (b < eps)) = true
  · simp only [h1, if_true, sumL_eq_sum] at hpos ⊢
    exact dense_isBest sav alpha betas hp (ok.dense_zero ((all_lt_iff eps betas).1 h1)) hs
  · have hlen := ok.len (fun h => h1 ((all_lt_iff eps betas).2 h))
    by_cases h2 : betas.all (fun b => decide (b = betas.headD 0)) = true
    · simp only [h1, h2, if_true, Bool.false_eq_true, if_false, penalise_equal_form] at hpos ⊢
      apply equal_isBest sav alpha _ betas ((all_eq_iff betas).1 h2) hlen
      have := ok.alpha_nonneg
      exact lt_of_le_of_lt (neg_nonpos.2 this) hpos
    · simp only [h1, h2, Bool.false_eq_true, if_false] at hpos ⊢
      exact penGeneral_isBest sav alpha betas hlen hp

theorem penalise_dense_H' (x y z : List α) (alpha : α) (betas : List α)
    (h : SubAdd x y z) (hb : 0 ≤ betas.sum) :
    x.sum - alpha ≤ (y.sum - alpha) + (z.sum - alpha) + (alpha + betas.sum) := by
  have := subAdd_sum x y z h
  grind

/-- the pruning inequality for the code's penalised saving, from column-wise sub-additivity -/
theorem penalise_H (eps : α) (x y z : List α) (alpha : α) (betas : List α) (hx : x ≠ [])
    (h : SubAdd x y z) (ok : PenOK eps x.length alpha betas) :
    penalise eps x alpha betas ≤
      penalise eps y alpha betas + penalise eps z alpha betas + (alpha + sumL betas) := by
  have hbs : 0 ≤ betas.sum := List.sum_nonneg ok.betas_nonneg
  unfold penalise
  by_cases h1 : betas.all (fun b => decide (b < eps)) = true
  · simp only [h1, if_true, sumL_eq_sum]
    exact penalise_dense_H' x y z alpha betas h hbs
  · have hlen := ok.len (fun hh => h1 ((all_lt_iff eps betas).2 hh))
    by_cases h2 : betas.all (fun b => decide (b = betas.headD 0)) = true
    · simp only [h1, h2, if_true, Bool.false_eq_true, if_false, penalise_equal_form, sumL_eq_sum]
      have hall := (all_eq_iff betas).1 h2
      set b := betas.headD 0 with hb
      have hbne : betas ≠ [] := by
        intro hnil; rw [hnil] at hlen; simp at hlen
        exact hx (List.length_eq_zero_iff.1 hlen.symm)
      have hbmem : b ∈ betas := by
        cases betas with
        | nil => exact absurd rfl hbne
        | cons c t => simp [hb]
      have hb0 : 0 ≤ b := ok.betas_nonneg b hbmem
      have hrep : betas = List.replicate x.length b := by
        apply List.eq_replicate_iff.2
        exact ⟨hlen, hall⟩
      have hsum : (x.map (fun _ => b)).sum = betas.sum := by
        conv_rhs => rw [hrep]
        simp
      have := subAdd_pos_sum b hb0 x y z h
      rw [hsum] at this
      have e : ((y.map (pos b)).sum - alpha) + ((z.map (pos b)).sum - alpha) + (alpha + betas.sum)
          = (y.map (pos b)).sum + (z.map (pos b)).sum + betas.sum - alpha := by abel
      show (x.map (pos b)).sum - alpha ≤
        ((y.map (pos b)).sum - alpha) + ((z.map (pos b)).sum - alpha) + (alpha + betas.sum)
      rw [e]
      exact sub_le_sub_right this alpha
    · simp only [h1, h2, Bool.false_eq_true, if_false, sumL_eq_sum]
      exact penGeneral_H x y z alpha betas h hlen hx ok.betas_nonneg

/-! ### total saving of anomaly lists under two penalised-saving functions -/

theorem anomVal_mono (PS PS' : Nat → Nat → α) (PP PP' : Nat → α)
    (h1 : ∀ s e, PS s e ≤ PS' s e) (h2 : ∀ t, PP t ≤ PP' t) :
    ∀ l : List (Nat × Nat), anomVal PS PP l ≤ anomVal PS' PP' l
  | [] => le_refl _
  | a :: rest => by
    simp only [anomVal]
    apply add_le_add _ (anomVal_mono PS PS' PP PP' h1 h2 rest)
    simp only [anomVal1]
    split
    · exact h2 _
    · exact h1 _ _

theorem anomVal_congr (PS PS' : Nat → Nat → α) (PP PP' : Nat → α) :
    ∀ l : List (Nat × Nat), (∀ a ∈ l, anomVal1 PS PP a = anomVal1 PS' PP' a) →
      anomVal PS PP l = anomVal PS' PP' l
  | [], _ => rfl
  | a :: rest, h => by
    simp only [anomVal]
    rw [h a (by simp), anomVal_congr PS PS' PP PP' rest (fun x hx => h x (by simp [hx]))]

end Skc
