import Mathlib.Data.List.Sort
import Mathlib.Data.List.Count
import Mathlib.Algebra.Order.Ring.Defs
import Mathlib.Algebra.Order.Field.Basic
import Mathlib.Tactic.Linarith
import Mathlib.Tactic.Ring
import Mathlib.Tactic.NormNum
import Mathlib.Tactic.Push

/-! C15: "with the scale set to None the tuned threshold is the (1 - level) quantile of the training
    scores, so at most a fraction `level` of them exceed it."  Model of `np.quantile(x, q,
    method="higher")`: the element of the sorted scores at any index `idx` with
    `(N-1)·q ≤ idx ≤ N-1` (numpy takes `⌈(N-1)·q⌉`; float error can only increase it). -/
namespace Skc
variable {α : Type} [LinearOrder α]

/-- in a list sorted increasingly, at most `N - 1 - idx` elements exceed the element at `idx` -/
theorem count_gt_le_of_sorted (l : List α) (hl : l.Pairwise (· ≤ ·)) (idx : Nat) (h : idx < l.length) :
    (l.filter (fun x => decide (l[idx] < x))).length ≤ l.length - 1 - idx := by
  induction l generalizing idx with
  | nil => simp at h
  | cons a t ih =>
    have ht := (List.pairwise_cons.1 hl).2
    have ha := (List.pairwise_cons.1 hl).1
    cases idx with
    | zero =>
      simp only [List.getElem_cons_zero, List.filter_cons, lt_irrefl, decide_false]
      simp only [Bool.false_eq_true, if_false, List.length_cons]
      have := List.length_filter_le (fun x => decide (a < x)) t
      omega
    | succ i =>
      have hi : i < t.length := by simpa using h
      simp only [List.getElem_cons_succ, List.filter_cons]
      have hnot : ¬ (t[i] < a) := not_lt.2 (ha _ (List.getElem_mem hi))
      simp only [hnot, decide_false, Bool.false_eq_true, if_false, List.length_cons]
      have := ih ht i hi
      omega

/-- **quantile bound** (ordered field `K` for `level`, e.g. ℚ or ℝ): if `idx ≥ (N-1)(1-level)` then
    at most `level · N` of the `N` scores exceed the threshold `sorted[idx]`. -/
theorem tuned_threshold_exceedance {K : Type} [Field K] [LinearOrder K] [IsStrictOrderedRing K]
    (l : List α) (hl : l.Pairwise (· ≤ ·)) (idx : Nat) (h : idx < l.length)
    (level : K) (hlev : 0 ≤ level)
    (hidx : ((l.length : K) - 1) * (1 - level) ≤ (idx : K)) :
    ((l.filter (fun x => decide (l[idx] < x))).length : K) ≤ level * (l.length : K) := by
  have h1 := count_gt_le_of_sorted l hl idx h
  have h2 : ((l.filter (fun x => decide (l[idx] < x))).length : K) ≤ ((l.length - 1 - idx : Nat) : K) := by
    exact_mod_cast h1
  have h3 : ((l.length - 1 - idx : Nat) : K) = (l.length : K) - 1 - (idx : K) := by
    have : idx + 1 ≤ l.length := h
    rw [Nat.sub_sub, Nat.cast_sub (by omega)]; push_cast; ring
  rw [h3] at h2
  nlinarith

end Skc
