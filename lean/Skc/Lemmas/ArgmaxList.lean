import Skc.Model.Basic
import Mathlib.Order.Basic
import Mathlib.Order.Defs.LinearOrder
import Mathlib.Tactic.Linarith

/-! `argmaxList` (NumPy `argmax` on a list): index and value of the first maximum. -/
namespace Skc
variable {α : Type} [LinearOrder α]

/-- what a scan result means for the scanned list `L` -/
def ArgmaxOK (L : List α) : Option (Nat × α) → Prop
  | none => L = []
  | some (i, v) => L[i]? = some v ∧ ∀ x ∈ L, x ≤ v

/-- generalised invariant: scanning `l` from position `pre.length` with best-so-far `b` -/
theorem argmaxList_aux : ∀ (l pre : List α) (b : Option (Nat × α)),
    ArgmaxOK pre b → ArgmaxOK (pre ++ l) (argmaxList l pre.length b)
  | [], pre, b, hb => by simpa [argmaxList] using hb
  | a :: l, pre, none, hb => by
    have hpre : pre = [] := hb
    subst hpre
    simp only [argmaxList]
    have := argmaxList_aux l [a] (some (0, a)) (by simp [ArgmaxOK])
    simpa using this
  | a :: l, pre, some (bi, bv), hb => by
    obtain ⟨h1, h2⟩ := hb
    have hlen : (pre ++ [a]).length = pre.length + 1 := by simp
    have happ : pre ++ a :: l = (pre ++ [a]) ++ l := by simp
    simp only [argmaxList]
    by_cases hlt : bv < a
    · simp only [hlt, if_true]
      have := argmaxList_aux l (pre ++ [a]) (some (pre.length, a))
        (by
          refine ⟨by simp, ?_⟩
          intro x hx
          rcases List.mem_append.1 hx with hx | hx
          · exact le_trans (h2 x hx) (le_of_lt hlt)
          · simp only [List.mem_singleton] at hx; subst hx; exact le_refl _)
      rw [hlen] at this
      rw [happ]; exact this
    · simp only [hlt, if_false]
      have := argmaxList_aux l (pre ++ [a]) (some (bi, bv))
        (by
          refine ⟨?_, ?_⟩
          · have hbi : bi < pre.length := by
              by_contra hc
              rw [List.getElem?_eq_none (by omega)] at h1; cases h1
            rw [List.getElem?_append_left hbi]; exact h1
          · intro x hx
            rcases List.mem_append.1 hx with hx | hx
            · exact h2 x hx
            · simp only [List.mem_singleton] at hx; subst hx; exact not_lt.1 hlt)
      rw [hlen] at this
      rw [happ]; exact this

/-- `argmaxList l 0 none` is `none` only for the empty list; otherwise it returns an index holding
    the maximum. -/
theorem argmaxList_spec (l : List α) : ArgmaxOK l (argmaxList l 0 none) := by
  have := argmaxList_aux l ([] : List α) none rfl
  simpa using this

end Skc
