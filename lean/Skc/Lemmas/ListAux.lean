import Mathlib.Tactic.ByContra
import Mathlib.Order.Basic
/-! Small list facts used by several invariants. -/
namespace Skc

theorem tail_reverse_getElem? {β : Type} (l : List β) (i : Nat) (x : β)
    (h : l.tail.reverse[i]? = some x) : l.reverse[i]? = some x := by
  cases l with
  | nil => simpa using h
  | cons a t =>
    simp only [List.tail_cons] at h
    have hi : i < t.reverse.length := by
      by_contra hc
      rw [List.getElem?_eq_none (by omega)] at h
      cases h
    rw [List.reverse_cons, List.getElem?_append_left hi]
    exact h

end Skc
