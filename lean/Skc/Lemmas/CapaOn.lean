import Skc.Lemmas.CapaSpec
import Skc.Lemmas.CapaGlue
import Skc.Lemmas.Congr
import Skc.Lemmas.Tables

/-! What CAPA / MVCAPA actually read: helper lemmas for statements whose hypotheses are restricted to the
    admissible intervals inside `[0, n]` (collective candidates with `m ≤ length ≤ M`, single points), and
    the per-column Gaussian savings of a multivariate series computed from the rows. -/
namespace Skc
set_option linter.unusedSectionVars false

section general
variable {α : Type} [AddCommGroup α] [LinearOrder α] [IsOrderedAddMonoid α]

/-- every member of an admissible anomaly set is a point or an admissible collective interval and ends
    at or before the right end -/
theorem validAnoms_mem (m M : Nat) (hm : 1 ≤ m) : ∀ (l : List (Nat × Nat)) (lo hi : Nat),
    ValidAnoms m M lo l hi → ∀ a ∈ l, (a.2 = a.1 + 1 ∨ AdmC m M a.1 a.2) ∧ a.2 ≤ hi
  | [], _, _, _ => by intro a ha; simp at ha
  | b :: rest, lo, hi, h => by
    intro a ha
    rcases List.mem_cons.1 ha with rfl | ha
    · exact ⟨h.2.1, validAnoms_lo_le_hi m M _ rest hi h.2.2⟩
    · exact validAnoms_mem m M hm rest b.2 hi h.2.2 a ha

/-- monotonicity of the total saving, with the pointwise comparison only on what an admissible set
    inside `[0, n]` can contain -/
theorem anomVal_mono_valid (PS PS' : Nat → Nat → α) (PP PP' : Nat → α) (m M n : Nat) (hm : 1 ≤ m)
    (h1 : ∀ s e, AdmC m M s e → e ≤ n → PS s e ≤ PS' s e) (h2 : ∀ t, t < n → PP t ≤ PP' t) :
    ∀ (l : List (Nat × Nat)) (lo : Nat), ValidAnoms m M lo l n → anomVal PS PP l ≤ anomVal PS' PP' l
  | [], _, _ => le_refl _
  | a :: rest, lo, hv => by
    simp only [anomVal]
    have hmem := validAnoms_mem m M hm (a :: rest) lo n hv a (by simp)
    apply add_le_add _ (anomVal_mono_valid PS PS' PP PP' m M n hm h1 h2 rest a.2 hv.2.2)
    simp only [anomVal1]
    split
    · rename_i hpt
      exact h2 _ (by have := hmem.2; omega)
    · rename_i hpt
      rcases hmem.1 with g | g
      · exact absurd g hpt
      · exact h1 _ _ g hmem.2

end general

section congrRead
variable {α : Type} [AddCommGroup α] [LinearOrder α]

/-- the candidate starts kept after `k` iterations all belong to admissible intervals ending at `k + 1` -/
theorem capaIterG_congr_read (pick : (Nat → α) → List Nat → Nat) (pr : α → α → Bool)
    (hext : PickExt pick) (hmem : PickMem pick)
    (PS PS' : Nat → Nat → α) (PP PP' : Nat → α) (K : α) (m M delay n : Nat) (hm : 1 ≤ m) (hmM : m ≤ M)
    (h : ∀ s e, s + m ≤ e → e ≤ s + M → e ≤ n → PS s e = PS' s e) (hp : ∀ t, t < n → PP t = PP' t) :
    ∀ k, k ≤ n →
      capaIterG pick pr PS PP K m M delay k = capaIterG pick pr PS' PP' K m M delay k ∧
      ∀ s ∈ (capaIterG pick pr PS PP K m M delay k).starts, s + m ≤ k ∧ k < s + M
  | 0, _ => by
    constructor
    · rfl
    · intro s hs; simp [capaIterG, capaInit] at hs
  | k + 1, hk => by
    obtain ⟨ih1, ih2⟩ :=
      capaIterG_congr_read pick pr hext hmem PS PS' PP PP' K m M delay n hm hmM h hp k (by omega)
    have hst : ∀ s ∈ (if m ≤ k + 1 then (capaIterG pick pr PS PP K m M delay k).starts ++ [k + 1 - m]
        else (capaIterG pick pr PS PP K m M delay k).starts), s + m ≤ k + 1 ∧ k + 1 ≤ s + M := by
      intro s hs
      split at hs
      · rcases List.mem_append.1 hs with hs | hs
        · have := ih2 s hs; omega
        · simp only [List.mem_singleton] at hs; omega
      · have := ih2 s hs; omega
    constructor
    · simp only [capaIterG]
      rw [← ih1, capaStep_eq_C, capaStep_eq_C, hp k (by omega)]
      apply capaStepC_congr pick pr hext hmem
      intro s hs
      have := hst s hs
      rw [h s (k + 1) (by omega) (by omega) (by omega)]
    · intro s hs
      simp only [capaIterG, capaStep] at hs
      have h2 := (List.mem_filter.1 hs).2
      have h1 := hst s (List.mem_filter.1 (List.mem_filter.1 hs).1).1
      simp only [decide_eq_true_eq] at h2
      omega

/-- **CAPA / MVCAPA read admissible intervals only**: penalised savings that agree on every collective
    candidate `[s, e)` with `m ≤ e - s ≤ M`, `e ≤ n`, and on every point `t < n`, give the same scores and
    the same anomalies -/
theorem runCapaG_congr_read (pick : (Nat → α) → List Nat → Nat) (pr : α → α → Bool)
    (hext : PickExt pick) (hmem : PickMem pick)
    (PS PS' : Nat → Nat → α) (PP PP' : Nat → α) (K : α) (m M delay n : Nat) (hm : 1 ≤ m) (hmM : m ≤ M)
    (h : ∀ s e, s + m ≤ e → e ≤ s + M → e ≤ n → PS s e = PS' s e) (hp : ∀ t, t < n → PP t = PP' t) :
    runCapaG pick pr PS PP K m M delay n = runCapaG pick pr PS' PP' K m M delay n := by
  simp only [runCapaG]
  rw [(capaIterG_congr_read pick pr hext hmem PS PS' PP PP' K m M delay n hm hmM h hp n (Nat.le_refl _)).1]

end congrRead

/-! ### per-column Gaussian savings from the rows -/

/-- univariate Gaussian cost with fixed mean and variance, from the rows (`gaussian_var_cost_fixed`) -/
noncomputable def gaussFixedTable (x : ℕ → ℝ) (μ v : ℝ) (s e : ℕ) : ℝ :=
  CF.gaussFixed (segSum x s e) (segSum (fun i => x i ^ 2) s e) ((e : ℝ) - s) μ v

/-- the fixed-parameter cost is additive over consecutive intervals -/
theorem gaussFixedTable_add (x : ℕ → ℝ) (μ v : ℝ) (s t e : ℕ) (hst : s ≤ t) (hte : t ≤ e) :
    gaussFixedTable x μ v s t + gaussFixedTable x μ v t e = gaussFixedTable x μ v s e := by
  simp only [gaussFixedTable, CF.gaussFixed, CF.l2Fixed]
  rw [← segSum_consecutive x s t e hst hte, ← segSum_consecutive (fun i => x i ^ 2) s t e hst hte]
  ring

/-- optimal ≤ fixed for the table entries, at or above the variance floor -/
theorem gaussTable_le_fixed (x : ℕ → ℝ) (μ v : ℝ) (s e : ℕ) (h : s < e) (hv : 0 < v)
    (habove : varFloorConst ≤ segVar x s e) : gaussTable x s e ≤ gaussFixedTable x μ v s e := by
  have hn : (0 : ℝ) < (e : ℝ) - s := by
    have : (s : ℝ) < e := by exact_mod_cast h
    linarith
  have hf : (0 : ℝ) < varFloorConst := by unfold varFloorConst; norm_num
  have hσ : 0 < segVar x s e := lt_of_lt_of_le hf habove
  have hQ : ((e : ℝ) - s) * segVar x s e
      ≤ CF.l2Fixed (segSum x s e) (segSum (fun i => x i ^ 2) s e) ((e : ℝ) - s) μ := by
    rw [← l2Table_eq_len_mul_var x s e h]
    exact l2Optim_le_fixed _ _ _ μ hn
  have := gauss_optim_le_fixed ((e : ℝ) - s) (segVar x s e) v _ hn hσ hv hQ
  have m3 : max (segVar x s e) varFloorConst = segVar x s e := max_eq_left habove
  simp only [gaussTable, gaussFixedTable, CF.gaussOptim, CF.gaussFixed, CF.varFloor]
  change ((e : ℝ) - s) * Real.log (2 * Real.pi * max (segVar x s e) varFloorConst) + ((e : ℝ) - s) ≤ _
  rw [m3]
  exact this

/-- per-column Gaussian savings (`Saving(GaussianVarCost(param=(μ, v)))`: fixed − optimal) of the rows
    `[s, e)` of a series with `p` columns (`X j i` = row `i` of column `j`, baseline `(μ j, v j)`) -/
noncomputable def gaussSavings (X : ℕ → ℕ → ℝ) (μ v : ℕ → ℝ) (p s e : ℕ) : List ℝ :=
  (List.range p).map (fun j => gaussFixedTable (X j) (μ j) (v j) s e - gaussTable (X j) s e)

theorem gaussSavings_length (X : ℕ → ℕ → ℝ) (μ v : ℕ → ℝ) (p s e : ℕ) :
    (gaussSavings X μ v p s e).length = p := by
  simp [gaussSavings]

theorem gaussSavings_nonneg (X : ℕ → ℕ → ℝ) (μ v : ℕ → ℝ) (p s e : ℕ) (h : s < e)
    (hv : ∀ j, j < p → 0 < v j) (habove : ∀ j, j < p → varFloorConst ≤ segVar (X j) s e) :
    ∀ w ∈ gaussSavings X μ v p s e, 0 ≤ w := by
  intro w hw
  obtain ⟨j, hj, rfl⟩ := List.mem_map.1 hw
  have hjp : j < p := List.mem_range.1 hj
  have := gaussTable_le_fixed (X j) (μ j) (v j) s e h (hv j hjp) (habove j hjp)
  linarith

theorem subAdd_map_mem (f g h : ℕ → ℝ) : ∀ (l : List ℕ), (∀ j ∈ l, f j ≤ g j + h j) →
    SubAdd (l.map f) (l.map g) (l.map h) := subAdd_map f g h

/-- column by column the Gaussian saving of an interval is at most the sum of the savings of its two
    parts, provided the three empirical variances are at or above the floor (the fixed-parameter cost
    is additive, the optimal cost obeys the split inequality) -/
theorem gaussSavings_subAdd (X : ℕ → ℕ → ℝ) (μ v : ℕ → ℝ) (p m n s e0 T : ℕ) (hm : 1 ≤ m)
    (h1 : s + m ≤ e0) (h2 : e0 + m ≤ T) (hT : T ≤ n)
    (habove : ∀ j, j < p → ∀ a b, a + m ≤ b → b ≤ n → varFloorConst ≤ segVar (X j) a b) :
    SubAdd (gaussSavings X μ v p s T) (gaussSavings X μ v p s e0) (gaussSavings X μ v p e0 T) := by
  apply subAdd_map
  intro j hj
  have hjp : j < p := List.mem_range.1 hj
  have hsplit := gaussTable_split_core (X j) m n hm (habove j hjp) s e0 T h1 h2 hT
  have hadd := gaussFixedTable_add (X j) (μ j) (v j) s e0 T (by omega) (by omega)
  linarith

end Skc
