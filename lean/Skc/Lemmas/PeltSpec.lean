import Skc.Lemmas.PeltInv
import Mathlib.Tactic.Abel
import Mathlib.Data.List.Induction
import Mathlib.Tactic.Tauto

/-! Specification vocabulary for segmentations (shared by C02, C12, C15) and the consequences of
    the PELT invariant: Bellman inequalities against the full admissible start set, lower bound
    over every admissible segmentation, correctness of back-tracking. -/
namespace Skc
set_option linter.unusedSectionVars false
variable {α : Type} [AddCommGroup α] [LinearOrder α] [IsOrderedAddMonoid α]

/-- a selector is sound when it returns a member that minimises -/
def SoundPick (pick : (Nat → α) → List Nat → Nat) : Prop :=
  (∀ (f : Nat → α) (l : List Nat), l ≠ [] → pick f l ∈ l) ∧
  (∀ (f : Nat → α) (l : List Nat), ∀ x ∈ l, f (pick f l) ≤ f x)

/-- a pruning test is sound when it only fires for candidates at or above the bound -/
def SoundPrune (pr : α → α → Bool) : Prop := ∀ c b, pr c b = true → b ≤ c

theorem soundPick_argminL : SoundPick (α := α) argminL := ⟨argminL_mem, argminL_le⟩
theorem soundPick_argminLast : SoundPick (α := α) argminLast := ⟨argminLast_mem, argminLast_le⟩
theorem soundPrune_strict : SoundPrune (α := α) prStrict := by
  intro c b h; simp only [prStrict, decide_eq_true_eq] at h; exact le_of_lt h
/-- non-strict pruning (`c ≥ b`) is sound as well -/
theorem soundPrune_nonstrict : SoundPrune (α := α) (fun c b => decide (b ≤ c)) := by
  intro c b h; simpa using h
/-- never pruning is sound -/
theorem soundPrune_never : SoundPrune (α := α) (fun _ _ => false) := by
  intro c b h; cases h

/-! ### Specification vocabulary -/

theorem segCost_snoc (cost : Nat → Nat → α) (pen : α) (s : Nat) (cs : List Nat) (c e : Nat) :
    segCost cost pen s (cs ++ [c]) e = segCost cost pen s cs c + pen + cost c e := by
  induction cs generalizing s with
  | nil => simp [segCost]
  | cons a t ih => simp only [List.cons_append, segCost, ih]; abel

theorem validFrom_snoc (m s : Nat) (cs : List Nat) (c e : Nat) :
    ValidFrom m s (cs ++ [c]) e ↔ ValidFrom m s cs c ∧ c + m ≤ e := by
  induction cs generalizing s with
  | nil => simp [ValidFrom]
  | cons a t ih => simp only [List.cons_append, ValidFrom, ih]; tauto

theorem validFrom_start_le (m s : Nat) (cs : List Nat) (e : Nat) (h : ValidFrom m s cs e) : s + m ≤ e := by
  induction cs generalizing s with
  | nil => exact h
  | cons a t ih => have := ih a h.2; have := h.1; omega

/-! ### The invariant holds after every iteration -/

theorem inv_all (pick : (Nat → α) → List Nat → Nat) (pr : α → α → Bool)
    (hpick : SoundPick pick) (hpr : SoundPrune pr)
    (cost : Nat → Nat → α) (pen : α) (m delay n : Nat)
    (hm : 1 ≤ m) (hd : m ≤ delay + 1)
    (hsplit : SplitIneq cost m n) :
    ∀ k, 2 * m + k ≤ n + 1 → Inv cost pen m delay k (peltIter pick pr cost pen m delay k) := by
  intro k
  induction k with
  | zero => intro _; exact inv_init cost pen m delay hm
  | succ k ih =>
    intro hk
    exact inv_step pick pr hpick.1 hpick.2 hpr cost pen m delay k n _ hm hd (by omega) hsplit
      (ih (by omega))

/-- Bellman inequalities for every prefix `m ≤ e ≤ n`, against the *full* admissible start set. -/
theorem bellman_le (cost : Nat → Nat → α) (pen : α) (m delay k : Nat) (st : PeltSt α)
    (hm : 1 ≤ m) (inv : Inv cost pen m delay k st) :
    ∀ e, m ≤ e → e < 2 * m + k → ∀ s, Adm m s e → st.opt e ≤ st.opt s + cost s e + pen := by
  intro e h1 h2 s hs
  by_cases h : 2 * m ≤ e
  · exact inv.bell_le e h h2 s hs
  · have hs0 : s = 0 := by
      rcases hs with ⟨h0, _⟩ | ⟨h3, h4⟩
      · exact h0
      · omega
    subst hs0
    rw [inv.opt_mid e h1 (by omega), inv.opt_lt 0 (by omega)]
    simp

/-- `opt e` is a lower bound for the penalised cost of every admissible segmentation of `[0,e)`. -/
theorem opt_le_segCost (cost : Nat → Nat → α) (pen : α) (m delay k : Nat) (st : PeltSt α)
    (hm : 1 ≤ m) (inv : Inv cost pen m delay k st) :
    ∀ cps e, e < 2 * m + k → ValidFrom m 0 cps e → st.opt e ≤ segCost cost pen 0 cps e := by
  intro cps
  induction cps using List.reverseRecOn with
  | nil =>
    intro e he hv
    have hme : m ≤ e := by simpa [ValidFrom] using hv
    have := bellman_le cost pen m delay k st hm inv e hme he 0 (Or.inl ⟨rfl, hme⟩)
    rw [inv.opt_lt 0 (by omega)] at this
    simpa [segCost] using this
  | append_singleton cs c ih =>
    intro e he hv
    obtain ⟨hv1, hce⟩ := (validFrom_snoc m 0 cs c e).1 hv
    have hmc : m ≤ c := by have := validFrom_start_le m 0 cs c hv1; omega
    have h1 := ih c (by omega) hv1
    have h2 := bellman_le cost pen m delay k st hm inv e (by omega) he c (Or.inr ⟨hmc, hce⟩)
    rw [segCost_snoc]
    grind

/-! ### Back-tracking -/

/-- the changepoints reached from prefix `e` through the back-pointers -/
theorem backtrack_spec (cost : Nat → Nat → α) (pen : α) (m delay k : Nat) (st : PeltSt α)
    (hm : 1 ≤ m) (inv : Inv cost pen m delay k st) :
    ∀ e, m ≤ e → e < 2 * m + k → ∀ fuel acc, e < fuel →
      ∃ cps, backtrack st.prev fuel e acc = 0 :: (cps ++ acc) ∧
        ValidFrom m 0 cps e ∧ segCost cost pen 0 cps e = st.opt e := by
  intro e
  induction e using Nat.strong_induction_on with
  | _ e ih =>
    intro hme he fuel acc hfuel
    obtain ⟨e', rfl⟩ : ∃ e', e = e' + 1 := ⟨e - 1, by omega⟩
    obtain ⟨fuel', rfl⟩ : ∃ f, fuel = f + 1 := ⟨fuel - 1, by omega⟩
    simp only [backtrack]
    by_cases h2m : 2 * m ≤ e' + 1
    · obtain ⟨hadm, heq⟩ := inv.bell_eq (e' + 1) h2m he
      simp only [Nat.add_sub_cancel] at hadm heq
      rcases hadm with ⟨h0, _⟩ | ⟨h1, h2⟩
      · -- last segment starts at 0
        refine ⟨[], ?_, ?_, ?_⟩
        · rw [h0]
          cases fuel' <;> simp [backtrack]
        · simpa [ValidFrom] using hme
        · rw [heq, h0, inv.opt_lt 0 (by omega)]; simp [segCost]
      · obtain ⟨cps, hb, hv, hc⟩ := ih (st.prev e') (by omega) h1 (by omega) fuel' (st.prev e' :: acc) (by omega)
        refine ⟨cps ++ [st.prev e'], ?_, ?_, ?_⟩
        · rw [hb]; simp
        · exact (validFrom_snoc m 0 cps _ _).2 ⟨hv, h2⟩
        · rw [segCost_snoc, hc, heq]; abel
    · refine ⟨[], ?_, ?_, ?_⟩
      · rw [inv.prev_lo e' (by omega)]
        cases fuel' <;> simp [backtrack]
      · simpa [ValidFrom] using hme
      · rw [inv.opt_mid (e' + 1) hme (by omega)]; simp [segCost]


end Skc
