import Skc.Lemmas.Congr
import Mathlib.Data.Real.Basic
import Mathlib.Tactic.Linarith
import Mathlib.Tactic.Ring

/-! PELT is invariant under adding a term proportional to the segment length to the cost
    (`cost' s e = cost s e + c · (e − s)`): every admissible segmentation of `[0, t)` changes its cost by
    the same constant `c · t`, the candidate values of one iteration all move by `c · e`, so the first
    minimiser, the pruning decisions, hence the changepoints are unchanged, and the scores move by `c · t`.
    This is what makes PELT with a Gaussian cost invariant under rescaling of the data (C12): the cost of a
    segment changes by `(e − s) · log a²`. -/
namespace Skc

theorem argminFrom_shift (f : Nat → ℝ) (d : ℝ) : ∀ (l : List Nat) (b : Nat),
    argminFrom (fun s => f s + d) l b = argminFrom f l b
  | [], _ => rfl
  | s :: l, b => by
    simp only [argminFrom, add_lt_add_iff_right]
    split <;> exact argminFrom_shift f d l _

theorem argminL_shift (f : Nat → ℝ) (d : ℝ) (l : List Nat) :
    argminL (fun s => f s + d) l = argminL f l := by
  cases l with
  | nil => rfl
  | cons s l => exact argminFrom_shift f d l s

/-- one iteration with all candidate values moved by `d`: same selection, same pruning, value moved by `d` -/
theorem peltStepC_shift (cand cand' : Nat → ℝ) (d pen : ℝ) (m delay : Nat) (st st' : PeltSt ℝ) (t : Nat)
    (hprev : st'.prev = st.prev) (hstarts : st'.starts = st.starts) (hpend : st'.pending = st.pending)
    (h : ∀ s ∈ st.starts ++ [t - (m - 1)], cand' s = cand s + d) :
    let r := peltStepC argminL prStrict cand pen m delay st t
    let r' := peltStepC argminL prStrict cand' pen m delay st' t
    r'.prev = r.prev ∧ r'.starts = r.starts ∧ r'.pending = r.pending ∧
      r'.opt = upd st'.opt (t + 1) (r.opt (t + 1) + d) := by
  have hb : argminL cand' (st.starts ++ [t - (m - 1)]) = argminL cand (st.starts ++ [t - (m - 1)]) := by
    rw [pickExt_argminL cand' (fun s => cand s + d) _ h, argminL_shift]
  have hmem : argminL cand (st.starts ++ [t - (m - 1)]) ∈ st.starts ++ [t - (m - 1)] :=
    pickMem_argminL _ _ (by simp)
  have hv : cand' (argminL cand' (st.starts ++ [t - (m - 1)])) =
      cand (argminL cand (st.starts ++ [t - (m - 1)])) + d := by
    rw [hb]; exact h _ hmem
  have hf : (st.starts ++ [t - (m - 1)]).filter
        (fun s => prStrict (cand' s) (cand' (argminL cand' (st.starts ++ [t - (m - 1)])) + pen)) =
      (st.starts ++ [t - (m - 1)]).filter
        (fun s => prStrict (cand s) (cand (argminL cand (st.starts ++ [t - (m - 1)])) + pen)) := by
    rw [hv]
    apply List.filter_congr
    intro s hs
    simp only [prStrict, h s hs, decide_eq_decide]
    constructor <;> intro hh <;> linarith
  simp only [peltStepC, hprev, hstarts, hpend]
  rw [hf, hb]
  refine ⟨rfl, rfl, rfl, ?_⟩
  rw [h _ hmem]
  simp [upd]

/-- relation between the states of the two runs after `k` iterations -/
structure AffRel (c : ℝ) (m k : ℕ) (st st' : PeltSt ℝ) : Prop where
  prev : st'.prev = st.prev
  starts : st'.starts = st.starts
  pending : st'.pending = st.pending
  opt : ∀ j, st'.opt j = st.opt j + (if m ≤ j ∧ j < 2 * m + k then c * j else 0)
  mem : ∀ s ∈ st.starts, (s = 0 ∨ m ≤ s) ∧ s < m + k

theorem peltIter_affine (cost cost' : ℕ → ℕ → ℝ) (c pen : ℝ) (m delay n : ℕ) (hm : 1 ≤ m)
    (h : ∀ s e, s + m ≤ e → e ≤ n → cost' s e = cost s e + c * ((e : ℝ) - s)) :
    ∀ k, 2 * m + k ≤ n + 1 →
      AffRel c m k (peltIter argminL prStrict cost pen m delay k) (peltIter argminL prStrict cost' pen m delay k)
  | 0, hk => by
    refine ⟨rfl, rfl, rfl, ?_, ?_⟩
    · intro j
      simp only [peltIter, peltInit, Nat.add_zero]
      by_cases h1 : j < m
      · have : ¬ (m ≤ j ∧ j < 2 * m) := by omega
        simp [h1, this]
      · by_cases h2 : j < 2 * m
        · have : (m ≤ j ∧ j < 2 * m) := by omega
          simp only [h1, h2, if_false, if_true, this, and_self]
          rw [h 0 j (by omega) (by omega)]
          simp
        · have : ¬ (m ≤ j ∧ j < 2 * m) := by omega
          simp [h1, h2, this]
    · intro s hs
      simp only [peltIter, peltInit, List.mem_singleton] at hs
      subst hs
      exact ⟨Or.inl rfl, by omega⟩
  | k + 1, hk => by
    have ih := peltIter_affine cost cost' c pen m delay n hm h k (by omega)
    set st := peltIter argminL prStrict cost pen m delay k with hst
    set st' := peltIter argminL prStrict cost' pen m delay k with hst'
    have he : 2 * m - 1 + k + 1 = 2 * m + k := by omega
    have hnew : 2 * m - 1 + k - (m - 1) = m + k := by omega
    have hcand : ∀ s ∈ st.starts ++ [2 * m - 1 + k - (m - 1)],
        st'.opt s + cost' s (2 * m - 1 + k + 1) + pen =
          (st.opt s + cost s (2 * m - 1 + k + 1) + pen) + c * ((2 * m + k : ℕ) : ℝ) := by
      intro s hs
      rw [he]
      have hs' : (s = 0 ∨ m ≤ s) ∧ s ≤ m + k := by
        rcases List.mem_append.1 hs with h1 | h1
        · have := ih.mem s h1; exact ⟨this.1, by omega⟩
        · simp only [List.mem_singleton] at h1; rw [hnew] at h1; subst h1; exact ⟨Or.inr (by omega), le_refl _⟩
      rw [ih.opt s, h s (2 * m + k) (by omega) (by omega)]
      rcases hs'.1 with h0 | hms
      · subst h0
        have : ¬ (m ≤ 0 ∧ 0 < 2 * m + k) := by omega
        simp only [this, if_false]
        push_cast; ring
      · have : (m ≤ s ∧ s < 2 * m + k) := by omega
        simp only [this, and_self, if_true]
        push_cast; ring
    have hstep := peltStepC_shift (fun s => st.opt s + cost s (2 * m - 1 + k + 1) + pen)
      (fun s => st'.opt s + cost' s (2 * m - 1 + k + 1) + pen) (c * ((2 * m + k : ℕ) : ℝ)) pen m delay st st'
      (2 * m - 1 + k) ih.prev ih.starts ih.pending hcand
    simp only [peltIter, ← hst, ← hst', peltStep_eq_C]
    obtain ⟨h1, h2, h3, h4⟩ := hstep
    refine ⟨h1, h2, h3, ?_, ?_⟩
    · intro j
      rw [h4]
      simp only [upd, he]
      by_cases hj : j = 2 * m + k
      · subst hj
        have : (m ≤ 2 * m + k ∧ 2 * m + k < 2 * m + (k + 1)) := by omega
        simp only [if_true, this, and_self]
      · have hiff : (m ≤ j ∧ j < 2 * m + (k + 1)) ↔ (m ≤ j ∧ j < 2 * m + k) := by omega
        simp only [hj, if_false, hiff]
        rw [ih.opt j]
        simp [peltStepC, upd, he, hj]
    · intro s hs
      simp only [peltStepC] at hs
      have hs1 := (List.mem_filter.1 hs).1
      rcases List.mem_append.1 hs1 with h5 | h5
      · have := ih.mem s h5; exact ⟨this.1, by omega⟩
      · simp only [List.mem_singleton] at h5; rw [hnew] at h5; subst h5; exact ⟨Or.inr (by omega), by omega⟩

/-- **PELT is invariant under length-proportional cost terms**: same changepoints, scores moved by `c · t` -/
theorem runPeltCode_affine (cost cost' : ℕ → ℕ → ℝ) (c pen : ℝ) (m n : ℕ) (hm : 1 ≤ m) (hn : 2 * m ≤ n)
    (h : ∀ s e, s + m ≤ e → e ≤ n → cost' s e = cost s e + c * ((e : ℝ) - s)) :
    (runPeltCode cost' pen m n).2 = (runPeltCode cost pen m n).2 ∧
      ∀ t, m ≤ t → t ≤ n → (runPeltCode cost' pen m n).1 t = (runPeltCode cost pen m n).1 t + c * t := by
  have r := peltIter_affine cost cost' c pen m (m - 1) n hm h (n + 1 - 2 * m) (by omega)
  simp only [runPeltCode, runPelt]
  refine ⟨by rw [r.prev], ?_⟩
  intro t h1 h2
  rw [r.opt t]
  have : (m ≤ t ∧ t < 2 * m + (n + 1 - 2 * m)) := by omega
  simp [this]

end Skc
