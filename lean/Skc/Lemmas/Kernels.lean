import Skc.Spec.Kernels
import Mathlib.Algebra.BigOperators.Ring.Finset
import Mathlib.Analysis.MeanInequalities
import Mathlib.Analysis.SpecialFunctions.Pow.Real
import Mathlib.Tactic.Ring
import Mathlib.Tactic.FieldSimp
import Mathlib.Tactic.Linarith
import Mathlib.Tactic.Positivity

/-! Closed forms on prefix sums equal the direct definitions (C01); identities and inequalities
    between the closed forms (C06). Independent of the source code. -/
open Finset
namespace Skc

theorem psum_sub (x : ℕ → ℝ) (s e : ℕ) (h : s ≤ e) : psum x e - psum x s = segSum x s e := by
  unfold psum segSum; rw [sum_Ico_eq_sub _ h]

theorem rss_expand (x : ℕ → ℝ) (μ : ℝ) (s e : ℕ) (h : s ≤ e) :
    rss x μ s e = segSum (fun i => x i ^ 2) s e - 2 * μ * segSum x s e + ((e : ℝ) - s) * μ ^ 2 := by
  unfold rss segSum
  have : ∀ i, (x i - μ) ^ 2 = (x i) ^ 2 - 2 * μ * (x i) + μ ^ 2 := by intro i; ring
  simp only [this, sum_add_distrib, sum_sub_distrib, ← mul_sum, sum_const, Nat.card_Ico,
    nsmul_eq_mul]
  rw [Nat.cast_sub h]

theorem len_pos {s e : ℕ} (h : s < e) : (0 : ℝ) < (e : ℝ) - s := by
  have : (s : ℝ) < e := by exact_mod_cast h
  linarith

/-- L2 cost, optimal mean: the closed form on prefix sums is the residual sum of squares around
    the segment mean -/
theorem l2Optim_direct (x : ℕ → ℝ) (s e : ℕ) (h : s < e) :
    CF.l2Optim (psum x e - psum x s) (psum (fun i => x i ^ 2) e - psum (fun i => x i ^ 2) s)
      ((e : ℝ) - s) = rss x (segMean x s e) s e := by
  have hn : ((e : ℝ) - s) ≠ 0 := (len_pos h).ne'
  rw [psum_sub x s e h.le, psum_sub (fun i => x i ^ 2) s e h.le, rss_expand x _ s e h.le]
  simp only [CF.l2Optim, segMean]
  field_simp
  ring

/-- L2 cost, fixed mean -/
theorem l2Fixed_direct (x : ℕ → ℝ) (μ : ℝ) (s e : ℕ) (h : s ≤ e) :
    CF.l2Fixed (psum x e - psum x s) (psum (fun i => x i ^ 2) e - psum (fun i => x i ^ 2) s)
      ((e : ℝ) - s) μ = rss x μ s e := by
  rw [psum_sub x s e h, psum_sub (fun i => x i ^ 2) s e h, rss_expand x μ s e h]
  simp only [CF.l2Fixed]

/-- floored variance from prefix sums = floored direct (population) variance -/
theorem varFloor_direct (x : ℕ → ℝ) (s e : ℕ) (h : s < e) :
    CF.varFloor (psum x e - psum x s) (psum (fun i => x i ^ 2) e - psum (fun i => x i ^ 2) s)
      ((e : ℝ) - s) = max (rss x (segMean x s e) s e / ((e : ℝ) - s)) varFloorConst := by
  have hn : ((e : ℝ) - s) ≠ 0 := (len_pos h).ne'
  rw [psum_sub x s e h.le, psum_sub (fun i => x i ^ 2) s e h.le, rss_expand x _ s e h.le]
  simp only [CF.varFloor, segMean]
  congr 1
  field_simp
  ring

/-- the L2 cost is a sum of squares, hence non-negative -/
theorem rss_nonneg (x : ℕ → ℝ) (μ : ℝ) (s e : ℕ) : 0 ≤ rss x μ s e :=
  sum_nonneg (fun _ _ => sq_nonneg _)

/-! ### C06 on closed forms -/

/-- bias–variance identity: fixed-mean cost = optimal cost + `n (x̄ − μ)²` -/
theorem l2Fixed_eq_optim_add (S1 S2 n μ : ℝ) (hn : n ≠ 0) :
    CF.l2Fixed S1 S2 n μ = CF.l2Optim S1 S2 n + n * (S1 / n - μ) ^ 2 := by
  simp only [CF.l2Fixed, CF.l2Optim]; field_simp; ring

/-- the optimal-mean L2 cost never exceeds the cost at any fixed mean -/
theorem l2Optim_le_fixed (S1 S2 n μ : ℝ) (hn : 0 < n) : CF.l2Optim S1 S2 n ≤ CF.l2Fixed S1 S2 n μ := by
  rw [l2Fixed_eq_optim_add S1 S2 n μ hn.ne']
  have : 0 ≤ n * (S1 / n - μ) ^ 2 := by positivity
  linarith

/-- L2 saving = L2 cost at baseline mean 0 − optimal L2 cost -/
theorem l2Saving_eq (S1 S2 n : ℝ) : CF.l2Saving S1 n = CF.l2Fixed S1 S2 n 0 - CF.l2Optim S1 S2 n := by
  simp only [CF.l2Saving, CF.l2Fixed, CF.l2Optim]; ring

theorem l2Saving_nonneg (S1 n : ℝ) (hn : 0 < n) : 0 ≤ CF.l2Saving S1 n := by
  simp only [CF.l2Saving]; positivity

/-- exact split identity of the L2 cost: full − left − right = `(a b / n) (x̄_a − x̄_b)²` -/
theorem l2_split_identity (Sa Sb Qa Qb a b : ℝ) (ha : 0 < a) (hb : 0 < b) :
    CF.l2Optim (Sa + Sb) (Qa + Qb) (a + b) - (CF.l2Optim Sa Qa a + CF.l2Optim Sb Qb b) =
      a * b / (a + b) * (Sa / a - Sb / b) ^ 2 := by
  have hab : a + b ≠ 0 := by positivity
  simp only [CF.l2Optim]; field_simp; ring

/-- the L2 change score is non-negative: splitting never increases the optimal L2 cost -/
theorem l2_split_le (Sa Sb Qa Qb a b : ℝ) (ha : 0 < a) (hb : 0 < b) :
    CF.l2Optim Sa Qa a + CF.l2Optim Sb Qb b ≤ CF.l2Optim (Sa + Sb) (Qa + Qb) (a + b) := by
  have h := l2_split_identity Sa Sb Qa Qb a b ha hb
  have : 0 ≤ a * b / (a + b) * (Sa / a - Sb / b) ^ 2 := by positivity
  linarith

/-- squared CUSUM = L2 change score -/
theorem cusum_sq_eq_l2_change (Sa Sb Qa Qb a b : ℝ) (ha : 0 < a) (hb : 0 < b) :
    (CF.cusum Sb Sa b a (a + b)) ^ 2 =
      CF.l2Optim (Sa + Sb) (Qa + Qb) (a + b) - (CF.l2Optim Sb Qb b + CF.l2Optim Sa Qa a) := by
  have hn : (0 : ℝ) < a + b := by positivity
  simp only [CF.cusum, CF.l2Optim, sq_abs]
  set n := a + b with hnab
  have hu : 0 ≤ a / (n * b) := by positivity
  have hv : 0 ≤ b / (n * a) := by positivity
  have hprod : Real.sqrt (a / (n * b)) * Real.sqrt (b / (n * a)) = 1 / n := by
    rw [← Real.sqrt_mul hu]
    have : a / (n * b) * (b / (n * a)) = (1 / n) ^ 2 := by field_simp
    rw [this, Real.sqrt_sq (by positivity)]
  have e1 : (Real.sqrt (a / (n * b)) * Sb - Real.sqrt (b / (n * a)) * Sa) ^ 2
      = (Real.sqrt (a / (n * b))) ^ 2 * Sb ^ 2
        - 2 * (Real.sqrt (a / (n * b)) * Real.sqrt (b / (n * a))) * (Sb * Sa)
        + (Real.sqrt (b / (n * a))) ^ 2 * Sa ^ 2 := by ring
  rw [e1, Real.sq_sqrt hu, Real.sq_sqrt hv, hprod, hnab]
  field_simp
  ring

/-- Gaussian cost: optimal ≤ fixed, above the variance floor.  `σ2` = population variance of the
    segment, `Q` = sum of squares around the fixed mean (`n σ2 ≤ Q`). -/
theorem gauss_optim_le_fixed (n σ2 v Q : ℝ) (hn : 0 < n) (hσ : 0 < σ2) (hv : 0 < v)
    (hQ : n * σ2 ≤ Q) :
    n * Real.log (2 * Real.pi * σ2) + n ≤ n * Real.log (2 * Real.pi * v) + Q / v := by
  have hpi : 0 < 2 * Real.pi := by positivity
  have h1 : Real.log (σ2 / v) ≤ σ2 / v - 1 := Real.log_le_sub_one_of_pos (by positivity)
  have h2 : Real.log (2 * Real.pi * σ2) = Real.log (2 * Real.pi * v) + Real.log (σ2 / v) := by
    rw [← Real.log_mul (by positivity) (by positivity)]
    congr 1; field_simp
  rw [h2]
  have h3 : n * (σ2 / v) ≤ Q / v := by
    rw [← mul_div_assoc]; exact div_le_div_of_nonneg_right hQ hv.le
  nlinarith

/-- Gaussian cost: splitting never increases the optimal cost, above the floor.  With
    `a σ₁ + b σ₂ ≤ (a+b) σ` (pooled sum of squares exceeds the within-part sums) -/
theorem gauss_split_le (a b σ σ1 σ2 : ℝ) (ha : 0 < a) (hb : 0 < b) (h1 : 0 < σ1) (h2 : 0 < σ2)
    (hσ : a * σ1 + b * σ2 ≤ (a + b) * σ) :
    a * Real.log σ1 + b * Real.log σ2 ≤ (a + b) * Real.log σ := by
  have hab : 0 < a + b := by positivity
  have hw : a / (a + b) + b / (a + b) = 1 := by field_simp
  have hgm := Real.geom_mean_le_arith_mean2_weighted (w₁ := a / (a + b)) (w₂ := b / (a + b))
    (p₁ := σ1) (p₂ := σ2) (by positivity) (by positivity) h1.le h2.le hw
  have hpos : 0 < σ1 ^ (a / (a + b)) * σ2 ^ (b / (a + b)) := by positivity
  have hlog := Real.log_le_log hpos hgm
  rw [Real.log_mul (by positivity) (by positivity), Real.log_rpow h1, Real.log_rpow h2] at hlog
  have hmean : a / (a + b) * σ1 + b / (a + b) * σ2 ≤ σ := by
    have : a / (a + b) * σ1 + b / (a + b) * σ2 = (a * σ1 + b * σ2) / (a + b) := by field_simp
    rw [this, div_le_iff₀ hab]; linarith
  have hmpos : 0 < a / (a + b) * σ1 + b / (a + b) * σ2 := by positivity
  have hlog2 := Real.log_le_log hmpos hmean
  have hfin : a / (a + b) * Real.log σ1 + b / (a + b) * Real.log σ2 ≤ Real.log σ :=
    le_trans hlog hlog2
  have := mul_le_mul_of_nonneg_left hfin hab.le
  have e1 : (a + b) * (a / (a + b) * Real.log σ1 + b / (a + b) * Real.log σ2)
      = a * Real.log σ1 + b * Real.log σ2 := by field_simp
  rw [e1] at this
  exact this

end Skc
