import Skc.Model.Det
import Skc.Lemmas.GreedyGen
import Mathlib.Tactic.Linarith

/-! Circular binary segmentation (C09, C04): admissible inner intervals, per-candidate argmax,
    lift of the greedy-loop theorem: picked inner intervals are pairwise disjoint. -/
namespace Skc
variable {α : Type} [LinearOrder α]

/-- **C09, admissible inner intervals**: `make_anomaly_intervals` enumerates exactly the inner
    intervals `[i, j)` of length `≥ m` strictly inside `[s, e)` that leave at least `m`
    surrounding samples. -/
theorem mem_anomalyIntervals (s e m i j : Nat) :
    (i, j) ∈ anomalyIntervals s e m ↔
      s < i ∧ i + m ≤ j ∧ j < e ∧ m ≤ (e - j) + (i - s) := by
  simp only [anomalyIntervals, List.mem_flatMap, List.mem_map, List.mem_filter, List.mem_range'_1,
    decide_eq_true_eq, Prod.mk.injEq]
  constructor
  · rintro ⟨i', ⟨h1, h2⟩, j', ⟨⟨h3, h4⟩, h5⟩, rfl, rfl⟩
    omega
  · rintro ⟨h1, h2, h3, h4⟩
    exact ⟨i, ⟨by omega, by omega⟩, j, ⟨⟨by omega, by omega⟩, by omega⟩, rfl, rfl⟩

theorem foldl_argmax_spec (f : Nat × Nat → α) : ∀ (l : List (Nat × Nat)) (b : (Nat × Nat) × α),
    b.2 = f b.1 →
    let r := l.foldl (fun (b : (Nat × Nat) × α) c => if b.2 < f c then (c, f c) else b) b
    (r.1 = b.1 ∨ r.1 ∈ l) ∧ r.2 = f r.1 ∧ b.2 ≤ r.2 ∧ ∀ c ∈ l, f c ≤ r.2
  | [], b, hb => by simp [hb]
  | c :: l, b, hb => by
    simp only [List.foldl_cons]
    by_cases h : b.2 < f c
    · simp only [h, if_true]
      obtain ⟨h1, h2, h3, h4⟩ := foldl_argmax_spec f l (c, f c) rfl
      refine ⟨?_, h2, le_trans (le_of_lt h) h3, ?_⟩
      · rcases h1 with h1 | h1
        · right; rw [h1]; simp
        · right; simp [h1]
      · intro c' hc'
        rcases List.mem_cons.1 hc' with rfl | hc'
        · exact h3
        · exact h4 c' hc'
    · simp only [h, if_false]
      obtain ⟨h1, h2, h3, h4⟩ := foldl_argmax_spec f l b hb
      refine ⟨?_, h2, h3, ?_⟩
      · rcases h1 with h1 | h1
        · left; exact h1
        · right; simp [h1]
      · intro c' hc'
        rcases List.mem_cons.1 hc' with rfl | hc'
        · exact le_trans (not_lt.1 h) h3
        · exact h4 c' hc'

/-- **C09, per-candidate maximisation**: the reported inner interval is a candidate attaining the
    maximal score; `none` exactly for an empty candidate list. -/
theorem argmaxCands_spec (f : Nat × Nat → α) (l : List (Nat × Nat)) :
    (argmaxCands f l = none ↔ l = []) ∧
    ∀ c v, argmaxCands f l = some (c, v) → c ∈ l ∧ v = f c ∧ ∀ c' ∈ l, f c' ≤ v := by
  cases l with
  | nil => simp [argmaxCands]
  | cons c0 l =>
    refine ⟨by simp [argmaxCands], ?_⟩
    intro c v h
    simp only [argmaxCands, Option.some.injEq] at h
    obtain ⟨h1, h2, h3, h4⟩ := foldl_argmax_spec f l (c0, f c0) rfl
    rw [h] at h1 h2 h3 h4
    simp only at h1 h2 h3 h4
    refine ⟨?_, h2, ?_⟩
    · rcases h1 with h1 | h1
      · simp [h1]
      · simp [h1]
    · intro c' hc'
      rcases List.mem_cons.1 hc' with rfl | hc'
      · exact h3
      · exact h4 c' hc'

variable [Zero α]

/-- **C09, greedy selection with overlap removal**, threshold `≥ 0`, every above-threshold
    candidate `[s,e)` having its inner interval `[a,b)` strictly inside (`s < a < b < e`):
    * every pick scores above the threshold;
    * every above-threshold candidate overlaps the inner interval of some pick;
    * the picked inner intervals are pairwise disjoint. -/
theorem cbs_greedy_sound (ivs inner : List (Nat × Nat)) (scores : List α) (thr : α)
    (hthr : 0 ≤ thr) (hlen : scores.length = ivs.length)
    (hin : ∀ (i : Nat) (v : α), scores[i]? = some v → thr < v →
      (ivs.getD i (0, 0)).1 < (inner.getD i (0, 0)).1 ∧
      (inner.getD i (0, 0)).1 < (inner.getD i (0, 0)).2 ∧
      (inner.getD i (0, 0)).2 < (ivs.getD i (0, 0)).2) :
    let idx := greedyGen (killOverlap ivs inner) thr ivs.length scores
    (∀ i ∈ idx, ∃ v, scores[i]? = some v ∧ thr < v) ∧
    (∀ (j : Nat) (v : α), scores[j]? = some v → thr < v →
        ∃ i ∈ idx, (ivs.getD j (0, 0)).1 < (inner.getD i (0, 0)).2 ∧
          (inner.getD i (0, 0)).1 < (ivs.getD j (0, 0)).2) ∧
    idx.Pairwise (fun i i' =>
      (inner.getD i (0, 0)).2 ≤ (inner.getD i' (0, 0)).1 ∨
      (inner.getD i' (0, 0)).2 ≤ (inner.getD i (0, 0)).1) := by
  intro idx
  have hself : ∀ i v, scores[i]? = some v → thr < v → killOverlap ivs inner i i = true := by
    intro i v hi hv
    have := hin i v hi hv
    simp only [killOverlap, decide_eq_true_eq]
    omega
  have hc : countAbove thr scores ≤ ivs.length := by
    have := countAbove_le_length thr scores; omega
  obtain ⟨h1, h2, h3⟩ := greedyGen_sound (killOverlap ivs inner) thr hthr scores hself ivs.length
    scores (fun _ _ h _ => h) hc
  refine ⟨h1, ?_, ?_⟩
  · intro j v hj hv
    obtain ⟨i, hi1, hi2⟩ := h2 j v hj hv
    refine ⟨i, hi1, ?_⟩
    simpa [killOverlap] using hi2
  · -- independence + "inner inside its candidate" ⇒ disjoint inner intervals
    have hmem : ∀ i ∈ idx, ∃ v, scores[i]? = some v ∧ thr < v := h1
    refine (List.Pairwise.and_mem.1 h3).imp ?_
    intro i i' ⟨_, hi', hk⟩
    obtain ⟨v', hv1, hv2⟩ := hmem i' hi'
    have hb := hin i' v' hv1 hv2
    simp only [killOverlap, decide_eq_false_iff_not, not_and, not_lt] at hk
    by_cases hcase : (ivs.getD i' (0, 0)).1 < (inner.getD i (0, 0)).2
    · right
      have := hk hcase
      omega
    · left
      omega

end Skc
