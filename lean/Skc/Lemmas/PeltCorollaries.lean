import Skc.Lemmas.PeltSpec
import Mathlib.Algebra.Order.Ring.Defs
import Mathlib.Tactic.Linarith
import Mathlib.Tactic.Ring

namespace Skc
set_option linter.unusedSectionVars false

/-! ### C15: a larger penalty never increases the number of changepoints of a minimiser -/
section mono
variable {R : Type} [CommRing R] [LinearOrder R] [IsStrictOrderedRing R]

/-- unpenalised cost of a segmentation -/
def rawCost (cost : Nat → Nat → R) : Nat → List Nat → Nat → R
  | s, [], e => cost s e
  | s, c :: cs, e => cost s c + rawCost cost c cs e

theorem segCost_eq_raw (cost : Nat → Nat → R) (pen : R) (s : Nat) (cps : List Nat) (e : Nat) :
    segCost cost pen s cps e = rawCost cost s cps e + (cps.length : R) * pen := by
  induction cps generalizing s with
  | nil => simp [segCost, rawCost]
  | cons c cs ih => simp only [segCost, rawCost, ih, List.length_cons]; push_cast; ring

/-- exchange argument: if `c₁` is optimal for `β₁` and `c₂` for `β₂ > β₁` (among any common family of
    segmentations containing both), then `c₂` has at most as many changepoints as `c₁`. -/
theorem penalty_monotone (cost : Nat → Nat → R) (n : Nat) (β₁ β₂ : R) (hβ : β₁ < β₂)
    (c₁ c₂ : List Nat)
    (h₁ : segCost cost β₁ 0 c₁ n ≤ segCost cost β₁ 0 c₂ n)
    (h₂ : segCost cost β₂ 0 c₂ n ≤ segCost cost β₂ 0 c₁ n) :
    c₂.length ≤ c₁.length := by
  rw [segCost_eq_raw, segCost_eq_raw] at h₁ h₂
  by_contra hlt
  push_neg at hlt
  have hk : ((c₁.length : R)) + 1 ≤ (c₂.length : R) := by exact_mod_cast hlt
  nlinarith
end mono

/-! ### C12: PELT's optimal penalised cost is invariant under time reversal -/
section rev
variable {α : Type} [AddCommGroup α] [LinearOrder α] [IsOrderedAddMonoid α]

/-- the mirrored changepoints -/
def revCps (n : Nat) (cps : List Nat) : List Nat := (cps.map (n - ·)).reverse

theorem validFrom_segCost_rev (cost : Nat → Nat → α) (pen : α) (m n : Nat) :
    ∀ (cps : List Nat) (s e : Nat), e ≤ n → ValidFrom m s cps e →
      ValidFrom m (n - e) (revCps n cps) (n - s) ∧
      segCost (fun a b => cost (n - b) (n - a)) pen (n - e) (revCps n cps) (n - s) = segCost cost pen s cps e := by
  intro cps
  induction cps with
  | nil =>
    intro s e he hv
    simp only [ValidFrom] at hv
    refine ⟨?_, ?_⟩
    · simp only [revCps, List.map_nil, List.reverse_nil, ValidFrom]; omega
    · simp only [revCps, List.map_nil, List.reverse_nil, segCost]
      have h1 : n - (n - s) = s := by omega
      have h2 : n - (n - e) = e := by omega
      rw [h1, h2]
  | cons c cs ih =>
    intro s e he hv
    obtain ⟨hsc, hv'⟩ := hv
    have hce := validFrom_start_le m c cs e hv'
    obtain ⟨ih1, ih2⟩ := ih c e he hv'
    have hrev : revCps n (c :: cs) = revCps n cs ++ [n - c] := by simp [revCps]
    rw [hrev]
    refine ⟨(validFrom_snoc m (n - e) (revCps n cs) (n - c) (n - s)).2 ⟨ih1, by omega⟩, ?_⟩
    rw [segCost_snoc, ih2]
    simp only [segCost]
    have h1 : n - (n - s) = s := by omega
    have h2 : n - (n - c) = c := by omega
    rw [h1, h2]
    abel

end rev
end Skc
