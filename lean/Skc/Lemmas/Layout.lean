import Skc.Model.Det
import Mathlib.Tactic.Linarith
import Mathlib.Tactic.Ring

/-! The seeded-interval layout (C07, first sentence): for an admissible (length, step) schedule every
    interval lies in `[0, n]` and has a length between the minimum and the scheduled length. -/
namespace Skc

theorem lt_nSteps {n len step i : Nat} (hstep : 1 ≤ step) (h : i < nSteps n len step) :
    i * step + len < n := by
  unfold nSteps at h
  have h1 : i + 1 ≤ (n - len + step - 1) / step := h
  have h2 := (Nat.le_div_iff_mul_le (by omega)).1 h1
  have h3 : (i + 1) * step = i * step + step := by ring
  omega

/-- every interval of a block: inside `[0,n]`, at least `minLen`, at most `len` long -/
theorem seededBlock_spec (n minLen len step : Nat) (h1 : 1 ≤ minLen) (h2 : minLen ≤ len)
    (h3 : len ≤ n) (hstep : 1 ≤ step) :
    ∀ iv ∈ seededBlock n minLen len step, iv.2 ≤ n ∧ iv.1 + minLen ≤ iv.2 ∧ iv.2 ≤ iv.1 + len := by
  intro iv hiv
  simp only [seededBlock, List.mem_append, List.mem_map, List.mem_range, List.mem_singleton] at hiv
  rcases hiv with ⟨i, hi, rfl⟩ | hiv
  · have := lt_nSteps hstep hi
    simp only
    omega
  · split at hiv
    · subst hiv
      rename_i hlt
      simp only
      omega
    · subst hiv
      rename_i hlt
      simp only
      omega

theorem seededBlock_ne_nil (n minLen len step : Nat) : seededBlock n minLen len step ≠ [] := by
  simp [seededBlock]

/-- a schedule is admissible when every length is between `minLen` and `min maxLen n` and every
    step is positive -/
def AdmissibleSchedule (n minLen maxLen : Nat) (sched : List (Nat × Nat)) : Prop :=
  sched ≠ [] ∧ ∀ ls ∈ sched, minLen ≤ ls.1 ∧ ls.1 ≤ min maxLen n ∧ 1 ≤ ls.2

theorem seededFrom_spec (n minLen maxLen : Nat) (sched : List (Nat × Nat)) (h1 : 1 ≤ minLen)
    (hs : AdmissibleSchedule n minLen maxLen sched) :
    seededFrom n minLen sched ≠ [] ∧
    ∀ iv ∈ seededFrom n minLen sched,
      iv.2 ≤ n ∧ iv.1 + minLen ≤ iv.2 ∧ iv.2 ≤ iv.1 + min maxLen n := by
  obtain ⟨hne, hall⟩ := hs
  constructor
  · intro h
    cases sched with
    | nil => exact hne rfl
    | cons ls rest =>
      simp only [seededFrom, List.flatMap_cons, List.append_eq_nil_iff] at h
      exact seededBlock_ne_nil _ _ _ _ h.1
  · intro iv hiv
    simp only [seededFrom, List.mem_flatMap] at hiv
    obtain ⟨ls, hls, hiv⟩ := hiv
    obtain ⟨a, b, c⟩ := hall ls hls
    have := seededBlock_spec n minLen ls.1 ls.2 h1 a (by omega) c iv hiv
    omega

end Skc
