import Skc.Lemmas.CapaInv
import Mathlib.Tactic.Abel

/-! Consequences of the CAPA invariant: upper bound over every admissible anomaly set,
    monotone scores, correctness of `get_anomalies`. -/
namespace Skc
set_option linter.unusedSectionVars false
variable {α : Type} [AddCommGroup α] [LinearOrder α] [IsOrderedAddMonoid α]

theorem anomVal_append (PS : Nat → Nat → α) (PP : Nat → α) (l₁ l₂ : List (Nat × Nat)) :
    anomVal PS PP (l₁ ++ l₂) = anomVal PS PP l₁ + anomVal PS PP l₂ := by
  induction l₁ with
  | nil => simp [anomVal]
  | cons a t ih => simp only [List.cons_append, anomVal, ih]; abel

theorem validAnoms_hi_mono (m M : Nat) (lo : Nat) (l : List (Nat × Nat)) (hi hi' : Nat)
    (h : ValidAnoms m M lo l hi) (hh : hi ≤ hi') : ValidAnoms m M lo l hi' := by
  induction l generalizing lo with
  | nil => simp only [ValidAnoms] at h ⊢; omega
  | cons a t ih => exact ⟨h.1, h.2.1, ih a.2 h.2.2⟩

theorem validAnoms_snoc (m M : Nat) (lo : Nat) (l : List (Nat × Nat)) (s e : Nat)
    (h : ValidAnoms m M lo l s) (hshape : e = s + 1 ∨ AdmC m M s e) (hm : 1 ≤ m) :
    ValidAnoms m M lo (l ++ [(s, e)]) e := by
  induction l generalizing lo with
  | nil =>
    simp only [ValidAnoms] at h
    refine ⟨h, hshape, ?_⟩
    simp [ValidAnoms]
  | cons a t ih => exact ⟨h.1, h.2.1, ih a.2 h.2.2⟩

theorem validAnoms_lo_le_hi (m M : Nat) (lo : Nat) (l : List (Nat × Nat)) (hi : Nat)
    (h : ValidAnoms m M lo l hi) : lo ≤ hi := by
  induction l generalizing lo with
  | nil => exact h
  | cons a t ih =>
    have := ih a.2 h.2.2
    rcases h.2.1 with g | g
    · have := h.1; omega
    · obtain ⟨g4, _⟩ := g; have := h.1; omega

/-! ### The invariant holds after every iteration -/

/-- a selector for the starts is sound when it returns a member that maximises -/
def SoundPickMax (pick : (Nat → α) → List Nat → Nat) : Prop :=
  (∀ (f : Nat → α) (l : List Nat), l ≠ [] → pick f l ∈ l) ∧
  (∀ (f : Nat → α) (l : List Nat), ∀ x ∈ l, f x ≤ f (pick f l))

/-- a pruning test is sound when it only fires for `candidate + slack ≤ optimum` -/
def SoundPruneC (pr : α → α → Bool) : Prop := ∀ x v, pr x v = true → x ≤ v

theorem soundPickMax_argmaxL : SoundPickMax (α := α) argmaxL := ⟨argmaxL_mem, argmaxL_ge⟩
theorem soundPickMax_argmaxLast : SoundPickMax (α := α) argmaxLast := ⟨argmaxLast_mem, argmaxLast_ge⟩
theorem soundPruneC_lt : SoundPruneC (α := α) prLt := by
  intro x v h; simp only [prLt, decide_eq_true_eq] at h; exact le_of_lt h
/-- non-strict pruning and no pruning are sound as well -/
theorem soundPruneC_le : SoundPruneC (α := α) (fun x v => decide (x ≤ v)) := by
  intro x v h; simpa using h
theorem soundPruneC_never : SoundPruneC (α := α) (fun _ _ => false) := by
  intro x v h; cases h

theorem cinv_allG (pick : (Nat → α) → List Nat → Nat) (pr : α → α → Bool)
    (hpick : SoundPickMax pick) (hpr : SoundPruneC pr)
    (PS : Nat → Nat → α) (PP : Nat → α) (K : α) (m M delay n : Nat)
    (hm : 1 ≤ m) (hmM : m ≤ M) (hd : m ≤ delay + 1)
    (H : ∀ s e0 T, s + m ≤ e0 → e0 + m ≤ T → T ≤ s + M → T ≤ n → PS s T ≤ PS s e0 + PS e0 T + K) :
    ∀ t, t ≤ n → CInv PS PP K m M delay t (capaIterG pick pr PS PP K m M delay t) := by
  intro t
  induction t with
  | zero => intro _; exact cinv_init PS PP K m M delay hm
  | succ t ih =>
    intro ht
    exact cinv_step pick pr hpick.1 hpick.2 hpr PS PP K m M delay t n _ hm hmM hd ht H (ih (by omega))

theorem cinv_all (PS : Nat → Nat → α) (PP : Nat → α) (K : α) (m M delay n : Nat)
    (hm : 1 ≤ m) (hmM : m ≤ M) (hd : m ≤ delay + 1)
    (H : ∀ s e0 T, s + m ≤ e0 → e0 + m ≤ T → T ≤ s + M → T ≤ n → PS s T ≤ PS s e0 + PS e0 T + K) :
    ∀ t, t ≤ n → CInv PS PP K m M delay t (capaIter PS PP K m M delay t) :=
  cinv_allG argmaxL prLt soundPickMax_argmaxL soundPruneC_lt PS PP K m M delay n hm hmM hd H

theorem opt_mono (PS : Nat → Nat → α) (PP : Nat → α) (K : α) (m M delay t : Nat) (st : CapaSt α)
    (inv : CInv PS PP K m M delay t st) : ∀ a b, a ≤ b → b ≤ t → st.opt a ≤ st.opt b := by
  intro a b hab
  induction b with
  | zero => intro _; have : a = 0 := by omega
            subst this; exact le_refl _
  | succ b ih =>
    intro hb
    by_cases h : a = b + 1
    · subst h; exact le_refl _
    · exact le_trans (ih (by omega) (by omega)) (inv.mono b (by omega))

/-- no admissible anomaly set inside `[lo,hi]` gains more than `opt hi - opt lo` -/
theorem anomVal_le (PS : Nat → Nat → α) (PP : Nat → α) (K : α) (m M delay t : Nat) (st : CapaSt α)
    (hm : 2 ≤ m) (inv : CInv PS PP K m M delay t st) :
    ∀ l lo hi, hi ≤ t → ValidAnoms m M lo l hi → st.opt lo + anomVal PS PP l ≤ st.opt hi := by
  intro l
  induction l with
  | nil =>
    intro lo hi hhi hv
    simp only [ValidAnoms] at hv
    simpa [anomVal] using opt_mono PS PP K m M delay t st inv lo hi hv hhi
  | cons a rest ih =>
    intro lo hi hhi hv
    obtain ⟨h1, h2, h3⟩ := hv
    have hrest := ih a.2 hi hhi h3
    have ha2 : a.2 ≤ hi := validAnoms_lo_le_hi m M a.2 rest hi h3
    have hlo := opt_mono PS PP K m M delay t st inv lo a.1 h1 (by
      rcases h2 with g | g
      · omega
      · obtain ⟨g4, _⟩ := g; omega)
    have hstep : st.opt a.1 + anomVal1 PS PP a ≤ st.opt a.2 := by
      rcases h2 with g | g
      · simp only [anomVal1, g, if_true]
        exact inv.bpoint a.1 (by omega)
      · obtain ⟨g4, g5⟩ := g
        have hne : ¬ a.2 = a.1 + 1 := by omega
        simp only [anomVal1, hne, if_false]
        exact inv.bcoll a.2 (by omega) a.1 ⟨g4, g5⟩
    simp only [anomVal]
    grind

end Skc

namespace Skc
set_option linter.unusedSectionVars false
variable {α : Type} [AddCommGroup α] [LinearOrder α] [IsOrderedAddMonoid α]

theorem getAnoms_spec (PS : Nat → Nat → α) (PP : Nat → α) (K : α) (m M delay t : Nat) (st : CapaSt α)
    (hm : 2 ≤ m) (inv : CInv PS PP K m M delay t st) :
    ∀ e, e ≤ t → ∀ fuel acc, e < fuel →
      ∃ l, getAnoms st.astart fuel e acc = l ++ acc ∧
        ValidAnoms m M 0 l e ∧ anomVal PS PP l = st.opt e ∧ ∀ a ∈ l, 0 < anomVal1 PS PP a := by
  intro e
  induction e using Nat.strong_induction_on with
  | _ e ih =>
    intro he fuel acc hfuel
    obtain ⟨fuel', rfl⟩ : ∃ f, fuel = f + 1 := ⟨fuel - 1, by omega⟩
    cases e with
    | zero =>
      refine ⟨[], ?_, ?_, ?_, ?_⟩
      · simp [getAnoms]
      · simp [ValidAnoms]
      · simp [anomVal, inv.opt0]
      · simp
    | succ i =>
      simp only [getAnoms]
      rcases inv.beq i (by omega) with ⟨h1, h2⟩ | ⟨h1, h2⟩ | ⟨s, h1, h2, h3⟩
      · -- no anomaly ends at i
        simp only [h1]
        obtain ⟨l, hl1, hl2, hl3, hl4⟩ := ih i (by omega) (by omega) fuel' acc (by omega)
        exact ⟨l, hl1, validAnoms_hi_mono m M 0 l i (i + 1) hl2 (by omega), by rw [hl3, h2], hl4⟩
      · -- point anomaly at i
        have hstrict := inv.strict i (by omega) (by rw [h1]; simp)
        simp only [h1, lt_irrefl, if_false, if_true]
        obtain ⟨l, hl1, hl2, hl3, hl4⟩ := ih i (by omega) (by omega) fuel' ((i, i + 1) :: acc) (by omega)
        refine ⟨l ++ [(i, i + 1)], by rw [hl1]; simp, ?_, ?_, ?_⟩
        · exact validAnoms_snoc m M 0 l i (i + 1) hl2 (Or.inl rfl) (by omega)
        · rw [anomVal_append, hl3, h2]; simp [anomVal, anomVal1]
        · intro a ha
          rcases List.mem_append.1 ha with ha | ha
          · exact hl4 a ha
          · simp only [List.mem_singleton] at ha
            subst ha
            simp only [anomVal1, if_true]
            rw [h2] at hstrict
            exact pos_of_lt_add_right hstrict
      · -- collective anomaly [s, i+1)
        have hstrict := inv.strict i (by omega) (by rw [h1]; simp)
        obtain ⟨g1, g2⟩ := h2
        have hsi : s < i := by omega
        simp only [h1, hsi, if_true]
        obtain ⟨l, hl1, hl2, hl3, hl4⟩ := ih s (by omega) (by omega) fuel' ((s, i + 1) :: acc) (by omega)
        refine ⟨l ++ [(s, i + 1)], by rw [hl1]; simp, ?_, ?_, ?_⟩
        · exact validAnoms_snoc m M 0 l s (i + 1) hl2 (Or.inr ⟨g1, g2⟩) (by omega)
        · rw [anomVal_append, hl3, h3]
          have hne : ¬ i + 1 = s + 1 := by omega
          simp only [anomVal, anomVal1, hne, if_false, add_zero]
        · intro a ha
          rcases List.mem_append.1 ha with ha | ha
          · exact hl4 a ha
          · simp only [List.mem_singleton] at ha
            subst ha
            have hne : ¬ i + 1 = s + 1 := by omega
            simp only [anomVal1, hne, if_false]
            have hmono := opt_mono PS PP K m M delay t st inv s i (by omega) (by omega)
            rw [h3] at hstrict
            have : st.opt s < st.opt s + PS s (i + 1) := lt_of_le_of_lt hmono hstrict
            exact pos_of_lt_add_right this

end Skc
