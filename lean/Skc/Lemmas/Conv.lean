import Skc.Model.Conv
import Mathlib.Data.List.Basic
import Mathlib.Data.List.Range
import Mathlib.Tactic.Ring

namespace Skc

/-- sorted, pairwise disjoint (adjacency allowed), non-empty intervals inside `[lo, n]` -/
def ValidIv : Nat → List (Nat × Nat) → Nat → Prop
  | lo, [], n => lo ≤ n
  | lo, (s, e) :: rest, n => lo ≤ s ∧ s < e ∧ ValidIv e rest n

theorem validIv_le : ∀ (lo : Nat) (l : List (Nat × Nat)) (n : Nat), ValidIv lo l n → lo ≤ n
  | lo, [], n, h => h
  | lo, (s, e) :: rest, n, h => by
    have := validIv_le e rest n h.2.2
    have := h.1; have := h.2.1; omega

/-- the dense labels as blocks: zeros, then the run of label `k+1`, … -/
def blocks : Nat → Nat → List (Nat × Nat) → Nat → List Nat
  | lo, _, [], n => List.replicate (n - lo) 0
  | lo, k, (s, e) :: rest, n =>
      List.replicate (s - lo) 0 ++ (List.replicate (e - s) (k + 1) ++ blocks e (k + 1) rest n)

/-! ### scanning blocks -/
theorem scan_zeros (m : Nat) (tail : List Nat) (i : Nat) :
    collD2SAux (List.replicate m 0 ++ tail) i none = collD2SAux tail (i + m) none := by
  induction m generalizing i with
  | zero => simp
  | succ m ih =>
    simp only [List.replicate_succ, List.cons_append, collD2SAux, lt_irrefl, if_false]
    rw [ih]; congr 1; omega

theorem scan_same (m lab s : Nat) (tail : List Nat) (i : Nat) :
    collD2SAux (List.replicate m lab ++ tail) i (some (s, lab)) = collD2SAux tail (i + m) (some (s, lab)) := by
  induction m generalizing i with
  | zero => simp
  | succ m ih =>
    simp only [List.replicate_succ, List.cons_append, collD2SAux, if_true]
    rw [ih]; congr 1; omega

theorem scan_open (m lab : Nat) (hlab : 0 < lab) (tail : List Nat) (i : Nat) :
    collD2SAux (List.replicate (m + 1) lab ++ tail) i none = collD2SAux tail (i + m + 1) (some (i, lab)) := by
  simp only [List.replicate_succ, List.cons_append, collD2SAux, hlab, if_true]
  rw [scan_same]; congr 1; omega

/-- scanning the blocks of a valid interval list, with or without an open run of the previous label -/
theorem scan_blocks : ∀ (rest : List (Nat × Nat)) (lo k n : Nat), ValidIv lo rest n →
    collD2SAux (blocks lo k rest n) lo none = rest ∧
    ∀ s0, 1 ≤ k → collD2SAux (blocks lo k rest n) lo (some (s0, k)) = (s0, lo) :: rest
  | [], lo, k, n, h => by
    simp only [ValidIv] at h
    constructor
    · simp only [blocks]
      have := scan_zeros (n - lo) [] lo
      simp only [List.append_nil] at this
      rw [this]; simp [collD2SAux]
    · intro s0 hk
      simp only [blocks]
      cases hm : n - lo with
      | zero => simp [collD2SAux]
      | succ m =>
        have hk0 : ¬ (0 = k) := by omega
        simp only [List.replicate_succ, collD2SAux, hk0, if_false, lt_irrefl]
        have := scan_zeros m [] (lo + 1)
        simp only [List.append_nil] at this
        rw [this]; simp [collD2SAux]
  | (s, e) :: rest, lo, k, n, h => by
    obtain ⟨h1, h2, h3⟩ := h
    obtain ⟨ihA, ihB⟩ := scan_blocks rest e (k + 1) n h3
    have hes : e - s = (e - s - 1) + 1 := by omega
    -- scanning the run of label k+1 starting at s from `none`, then the remaining blocks
    have hrun : collD2SAux (List.replicate (e - s) (k + 1) ++ blocks e (k + 1) rest n) s none
        = (s, e) :: rest := by
      rw [hes, scan_open _ _ (by omega)]
      have : s + (e - s - 1) + 1 = e := by omega
      rw [this]
      exact ihB s (by omega)
    constructor
    · simp only [blocks]
      rw [scan_zeros]
      have : lo + (s - lo) = s := by omega
      rw [this]; exact hrun
    · intro s0 hk
      simp only [blocks]
      cases hm : s - lo with
      | zero =>
        have hlo : lo = s := by omega
        subst hlo
        simp only [List.replicate_zero, List.nil_append]
        rw [hes]
        have hne : ¬ (k + 1 = k) := by omega
        simp only [List.replicate_succ, List.cons_append, collD2SAux, hne, if_false,
          Nat.succ_pos, if_true]
        rw [scan_same]
        have : lo + 1 + (e - lo - 1) = e := by omega
        rw [this, ihB lo (by omega)]
      | succ m =>
        have hk0 : ¬ (0 = k) := by omega
        simp only [List.replicate_succ, List.cons_append, collD2SAux, hk0, if_false, lt_irrefl]
        rw [scan_zeros]
        have : lo + 1 + m = s := by omega
        rw [this, hrun]

end Skc

namespace Skc

theorem labelAt_below : ∀ (rest : List (Nat × Nat)) (lo n k i : Nat), ValidIv lo rest n → i < lo →
    labelAt rest k i = 0
  | [], _, _, _, _, _, _ => rfl
  | (s, e) :: rest, lo, n, k, i, h, hi => by
    obtain ⟨h1, h2, h3⟩ := h
    have hn : ¬ (s ≤ i ∧ i < e) := by omega
    simp only [labelAt, hn, if_false]
    exact labelAt_below rest e n (k + 1) i h3 (by omega)

theorem map_const_range' (f : Nat → Nat) (c lo len : Nat) (h : ∀ i, lo ≤ i → i < lo + len → f i = c) :
    (List.range' lo len).map f = List.replicate len c := by
  induction len generalizing lo with
  | zero => simp
  | succ len ih =>
    rw [List.range'_succ, List.map_cons, List.replicate_succ, h lo (le_refl _) (by omega)]
    congr 1
    exact ih (lo + 1) (fun i h1 h2 => h i (by omega) (by omega))

/-- the dense labels of a valid interval list are its blocks -/
theorem labels_eq_blocks : ∀ (anoms : List (Nat × Nat)) (lo k n : Nat), ValidIv lo anoms n →
    (List.range' lo (n - lo)).map (labelAt anoms k) = blocks lo k anoms n
  | [], lo, k, n, _ => by
    simp only [blocks]
    exact map_const_range' _ 0 lo (n - lo) (fun _ _ _ => rfl)
  | (s, e) :: rest, lo, k, n, h => by
    obtain ⟨h1, h2, h3⟩ := h
    have hen := validIv_le e rest n h3
    have hsplit : n - lo = (s - lo) + ((e - s) + (n - e)) := by omega
    simp only [blocks]
    rw [hsplit, List.range'_append_1.symm, List.map_append]
    have hlos : lo + (s - lo) = s := by omega
    rw [hlos, List.range'_append_1.symm, List.map_append]
    have hse : s + (e - s) = e := by omega
    rw [hse]
    congr 1
    · apply map_const_range'
      intro i hi1 hi2
      have hn : ¬ (s ≤ i ∧ i < e) := by omega
      simp only [labelAt, hn, if_false]
      exact labelAt_below rest e n (k + 1) i h3 (by omega)
    · congr 1
      · apply map_const_range'
        intro i hi1 hi2
        have hy : s ≤ i ∧ i < e := by omega
        simp [labelAt, hy]
      · rw [← labels_eq_blocks rest e (k + 1) n h3]
        apply List.map_congr_left
        intro i hi
        have := (List.mem_range'_1.1 hi).1
        have hn : ¬ (s ≤ i ∧ i < e) := by omega
        simp only [labelAt, hn, if_false]

/-- **C05 (collective anomalies), model level**: converting any valid sparse output (sorted,
    pairwise disjoint, non-empty intervals inside `[0,n]`; adjacent intervals, length-1 intervals and
    intervals touching 0 or n included) to dense labels and back reproduces it exactly. -/
theorem coll_roundtrip (anoms : List (Nat × Nat)) (n : Nat) (h : ValidIv 0 anoms n) :
    collD2S (collS2D anoms n) = anoms := by
  have hA := labels_eq_blocks anoms 0 0 n h
  simp only [Nat.sub_zero] at hA
  have hr : List.range n = List.range' 0 n := List.range_eq_range' 
  simp only [collD2S, collS2D, hr, hA]
  exact (scan_blocks anoms 0 0 n h).1

end Skc
