import Skc.Lemmas.Pen
import Mathlib.Tactic.Linarith

namespace Skc
set_option linter.unusedSectionVars false
variable {α : Type} [AddCommGroup α] [LinearOrder α] [IsOrderedAddMonoid α]

/-! Per-column sub-additivity `x_j ≤ y_j + z_j` of three saving vectors of equal length. -/
def SubAdd : List α → List α → List α → Prop
  | [], [], [] => True
  | a :: x, b :: y, c :: z => a ≤ b + c ∧ SubAdd x y z
  | _, _, _ => False

theorem subAdd_length : ∀ (x y z : List α), SubAdd x y z → x.length = y.length ∧ x.length = z.length
  | [], [], [], _ => ⟨rfl, rfl⟩
  | a :: x, b :: y, c :: z, h => by
    obtain ⟨h1, h2⟩ := subAdd_length x y z h.2
    simp [h1, ← h2]
  | [], _ :: _, _, h => by simp [SubAdd] at h
  | [], [], _ :: _, h => by simp [SubAdd] at h
  | _ :: _, [], _, h => by simp [SubAdd] at h
  | _ :: _, _ :: _, [], h => by simp [SubAdd] at h

/-- dense branch -/
theorem subAdd_sum : ∀ (x y z : List α), SubAdd x y z → x.sum ≤ y.sum + z.sum
  | [], [], [], _ => by simp
  | a :: x, b :: y, c :: z, h => by
    have := subAdd_sum x y z h.2
    have := h.1
    simp only [List.sum_cons]
    grind
  | [], _ :: _, _, h => by simp [SubAdd] at h
  | [], [], _ :: _, h => by simp [SubAdd] at h
  | _ :: _, [], _, h => by simp [SubAdd] at h
  | _ :: _, _ :: _, [], h => by simp [SubAdd] at h

/-- equal-betas branch: `Σ max(x−b,0) ≤ Σ max(y−b,0) + Σ max(z−b,0) + p·b` -/
def pos (b : α) (s : α) : α := if s - b < 0 then 0 else s - b

theorem subAdd_pos_sum (b : α) (hb : 0 ≤ b) : ∀ (x y z : List α), SubAdd x y z →
    (x.map (pos b)).sum ≤ (y.map (pos b)).sum + (z.map (pos b)).sum + (x.map (fun _ => b)).sum
  | [], [], [], _ => by simp
  | a :: x, c :: y, d :: z, h => by
    have ih := subAdd_pos_sum b hb x y z h.2
    have h1 := h.1
    have hel : pos b a ≤ pos b c + pos b d + b := by
      unfold pos
      split <;> split <;> split <;> grind
    simp only [List.map_cons, List.sum_cons]
    grind
  | [], _ :: _, _, h => by simp [SubAdd] at h
  | [], [], _ :: _, h => by simp [SubAdd] at h
  | _ :: _, [], _, h => by simp [SubAdd] at h
  | _ :: _, _ :: _, [], h => by simp [SubAdd] at h

end Skc

namespace Skc
set_option linter.unusedSectionVars false
variable {α : Type} [AddCommGroup α] [LinearOrder α] [IsOrderedAddMonoid α]

theorem subAdd_getD : ∀ (x y z : List α), SubAdd x y z → ∀ i, i < x.length →
    x.getD i 0 ≤ y.getD i 0 + z.getD i 0
  | [], [], [], _, i, hi => by simp at hi
  | a :: x, b :: y, c :: z, h, i, hi => by
    cases i with
    | zero => simpa using h.1
    | succ i =>
      have := subAdd_getD x y z h.2 i (by simpa using hi)
      simpa using this
  | [], _ :: _, _, h, _, _ => by simp [SubAdd] at h
  | [], [], _ :: _, h, _, _ => by simp [SubAdd] at h
  | _ :: _, [], _, h, _, _ => by simp [SubAdd] at h
  | _ :: _, _ :: _, [], h, _, _ => by simp [SubAdd] at h

theorem map_getD_range (y : List α) : (List.range y.length).map (fun i => y.getD i 0) = y := by
  apply List.ext_getElem
  · simp
  · intro i h1 h2
    simp at h1
    simp [List.getD_eq_getElem?_getD, h1]

/-- the index components of the decreasing order are a permutation of `0..p-1` -/
theorem orderDesc_idx_perm (x : List α) : ((orderDesc x).map (·.1)).Perm (List.range x.length) := by
  have h := (orderDesc_perm x).map (·.1)
  refine h.trans ?_
  rw [List.map_map]
  have : ((fun e : Nat × α => e.1) ∘ fun (e : α × Nat) => (e.2, e.1)) = fun e => e.2 := by
    funext e; rfl
  rw [this, List.zipIdx_map_snd, List.range_eq_range']

/-- each entry of the order is `(column, saving of that column)` -/
theorem orderDesc_entry (x : List α) : ∀ e ∈ orderDesc x, x.getD e.1 0 = e.2 := by
  intro e he
  have hmem : e ∈ x.zipIdx.map (fun (v, i) => (i, v)) := (orderDesc_perm x).mem_iff.1 he
  obtain ⟨⟨v, i⟩, hvi, rfl⟩ := List.mem_map.1 hmem
  obtain ⟨hi, hv⟩ := List.mem_zipIdx' hvi
  simp only
  rw [List.getD_eq_getElem?_getD, List.getElem?_eq_getElem hi, hv]
  rfl

end Skc

namespace Skc
set_option linter.unusedSectionVars false
variable {α : Type} [AddCommGroup α] [LinearOrder α] [IsOrderedAddMonoid α]

theorem sum_take_le_sum (b : List α) (hb : ∀ v ∈ b, 0 ≤ v) (k : Nat) : (b.take k).sum ≤ b.sum := by
  induction b generalizing k with
  | nil => simp
  | cons a t ih =>
    cases k with
    | zero =>
      simp only [List.take_zero, List.sum_nil, List.sum_cons]
      have h1 := hb a (by simp)
      have h2 : (0 : α) ≤ t.sum := by
        have := ih (fun v hv => hb v (by simp [hv])) 0
        simpa using this
      exact add_nonneg h1 h2
    | succ k =>
      simp only [List.take_succ_cons, List.sum_cons]
      have := ih (fun v hv => hb v (by simp [hv])) k
      gcongr

theorem sum_map_subAdd (x y z : List α) (h : SubAdd x y z) (I : List Nat) (hI : ∀ i ∈ I, i < x.length) :
    (I.map (fun i => x.getD i 0)).sum ≤ (I.map (fun i => y.getD i 0)).sum + (I.map (fun i => z.getD i 0)).sum := by
  induction I with
  | nil => simp
  | cons i t ih =>
    have h1 := subAdd_getD x y z h i (hI i (by simp))
    have h2 := ih (fun j hj => hI j (by simp [hj]))
    simp only [List.map_cons, List.sum_cons]
    grind

/-- **general branch**: `pen(x) ≤ pen(y) + pen(z) + (α + Σβ)` when `x ≤ y + z` column-wise, `β ≥ 0`. -/
theorem penGeneral_H (x y z : List α) (alpha : α) (betas : List α)
    (h : SubAdd x y z) (hlen : betas.length = x.length) (hp : x ≠ [])
    (hb : ∀ v ∈ betas, 0 ≤ v) :
    (penGeneral x alpha betas).2 ≤
      (penGeneral y alpha betas).2 + (penGeneral z alpha betas).2 + (alpha + betas.sum) := by
  obtain ⟨hxy, hxz⟩ := subAdd_length x y z h
  obtain ⟨hk, hval, _⟩ := penGeneral_spec x alpha betas hlen hp
  set k := (penGeneral x alpha betas).1 with hkdef
  rw [hval]
  -- the k+1 best columns of x
  set top := (orderDesc x).take (k + 1) with htop
  set I := top.map (·.1) with hI
  have htoplen : top.length = k + 1 := by
    simp only [htop, List.length_take, orderDesc_length]; omega
  have hIlen : I.length = k + 1 := by simp [hI, htoplen]
  -- Σ of the top values = Σ over I of x
  have hsumI : (((orderDesc x).map (·.2)).take (k + 1)).sum = (I.map (fun i => x.getD i 0)).sum := by
    rw [← List.map_take, hI, List.map_map]
    congr 1
    apply List.map_congr_left
    intro e he
    have : e ∈ orderDesc x := List.mem_of_mem_take he
    exact (orderDesc_entry x e this).symm
  -- I ⊆ columns, duplicate free
  have hIsub : I.Subperm (List.range x.length) := by
    have h1 : I.Sublist ((orderDesc x).map (·.1)) := by
      rw [hI, htop, List.map_take]; exact List.take_sublist _ _
    exact h1.subperm.trans (orderDesc_idx_perm x).subperm
  have hImem : ∀ i ∈ I, i < x.length := by
    intro i hi
    have := hIsub.subset hi
    simpa using this
  -- the same columns, read in y and z, are sub-multisets of y and z
  have hJy : (I.map (fun i => y.getD i 0)).Subperm y := by
    obtain ⟨l, hperm, hsub⟩ := hIsub
    have : (I.map (fun i => y.getD i 0)).Subperm ((List.range x.length).map (fun i => y.getD i 0)) :=
      ⟨l.map _, hperm.map _, hsub.map _⟩
    rw [hxy, map_getD_range] at this; exact this
  have hJz : (I.map (fun i => z.getD i 0)).Subperm z := by
    obtain ⟨l, hperm, hsub⟩ := hIsub
    have : (I.map (fun i => z.getD i 0)).Subperm ((List.range x.length).map (fun i => z.getD i 0)) :=
      ⟨l.map _, hperm.map _, hsub.map _⟩
    rw [hxz, map_getD_range] at this; exact this
  have hne : ∀ (f : Nat → α), I.map f ≠ [] := by
    intro f hf
    have : (I.map f).length = 0 := by rw [hf]; rfl
    simp [hIlen] at this
  have hy := penGeneral_ge_subset y alpha betas (by omega) _ hJy (hne _)
  have hz := penGeneral_ge_subset z alpha betas (by omega) _ hJz (hne _)
  simp only [List.length_map, hIlen] at hy hz
  have hsub := sum_map_subAdd x y z h I hImem
  have hbk := sum_take_le_sum betas hb (k + 1)
  simp only [prefVal, hsumI]
  grind

end Skc
