import Skc.Model.Greedy
import Mathlib.Data.List.Basic
import Mathlib.Order.Basic

namespace Skc

/-- `[s,e)` is a maximal run of `true` in `ind` -/
def IsRun (ind : List Bool) (s e : Nat) : Prop :=
  s < e ∧ e ≤ ind.length ∧ (∀ i, s ≤ i → i < e → ind[i]? = some true) ∧
    (s = 0 ∨ ind[s - 1]? = some false) ∧ (e = ind.length ∨ ind[e]? = some false)

/-- state invariant of the scan at position `i = pre.length` -/
def ScanOK (pre : List Bool) : Option Nat → Prop
  | none => pre.length = 0 ∨ pre[pre.length - 1]? = some false
  | some s => s < pre.length ∧ (∀ j, s ≤ j → j < pre.length → pre[j]? = some true) ∧
      (s = 0 ∨ pre[s - 1]? = some false)

theorem getElem?_append_singleton_last (pre : List Bool) (b : Bool) :
    (pre ++ [b])[(pre ++ [b]).length - 1]? = some b := by simp

theorem whereRunsAux_spec : ∀ (l pre : List Bool) (o : Option Nat), ScanOK pre o →
    ∀ a b, (a, b) ∈ whereRunsAux l pre.length o ↔ (IsRun (pre ++ l) a b ∧ pre.length ≤ b)
  | [], pre, none, h, a, b => by
    simp only [whereRunsAux, List.not_mem_nil, List.append_nil, false_iff, not_and, not_le]
    intro ⟨h1, h2, h3, _, _⟩
    rcases h with h | h
    · omega
    · by_contra hc
      have hb : b = pre.length := by omega
      have := h3 (b - 1) (by omega) (by omega)
      rw [hb] at this; rw [this] at h; cases h
  | [], pre, some s, h, a, b => by
    obtain ⟨hs1, hs2, hs3⟩ := h
    simp only [whereRunsAux, List.mem_singleton, Prod.mk.injEq, List.append_nil]
    constructor
    · rintro ⟨rfl, rfl⟩
      exact ⟨⟨hs1, Nat.le_refl _, hs2, hs3, Or.inl rfl⟩, Nat.le_refl _⟩
    · rintro ⟨⟨h1, h2, h3, h4, _⟩, h6⟩
      have hb : b = pre.length := by omega
      refine ⟨?_, hb⟩
      -- a = s : both are the start of the maximal run ending at pre.length
      by_contra hne
      rcases Nat.lt_or_gt_of_ne hne with hlt | hgt
      · -- a < s : then position s-1 is true (in [a,b)) but ScanOK says false (or s = 0)
        rcases hs3 with h0 | hf
        · omega
        · have := h3 (s - 1) (by omega) (by omega); rw [this] at hf; cases hf
      · rcases h4 with h0 | hf
        · omega
        · have := hs2 (a - 1) (by omega) (by omega); rw [this] at hf; cases hf
  | true :: l, pre, none, h, a, b => by
    have hlen : (pre ++ [true]).length = pre.length + 1 := by simp
    have hok : ScanOK (pre ++ [true]) (some pre.length) := by
      refine ⟨by simp, ?_, ?_⟩
      · intro j hj1 hj2
        have : j = pre.length := by simp at hj2; omega
        subst this; simp
      · rcases h with h | h
        · left; exact h
        · right
          rw [List.getElem?_append_left (by
            by_contra hc; rw [List.getElem?_eq_none (by omega)] at h; cases h)]
          exact h
    have ih := whereRunsAux_spec l (pre ++ [true]) (some pre.length) hok a b
    rw [hlen] at ih
    simp only [whereRunsAux]
    rw [ih]
    have happ : pre ++ [true] ++ l = pre ++ true :: l := by simp
    rw [happ]
    constructor
    · rintro ⟨h1, h2⟩; exact ⟨h1, by omega⟩
    · rintro ⟨h1, h2⟩
      refine ⟨h1, ?_⟩
      -- b ≠ pre.length since position pre.length is true hence inside or before a run end
      by_contra hc
      have hb : b = pre.length := by omega
      obtain ⟨g1, g2, g3, g4, g5⟩ := h1
      rcases g5 with g | g
      · simp at g; omega
      · rw [hb] at g; simp at g
  | true :: l, pre, some s, h, a, b => by
    obtain ⟨hs1, hs2, hs3⟩ := h
    have hlen : (pre ++ [true]).length = pre.length + 1 := by simp
    have hok : ScanOK (pre ++ [true]) (some s) := by
      refine ⟨by simp; omega, ?_, ?_⟩
      · intro j hj1 hj2
        by_cases hj : j < pre.length
        · rw [List.getElem?_append_left hj]; exact hs2 j hj1 hj
        · have : j = pre.length := by simp at hj2; omega
          subst this; simp
      · rcases hs3 with h | h
        · left; exact h
        · right; rw [List.getElem?_append_left (by omega)]; exact h
    have ih := whereRunsAux_spec l (pre ++ [true]) (some s) hok a b
    rw [hlen] at ih
    simp only [whereRunsAux]
    rw [ih]
    have happ : pre ++ [true] ++ l = pre ++ true :: l := by simp
    rw [happ]
    constructor
    · rintro ⟨h1, h2⟩; exact ⟨h1, by omega⟩
    · rintro ⟨h1, h2⟩
      refine ⟨h1, ?_⟩
      by_contra hc
      have hb : b = pre.length := by omega
      obtain ⟨g1, g2, g3, g4, g5⟩ := h1
      rcases g5 with g | g
      · simp at g; omega
      · rw [hb] at g; simp at g
  | false :: l, pre, none, h, a, b => by
    have hlen : (pre ++ [false]).length = pre.length + 1 := by simp
    have hok : ScanOK (pre ++ [false]) none := by
      right; exact getElem?_append_singleton_last pre false
    have ih := whereRunsAux_spec l (pre ++ [false]) none hok a b
    rw [hlen] at ih
    simp only [whereRunsAux]
    rw [ih]
    have happ : pre ++ [false] ++ l = pre ++ false :: l := by simp
    rw [happ]
    constructor
    · rintro ⟨h1, h2⟩; exact ⟨h1, by omega⟩
    · rintro ⟨h1, h2⟩
      refine ⟨h1, ?_⟩
      by_contra hc
      have hb : b = pre.length := by omega
      obtain ⟨g1, g2, g3, g4, g5⟩ := h1
      -- position b-1 is true, but the scan state says it is false (or b = 0)
      rcases h with h | h
      · omega
      · have := g3 (b - 1) (by omega) (by omega)
        rw [hb, List.getElem?_append_left (by omega)] at this
        rw [this] at h; cases h
  | false :: l, pre, some s, h, a, b => by
    obtain ⟨hs1, hs2, hs3⟩ := h
    have hlen : (pre ++ [false]).length = pre.length + 1 := by simp
    have hok : ScanOK (pre ++ [false]) none := by
      right; exact getElem?_append_singleton_last pre false
    have ih := whereRunsAux_spec l (pre ++ [false]) none hok a b
    rw [hlen] at ih
    simp only [whereRunsAux, List.mem_cons, Prod.mk.injEq]
    rw [ih]
    have happ : pre ++ [false] ++ l = pre ++ false :: l := by simp
    rw [happ]
    constructor
    · rintro (⟨rfl, rfl⟩ | ⟨h1, h2⟩)
      · refine ⟨⟨hs1, by simp, ?_, ?_, ?_⟩, Nat.le_refl _⟩
        · intro i hi1 hi2
          rw [List.getElem?_append_left hi2]; exact hs2 i hi1 hi2
        · rcases hs3 with h | h
          · left; exact h
          · right; rw [List.getElem?_append_left (by omega)]; exact h
        · right; simp
      · exact ⟨h1, by omega⟩
    · rintro ⟨h1, h2⟩
      by_cases hb : b = pre.length
      · left
        obtain ⟨g1, g2, g3, g4, g5⟩ := h1
        refine ⟨?_, hb⟩
        by_contra hne
        rcases Nat.lt_or_gt_of_ne hne with hlt | hgt
        · rcases hs3 with h0 | hf
          · omega
          · have := g3 (s - 1) (by omega) (by omega)
            rw [List.getElem?_append_left (by omega)] at this
            rw [this] at hf; cases hf
        · rcases g4 with h0 | hf
          · omega
          · have := hs2 (a - 1) (by omega) (by omega)
            rw [List.getElem?_append_left (by omega)] at hf
            rw [this] at hf; cases hf
      · right; exact ⟨h1, by omega⟩

/-- **`where` returns exactly the maximal runs of `True`** -/
theorem whereRuns_spec (ind : List Bool) (a b : Nat) : (a, b) ∈ whereRuns ind ↔ IsRun ind a b := by
  have := whereRunsAux_spec ind [] none (Or.inl rfl) a b
  simpa [whereRuns] using this

end Skc

namespace Skc

/-- lower bound for the start of every run still to be emitted -/
def runLo (i : Nat) : Option Nat → Nat
  | none => i
  | some s => s

/-- every run emitted from position `i` on starts at or after `runLo i o` and ends after it starts -/
theorem whereRunsAux_bounds : ∀ (l : List Bool) (i : Nat) (o : Option Nat),
    (∀ s, o = some s → s ≤ i) → ∀ r ∈ whereRunsAux l i o, runLo i o ≤ r.1 ∧ r.1 ≤ r.2
  | [], i, none, _, r, h => by simp [whereRunsAux] at h
  | [], i, some s, ho, r, h => by
    simp only [whereRunsAux, List.mem_singleton] at h; subst h
    exact ⟨Nat.le_refl _, ho s rfl⟩
  | true :: l, i, none, _, r, h => by
    have := whereRunsAux_bounds l (i + 1) (some i) (by intro s hs; cases hs; omega) r
      (by simpa [whereRunsAux] using h)
    simpa [runLo] using this
  | true :: l, i, some s, ho, r, h => by
    have hs := ho s rfl
    have := whereRunsAux_bounds l (i + 1) (some s) (by intro s' hs'; cases hs'; omega) r
      (by simpa [whereRunsAux] using h)
    simpa [runLo] using this
  | false :: l, i, some s, ho, r, h => by
    have hs := ho s rfl
    simp only [whereRunsAux, List.mem_cons] at h
    rcases h with rfl | h
    · exact ⟨Nat.le_refl _, hs⟩
    · have := whereRunsAux_bounds l (i + 1) none (by intro s' hs'; cases hs') r h
      simp only [runLo] at this ⊢; omega
  | false :: l, i, none, _, r, h => by
    have := whereRunsAux_bounds l (i + 1) none (by intro s' hs'; cases hs') r
      (by simpa [whereRunsAux] using h)
    simp only [runLo] at this ⊢; omega

/-- runs are emitted in scan order and do not overlap -/
theorem whereRunsAux_pairwise : ∀ (l : List Bool) (i : Nat) (o : Option Nat),
    (∀ s, o = some s → s ≤ i) → (whereRunsAux l i o).Pairwise (fun r r' => r.2 ≤ r'.1)
  | [], i, none, _ => by simp [whereRunsAux]
  | [], i, some s, _ => by simp [whereRunsAux]
  | true :: l, i, none, _ => by
    simpa [whereRunsAux] using
      whereRunsAux_pairwise l (i + 1) (some i) (by intro s hs; cases hs; omega)
  | true :: l, i, some s, ho => by
    have hs := ho s rfl
    simpa [whereRunsAux] using
      whereRunsAux_pairwise l (i + 1) (some s) (by intro s' hs'; cases hs'; omega)
  | false :: l, i, some s, _ => by
    simp only [whereRunsAux]
    refine List.pairwise_cons.2 ⟨?_, whereRunsAux_pairwise l (i + 1) none (by intro s' hs'; cases hs')⟩
    intro r hr
    have := (whereRunsAux_bounds l (i + 1) none (by intro s' hs'; cases hs') r hr).1
    simp only [runLo] at this ⊢; omega
  | false :: l, i, none, _ => by
    simpa [whereRunsAux] using
      whereRunsAux_pairwise l (i + 1) none (by intro s' hs'; cases hs')

/-- `where` returns its runs in increasing order, pairwise disjoint -/
theorem whereRuns_pairwise (ind : List Bool) :
    (whereRuns ind).Pairwise (fun r r' => r.2 ≤ r'.1) :=
  whereRunsAux_pairwise ind 0 none (by intro s hs; cases hs)

end Skc
