import Skc.Model.Det
import Skc.Lemmas.GreedyGen
import Mathlib.Tactic.Linarith

/-! Seeded binary segmentation (C07, C04): per-interval argmax and the lift of the greedy-loop
    theorem to intervals and changepoints. -/
namespace Skc
variable {α : Type} [LinearOrder α]

/-- `argmaxRange f i len b`: the result is `b` or a position of `[i, i+len)`, and holds the maximum
    of `f` over `b` and that range -/
theorem argmaxRange_spec (f : Nat → α) : ∀ (len i b : Nat),
    let r := argmaxRange f i len b
    (r = b ∨ (i ≤ r ∧ r < i + len)) ∧ f b ≤ f r ∧ ∀ t, i ≤ t → t < i + len → f t ≤ f r
  | 0, i, b => by simp [argmaxRange]; intro t h1 h2; omega
  | len + 1, i, b => by
    simp only [argmaxRange]
    by_cases h : f b < f i
    · simp only [h, if_true]
      obtain ⟨h1, h2, h3⟩ := argmaxRange_spec f len (i + 1) i
      refine ⟨?_, le_trans (le_of_lt h) h2, ?_⟩
      · rcases h1 with h1 | h1
        · right; rw [h1]; omega
        · right; omega
      · intro t ht1 ht2
        by_cases hti : t = i
        · subst hti; exact h2
        · exact h3 t (by omega) (by omega)
    · simp only [h, if_false]
      obtain ⟨h1, h2, h3⟩ := argmaxRange_spec f len (i + 1) b
      refine ⟨?_, h2, ?_⟩
      · rcases h1 with h1 | h1
        · left; exact h1
        · right; omega
      · intro t ht1 ht2
        by_cases hti : t = i
        · subst hti; exact le_trans (not_lt.1 h) h2
        · exact h3 t (by omega) (by omega)

variable [Zero α]

/-- **C07, per-interval maximisation**: `amoc` returns the maximum of the change score over the
    splits leaving `m` samples on both sides, together with a split attaining it; it fails exactly
    when there is no such split. -/
theorem amoc_spec (cs : Nat → Nat → Nat → α) (m : Nat) (iv : Nat × Nat) :
    (amoc cs m iv = none ↔ iv.2 < iv.1 + 2 * m) ∧
    ∀ k v, amoc cs m iv = some (k, v) →
      iv.1 + m ≤ k ∧ k + m ≤ iv.2 ∧ v = cs iv.1 k iv.2 ∧
      ∀ t, iv.1 + m ≤ t → t + m ≤ iv.2 → cs iv.1 t iv.2 ≤ v := by
  constructor
  · simp only [amoc]
    split
    · rename_i h; simp; omega
    · rename_i h; simp; omega
  · intro k v h
    simp only [amoc] at h
    split at h
    · cases h
    · rename_i hc
      simp only [Option.some.injEq, Prod.mk.injEq] at h
      obtain ⟨hk, hv⟩ := h
      obtain ⟨h1, h2, h3⟩ := argmaxRange_spec (fun k => cs iv.1 k iv.2) (iv.2 - m + 1 - (iv.1 + m) - 1)
        (iv.1 + m + 1) (iv.1 + m)
      rw [hk] at h1 h2 h3
      refine ⟨by omega, by omega, by rw [← hv, hk], ?_⟩
      intro t ht1 ht2
      rw [← hv, hk]
      by_cases hteq : t = iv.1 + m
      · subst hteq; exact h2
      · exact h3 t (by omega) (by omega)

theorem mapOpt_spec {β γ : Type} (f : β → Option γ) : ∀ (l : List β) (rs : List γ),
    mapOpt f l = some rs → rs.length = l.length ∧
      ∀ (i : Nat) (b : β), l[i]? = some b → ∃ r, rs[i]? = some r ∧ f b = some r
  | [], rs, h => by
    simp only [mapOpt, Option.some.injEq] at h; subst h; simp
  | b :: l, rs, h => by
    simp only [mapOpt] at h
    cases hb : f b with
    | none => simp [hb] at h
    | some c =>
      cases hl : mapOpt f l with
      | none => simp [hb, hl] at h
      | some cs =>
        simp only [hb, hl, Option.some.injEq] at h
        subst h
        obtain ⟨ih1, ih2⟩ := mapOpt_spec f l cs hl
        refine ⟨by simp [ih1], ?_⟩
        intro i b' hi
        cases i with
        | zero =>
          simp only [List.getElem?_cons_zero, Option.some.injEq] at hi
          subst hi
          exact ⟨c, by simp, hb⟩
        | succ i =>
          simp only [List.getElem?_cons_succ] at hi ⊢
          exact ih2 i b' hi

/-- **C07, greedy selection** on (start, end, maximiser) triples whose maximiser lies inside its
    interval, threshold `≥ 0`:
    * every picked interval scores above the threshold;
    * every above-threshold interval contains the maximiser of a picked interval — no
      above-threshold interval is left without a changepoint inside it;
    * a later pick's interval does not contain an earlier pick's changepoint. -/
theorem sbs_greedy_sound (trip : List (Nat × Nat × Nat)) (scores : List α) (thr : α)
    (hthr : 0 ≤ thr)
    (hin : ∀ (i s e c : Nat), trip[i]? = some (s, e, c) → s ≤ c ∧ c < e)
    (hlen : scores.length = trip.length) :
    let idx := greedyGen (killCpt trip) thr trip.length scores
    (∀ i ∈ idx, ∃ v, scores[i]? = some v ∧ thr < v) ∧
    (∀ (j : Nat) (v : α) (s e c : Nat), scores[j]? = some v → thr < v → trip[j]? = some (s, e, c) →
        ∃ i ∈ idx, s ≤ (trip.getD i (0, 0, 0)).2.2 ∧ (trip.getD i (0, 0, 0)).2.2 < e) ∧
    idx.Pairwise (fun i i' => killCpt trip i i' = false) := by
  intro idx
  have hself : ∀ i v, scores[i]? = some v → thr < v → killCpt trip i i = true := by
    intro i v hi _
    have hi' : i < trip.length := by
      have : i < scores.length := by
        by_contra hc
        rw [List.getElem?_eq_none (by omega)] at hi; cases hi
      omega
    have hg : trip[i]? = some (trip[i]) := List.getElem?_eq_getElem hi'
    have := hin i (trip[i]).1 (trip[i]).2.1 (trip[i]).2.2 hg
    simp only [killCpt, List.getD_eq_getElem?_getD, hg, Option.getD_some, decide_eq_true_eq]
    omega
  have hc : countAbove thr scores ≤ trip.length := by
    have := countAbove_le_length thr scores; omega
  obtain ⟨h1, h2, h3⟩ := greedyGen_sound (killCpt trip) thr hthr scores hself trip.length scores
    (fun _ _ h _ => h) hc
  refine ⟨h1, ?_, h3⟩
  intro j v s e c hj hv htj
  obtain ⟨i, hi1, hi2⟩ := h2 j v hj hv
  refine ⟨i, hi1, ?_⟩
  simp only [killCpt, List.getD_eq_getElem?_getD, htj, Option.getD_some, decide_eq_true_eq] at hi2
  simp only [List.getD_eq_getElem?_getD]
  omega

end Skc
