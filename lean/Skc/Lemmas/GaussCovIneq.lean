import Mathlib.Analysis.Matrix.Order
import Mathlib.Analysis.Matrix.PosDef
import Skc.Lemmas.GaussCov

/-! The multivariate Gaussian cost: the optimal-parameter cost never exceeds the cost at a fixed mean and
    covariance, and splitting an interval never increases the optimal-parameter cost (C06).  Both are
    statements about the *definition* from the rows; positive definiteness of the sample covariances is a
    hypothesis because the code raises its documented error otherwise. -/
open Matrix Finset
open scoped MatrixOrder
namespace Skc
variable {p : ℕ}

/-- `log det M ≤ tr M − p` for a positive definite matrix (eigenvalue-wise `log λ ≤ λ − 1`) -/
theorem log_det_le_trace_sub {n : Type*} [Fintype n] [DecidableEq n] (M : Matrix n n ℝ) (hM : M.PosDef) :
    Real.log M.det ≤ M.trace - Fintype.card n := by
  have hH := hM.isHermitian
  rw [hH.det_eq_prod_eigenvalues, hH.trace_eq_sum_eigenvalues]
  simp only [RCLike.ofReal_real_eq_id, id]
  rw [Real.log_prod (fun i _ => (hM.eigenvalues_pos i).ne')]
  calc ∑ i, Real.log (hH.eigenvalues i) ≤ ∑ i, (hH.eigenvalues i - 1) :=
        Finset.sum_le_sum (fun i _ => Real.log_le_sub_one_of_pos (hM.eigenvalues_pos i))
  _ = _ := by simp [Finset.sum_sub_distrib]

/-- `log det B − log det A ≤ tr(A⁻¹ B) − p` for positive definite `A`, `B` -/
theorem log_det_sub_le_trace {n : Type*} [Fintype n] [DecidableEq n] (A B : Matrix n n ℝ)
    (hA : A.PosDef) (hB : B.PosDef) :
    Real.log B.det - Real.log A.det ≤ (A⁻¹ * B).trace - Fintype.card n := by
  obtain ⟨C, hC⟩ := CStarAlgebra.nonneg_iff_eq_star_mul_self.mp hA.inv.posSemidef.nonneg
  have hdetA : 0 < A.det := hA.det_pos
  have hdetB : 0 < B.det := hB.det_pos
  have hdetAi : A⁻¹.det = (A.det)⁻¹ := by
    rw [Matrix.det_nonsing_inv, Ring.inverse_eq_inv']
  have hCC : (star C).det * C.det = (A.det)⁻¹ := by rw [← Matrix.det_mul, ← hC, hdetAi]
  have hCdet : C.det ≠ 0 := by
    intro h; rw [h, mul_zero] at hCC; exact (inv_pos.mpr hdetA).ne hCC
  have hCu : IsUnit C := (Matrix.isUnit_iff_isUnit_det C).mpr (isUnit_iff_ne_zero.mpr hCdet)
  have hM : (C * B * star C).PosDef := (hCu.posDef_star_right_conjugate_iff (x := B)).mpr hB
  have h := log_det_le_trace_sub _ hM
  have hdet : (C * B * star C).det = B.det * (A.det)⁻¹ := by
    rw [Matrix.det_mul, Matrix.det_mul, ← hCC]; ring
  have htr : (C * B * star C).trace = (A⁻¹ * B).trace := by
    rw [Matrix.trace_mul_cycle, hC]
  rw [hdet, htr, Real.log_mul hdetB.ne' (inv_pos.mpr hdetA).ne', Real.log_inv] at h
  linarith

/-- the quadratic forms `Σ_i (x_i − μ)ᵀ P (x_i − μ)` summed over the rows `[s, e)`, written as the code
    computes them (`np.sum(Xc @ P * Xc)`) -/
noncomputable def quadSum (x : ℕ → Fin p → ℝ) (μ : Fin p → ℝ) (P : Matrix (Fin p) (Fin p) ℝ) (s e : ℕ) : ℝ :=
  ∑ i ∈ Ico s e, ∑ k, (∑ j, (x i j - μ j) * P j k) * (x i k - μ k)

/-- multivariate Gaussian cost at a fixed mean `μ` and covariance `Sg`: twice the negative log-likelihood -/
noncomputable def gcovFixed (x : ℕ → Fin p → ℝ) (μ : Fin p → ℝ) (Sg : Matrix (Fin p) (Fin p) ℝ) (s e : ℕ) : ℝ :=
  ((e : ℝ) - s) * p * Real.log (2 * Real.pi) + ((e : ℝ) - s) * Real.log Sg.det + quadSum x μ Sg⁻¹ s e

theorem sum_dev_zero (x : ℕ → Fin p → ℝ) (s e : ℕ) (h : s < e) (j : Fin p) :
    ∑ i ∈ Ico s e, (x i j - meanVec x s e j) = 0 := by
  have hne : ((e : ℝ) - s) ≠ 0 := by
    have : (s : ℝ) < e := by exact_mod_cast h
    linarith
  rw [Finset.sum_sub_distrib, Finset.sum_const, Nat.card_Ico, nsmul_eq_mul, Nat.cast_sub h.le]
  simp only [meanVec]
  field_simp
  ring

theorem sum_prod_dev (x : ℕ → Fin p → ℝ) (μ : Fin p → ℝ) (s e : ℕ) (h : s < e) (j k : Fin p) :
    ∑ i ∈ Ico s e, (x i j - μ j) * (x i k - μ k)
      = ((e : ℝ) - s) * covMat x s e j k
        + ((e : ℝ) - s) * ((meanVec x s e j - μ j) * (meanVec x s e k - μ k)) := by
  have hne : ((e : ℝ) - s) ≠ 0 := by
    have : (s : ℝ) < e := by exact_mod_cast h
    linarith
  have hexp : ∀ i, (x i j - μ j) * (x i k - μ k)
      = (x i j - meanVec x s e j) * (x i k - meanVec x s e k)
        + (meanVec x s e k - μ k) * (x i j - meanVec x s e j)
        + (meanVec x s e j - μ j) * (x i k - meanVec x s e k)
        + (meanVec x s e j - μ j) * (meanVec x s e k - μ k) := by intro i; ring
  simp only [hexp, Finset.sum_add_distrib, ← Finset.mul_sum, sum_dev_zero x s e h, mul_zero, add_zero,
    Finset.sum_const, Nat.card_Ico, nsmul_eq_mul, Nat.cast_sub h.le]
  simp only [covMat]
  field_simp

/-- the sum of the quadratic forms in terms of the sample mean and covariance -/
theorem quadSum_eq (x : ℕ → Fin p → ℝ) (μ : Fin p → ℝ) (P : Matrix (Fin p) (Fin p) ℝ) (s e : ℕ) (h : s < e) :
    quadSum x μ P s e
      = ((e : ℝ) - s) * (P * covMat x s e).trace
        + ((e : ℝ) - s) * ∑ k, (∑ j, (meanVec x s e j - μ j) * P j k) * (meanVec x s e k - μ k) := by
  have hsym : ∀ j k, covMat x s e k j = covMat x s e j k := by
    intro j k; simp only [covMat]; congr 1; apply Finset.sum_congr rfl; intro i _; ring
  have h1 : quadSum x μ P s e = ∑ k, ∑ j, P j k * ∑ i ∈ Ico s e, (x i j - μ j) * (x i k - μ k) := by
    simp only [quadSum, Finset.sum_mul, Finset.mul_sum]
    rw [Finset.sum_comm]
    apply Finset.sum_congr rfl; intro k _
    rw [Finset.sum_comm]
    apply Finset.sum_congr rfl; intro j _
    apply Finset.sum_congr rfl; intro i _
    ring
  rw [h1]
  simp only [sum_prod_dev x μ s e h, Matrix.trace, Matrix.diag, Matrix.mul_apply, Finset.mul_sum,
    Finset.sum_mul, mul_add, Finset.sum_add_distrib]
  congr 1
  · rw [Finset.sum_comm]
    apply Finset.sum_congr rfl; intro j _
    apply Finset.sum_congr rfl; intro k _
    rw [hsym]; ring
  · apply Finset.sum_congr rfl; intro k _
    apply Finset.sum_congr rfl; intro j _
    ring

theorem quad_nonneg (P : Matrix (Fin p) (Fin p) ℝ) (hP : P.PosSemidef) (v : Fin p → ℝ) :
    0 ≤ ∑ k, (∑ j, v j * P j k) * v k := by
  have h := hP.dotProduct_mulVec_nonneg v
  have heq : star v ⬝ᵥ (P *ᵥ v) = ∑ k, (∑ j, v j * P j k) * v k := by
    simp only [dotProduct, mulVec, star_trivial, Finset.mul_sum, Finset.sum_mul]
    rw [Finset.sum_comm]
    apply Finset.sum_congr rfl; intro k _
    apply Finset.sum_congr rfl; intro j _
    ring
  rwa [heq] at h

/-- **optimal ≤ fixed** for the multivariate Gaussian cost -/
theorem gcovCost_le_gcovFixed (x : ℕ → Fin p → ℝ) (μ : Fin p → ℝ) (Sg : Matrix (Fin p) (Fin p) ℝ)
    (s e : ℕ) (h : s < e) (hSg : Sg.PosDef) (hS : (covMat x s e).PosDef) :
    gcovCost x s e ≤ gcovFixed x μ Sg s e := by
  have hn : (0 : ℝ) < (e : ℝ) - s := by
    have : (s : ℝ) < e := by exact_mod_cast h
    linarith
  have h1 := log_det_sub_le_trace Sg (covMat x s e) hSg hS
  have h2 := quad_nonneg Sg⁻¹ hSg.inv.posSemidef (fun j => meanVec x s e j - μ j)
  simp only [Fintype.card_fin] at h1
  simp only [gcovCost, gcovFixed, quadSum_eq x μ Sg⁻¹ s e h]
  have h3 := mul_le_mul_of_nonneg_left h1 hn.le
  have h4 := mul_nonneg hn.le h2
  nlinarith [h3, h4]

/-- the fixed-parameter cost is additive over adjacent intervals -/
theorem gcovFixed_add (x : ℕ → Fin p → ℝ) (μ : Fin p → ℝ) (Sg : Matrix (Fin p) (Fin p) ℝ)
    (s k e : ℕ) (h1 : s ≤ k) (h2 : k ≤ e) :
    gcovFixed x μ Sg s k + gcovFixed x μ Sg k e = gcovFixed x μ Sg s e := by
  simp only [gcovFixed, quadSum]
  rw [← Finset.sum_Ico_consecutive _ h1 h2]
  ring

/-- the fixed-parameter cost at the sample mean and covariance is the optimal-parameter cost -/
theorem gcovFixed_at_mle (x : ℕ → Fin p → ℝ) (s e : ℕ) (h : s < e) (hS : (covMat x s e).PosDef) :
    gcovFixed x (meanVec x s e) (covMat x s e) s e = gcovCost x s e := by
  have hu : IsUnit (covMat x s e).det := isUnit_iff_ne_zero.mpr hS.det_pos.ne'
  simp only [gcovFixed, gcovCost, quadSum_eq x _ _ s e h, Matrix.nonsing_inv_mul _ hu, Matrix.trace_one,
    Fintype.card_fin, sub_self, zero_mul, Finset.sum_const_zero, mul_zero, add_zero]

/-- **splitting never increases the optimal-parameter cost** (multivariate Gaussian) -/
theorem gcovCost_split_le (x : ℕ → Fin p → ℝ) (s k e : ℕ) (h1 : s < k) (h2 : k < e)
    (hS : (covMat x s e).PosDef) (hS1 : (covMat x s k).PosDef) (hS2 : (covMat x k e).PosDef) :
    gcovCost x s k + gcovCost x k e ≤ gcovCost x s e := by
  rw [← gcovFixed_at_mle x s e (by omega) hS, ← gcovFixed_add x _ _ s k e h1.le h2.le]
  exact add_le_add (gcovCost_le_gcovFixed x _ _ s k h1 hS hS1) (gcovCost_le_gcovFixed x _ _ k e h2 hS hS2)

theorem gcovChange_nonneg (x : ℕ → Fin p → ℝ) (s k e : ℕ) (h1 : s < k) (h2 : k < e)
    (hS : (covMat x s e).PosDef) (hS1 : (covMat x s k).PosDef) (hS2 : (covMat x k e).PosDef) :
    0 ≤ gcovChange x s k e := by
  have := gcovCost_split_le x s k e h1 h2 hS hS1 hS2
  simp only [gcovChange]; linarith

end Skc
