import Skc.Model.Capa
import Skc.Lemmas.Argmin
import Skc.Lemmas.ListAux
import Skc.Spec.Anomalies
import Mathlib.Algebra.Order.Group.Defs
import Mathlib.Order.Basic
import Mathlib.Tactic.Linarith

/-! The invariant of the CAPA main loop (`run_base_capa`) and its preservation (C03). -/
namespace Skc
set_option linter.unusedSectionVars false
variable {α : Type} [AddCommGroup α] [LinearOrder α] [IsOrderedAddMonoid α]

/-! ### invariant -/

/-- evidence, fixed at decision time `e0`, that start `s` can be dropped for every end `≥ e0 + m` -/
def GoodC (PS : Nat → Nat → α) (K : α) (m : Nat) (opt : Nat → α) (s e0 : Nat) : Prop :=
  s + m ≤ e0 ∧ opt s + PS s e0 + K ≤ opt e0

structure CInv (PS : Nat → Nat → α) (PP : Nat → α) (K : α) (m M delay t : Nat) (st : CapaSt α) : Prop where
  opt0 : st.opt 0 = 0
  starts_adm : ∀ s ∈ st.starts, s + m ≤ t ∧ t + 1 ≤ s + M
  cover : ∀ s, s + m ≤ t → t + 1 ≤ s + M →
      s ∈ st.starts ∨ ∃ e0, GoodC PS K m st.opt s e0 ∧ e0 + m ≤ t + 1 ∧ e0 ≤ t
  pend : ∀ i P, st.pending.reverse[i]? = some P → ∀ s ∈ P, i + 1 ≤ t ∧ GoodC PS K m st.opt s (t - i)
  pend_len : st.pending.length ≤ delay
  mono : ∀ e, e < t → st.opt e ≤ st.opt (e + 1)
  bpoint : ∀ e, e < t → st.opt e + PP e ≤ st.opt (e + 1)
  bcoll : ∀ e, e ≤ t → ∀ s, AdmC m M s e → st.opt s + PS s e ≤ st.opt e
  beq : ∀ e, e < t →
      (st.astart e = none ∧ st.opt (e + 1) = st.opt e) ∨
      (st.astart e = some e ∧ st.opt (e + 1) = st.opt e + PP e) ∨
      (∃ s, st.astart e = some s ∧ AdmC m M s (e + 1) ∧ st.opt (e + 1) = st.opt s + PS s (e + 1))
  /-- an anomaly is only recorded when it strictly improves on "no anomaly" (ties go to none) -/
  strict : ∀ e, e < t → st.astart e ≠ none → st.opt e < st.opt (e + 1)

theorem cinv_init (PS : Nat → Nat → α) (PP : Nat → α) (K : α) (m M delay : Nat) (hm : 1 ≤ m) :
    CInv PS PP K m M delay 0 (capaInit : CapaSt α) := by
  refine ⟨rfl, ?_, ?_, ?_, ?_, ?_, ?_, ?_, ?_, ?_⟩
  · intro s hs; simp [capaInit] at hs
  · intro s h; omega
  · intro i P h; simp [capaInit] at h
  · simp [capaInit]
  · intro e h; omega
  · intro e h; omega
  · intro e he s hs
    obtain ⟨h1, _⟩ := hs
    omega
  · intro e h; omega
  · intro e h; omega

theorem goodC_mono (PS : Nat → Nat → α) (K : α) (m : Nat) (opt opt' : Nat → α) (s e0 E : Nat)
    (hm : 1 ≤ m) (hE : e0 < E) (hfr : ∀ j, j < E → opt' j = opt j) (h : GoodC PS K m opt s e0) :
    GoodC PS K m opt' s e0 := by
  obtain ⟨ha, hlt⟩ := h
  refine ⟨ha, ?_⟩
  rw [hfr e0 hE, hfr s (by omega)]
  exact hlt

/-- domination: every admissible collective start for the new end `e = t+1` is weakly beaten by an
    active start. -/
theorem ccover_ge (PS : Nat → Nat → α) (PP : Nat → α) (K : α) (m M delay t n : Nat) (st : CapaSt α)
    (hm : 1 ≤ m) (htn : t + 1 ≤ n)
    (H : ∀ s e0 T, s + m ≤ e0 → e0 + m ≤ T → T ≤ s + M → T ≤ n → PS s T ≤ PS s e0 + PS e0 T + K)
    (inv : CInv PS PP K m M delay t st) :
    ∀ d s, (t + 1) - s ≤ d → AdmC m M s (t + 1) →
      ∃ s' ∈ (if m ≤ t + 1 then st.starts ++ [t + 1 - m] else st.starts),
        st.opt s + PS s (t + 1) ≤ st.opt s' + PS s' (t + 1) := by
  intro d
  induction d with
  | zero =>
    intro s hd hs
    obtain ⟨h1, _⟩ := hs
    omega
  | succ d ih =>
    intro s hd hs
    obtain ⟨h1, h2⟩ := hs
    have hme : m ≤ t + 1 := by omega
    simp only [hme, if_true]
    by_cases hnew : s + m = t + 1
    · refine ⟨s, ?_, le_refl _⟩
      have : s = t + 1 - m := by omega
      simp [← this]
    · rcases inv.cover s (by omega) h2 with hmem | ⟨e0, ⟨hse0, hlt⟩, he0m, he0t⟩
      · exact ⟨s, by simp [hmem], le_refl _⟩
      · have hadm0 : AdmC m M e0 (t + 1) := ⟨he0m, by omega⟩
        obtain ⟨s', hs'mem, hs'le⟩ := ih e0 (by omega) hadm0
        simp only [hme, if_true] at hs'mem
        refine ⟨s', hs'mem, le_trans ?_ hs'le⟩
        have hH := H s e0 (t + 1) hse0 he0m h2 htn
        have := hlt
        grind

end Skc

namespace Skc
set_option linter.unusedSectionVars false
variable {α : Type} [AddCommGroup α] [LinearOrder α] [IsOrderedAddMonoid α]

theorem cinv_step (pick : (Nat → α) → List Nat → Nat) (pr : α → α → Bool)
    (hpick_mem : ∀ (f : Nat → α) (l : List Nat), l ≠ [] → pick f l ∈ l)
    (hpick_ge : ∀ (f : Nat → α) (l : List Nat), ∀ x ∈ l, f x ≤ f (pick f l))
    (hpr : ∀ x v, pr x v = true → x ≤ v)
    (PS : Nat → Nat → α) (PP : Nat → α) (K : α) (m M delay t n : Nat) (st : CapaSt α)
    (hm : 1 ≤ m) (hmM : m ≤ M) (hd : m ≤ delay + 1) (htn : t + 1 ≤ n)
    (H : ∀ s e0 T, s + m ≤ e0 → e0 + m ≤ T → T ≤ s + M → T ≤ n → PS s T ≤ PS s e0 + PS e0 T + K)
    (inv : CInv PS PP K m M delay t st) :
    CInv PS PP K m M delay (t + 1) (capaStep pick pr PS PP K m M delay st t) := by
  set e := t + 1 with he
  set starts := (if m ≤ e then st.starts ++ [e - m] else st.starts) with hstarts
  set cand : Nat → α := fun s => st.opt s + PS s e with hcand
  set best := pick cand starts with hbest
  set vNone := st.opt t with hvNone
  set vPoint := st.opt t + PP t with hvPoint
  set collWins : Prop := starts ≠ [] ∧ vNone < cand best ∧ ¬ (cand best < vPoint) with hcollWins
  set v := (if collWins then cand best else if vNone < vPoint then vPoint else vNone) with hv
  set a : Option Nat := (if collWins then some best else if vNone < vPoint then some t else none) with ha
  set prune := starts.filter (fun s => pr (cand s + K) v) with hprune
  set pending := st.pending ++ [prune] with hpending
  set now := (if pending.length > delay then pending.headD [] else []) with hnow
  set pending' := (if pending.length > delay then pending.tail else pending) with hpending'
  have hst : capaStep pick pr PS PP K m M delay st t =
      { opt := upd st.opt e v, astart := upd st.astart t a,
        starts := (starts.filter (fun s => ¬ now.contains s)).filter (fun s => ¬ (s + M ≤ e)),
        pending := pending' } := rfl
  rw [hst]
  -- facts about the chosen value
  have hV1 : vNone ≤ v := by
    simp only [hv]; split
    · rename_i h; exact le_of_lt h.2.1
    · split
      · rename_i h; exact le_of_lt h
      · exact le_refl _
  have hV2 : vPoint ≤ v := by
    simp only [hv]; split
    · rename_i h; exact not_lt.1 h.2.2
    · split
      · exact le_refl _
      · rename_i h; exact not_lt.1 h
  have hbest_ge : ∀ x ∈ starts, cand x ≤ cand best := hpick_ge cand starts
  have hV3 : ∀ s ∈ starts, cand s ≤ v := by
    intro s hs
    have hne : starts ≠ [] := List.ne_nil_of_mem hs
    have h1 := hbest_ge s hs
    by_cases hc : collWins
    · simp only [hv, hc, if_true]; exact h1
    · have : ¬ (vNone < cand best) ∨ cand best < vPoint := by
        by_contra hcon
        push Not at hcon
        exact hc ⟨hne, hcon.1, not_lt.2 hcon.2⟩
      rcases this with h | h
      · exact le_trans h1 (le_trans (not_lt.1 h) hV1)
      · exact le_trans h1 (le_trans (le_of_lt h) hV2)
  have hstarts_adm : ∀ s ∈ starts, s + m ≤ e ∧ e ≤ s + M := by
    intro s hs
    by_cases hme : m ≤ e
    · simp only [hstarts, hme, if_true] at hs
      rcases List.mem_append.1 hs with h | h
      · have := inv.starts_adm s h; omega
      · simp at h; subst h; omega
    · simp only [hstarts, hme, if_false] at hs
      have := inv.starts_adm s hs; omega
  have hfrozen : ∀ j, j < e → upd st.opt e v j = st.opt j := by
    intro j hj; simp [upd]; omega
  have hopt_e : upd st.opt e v e = v := by simp [upd]
  have hcoll_le : ∀ s, AdmC m M s e → cand s ≤ v := by
    intro s hs
    obtain ⟨s', hs'mem, hs'le⟩ := ccover_ge PS PP K m M delay t n st hm htn H inv (e - s) s (le_refl _) hs
    exact le_trans hs'le (hV3 s' hs'mem)
  have hprune_good : ∀ s ∈ prune, GoodC PS K m (upd st.opt e v) s e := by
    intro s hs
    obtain ⟨hs1, hs2⟩ := List.mem_filter.1 hs
    have hadm := hstarts_adm s hs1
    refine ⟨hadm.1, ?_⟩
    rw [hopt_e, hfrozen s (by omega)]
    exact hpr _ _ hs2
  refine ⟨?_, ?_, ?_, ?_, ?_, ?_, ?_, ?_, ?_, ?_⟩ <;> dsimp only
  · rw [hfrozen 0 (by omega)]; exact inv.opt0
  · -- starts_adm
    intro s hs
    obtain ⟨hs1, hs2⟩ := List.mem_filter.1 hs
    have := hstarts_adm s (List.mem_filter.1 hs1).1
    have h2 : ¬ (s + M ≤ e) := by simpa using hs2
    omega
  · -- cover
    intro s h1 h2
    have hadm : AdmC m M s e := ⟨h1, by omega⟩
    by_cases hin : s ∈ starts
    · by_cases hnw : s ∈ now
      · right
        have hlen : pending.length > delay := by
          by_contra hc; simp [hnow, hc] at hnw
        simp only [hnow, hlen, if_true] at hnw
        cases hsp : st.pending with
        | nil =>
          have hpn : pending = [prune] := by simp [hpending, hsp]
          rw [hpn] at hnw hlen
          simp at hnw hlen
          exact ⟨e, hprune_good s hnw, by omega, by omega⟩
        | cons P rest =>
          have hpn : pending = P :: (rest ++ [prune]) := by simp [hpending, hsp]
          rw [hpn] at hnw hlen
          simp at hnw hlen
          have hlen' := inv.pend_len
          rw [hsp] at hlen'
          simp at hlen'
          have hidx : st.pending.reverse[rest.length]? = some P := by
            rw [hsp, List.reverse_cons, List.getElem?_append_right (by simp)]
            simp
          obtain ⟨hik, hg⟩ := inv.pend rest.length P hidx s hnw
          refine ⟨t - rest.length, goodC_mono PS K m st.opt _ s _ e hm (by omega) hfrozen hg, by omega, by omega⟩
      · left
        refine List.mem_filter.2 ⟨List.mem_filter.2 ⟨hin, by simpa using hnw⟩, ?_⟩
        have : ¬ (s + M ≤ e) := by omega
        simpa using this
    · right
      have hne' : s + m ≠ e := by
        intro h; apply hin
        have hme : m ≤ e := by omega
        have : s = e - m := by omega
        simp only [hstarts, hme, if_true]
        simp [← this]
      rcases inv.cover s (by omega) (by omega) with hmem | ⟨e0, hg, he0m, he0t⟩
      · exfalso; apply hin
        simp only [hstarts]; split <;> simp [hmem]
      · exact ⟨e0, goodC_mono PS K m st.opt _ s e0 e hm (by omega) hfrozen hg, by omega, by omega⟩
  · -- pend
    intro i P' hi s hs
    have hi' : pending.reverse[i]? = some P' := by
      by_cases hlen : pending.length > delay
      · simp only [hpending', hlen, if_true] at hi
        exact tail_reverse_getElem? _ _ _ hi
      · simp only [hpending', hlen, if_false] at hi
        exact hi
    rw [hpending, List.reverse_append] at hi'
    cases i with
    | zero =>
      simp at hi'
      subst hi'
      refine ⟨by omega, ?_⟩
      have : t + 1 - 0 = e := by omega
      rw [this]; exact hprune_good s hs
    | succ j =>
      simp at hi'
      obtain ⟨hjk, hg⟩ := inv.pend j P' hi' s hs
      refine ⟨by omega, ?_⟩
      have : t + 1 - (j + 1) = t - j := by omega
      rw [this]
      exact goodC_mono PS K m st.opt _ s _ e hm (by omega) hfrozen hg
  · -- pend_len
    have := inv.pend_len
    by_cases hlen : pending.length > delay
    · simp only [hpending', hlen, if_true, List.length_tail]
      simp [hpending]; exact this
    · simp only [hpending', hlen, if_false]; omega
  · -- mono
    intro e' he'
    by_cases hee : e' = t
    · subst hee
      rw [hopt_e, hfrozen _ (by omega)]; exact hV1
    · rw [hfrozen _ (by omega), hfrozen _ (by omega)]; exact inv.mono e' (by omega)
  · -- bpoint
    intro e' he'
    by_cases hee : e' = t
    · subst hee
      rw [hopt_e, hfrozen _ (by omega)]; exact hV2
    · rw [hfrozen _ (by omega), hfrozen _ (by omega)]; exact inv.bpoint e' (by omega)
  · -- bcoll
    intro e' he' s hs
    have hsl : s < e' := by obtain ⟨h1, _⟩ := hs; omega
    by_cases hee : e' = e
    · subst hee
      rw [hopt_e, hfrozen s hsl]
      exact hcoll_le s hs
    · rw [hfrozen e' (by omega), hfrozen s (by omega)]
      exact inv.bcoll e' (by omega) s hs
  · -- beq
    intro e' he'
    by_cases hee : e' = t
    · subst hee
      have hat : upd st.astart e' a e' = a := by simp [upd]
      rw [hat, hopt_e, hfrozen e' (by omega)]
      by_cases hc : collWins
      · right; right
        have hbm : best ∈ starts := hpick_mem cand starts hc.1
        have hb := hstarts_adm best hbm
        refine ⟨best, by simp [ha, hc], hb, ?_⟩
        rw [hfrozen best (by omega)]
        simp only [hv, hc, if_true, hcand]
        rfl
      · by_cases hp : vNone < vPoint
        · right; left
          refine ⟨by simp [ha, hc, hp], ?_⟩
          simp only [hv, hc, if_false, hp, if_true]
          rfl
        · left
          refine ⟨by simp [ha, hc, hp], ?_⟩
          simp only [hv, hc, if_false, hp]
          rfl
    · have hne : e' ≠ t := hee
      have hat : upd st.astart t a e' = st.astart e' := by simp [upd, hne]
      rw [hat, hfrozen (e' + 1) (by omega), hfrozen e' (by omega)]
      rcases inv.beq e' (by omega) with h | h | ⟨s, h1, h2, h3⟩
      · left; exact h
      · right; left; exact h
      · right; right
        refine ⟨s, h1, h2, ?_⟩
        have : s < e' + 1 := by obtain ⟨h4, _⟩ := h2; omega
        rw [hfrozen s (by omega)]; exact h3

  · -- strict
    intro e' he' hne'
    by_cases hee : e' = t
    · subst hee
      have hat : upd st.astart e' a e' = a := by simp [upd]
      rw [hat] at hne'
      rw [hopt_e, hfrozen e' (by omega)]
      by_cases hc : collWins
      · simp only [hv, hc, if_true]; exact hc.2.1
      · by_cases hp : vNone < vPoint
        · simp only [hv, hc, if_false, hp, if_true]; exact hp
        · exact absurd (by simp [ha, hc, hp]) hne'
    · have hne : e' ≠ t := hee
      have hat : upd st.astart t a e' = st.astart e' := by simp [upd, hne]
      rw [hat] at hne'
      rw [hfrozen (e' + 1) (by omega), hfrozen e' (by omega)]
      exact inv.strict e' (by omega) hne'

end Skc
