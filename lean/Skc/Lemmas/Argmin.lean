import Skc.Model.Basic
import Mathlib.Order.Basic
import Mathlib.Order.Defs.LinearOrder

/-! Facts about the selection primitives: the value returned is a member and optimal. -/
namespace Skc
variable {α : Type} [LinearOrder α]

/-! ### argmin (first minimiser) -/
theorem argminFrom_mem (f : Nat → α) (l : List Nat) (b : Nat) :
    argminFrom f l b = b ∨ argminFrom f l b ∈ l := by
  induction l generalizing b with
  | nil => simp [argminFrom]
  | cons s l ih =>
    simp only [argminFrom]
    split
    · rcases ih s with h | h <;> simp [h]
    · rcases ih b with h | h <;> simp [h]

theorem argminFrom_le (f : Nat → α) (l : List Nat) (b : Nat) :
    f (argminFrom f l b) ≤ f b ∧ ∀ x ∈ l, f (argminFrom f l b) ≤ f x := by
  induction l generalizing b with
  | nil => simp [argminFrom]
  | cons s l ih =>
    simp only [argminFrom]
    split
    · rename_i h
      obtain ⟨h1, h2⟩ := ih s
      refine ⟨le_trans h1 (le_of_lt h), ?_⟩
      intro x hx
      rcases List.mem_cons.1 hx with rfl | hx
      · exact h1
      · exact h2 x hx
    · rename_i h
      obtain ⟨h1, h2⟩ := ih b
      refine ⟨h1, ?_⟩
      intro x hx
      rcases List.mem_cons.1 hx with rfl | hx
      · exact le_trans h1 (not_lt.1 h)
      · exact h2 x hx

theorem argminL_mem (f : Nat → α) (l : List Nat) (h : l ≠ []) : argminL f l ∈ l := by
  cases l with
  | nil => exact absurd rfl h
  | cons s l =>
    simp only [argminL]
    rcases argminFrom_mem f l s with h | h <;> simp [h]

theorem argminL_le (f : Nat → α) (l : List Nat) : ∀ x ∈ l, f (argminL f l) ≤ f x := by
  cases l with
  | nil => simp
  | cons s l =>
    intro x hx
    simp only [argminL]
    obtain ⟨h1, h2⟩ := argminFrom_le f l s
    rcases List.mem_cons.1 hx with rfl | hx
    · exact h1
    · exact h2 x hx

/-! ### argmin (last minimiser) -/
theorem argminLastFrom_mem (f : Nat → α) (l : List Nat) (b : Nat) :
    argminLastFrom f l b = b ∨ argminLastFrom f l b ∈ l := by
  induction l generalizing b with
  | nil => simp [argminLastFrom]
  | cons s l ih =>
    simp only [argminLastFrom]
    split
    · rcases ih b with h | h <;> simp [h]
    · rcases ih s with h | h <;> simp [h]

theorem argminLastFrom_le (f : Nat → α) (l : List Nat) (b : Nat) :
    f (argminLastFrom f l b) ≤ f b ∧ ∀ x ∈ l, f (argminLastFrom f l b) ≤ f x := by
  induction l generalizing b with
  | nil => simp [argminLastFrom]
  | cons s l ih =>
    simp only [argminLastFrom]
    split
    · rename_i h
      obtain ⟨h1, h2⟩ := ih b
      refine ⟨h1, ?_⟩
      intro x hx
      rcases List.mem_cons.1 hx with rfl | hx
      · exact le_trans h1 (le_of_lt h)
      · exact h2 x hx
    · rename_i h
      obtain ⟨h1, h2⟩ := ih s
      refine ⟨le_trans h1 (not_lt.1 h), ?_⟩
      intro x hx
      rcases List.mem_cons.1 hx with rfl | hx
      · exact h1
      · exact h2 x hx

theorem argminLast_mem (f : Nat → α) (l : List Nat) (h : l ≠ []) : argminLast f l ∈ l := by
  cases l with
  | nil => exact absurd rfl h
  | cons s l =>
    simp only [argminLast]
    rcases argminLastFrom_mem f l s with h | h <;> simp [h]

theorem argminLast_le (f : Nat → α) (l : List Nat) : ∀ x ∈ l, f (argminLast f l) ≤ f x := by
  cases l with
  | nil => simp
  | cons s l =>
    intro x hx
    simp only [argminLast]
    obtain ⟨h1, h2⟩ := argminLastFrom_le f l s
    rcases List.mem_cons.1 hx with rfl | hx
    · exact h1
    · exact h2 x hx

/-! ### argmax (first maximiser) -/
theorem argmaxFrom_mem (f : Nat → α) (l : List Nat) (b : Nat) :
    argmaxFrom f l b = b ∨ argmaxFrom f l b ∈ l := by
  induction l generalizing b with
  | nil => simp [argmaxFrom]
  | cons s l ih =>
    simp only [argmaxFrom]
    split
    · rcases ih s with h | h <;> simp [h]
    · rcases ih b with h | h <;> simp [h]

theorem argmaxFrom_ge (f : Nat → α) (l : List Nat) (b : Nat) :
    f b ≤ f (argmaxFrom f l b) ∧ ∀ x ∈ l, f x ≤ f (argmaxFrom f l b) := by
  induction l generalizing b with
  | nil => simp [argmaxFrom]
  | cons s l ih =>
    simp only [argmaxFrom]
    split
    · rename_i h
      obtain ⟨h1, h2⟩ := ih s
      refine ⟨le_trans (le_of_lt h) h1, ?_⟩
      intro x hx
      rcases List.mem_cons.1 hx with rfl | hx
      · exact h1
      · exact h2 x hx
    · rename_i h
      obtain ⟨h1, h2⟩ := ih b
      refine ⟨h1, ?_⟩
      intro x hx
      rcases List.mem_cons.1 hx with rfl | hx
      · exact le_trans (not_lt.1 h) h1
      · exact h2 x hx

theorem argmaxL_mem (f : Nat → α) (l : List Nat) (h : l ≠ []) : argmaxL f l ∈ l := by
  cases l with
  | nil => exact absurd rfl h
  | cons s l =>
    simp only [argmaxL]
    rcases argmaxFrom_mem f l s with h | h <;> simp [h]

theorem argmaxL_ge (f : Nat → α) (l : List Nat) : ∀ x ∈ l, f x ≤ f (argmaxL f l) := by
  cases l with
  | nil => simp
  | cons s l =>
    intro x hx
    simp only [argmaxL]
    obtain ⟨h1, h2⟩ := argmaxFrom_ge f l s
    rcases List.mem_cons.1 hx with rfl | hx
    · exact h1
    · exact h2 x hx

/-! ### argmax (last maximiser) -/
theorem argmaxLastFrom_mem (f : Nat → α) (l : List Nat) (b : Nat) :
    argmaxLastFrom f l b = b ∨ argmaxLastFrom f l b ∈ l := by
  induction l generalizing b with
  | nil => simp [argmaxLastFrom]
  | cons s l ih =>
    simp only [argmaxLastFrom]
    split
    · rcases ih b with h | h <;> simp [h]
    · rcases ih s with h | h <;> simp [h]

theorem argmaxLastFrom_ge (f : Nat → α) (l : List Nat) (b : Nat) :
    f b ≤ f (argmaxLastFrom f l b) ∧ ∀ x ∈ l, f x ≤ f (argmaxLastFrom f l b) := by
  induction l generalizing b with
  | nil => simp [argmaxLastFrom]
  | cons s l ih =>
    simp only [argmaxLastFrom]
    split
    · rename_i h
      obtain ⟨h1, h2⟩ := ih b
      refine ⟨h1, ?_⟩
      intro x hx
      rcases List.mem_cons.1 hx with rfl | hx
      · exact le_trans (le_of_lt h) h1
      · exact h2 x hx
    · rename_i h
      obtain ⟨h1, h2⟩ := ih s
      refine ⟨le_trans (not_lt.1 h) h1, ?_⟩
      intro x hx
      rcases List.mem_cons.1 hx with rfl | hx
      · exact h1
      · exact h2 x hx

theorem argmaxLast_mem (f : Nat → α) (l : List Nat) (h : l ≠ []) : argmaxLast f l ∈ l := by
  cases l with
  | nil => exact absurd rfl h
  | cons s l =>
    simp only [argmaxLast]
    rcases argmaxLastFrom_mem f l s with h | h <;> simp [h]

theorem argmaxLast_ge (f : Nat → α) (l : List Nat) : ∀ x ∈ l, f x ≤ f (argmaxLast f l) := by
  cases l with
  | nil => simp
  | cons s l =>
    intro x hx
    simp only [argmaxLast]
    obtain ⟨h1, h2⟩ := argmaxLastFrom_ge f l s
    rcases List.mem_cons.1 hx with rfl | hx
    · exact h1
    · exact h2 x hx

end Skc
