import Mathlib.Analysis.SpecialFunctions.Log.Basic
import Mathlib.Analysis.SpecialFunctions.Pow.Real
import Mathlib.Tactic.Linarith
import Mathlib.Tactic.Positivity
import Mathlib.Tactic.FieldSimp
import Mathlib.Tactic.Ring

/-! Justification of the repair of finding #27 (`make_seeded_intervals`): when the geometric length grid has
    at least `(2·max+1)·log(max/min)` steps, all its steps are below 1/2, so every integer length between
    `min` and `max` lies strictly within 1/2 of a grid point — whatever the rounding mode, the rounded and
    de-duplicated grid is the set of all integer lengths, which is what the repaired code returns directly. -/

namespace Skc

/-- discrete intermediate values: a real sequence from the integer `a` to the integer `b` whose steps are
    below 1/2 comes within 1/2 of every integer in between (strictly: no rounding ties) -/
theorem fine_grid_hits_every_integer (x : ℕ → ℝ) (N : ℕ) (a b : ℤ) (h0 : x 0 = a) (hN : x N = b)
    (hgap : ∀ k, k < N → x (k + 1) - x k < 1 / 2) (m : ℤ) (ha : a ≤ m) (hb : m ≤ b) :
    ∃ k, k ≤ N ∧ |x k - m| < 1 / 2 := by
  -- the first index whose value exceeds m - 1/2
  have hex : ∃ k, k ≤ N ∧ (m : ℝ) - 1 / 2 < x k := ⟨N, le_refl _, by rw [hN]; have : (m : ℝ) ≤ b := by exact_mod_cast hb
                                                                     linarith⟩
  classical
  let k := Nat.find hex
  have hk : k ≤ N ∧ (m : ℝ) - 1 / 2 < x k := Nat.find_spec hex
  refine ⟨k, hk.1, ?_⟩
  rw [abs_lt]
  refine ⟨by linarith [hk.2], ?_⟩
  rcases Nat.eq_zero_or_pos k with h | h
  · rw [h, h0]
    have : (a : ℝ) ≤ m := by exact_mod_cast ha
    linarith
  · have hprev : ¬ (k - 1 ≤ N ∧ (m : ℝ) - 1 / 2 < x (k - 1)) := Nat.find_min hex (by omega)
    have hle : x (k - 1) ≤ (m : ℝ) - 1 / 2 := by
      by_contra hc
      exact hprev ⟨by omega, lt_of_not_ge hc⟩
    have := hgap (k - 1) (by omega)
    have e : k - 1 + 1 = k := by omega
    rw [e] at this
    linarith

open Real in
/-- the geometric grid from `a` to `b` with `N` steps, `N ≥ (2b+1) log(b/a)`, has all steps below 1/2 -/
theorem geom_grid_steps_lt_half (a b N : ℕ) (ha : 0 < a) (hab : a < b)
    (hN : (2 * (b : ℝ) + 1) * Real.log ((b : ℝ) / a) ≤ N) (k : ℕ) (hk : k < N) :
    (a : ℝ) * Real.exp (Real.log ((b : ℝ) / a) / N) ^ (k + 1) - (a : ℝ) * Real.exp (Real.log ((b : ℝ) / a) / N) ^ k < 1 / 2 := by
  have ha' : (0 : ℝ) < a := by exact_mod_cast ha
  have hb' : (0 : ℝ) < b := by exact_mod_cast (lt_trans ha hab)
  have hab' : (a : ℝ) < b := by exact_mod_cast hab
  have hL : 0 < Real.log ((b : ℝ) / a) := Real.log_pos (by rw [lt_div_iff₀ ha']; linarith)
  have hNpos : (0 : ℝ) < N := by
    have : (0 : ℝ) < (2 * (b : ℝ) + 1) * Real.log ((b : ℝ) / a) := by positivity
    linarith
  set L := Real.log ((b : ℝ) / a) with hLdef
  set y := L / N with hy
  have hy0 : 0 < y := by positivity
  have hy1 : y ≤ 1 / (2 * (b : ℝ) + 1) := by
    rw [hy, div_le_div_iff₀ hNpos (by positivity)]
    linarith
  have hylt : y < 1 := by
    have : 1 / (2 * (b : ℝ) + 1) < 1 := by
      rw [div_lt_one (by positivity)]; linarith
    linarith
  have hexp : Real.exp y < 1 / (1 - y) := Real.exp_bound_div_one_sub_of_interval' hy0 hylt
  -- exp y - 1 < 1 / (2 b)
  have h1y : 0 < 1 - y := by linarith
  have hr : Real.exp y - 1 < 1 / (2 * (b : ℝ)) := by
    have h2 : 1 / (1 - y) - 1 = y / (1 - y) := by field_simp; ring
    have h3 : y / (1 - y) ≤ 1 / (2 * (b : ℝ)) := by
      rw [div_le_div_iff₀ h1y (by positivity)]
      have : y * (2 * (b : ℝ) + 1) ≤ 1 := by
        have := mul_le_mul_of_nonneg_right hy1 (by positivity : (0 : ℝ) ≤ 2 * (b : ℝ) + 1)
        rw [div_mul_cancel₀ _ (by positivity : (2 * (b : ℝ) + 1) ≠ 0)] at this
        exact this
      nlinarith
    linarith
  -- a r^k ≤ b
  have hr1 : 1 ≤ Real.exp y := Real.one_le_exp hy0.le
  have hpow : (a : ℝ) * Real.exp y ^ k ≤ b := by
    have h4 : Real.exp y ^ k ≤ Real.exp y ^ N := pow_le_pow_right₀ hr1 hk.le
    have h5 : (a : ℝ) * Real.exp y ^ N = b := by
      rw [← Real.exp_nat_mul, hy, mul_div_cancel₀ _ hNpos.ne', hLdef, Real.exp_log (by positivity)]
      field_simp
    calc (a : ℝ) * Real.exp y ^ k ≤ a * Real.exp y ^ N := by
          exact mul_le_mul_of_nonneg_left h4 ha'.le
      _ = b := h5
  have hgap : (a : ℝ) * Real.exp y ^ (k + 1) - a * Real.exp y ^ k = (a * Real.exp y ^ k) * (Real.exp y - 1) := by
    ring
  rw [hgap]
  have hpos : 0 ≤ Real.exp y - 1 := by linarith
  calc (a : ℝ) * Real.exp y ^ k * (Real.exp y - 1) ≤ b * (Real.exp y - 1) := mul_le_mul_of_nonneg_right hpow hpos
    _ < b * (1 / (2 * (b : ℝ))) := mul_lt_mul_of_pos_left hr hb'
    _ = 1 / 2 := by field_simp

/-- the geometric grid `min · r^k`, `k = 0..N`, `r = (max/min)^(1/N)` (what `np.geomspace(min, max, N+1)`
    computes), with `N ≥ (2·max+1)·log(max/min)`: every integer `m ∈ [min, max]` is strictly within 1/2 of a
    grid point, and every grid point lies in `[min, max]` — so rounding the grid gives exactly the integers
    `min..max` -/
theorem geom_grid_covers_integers (a b N : ℕ) (ha : 0 < a) (hab : a < b)
    (hN : (2 * (b : ℝ) + 1) * Real.log ((b : ℝ) / a) ≤ N) (m : ℕ) (h1 : a ≤ m) (h2 : m ≤ b) :
    ∃ k, k ≤ N ∧ |(a : ℝ) * Real.exp (Real.log ((b : ℝ) / a) / N) ^ k - m| < 1 / 2 := by
  have ha' : (0 : ℝ) < a := by exact_mod_cast ha
  have hb' : (0 : ℝ) < b := by exact_mod_cast (lt_trans ha hab)
  have hab' : (a : ℝ) < b := by exact_mod_cast hab
  have hL : 0 < Real.log ((b : ℝ) / a) := Real.log_pos (by rw [lt_div_iff₀ ha']; linarith)
  have hNpos : (0 : ℝ) < N := by
    have : (0 : ℝ) < (2 * (b : ℝ) + 1) * Real.log ((b : ℝ) / a) := by positivity
    linarith
  have hend : (a : ℝ) * Real.exp (Real.log ((b : ℝ) / a) / N) ^ N = b := by
    rw [← Real.exp_nat_mul, mul_div_cancel₀ _ hNpos.ne', Real.exp_log (by positivity)]
    field_simp
  have := fine_grid_hits_every_integer (fun k => (a : ℝ) * Real.exp (Real.log ((b : ℝ) / a) / N) ^ k) N a b
    (by simp) (by simpa using hend) (fun k hk => geom_grid_steps_lt_half a b N ha hab hN k hk) m
    (by exact_mod_cast h1) (by exact_mod_cast h2)
  simpa using this

end Skc
