import Mathlib.LinearAlgebra.Matrix.Determinant.Basic
import Mathlib.Analysis.SpecialFunctions.Log.Basic
import Mathlib.Analysis.SpecialFunctions.Trigonometric.Basic
import Mathlib.Algebra.BigOperators.Intervals
import Mathlib.Tactic.Ring
import Mathlib.Tactic.FieldSimp
import Mathlib.Tactic.Linarith
import Mathlib.Tactic.Positivity

/-! The multivariate Gaussian cost at the optimal parameters, from the rows, and its behaviour under
    shifts and positive rescalings of the data (C12).  The code computes this quantity directly with
    `np.cov` / `slogdet` (tied numerically by the C01 check); the theorems are about the definition. -/
open Finset
namespace Skc
variable {p : ℕ}

/-- mean vector of the rows `[s, e)` -/
noncomputable def meanVec (x : ℕ → Fin p → ℝ) (s e : ℕ) : Fin p → ℝ :=
  fun j => (∑ i ∈ Ico s e, x i j) / ((e : ℝ) - s)

/-- sample covariance matrix (population normalisation, as `np.cov(..., ddof=0)`) of the rows `[s, e)` -/
noncomputable def covMat (x : ℕ → Fin p → ℝ) (s e : ℕ) : Matrix (Fin p) (Fin p) ℝ :=
  fun j k => (∑ i ∈ Ico s e, (x i j - meanVec x s e j) * (x i k - meanVec x s e k)) / ((e : ℝ) - s)

/-- multivariate Gaussian cost at the optimal parameters: twice the negative log-likelihood -/
noncomputable def gcovCost (x : ℕ → Fin p → ℝ) (s e : ℕ) : ℝ :=
  ((e : ℝ) - s) * p * Real.log (2 * Real.pi) + ((e : ℝ) - s) * Real.log (covMat x s e).det + ((e : ℝ) - s) * p

theorem meanVec_shift (x : ℕ → Fin p → ℝ) (c : Fin p → ℝ) (s e : ℕ) (h : s < e) (j : Fin p) :
    meanVec (fun i j => x i j + c j) s e j = meanVec x s e j + c j := by
  have hne : ((e : ℝ) - s) ≠ 0 := by
    have : (s : ℝ) < e := by exact_mod_cast h
    linarith
  simp only [meanVec]
  rw [Finset.sum_add_distrib, Finset.sum_const, Nat.card_Ico, nsmul_eq_mul, Nat.cast_sub h.le]
  field_simp

theorem covMat_shift (x : ℕ → Fin p → ℝ) (c : Fin p → ℝ) (s e : ℕ) (h : s < e) :
    covMat (fun i j => x i j + c j) s e = covMat x s e := by
  funext j k
  simp only [covMat, meanVec_shift x c s e h]
  congr 1
  apply Finset.sum_congr rfl
  intro i _
  ring

theorem meanVec_scale (x : ℕ → Fin p → ℝ) (a : ℝ) (s e : ℕ) (j : Fin p) :
    meanVec (fun i j => a * x i j) s e j = a * meanVec x s e j := by
  simp only [meanVec, ← Finset.mul_sum, mul_div_assoc]

theorem covMat_scale (x : ℕ → Fin p → ℝ) (a : ℝ) (s e : ℕ) :
    covMat (fun i j => a * x i j) s e = (a ^ 2) • covMat x s e := by
  funext j k
  simp only [covMat, meanVec_scale, Matrix.smul_apply, smul_eq_mul]
  rw [← mul_div_assoc, Finset.mul_sum]
  congr 1
  apply Finset.sum_congr rfl
  intro i _
  ring

theorem gcovCost_shift (x : ℕ → Fin p → ℝ) (c : Fin p → ℝ) (s e : ℕ) (h : s < e) :
    gcovCost (fun i j => x i j + c j) s e = gcovCost x s e := by
  simp only [gcovCost, covMat_shift x c s e h]

theorem gcovCost_scale (x : ℕ → Fin p → ℝ) (a : ℝ) (ha : 0 < a) (s e : ℕ) (hd : 0 < (covMat x s e).det) :
    gcovCost (fun i j => a * x i j) s e = gcovCost x s e + ((e : ℝ) - s) * p * Real.log (a ^ 2) := by
  simp only [gcovCost, covMat_scale, Matrix.det_smul, Fintype.card_fin]
  have ha2 : (0 : ℝ) < a ^ 2 := by positivity
  rw [Real.log_mul (pow_pos ha2 p).ne' hd.ne', Real.log_pow]
  ring

/-- change score derived from the multivariate Gaussian cost -/
noncomputable def gcovChange (x : ℕ → Fin p → ℝ) (s k e : ℕ) : ℝ :=
  gcovCost x s e - gcovCost x s k - gcovCost x k e

theorem gcovChange_shift (x : ℕ → Fin p → ℝ) (c : Fin p → ℝ) (s k e : ℕ) (h1 : s < k) (h2 : k < e) :
    gcovChange (fun i j => x i j + c j) s k e = gcovChange x s k e := by
  simp only [gcovChange, gcovCost_shift x c s e (by omega), gcovCost_shift x c s k h1,
    gcovCost_shift x c k e h2]

theorem gcovChange_scale (x : ℕ → Fin p → ℝ) (a : ℝ) (ha : 0 < a) (s k e : ℕ)
    (hd : 0 < (covMat x s e).det) (hd1 : 0 < (covMat x s k).det) (hd2 : 0 < (covMat x k e).det) :
    gcovChange (fun i j => a * x i j) s k e = gcovChange x s k e := by
  simp only [gcovChange, gcovCost_scale x a ha s e hd, gcovCost_scale x a ha s k hd1,
    gcovCost_scale x a ha k e hd2]
  ring

/-! ### the same cost on an arbitrary finite set of rows (the pooled surroundings of a local anomaly score) -/

noncomputable def meanVecOn (x : ℕ → Fin p → ℝ) (T : Finset ℕ) : Fin p → ℝ :=
  fun j => (∑ i ∈ T, x i j) / (T.card : ℝ)

noncomputable def covMatOn (x : ℕ → Fin p → ℝ) (T : Finset ℕ) : Matrix (Fin p) (Fin p) ℝ :=
  fun j k => (∑ i ∈ T, (x i j - meanVecOn x T j) * (x i k - meanVecOn x T k)) / (T.card : ℝ)

noncomputable def gcovCostOn (x : ℕ → Fin p → ℝ) (T : Finset ℕ) : ℝ :=
  (T.card : ℝ) * p * Real.log (2 * Real.pi) + (T.card : ℝ) * Real.log (covMatOn x T).det + (T.card : ℝ) * p

theorem meanVecOn_scale (x : ℕ → Fin p → ℝ) (a : ℝ) (T : Finset ℕ) (j : Fin p) :
    meanVecOn (fun i j => a * x i j) T j = a * meanVecOn x T j := by
  simp only [meanVecOn, ← Finset.mul_sum, mul_div_assoc]

theorem covMatOn_scale (x : ℕ → Fin p → ℝ) (a : ℝ) (T : Finset ℕ) :
    covMatOn (fun i j => a * x i j) T = (a ^ 2) • covMatOn x T := by
  funext j k
  simp only [covMatOn, meanVecOn_scale, Matrix.smul_apply, smul_eq_mul]
  rw [← mul_div_assoc, Finset.mul_sum]
  congr 1
  apply Finset.sum_congr rfl
  intro i _
  ring

theorem gcovCostOn_scale (x : ℕ → Fin p → ℝ) (a : ℝ) (ha : 0 < a) (T : Finset ℕ) (hd : 0 < (covMatOn x T).det) :
    gcovCostOn (fun i j => a * x i j) T = gcovCostOn x T + (T.card : ℝ) * p * Real.log (a ^ 2) := by
  simp only [gcovCostOn, covMatOn_scale, Matrix.det_smul, Fintype.card_fin]
  have ha2 : (0 : ℝ) < a ^ 2 := by positivity
  rw [Real.log_mul (pow_pos ha2 p).ne' hd.ne', Real.log_pow]
  ring

/-- the rows of `[s, e)` outside `[i, j)` -/
def surround (s i j e : ℕ) : Finset ℕ := Ico s i ∪ Ico j e

theorem card_surround (s i j e : ℕ) (h1 : s ≤ i) (h2 : i ≤ j) (h3 : j ≤ e) :
    ((surround s i j e).card : ℝ) = ((i : ℝ) - s) + ((e : ℝ) - j) := by
  have hdisj : Disjoint (Ico s i) (Ico j e) := by
    rw [Finset.disjoint_left]
    intro t ht1 ht2
    simp only [Finset.mem_Ico] at ht1 ht2
    omega
  rw [surround, Finset.card_union_of_disjoint hdisj, Nat.card_Ico, Nat.card_Ico]
  push_cast [Nat.cast_sub h1, Nat.cast_sub h3]
  ring

/-- local anomaly score derived from the multivariate Gaussian cost:
    `C(s,e) − C(i,j) − C(rows of [s,i) and [j,e) pooled)` -/
noncomputable def gcovLocal (x : ℕ → Fin p → ℝ) : ℕ → ℕ → ℕ → ℕ → ℝ := fun s i j e =>
  gcovCost x s e - gcovCost x i j - gcovCostOn x (surround s i j e)

theorem gcovLocal_scale (x : ℕ → Fin p → ℝ) (a : ℝ) (ha : 0 < a) (s i j e : ℕ) (h1 : s ≤ i) (h2 : i ≤ j) (h3 : j ≤ e)
    (hd : 0 < (covMat x s e).det) (hd1 : 0 < (covMat x i j).det) (hd2 : 0 < (covMatOn x (surround s i j e)).det) :
    gcovLocal (fun i j => a * x i j) s i j e = gcovLocal x s i j e := by
  simp only [gcovLocal, gcovCost_scale x a ha s e hd, gcovCost_scale x a ha i j hd1,
    gcovCostOn_scale x a ha _ hd2, card_surround s i j e h1 h2 h3]
  ring

end Skc
