import Mathlib.LinearAlgebra.Matrix.Determinant.Basic
import Mathlib.Analysis.SpecialFunctions.Log.Basic
import Mathlib.Analysis.SpecialFunctions.Trigonometric.Basic
import Mathlib.Algebra.BigOperators.Intervals
import Mathlib.Tactic.Ring
import Mathlib.Tactic.FieldSimp
import Mathlib.Tactic.Linarith
import Mathlib.Tactic.Positivity

/-! The multivariate Gaussian cost at the optimal parameters, from the rows, and its behaviour under
    shifts and positive rescalings of the data (C12).  The code computes this quantity directly with
    `np.cov` / `slogdet` (tied numerically by the C01 check); the theorems are about the definition. -/
open Finset
namespace Skc
variable {p : ℕ}

/-- mean vector of the rows `[s, e)` -/
noncomputable def meanVec (x : ℕ → Fin p → ℝ) (s e : ℕ) : Fin p → ℝ :=
  fun j => (∑ i ∈ Ico s e, x i j) / ((e : ℝ) - s)

/-- sample covariance matrix (population normalisation, as `np.cov(..., ddof=0)`) of the rows `[s, e)` -/
noncomputable def covMat (x : ℕ → Fin p → ℝ) (s e : ℕ) : Matrix (Fin p) (Fin p) ℝ :=
  fun j k => (∑ i ∈ Ico s e, (x i j - meanVec x s e j) * (x i k - meanVec x s e k)) / ((e : ℝ) - s)

/-- multivariate Gaussian cost at the optimal parameters: twice the negative log-likelihood -/
noncomputable def gcovCost (x : ℕ → Fin p → ℝ) (s e : ℕ) : ℝ :=
  ((e : ℝ) - s) * p * Real.log (2 * Real.pi) + ((e : ℝ) - s) * Real.log (covMat x s e).det + ((e : ℝ) - s) * p

theorem meanVec_shift (x : ℕ → Fin p → ℝ) (c : Fin p → ℝ) (s e : ℕ) (h : s < e) (j : Fin p) :
    meanVec (fun i j => x i j + c j) s e j = meanVec x s e j + c j := by
  have hne : ((e : ℝ) - s) ≠ 0 := by
    have : (s : ℝ) < e := by exact_mod_cast h
    linarith
  simp only [meanVec]
  rw [Finset.sum_add_distrib, Finset.sum_const, Nat.card_Ico, nsmul_eq_mul, Nat.cast_sub h.le]
  field_simp

theorem covMat_shift (x : ℕ → Fin p → ℝ) (c : Fin p → ℝ) (s e : ℕ) (h : s < e) :
    covMat (fun i j => x i j + c j) s e = covMat x s e := by
  funext j k
  simp only [covMat, meanVec_shift x c s e h]
  congr 1
  apply Finset.sum_congr rfl
  intro i _
  ring

theorem meanVec_scale (x : ℕ → Fin p → ℝ) (a : ℝ) (s e : ℕ) (j : Fin p) :
    meanVec (fun i j => a * x i j) s e j = a * meanVec x s e j := by
  simp only [meanVec, ← Finset.mul_sum, mul_div_assoc]

theorem covMat_scale (x : ℕ → Fin p → ℝ) (a : ℝ) (s e : ℕ) :
    covMat (fun i j => a * x i j) s e = (a ^ 2) • covMat x s e := by
  funext j k
  simp only [covMat, meanVec_scale, Matrix.smul_apply, smul_eq_mul]
  rw [← mul_div_assoc, Finset.mul_sum]
  congr 1
  apply Finset.sum_congr rfl
  intro i _
  ring

theorem gcovCost_shift (x : ℕ → Fin p → ℝ) (c : Fin p → ℝ) (s e : ℕ) (h : s < e) :
    gcovCost (fun i j => x i j + c j) s e = gcovCost x s e := by
  simp only [gcovCost, covMat_shift x c s e h]

theorem gcovCost_scale (x : ℕ → Fin p → ℝ) (a : ℝ) (ha : 0 < a) (s e : ℕ) (hd : 0 < (covMat x s e).det) :
    gcovCost (fun i j => a * x i j) s e = gcovCost x s e + ((e : ℝ) - s) * p * Real.log (a ^ 2) := by
  simp only [gcovCost, covMat_scale, Matrix.det_smul, Fintype.card_fin]
  have ha2 : (0 : ℝ) < a ^ 2 := by positivity
  rw [Real.log_mul (pow_pos ha2 p).ne' hd.ne', Real.log_pow]
  ring

/-- change score derived from the multivariate Gaussian cost -/
noncomputable def gcovChange (x : ℕ → Fin p → ℝ) (s k e : ℕ) : ℝ :=
  gcovCost x s e - gcovCost x s k - gcovCost x k e

theorem gcovChange_shift (x : ℕ → Fin p → ℝ) (c : Fin p → ℝ) (s k e : ℕ) (h1 : s < k) (h2 : k < e) :
    gcovChange (fun i j => x i j + c j) s k e = gcovChange x s k e := by
  simp only [gcovChange, gcovCost_shift x c s e (by omega), gcovCost_shift x c s k h1,
    gcovCost_shift x c k e h2]

theorem gcovChange_scale (x : ℕ → Fin p → ℝ) (a : ℝ) (ha : 0 < a) (s k e : ℕ)
    (hd : 0 < (covMat x s e).det) (hd1 : 0 < (covMat x s k).det) (hd2 : 0 < (covMat x k e).det) :
    gcovChange (fun i j => a * x i j) s k e = gcovChange x s k e := by
  simp only [gcovChange, gcovCost_scale x a ha s e hd, gcovCost_scale x a ha s k hd1,
    gcovCost_scale x a ha k e hd2]
  ring

end Skc
