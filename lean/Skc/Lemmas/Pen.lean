import Skc.Model.Pen
import Mathlib.Algebra.Order.Group.Defs
import Mathlib.Algebra.Order.BigOperators.Group.List
import Mathlib.Data.List.Sort
import Mathlib.Data.List.Perm.Subperm
import Mathlib.Tactic.Abel
import Mathlib.Tactic.Linarith

namespace Skc
set_option linter.unusedSectionVars false
variable {α : Type} [AddCommGroup α] [LinearOrder α] [IsOrderedAddMonoid α]

theorem sumL_eq_sum (l : List α) : sumL l = l.sum := by
  induction l with
  | nil => rfl
  | cons a t ih => simp [sumL, ih]

/-! ### argmax with index -/
theorem argmaxIdxFrom_spec (l : List α) (i bi : Nat) (bv : α) (pre : List α)
    (hpre : pre.length = i) (hbi : pre[bi]? = some bv) (hmax : ∀ x ∈ pre, x ≤ bv) :
    let r := argmaxIdxFrom l i bi bv
    (pre ++ l)[r.1]? = some r.2 ∧ ∀ x ∈ pre ++ l, x ≤ r.2 := by
  induction l generalizing i bi bv pre with
  | nil =>
    simp only [argmaxIdxFrom, List.append_nil]
    exact ⟨hbi, hmax⟩
  | cons a t ih =>
    simp only [argmaxIdxFrom]
    have happ : pre ++ a :: t = (pre ++ [a]) ++ t := by simp
    split
    · rename_i h
      rw [happ]
      apply ih (i + 1) i a (pre ++ [a]) (by simp [hpre])
      · rw [List.getElem?_append_right (by omega)]; simp [hpre]
      · intro x hx
        rcases List.mem_append.1 hx with hx | hx
        · exact le_trans (hmax x hx) (le_of_lt h)
        · simp at hx; subst hx; exact le_refl _
    · rename_i h
      rw [happ]
      apply ih (i + 1) bi bv (pre ++ [a]) (by simp [hpre])
      · have : bi < pre.length := by
          by_contra hc
          rw [List.getElem?_eq_none (by omega)] at hbi; cases hbi
        rw [List.getElem?_append_left this]; exact hbi
      · intro x hx
        rcases List.mem_append.1 hx with hx | hx
        · exact hmax x hx
        · simp at hx; subst hx; exact not_lt.1 h

theorem argmaxIdx_spec (l : List α) (d : α) (hl : l ≠ []) :
    l[(argmaxIdx l d).1]? = some (argmaxIdx l d).2 ∧ ∀ x ∈ l, x ≤ (argmaxIdx l d).2 := by
  cases l with
  | nil => exact absurd rfl hl
  | cons a t =>
    simp only [argmaxIdx]
    have := argmaxIdxFrom_spec t 1 0 a [a] rfl (by simp) (by simp)
    simpa using this

/-! ### running sums -/
theorem cumsumFrom_getElem? (acc : α) (l : List α) (k : Nat) (hk : k < l.length) :
    (cumsumFrom acc l)[k]? = some (acc + (l.take (k + 1)).sum) := by
  induction l generalizing acc k with
  | nil => simp at hk
  | cons a t ih =>
    cases k with
    | zero => simp [cumsumFrom]
    | succ k =>
      simp only [cumsumFrom, List.getElem?_cons_succ, List.take_succ_cons, List.sum_cons]
      rw [ih (acc + a) k (by simpa using hk)]
      congr 1; abel

theorem cumsumFrom_length (acc : α) (l : List α) : (cumsumFrom acc l).length = l.length := by
  induction l generalizing acc with
  | nil => rfl
  | cons a t ih => simp [cumsumFrom, ih]

theorem sum_take_zipWith_sub (a b : List α) (k : Nat) (hab : a.length = b.length) :
    ((List.zipWith (· - ·) a b).take k).sum = (a.take k).sum - (b.take k).sum := by
  induction a generalizing b k with
  | nil =>
    have : b = [] := by simpa [eq_comm] using hab
    subst this; simp
  | cons x t ih =>
    cases b with
    | nil => simp at hab
    | cons y u =>
      cases k with
      | zero => simp
      | succ k =>
        simp only [List.zipWith_cons_cons, List.take_succ_cons, List.sum_cons]
        rw [ih u k (by simpa using hab)]
        abel

/-! ### top-k -/
theorem sublist_sum_le_take (l : List α) (hl : l.Pairwise (· ≥ ·)) :
    ∀ m : List α, m.Sublist l → m.sum ≤ (l.take m.length).sum := by
  induction l with
  | nil => intro m hm; simp [List.sublist_nil.1 hm]
  | cons a t ih =>
    intro m hm
    have ht := (List.pairwise_cons.1 hl).2
    have ha := (List.pairwise_cons.1 hl).1
    cases hm with
    | cons _ h =>
      have h1 := ih ht m h
      cases hk : m.length with
      | zero => simp [List.length_eq_zero_iff.1 hk]
      | succ k =>
        rw [hk] at h1
        simp only [List.take_succ_cons, List.sum_cons]
        have : (t.take (k + 1)).sum ≤ a + (t.take k).sum := by
          rw [List.take_add_one]
          cases hg : t[k]? with
          | none =>
            have := h.length_le
            have := List.getElem?_eq_none_iff.1 hg
            omega
          | some x =>
            have hx : x ∈ t := List.mem_of_getElem? hg
            have := ha x hx
            simp
            rw [add_comm]
            gcongr
        exact le_trans h1 this
    | cons_cons _ h =>
      rename_i m'
      have h1 := ih ht m' h
      simp only [List.length_cons, List.take_succ_cons, List.sum_cons]
      gcongr

/-- any selection of `k` of the savings (a sub-multiset) sums to at most the `k` largest -/
theorem subperm_sum_le_take (sorted sav J : List α) (hperm : sorted.Perm sav)
    (hs : sorted.Pairwise (· ≥ ·)) (hJ : J.Subperm sav) :
    J.sum ≤ (sorted.take J.length).sum := by
  have hJ' : J.Subperm sorted := hJ.trans hperm.symm.subperm
  obtain ⟨J', hJ'perm, hJ'sub⟩ := hJ'
  have := sublist_sum_le_take sorted hs J' hJ'sub
  rw [hJ'perm.sum_eq, hJ'perm.length_eq] at this
  exact this

end Skc

namespace Skc
set_option linter.unusedSectionVars false
variable {α : Type} [AddCommGroup α] [LinearOrder α] [IsOrderedAddMonoid α]

/-! ### the decreasing order of the columns -/
theorem orderDesc_perm (sav : List α) :
    (orderDesc sav).Perm (sav.zipIdx.map (fun (v, i) => (i, v))) :=
  List.mergeSort_perm _ _

theorem orderDesc_vals_perm (sav : List α) : ((orderDesc sav).map (·.2)).Perm sav := by
  have h := (orderDesc_perm sav).map (·.2)
  refine h.trans ?_
  rw [List.map_map]
  have : ((fun x : Nat × α => x.2) ∘ fun (x : α × Nat) => (x.2, x.1)) = fun x => x.1 := by
    funext x; rfl
  rw [this]
  simp [List.zipIdx_map_fst]

theorem orderDesc_vals_sorted (sav : List α) : ((orderDesc sav).map (·.2)).Pairwise (· ≥ ·) := by
  have h : (orderDesc sav).Pairwise (fun a b => decide (b.2 ≤ a.2) = true) :=
    List.pairwise_mergeSort (le := fun (a b : Nat × α) => decide (b.2 ≤ a.2))
      (by intro a b c h1 h2; simp only [decide_eq_true_eq] at *; exact le_trans h2 h1)
      (by intro a b; simp only [Bool.or_eq_true, decide_eq_true_eq]; exact le_total _ _) _
  rw [List.pairwise_map]
  exact h.imp (by intro a b hab; simpa using hab)

theorem orderDesc_length (sav : List α) : (orderDesc sav).length = sav.length := by
  simpa using (orderDesc_perm sav).length_eq

/-! ### C03(i) / C16 for the general branch -/

/-- value of choosing the `k+1` best columns -/
def prefVal (sav : List α) (alpha : α) (betas : List α) (k : Nat) : α :=
  (((orderDesc sav).map (·.2)).take (k + 1)).sum - (betas.take (k + 1)).sum - alpha

theorem penGeneral_spec (sav : List α) (alpha : α) (betas : List α)
    (hlen : betas.length = sav.length) (hp : sav ≠ []) :
    let r := penGeneral sav alpha betas
    r.1 < sav.length ∧ r.2 = prefVal sav alpha betas r.1 ∧
      ∀ k, k < sav.length → prefVal sav alpha betas k ≤ r.2 := by
  intro r
  set sorted := (orderDesc sav).map (·.2) with hsorted
  have hsl : sorted.length = sav.length := by simp [hsorted, orderDesc_length]
  set z := List.zipWith (· - ·) sorted betas with hz
  have hzl : z.length = sav.length := by simp [hz, hsl, hlen]
  set ps := (cumsumFrom 0 z).map (· - alpha) with hps
  have hpsl : ps.length = sav.length := by simp [hps, cumsumFrom_length, hzl]
  have hpsk : ∀ k, k < sav.length → ps[k]? = some (prefVal sav alpha betas k) := by
    intro k hk
    rw [hps, List.getElem?_map, cumsumFrom_getElem? 0 z k (by omega)]
    simp only [Option.map_some, prefVal, hz]
    rw [sum_take_zipWith_sub sorted betas (k + 1) (by omega)]
    simp [hsorted]
  have hne : ps ≠ [] := by
    intro h; rw [h] at hpsl
    exact hp (List.length_eq_zero_iff.1 hpsl.symm)
  have hr : r = argmaxIdx ps (0 - alpha) := rfl
  obtain ⟨h1, h2⟩ := argmaxIdx_spec ps (0 - alpha) hne
  rw [← hr] at h1 h2
  have hidx : r.1 < sav.length := by
    by_contra hc
    rw [List.getElem?_eq_none (by omega)] at h1; cases h1
  refine ⟨hidx, ?_, ?_⟩
  · rw [hpsk r.1 hidx] at h1
    exact (Option.some.inj h1).symm
  · intro k hk
    exact h2 _ (List.mem_of_getElem? (hpsk k hk))

/-- **C03(i), general branch**: the penalised saving is the best over all non-empty selections of
    components (sub-multisets `J` of the savings), the `|J|` first betas and `alpha` being charged. -/
theorem penGeneral_ge_subset (sav : List α) (alpha : α) (betas : List α)
    (hlen : betas.length = sav.length) (J : List α) (hJ : J.Subperm sav) (hJne : J ≠ []) :
    J.sum - (betas.take J.length).sum - alpha ≤ (penGeneral sav alpha betas).2 := by
  have hp : sav ≠ [] := by
    intro h; subst h
    exact hJne (List.subperm_nil.1 hJ)
  obtain ⟨_, _, h3⟩ := penGeneral_spec sav alpha betas hlen hp
  have hJl : J.length ≤ sav.length := hJ.length_le
  have hJpos : 0 < J.length := List.length_pos_iff.2 hJne
  have hk := h3 (J.length - 1) (by omega)
  have htop := subperm_sum_le_take _ sav J (orderDesc_vals_perm sav) (orderDesc_vals_sorted sav) hJ
  simp only [prefVal] at hk
  rw [Nat.sub_add_cancel hJpos] at hk
  refine le_trans ?_ hk
  gcongr

end Skc
