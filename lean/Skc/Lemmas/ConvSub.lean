import Skc.Model.Conv
import Mathlib.Data.List.Sort

/-! Round trip of the subset-anomaly (MVCAPA) sparse↔dense conversions (C05): for a valid sparse
    output `subD2S (subS2D anoms n p) p = anoms`. -/
namespace Skc

/-- a valid subset-anomaly output: rows sorted, pairwise disjoint (adjacent allowed), non-empty,
    inside `[lo, n]`; columns non-empty, strictly increasing, below `p` -/
def ValidSub : Nat → List ((Nat × Nat) × List Nat) → Nat → Nat → Prop
  | lo, [], n, _ => lo ≤ n
  | lo, ((s, e), cols) :: rest, n, p =>
      lo ≤ s ∧ s < e ∧ cols ≠ [] ∧ cols.Pairwise (· < ·) ∧ (∀ j ∈ cols, j < p) ∧ ValidSub e rest n p

theorem validSub_le : ∀ (l : List ((Nat × Nat) × List Nat)) (lo n p : Nat), ValidSub lo l n p → lo ≤ n
  | [], _, _, _, h => h
  | ((s, e), cols) :: rest, lo, n, p, h => by
    obtain ⟨h1, h2, _, _, _, h6⟩ := h
    have := validSub_le rest e n p h6
    omega

/-- a non-zero label names an anomaly that covers the cell -/
theorem subLabelAt_val : ∀ (anoms : List ((Nat × Nat) × List Nat)) (k i j : Nat),
    subLabelAt anoms k i j ≠ 0 →
      ∃ idx, ∃ h : idx < anoms.length, subLabelAt anoms k i j = k + idx + 1 ∧
        (anoms[idx]).1.1 ≤ i ∧ i < (anoms[idx]).1.2 ∧ j ∈ (anoms[idx]).2
  | [], _, _, _, h => by simp [subLabelAt] at h
  | ((s, e), cols) :: rest, k, i, j, h => by
    simp only [subLabelAt] at h ⊢
    by_cases hl : subLabelAt rest (k + 1) i j ≠ 0
    · obtain ⟨idx, hidx, hv, hc⟩ := subLabelAt_val rest (k + 1) i j hl
      refine ⟨idx + 1, by simp; omega, ?_, ?_⟩
      · rw [if_pos hl, hv]; omega
      · simpa using hc
    · rw [if_neg hl] at h ⊢
      by_cases hc : s ≤ i ∧ i < e ∧ cols.contains j
      · refine ⟨0, by simp, ?_, ?_⟩
        · rw [if_pos hc]
        · obtain ⟨a, b, c⟩ := hc
          simp only [List.getElem_cons_zero]
          exact ⟨a, b, by simpa using c⟩
      · rw [if_neg hc] at h; exact absurd rfl h

/-- positions before the first interval are unlabelled -/
theorem subLabelAt_below : ∀ (anoms : List ((Nat × Nat) × List Nat)) (lo n p k i j : Nat),
    ValidSub lo anoms n p → i < lo → subLabelAt anoms k i j = 0
  | [], _, _, _, _, _, _, _, _ => by simp [subLabelAt]
  | ((s, e), cols) :: rest, lo, n, p, k, i, j, h, hi => by
    obtain ⟨h1, h2, _, _, _, h6⟩ := h
    have := subLabelAt_below rest e n p (k + 1) i j h6 (by omega)
    simp only [subLabelAt, this]
    simp only [ne_eq, not_true_eq_false, if_false]
    rw [if_neg]
    omega

/-- a cell covered by the `idx`-th anomaly of a valid output carries its label -/
theorem subLabelAt_cov : ∀ (anoms : List ((Nat × Nat) × List Nat)) (lo n p k idx i j : Nat)
    (h : idx < anoms.length), ValidSub lo anoms n p →
    (anoms[idx]).1.1 ≤ i → i < (anoms[idx]).1.2 → j ∈ (anoms[idx]).2 →
    subLabelAt anoms k i j = k + idx + 1
  | [], _, _, _, _, _, _, _, h, _, _, _, _ => by simp at h
  | ((s, e), cols) :: rest, lo, n, p, k, 0, i, j, _, hv, h1, h2, h3 => by
    obtain ⟨_, _, _, _, _, h6⟩ := hv
    simp only [List.getElem_cons_zero] at h1 h2 h3
    have := subLabelAt_below rest e n p (k + 1) i j h6 h2
    simp only [subLabelAt, this]
    simp only [ne_eq, not_true_eq_false, if_false]
    rw [if_pos]
    exact ⟨h1, h2, by simpa using h3⟩
  | ((s, e), cols) :: rest, lo, n, p, k, idx + 1, i, j, h, hv, h1, h2, h3 => by
    obtain ⟨_, _, _, _, _, h6⟩ := hv
    simp only [List.getElem_cons_succ] at h1 h2 h3
    have hlen : idx < rest.length := by simpa using h
    have := subLabelAt_cov rest e n p (k + 1) idx i j hlen h6 h1 h2 h3
    simp only [subLabelAt, this]
    rw [if_pos (by omega)]
    omega

/-- in a valid output: cell `(i,j)` carries label `idx+1` iff the `idx`-th anomaly covers it -/
theorem subLabel_iff (anoms : List ((Nat × Nat) × List Nat)) (n p idx i j : Nat)
    (h : idx < anoms.length) (hv : ValidSub 0 anoms n p) :
    subLabelAt anoms 0 i j = idx + 1 ↔
      (anoms[idx]).1.1 ≤ i ∧ i < (anoms[idx]).1.2 ∧ j ∈ (anoms[idx]).2 := by
  constructor
  · intro hl
    obtain ⟨idx', h', hv', hc⟩ := subLabelAt_val anoms 0 i j (by omega)
    have : idx' = idx := by omega
    subst this
    exact hc
  · rintro ⟨h1, h2, h3⟩
    have := subLabelAt_cov anoms 0 n p 0 idx i j h hv h1 h2 h3
    omega

/-- bounds of the `idx`-th anomaly of a valid output -/
theorem validSub_getElem : ∀ (anoms : List ((Nat × Nat) × List Nat)) (lo n p idx : Nat)
    (h : idx < anoms.length), ValidSub lo anoms n p →
    lo ≤ (anoms[idx]).1.1 ∧ (anoms[idx]).1.1 < (anoms[idx]).1.2 ∧ (anoms[idx]).1.2 ≤ n ∧
      (anoms[idx]).2 ≠ [] ∧ (anoms[idx]).2.Pairwise (· < ·) ∧ ∀ j ∈ (anoms[idx]).2, j < p
  | [], _, _, _, _, h, _ => by simp at h
  | ((s, e), cols) :: rest, lo, n, p, 0, _, hv => by
    obtain ⟨h1, h2, h3, h4, h5, h6⟩ := hv
    have := validSub_le rest e n p h6
    exact ⟨h1, h2, this, h3, h4, h5⟩
  | ((s, e), cols) :: rest, lo, n, p, idx + 1, h, hv => by
    obtain ⟨h1, h2, _, _, _, h6⟩ := hv
    have hlen : idx < rest.length := by simpa using h
    obtain ⟨g1, g2⟩ := validSub_getElem rest e n p idx hlen h6
    simp only [List.getElem_cons_succ]
    exact ⟨by omega, g2⟩

/-! ### the dense matrix of a label function -/

def matOf (L : Nat → Nat → Nat) (n p : Nat) : List (List Nat) :=
  (List.range n).map (fun i => (List.range p).map (fun j => L i j))

theorem subS2D_eq (anoms : List ((Nat × Nat) × List Nat)) (n p : Nat) :
    subS2D anoms n p = matOf (subLabelAt anoms 0) n p := rfl

theorem matOf_length (L : Nat → Nat → Nat) (n p : Nat) : (matOf L n p).length = n := by
  simp [matOf]

theorem matOf_getD (L : Nat → Nat → Nat) (n p i : Nat) (hi : i < n) :
    (matOf L n p).getD i [] = (List.range p).map (fun j => L i j) := by
  simp [matOf, List.getD_eq_getElem?_getD, hi]

theorem mem_matOf_flatten (L : Nat → Nat → Nat) (n p v : Nat) :
    v ∈ (matOf L n p).flatten ↔ ∃ i, i < n ∧ ∃ j, j < p ∧ L i j = v := by
  simp only [matOf, List.mem_flatten, List.mem_map, List.mem_range]
  constructor
  · rintro ⟨row, ⟨i, hi, rfl⟩, hv⟩
    obtain ⟨j, hj, rfl⟩ := List.mem_map.1 hv
    exact ⟨i, hi, j, List.mem_range.1 hj, rfl⟩
  · rintro ⟨i, hi, j, hj, rfl⟩
    exact ⟨_, ⟨i, hi, rfl⟩, List.mem_map.2 ⟨j, List.mem_range.2 hj, rfl⟩⟩

theorem row_contains (L : Nat → Nat → Nat) (n p i v : Nat) (hi : i < n) :
    ((matOf L n p).getD i []).contains v = true ↔ ∃ j, j < p ∧ L i j = v := by
  rw [matOf_getD L n p i hi]
  simp only [List.contains_iff_mem, List.mem_map, List.mem_range]

theorem col_any (L : Nat → Nat → Nat) (n p j v : Nat) (hj : j < p) :
    (matOf L n p).any (fun row => row.getD j 0 == v) = true ↔ ∃ i, i < n ∧ L i j = v := by
  simp only [matOf, List.any_eq_true, List.mem_map, List.mem_range, beq_iff_eq]
  constructor
  · rintro ⟨row, ⟨i, hi, rfl⟩, hv⟩
    refine ⟨i, hi, ?_⟩
    simpa [List.getD_eq_getElem?_getD, hj] using hv
  · rintro ⟨i, hi, rfl⟩
    refine ⟨_, ⟨i, hi, rfl⟩, ?_⟩
    simp [List.getD_eq_getElem?_getD, hj]

theorem le_foldl_max : ∀ (l : List Nat) (b x : Nat), (x ≤ b ∨ x ∈ l) → x ≤ l.foldl max b
  | [], b, x, h => by simpa using h
  | a :: t, b, x, h => by
    simp only [List.foldl_cons]
    apply le_foldl_max t (max b a) x
    rcases h with h | h
    · left; exact le_trans h (le_max_left _ _)
    · rcases List.mem_cons.1 h with rfl | h
      · left; exact le_max_right _ _
      · right; exact h

theorem whichIdx_pairwise (n : Nat) (f : Nat → Bool) : (whichIdx n f).Pairwise (· < ·) := by
  unfold whichIdx
  exact List.Pairwise.filter _ List.pairwise_lt_range

theorem mem_whichIdx (n : Nat) (f : Nat → Bool) (i : Nat) : i ∈ whichIdx n f ↔ i < n ∧ f i = true := by
  simp [whichIdx]

/-- a strictly increasing list is determined by its members -/
theorem eq_of_sorted_mem_iff (l₁ l₂ : List Nat) (h₁ : l₁.Pairwise (· < ·)) (h₂ : l₂.Pairwise (· < ·))
    (h : ∀ a, a ∈ l₁ ↔ a ∈ l₂) : l₁ = l₂ :=
  List.Pairwise.eq_of_mem_iff h₁ h₂ h

theorem range'_pairwise (s len : Nat) : (List.range' s len).Pairwise (· < ·) := by
  exact List.pairwise_lt_range'

/-- **round trip** for the subset-anomaly conversions -/
theorem sub_roundtrip (anoms : List ((Nat × Nat) × List Nat)) (n p : Nat) (hv : ValidSub 0 anoms n p) :
    subD2S (subS2D anoms n p) p = anoms := by
  rw [subS2D_eq]
  set L := subLabelAt anoms 0 with hL
  set K := anoms.length with hK
  unfold subD2S
  simp only [matOf_length]
  -- the label values present are exactly 1..K
  have hmem : ∀ v, (0 < v ∧ v ∈ (matOf L n p).flatten) ↔ (1 ≤ v ∧ v ≤ K) := by
    intro v
    rw [mem_matOf_flatten]
    constructor
    · rintro ⟨hv0, i, hi, j, hj, hl⟩
      obtain ⟨idx, hidx, hval, _⟩ := subLabelAt_val anoms 0 i j (by rw [← hL, hl]; omega)
      rw [← hL, hl] at hval
      omega
    · rintro ⟨h1, h2⟩
      obtain ⟨idx, rfl⟩ : ∃ idx, v = idx + 1 := ⟨v - 1, by omega⟩
      have hidx : idx < anoms.length := by omega
      obtain ⟨g1, g2, g3, g4, g5, g6⟩ := validSub_getElem anoms 0 n p idx hidx hv
      obtain ⟨j, hj⟩ := List.exists_mem_of_ne_nil _ g4
      refine ⟨by omega, (anoms[idx]).1.1, by omega, j, g6 j hj, ?_⟩
      exact (subLabel_iff anoms n p idx _ j hidx hv).2 ⟨le_refl _, g2, hj⟩
  have hvals : (List.range ((matOf L n p).flatten.foldl max 0 + 1)).filter
      (fun v => decide (0 < v) && (matOf L n p).flatten.contains v) = (List.range K).map (· + 1) := by
    apply eq_of_sorted_mem_iff
    · exact List.Pairwise.filter _ List.pairwise_lt_range
    · rw [List.pairwise_map]
      exact List.pairwise_lt_range.imp (by intro a b h; omega)
    · intro v
      simp only [List.mem_filter, List.mem_range, Bool.and_eq_true, decide_eq_true_eq,
        List.contains_iff_mem, List.mem_map]
      constructor
      · rintro ⟨_, h0, hm⟩
        obtain ⟨h1, h2⟩ := (hmem v).1 ⟨h0, hm⟩
        exact ⟨v - 1, by omega, by omega⟩
      · rintro ⟨idx, hidx, rfl⟩
        obtain ⟨h0, hm⟩ := (hmem (idx + 1)).2 ⟨by omega, by omega⟩
        refine ⟨?_, h0, hm⟩
        have := le_foldl_max (matOf L n p).flatten 0 (idx + 1) (Or.inr hm)
        omega
  rw [hvals, List.map_map]
  apply List.ext_getElem
  · simp [hK]
  · intro idx h1 h2
    simp only [List.length_map, List.length_range] at h1
    have hidx : idx < anoms.length := by omega
    simp only [List.getElem_map, List.getElem_range, Function.comp]
    obtain ⟨g1, g2, g3, g4, g5, g6⟩ := validSub_getElem anoms 0 n p idx hidx hv
    obtain ⟨j0, hj0⟩ := List.exists_mem_of_ne_nil _ g4
    -- rows
    have hrows : whichIdx n (fun i => ((matOf L n p).getD i []).contains (idx + 1)) =
        List.range' (anoms[idx]).1.1 ((anoms[idx]).1.2 - (anoms[idx]).1.1) := by
      apply eq_of_sorted_mem_iff _ _ (whichIdx_pairwise _ _) (range'_pairwise _ _)
      intro i
      rw [mem_whichIdx]
      simp only [List.mem_range'_1]
      constructor
      · rintro ⟨hi, hc⟩
        obtain ⟨j, hj, hl⟩ := (row_contains L n p i (idx + 1) hi).1 hc
        obtain ⟨a, b, _⟩ := (subLabel_iff anoms n p idx i j hidx hv).1 hl
        omega
      · rintro ⟨a, b⟩
        have hi : i < n := by omega
        refine ⟨hi, (row_contains L n p i (idx + 1) hi).2 ⟨j0, g6 j0 hj0, ?_⟩⟩
        exact (subLabel_iff anoms n p idx i j0 hidx hv).2 ⟨a, by omega, hj0⟩
    -- columns
    have hcols : whichIdx p (fun j => (matOf L n p).any (fun row => row.getD j 0 == idx + 1)) =
        (anoms[idx]).2 := by
      apply eq_of_sorted_mem_iff _ _ (whichIdx_pairwise _ _) g5
      intro j
      rw [mem_whichIdx]
      constructor
      · rintro ⟨hj, hc⟩
        obtain ⟨i, hi, hl⟩ := (col_any L n p j (idx + 1) hj).1 hc
        exact ((subLabel_iff anoms n p idx i j hidx hv).1 hl).2.2
      · intro hj
        refine ⟨g6 j hj, (col_any L n p j (idx + 1) (g6 j hj)).2 ⟨(anoms[idx]).1.1, by omega, ?_⟩⟩
        exact (subLabel_iff anoms n p idx _ j hidx hv).2 ⟨le_refl _, g2, hj⟩
    rw [hrows, hcols]
    obtain ⟨d, hd⟩ : ∃ d, (anoms[idx]).1.2 - (anoms[idx]).1.1 = d + 1 := ⟨(anoms[idx]).1.2 - (anoms[idx]).1.1 - 1, by omega⟩
    have hlast : (List.range' (anoms[idx]).1.1 (d + 1)).getLastD 0 = (anoms[idx]).1.1 + d := by
      rw [List.range'_concat]
      simp
    rw [hd, hlast]
    simp only [List.range'_succ, List.headD_cons]
    have : (anoms[idx]).1.1 + d + 1 = (anoms[idx]).1.2 := by omega
    rw [this]

end Skc
