/-! Executable model of the cuts validation performed by `BaseIntervalScorer.evaluate`:
    `check_cuts_array` (width, spacing), `LocalAnomalyScore._check_cuts` (inner / pooled-surroundings
    sizes) and the range check on positions.  Errors are explicit — never a default.  Core Lean only.
    (The `ndim` / integer-dtype tests concern the NumPy container and are exercised by the harness.) -/
namespace Skc

inductive CutsErr where
  | width | spacing | inner | surround | range
  deriving DecidableEq, Repr

/-- consecutive differences of a row -/
def rowDiffs : List Int → List Int
  | a :: b :: t => (b - a) :: rowDiffs (b :: t)
  | _ => []

/-- one row, standard scorers (costs, change scores, savings): width `k`, all consecutive
    differences `≥ minSize`, all entries in `[0, n]`; tests in the order of the code -/
def checkRow (n minSize k : Nat) (row : List Int) : Except CutsErr Unit :=
  if row.length ≠ k then .error .width
  else if ¬ (rowDiffs row).all (fun d => decide ((minSize : Int) ≤ d)) then .error .spacing
  else if row.any (fun c => decide (c < 0 ∨ (n : Int) < c)) then .error .range
  else .ok ()

/-- two's-complement wrap-around of a 64-bit signed integer -/
def wrap64 (x : Int) : Int := (x + 9223372036854775808) % 18446744073709551616 - 9223372036854775808

/-- consecutive differences as NumPy computes them on an int64 array -/
def rowDiffsW : List Int → List Int
  | a :: b :: t => wrap64 (b - a) :: rowDiffsW (b :: t)
  | _ => []

/-- `checkRow` with the differences taken in int64 arithmetic (what the code executes after the
    cuts have been normalised to int64) -/
def checkRowW (n minSize k : Nat) (row : List Int) : Except CutsErr Unit :=
  if row.length ≠ k then .error .width
  else if ¬ (rowDiffsW row).all (fun d => decide ((minSize : Int) ≤ d)) then .error .spacing
  else if row.any (fun c => decide (c < 0 ∨ (n : Int) < c)) then .error .range
  else .ok ()

/-- one row, `LocalAnomalyScore`: width 4, strictly increasing, inner interval `≥ minSize`,
    pooled surroundings `≥ minSize`, range -/
def checkRowLocal (n minSize : Nat) (row : List Int) : Except CutsErr Unit :=
  match row with
  | [s, a, b, e] =>
    if ¬ (1 ≤ a - s ∧ 1 ≤ b - a ∧ 1 ≤ e - b) then .error .spacing
    else if ¬ ((minSize : Int) ≤ b - a) then .error .inner
    else if ¬ ((minSize : Int) ≤ (a - s) + (e - b)) then .error .surround
    else if s < 0 ∨ (n : Int) < e ∨ a < 0 ∨ (n : Int) < a ∨ b < 0 ∨ (n : Int) < b ∨ e < 0 ∨ (n : Int) < s
      then .error .range
    else .ok ()
  | _ => .error .width

/-- a batch is accepted iff every row is -/
def checkCuts (rowCheck : List Int → Except CutsErr Unit) : List (List Int) → Except CutsErr Unit
  | [] => .ok ()
  | r :: rs => match rowCheck r with
    | .error e => .error e
    | .ok () => checkCuts rowCheck rs

end Skc
