import Skc.Model.Greedy
/-! Executable models of the (repaired) seeded-interval layout, `run_seeded_binseg`,
    `run_circular_binseg`, `moving_window_transform`. Core Lean only. -/
namespace Skc
variable {α : Type}

/-- ceil((n - len)/step) for `len ≤ n`, `step ≥ 1` -/
def nSteps (n len step : Nat) : Nat := (n - len + step - 1) / step

/-- one block of `make_seeded_intervals` for a given length and step: `n_steps + 1` shifted
    intervals clipped at `n`; the last one is moved to `[n - minLen, n)` when clipping left it
    shorter than `minLen` (the code appends all of them and then repairs `starts[-1]`). -/
def seededBlock (n minLen len step : Nat) : List (Nat × Nat) :=
  let k := nSteps n len step
  let body := (List.range k).map (fun i => (i * step, min (i * step + len) n))
  let s := k * step
  let e := min (k * step + len) n
  body ++ [if e - s < minLen then (n - minLen, e) else (s, e)]

def seededFrom (n minLen : Nat) (schedule : List (Nat × Nat)) : List (Nat × Nat) :=
  schedule.flatMap (fun ls => seededBlock n minLen ls.1 ls.2)

section
variable [LT α] [DecidableLT α] [Zero α]

/-- per-interval best split: first argmax of `cs start k end` over `start+m ≤ k ≤ end-m` -/
def amoc (cs : Nat → Nat → Nat → α) (m : Nat) (iv : Nat × Nat) : Option (Nat × α) :=
  let lo := iv.1 + m
  let cnt := iv.2 - m + 1 - lo          -- number of admissible splits
  if cnt = 0 then none
  else
    let k := argmaxRange (fun k => cs iv.1 k iv.2) (lo + 1) (cnt - 1) lo
    some (k, cs iv.1 k iv.2)

/-- `run_seeded_binseg`: (table rows, sorted changepoints); `none` = "argmax of an empty sequence" -/
def runSbs (cs : Nat → Nat → Nat → α) (m : Nat) (thr : α) (ivs : List (Nat × Nat)) :
    Option (List (Nat × α) × List Nat) :=
  match mapOpt (amoc cs m) ivs with
  | none => none
  | some rows =>
    let trip := (ivs.zip rows).map (fun (iv, r) => (iv.1, iv.2, r.1))
    let picks := greedyPicks trip thr ivs.length (rows.map (·.2))
    some (rows, picks.mergeSort (fun a b => decide (a ≤ b)))

/-- `make_anomaly_intervals` -/
def anomalyIntervals (s e m : Nat) : List (Nat × Nat) :=
  (List.range' (s + 1) (e - m + 2 - (s + 1))).flatMap (fun i =>
    ((List.range' (i + m) (e - (i + m))).filter (fun j => decide (m ≤ e - j + i - s))).map (fun j => (i, j)))

/-- first argmax of `f` over a non-empty list of candidates -/
def argmaxCands (f : Nat × Nat → α) : List (Nat × Nat) → Option ((Nat × Nat) × α)
  | [] => none
  | c :: l => some (l.foldl (fun (b : (Nat × Nat) × α) c => if b.2 < f c then (c, f c) else b) (c, f c))

/-- circular binary segmentation: pick `i` kills every candidate interval that overlaps the inner
    interval of `i` (`anomaly_end > starts ∧ anomaly_start < ends`) -/
def killOverlap (ivs inner : List (Nat × Nat)) (i j : Nat) : Bool :=
  let a := inner.getD i (0, 0)
  let iv := ivs.getD j (0, 0)
  decide (iv.1 < a.2 ∧ a.1 < iv.2)

/-- greedy anomaly selection with overlap removal; picks in order -/
def greedyAnoms (ivs inner : List (Nat × Nat)) (thr : α) (fuel : Nat) (scores : List α) : List (Nat × Nat) :=
  (greedyGen (killOverlap ivs inner) thr fuel scores).map (fun i => inner.getD i (0, 0))

/-- one row of `run_circular_binseg`'s table: best inner interval of a candidate and its score
    (repaired: candidate-less intervals are skipped with score 0 and argmax (0,0)) -/
def cbsRow (las : Nat → Nat → Nat → Nat → α) (m : Nat) (iv : Nat × Nat) : (Nat × Nat) × α :=
  match argmaxCands (fun c => las iv.1 c.1 c.2 iv.2) (anomalyIntervals iv.1 iv.2 m) with
  | none => ((0, 0), (0 : α))
  | some r => r

/-- `run_circular_binseg` -/
def runCbs (las : Nat → Nat → Nat → Nat → α) (m : Nat) (thr : α) (ivs : List (Nat × Nat)) :
    List ((Nat × Nat) × α) × List (Nat × Nat) :=
  let rows := ivs.map (cbsRow las m)
  let picks := greedyAnoms ivs (rows.map (·.1)) thr ivs.length (rows.map (·.2))
  (rows, picks.mergeSort (fun a b => decide (a.1 < b.1 ∨ (a.1 = b.1 ∧ a.2 ≤ b.2))))

/-- `moving_window_transform` (repaired: left edge `t - b`; `off = 1` is the pinned code) -/
def mwScores (cs : Nat → Nat → Nat → α) (n b off : Nat) : Nat → α :=
  fun t => if b ≤ t ∧ t + b ≤ n then cs (t - b + off) t (t + b) else 0
end
end Skc
