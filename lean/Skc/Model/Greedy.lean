import Skc.Model.Basic
/-! Executable models: `where` (runs of True), `get_moving_window_changepoints`,
    `greedy_changepoint_selection`. Core Lean only. -/
namespace Skc
variable {α : Type}

/-- `skchange.utils.numba.general.where`: maximal runs `[start,end)` of `true`. `i` = current
    position, `open_` = start of the currently open run. -/
def whereRunsAux : List Bool → Nat → Option Nat → List (Nat × Nat)
  | [], i, some s => [(s, i)]
  | [], _, none => []
  | true :: l, i, none => whereRunsAux l (i + 1) (some i)
  | true :: l, i, some s => whereRunsAux l (i + 1) (some s)
  | false :: l, i, some s => (s, i) :: whereRunsAux l (i + 1) none
  | false :: l, i, none => whereRunsAux l (i + 1) none
def whereRuns (ind : List Bool) : List (Nat × Nat) := whereRunsAux ind 0 none

section
variable [LT α] [DecidableLT α]
/-- `get_moving_window_changepoints` -/
def mwCpts (scores : Nat → α) (n : Nat) (thr : α) (mdi : Nat) : List Nat :=
  let runs := whereRuns ((List.range n).map (fun t => decide (thr < scores t)))
  (runs.filter (fun r => decide (mdi ≤ r.2 - r.1))).map
    (fun r => argmaxRange scores (r.1 + 1) (r.2 - r.1 - 1) r.1)

variable [Zero α]
/-- zero the scores of the candidates killed by pick `i` -/
def killScores (kill : Nat → Nat → Bool) (i : Nat) : Nat → List α → List α
  | _, [] => []
  | j, sc :: l => (if kill i j then 0 else sc) :: killScores kill i (j + 1) l

/-- The greedy loop shared by `greedy_changepoint_selection` and `greedy_anomaly_selection`:
    while the best remaining score exceeds the threshold, pick its (first) index `i` and zero the
    score of every candidate `j` with `kill i j`.  Returns the picked indices in pick order. -/
def greedyGen (kill : Nat → Nat → Bool) (thr : α) : Nat → List α → List Nat
  | 0, _ => []
  | fuel + 1, scores =>
    match argmaxList scores 0 none with
    | none => []
    | some (i, v) =>
      if thr < v then i :: greedyGen kill thr fuel (killScores kill i 0 scores) else []

/-- seeded binary segmentation: pick `i` kills every interval containing the maximiser of `i`.
    `ivs` = (start, end, maximiser) per interval. -/
def killCpt (ivs : List (Nat × Nat × Nat)) (i j : Nat) : Bool :=
  let cpt := (ivs.getD i (0, 0, 0)).2.2
  let iv := ivs.getD j (0, 0, 0)
  decide (iv.1 ≤ cpt ∧ cpt + 1 ≤ iv.2.1)

/-- `greedy_changepoint_selection` before the final sort: the picks in the order they are made. -/
def greedyPicks (ivs : List (Nat × Nat × Nat)) (thr : α) (fuel : Nat) (scores : List α) : List Nat :=
  (greedyGen (killCpt ivs) thr fuel scores).map (fun i => (ivs.getD i (0, 0, 0)).2.2)
end
end Skc
