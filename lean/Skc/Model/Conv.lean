/-! Executable models of the (repaired, position-based) sparse↔dense conversions of
    `CollectiveAnomalyDetector` and `ChangeDetector`. Core Lean only. -/
namespace Skc

/-- `CollectiveAnomalyDetector.sparse_to_dense`: label of position `i` = 1 + index of the interval
    containing it, 0 if none (pandas `IntervalIndex.get_indexer`, left-closed). -/
def labelAt : List (Nat × Nat) → Nat → Nat → Nat
  | [], _, _ => 0
  | (s, e) :: rest, k, i => if s ≤ i ∧ i < e then k + 1 else labelAt rest (k + 1) i

def collS2D (anoms : List (Nat × Nat)) (n : Nat) : List Nat :=
  (List.range n).map (labelAt anoms 0)

/-- `CollectiveAnomalyDetector.dense_to_sparse` (repaired): maximal runs of equal positive labels.
    `i` = current position, `open_` = (start, label) of the open run. -/
def collD2SAux : List Nat → Nat → Option (Nat × Nat) → List (Nat × Nat)
  | [], _, none => []
  | [], i, some (s, _) => [(s, i)]
  | l :: ls, i, none =>
      if 0 < l then collD2SAux ls (i + 1) (some (i, l)) else collD2SAux ls (i + 1) none
  | l :: ls, i, some (s, lab) =>
      if l = lab then collD2SAux ls (i + 1) (some (s, lab))
      else (s, i) :: (if 0 < l then collD2SAux ls (i + 1) (some (i, l)) else collD2SAux ls (i + 1) none)

def collD2S (labels : List Nat) : List (Nat × Nat) := collD2SAux labels 0 none

/-- `ChangeDetector.sparse_to_dense`: segment number of position `i` = number of changepoints ≤ i
    (for increasing changepoints this is what the sequential slice assignment produces). -/
def cpS2D (cps : List Nat) (n : Nat) : List Nat :=
  (List.range n).map (fun i => (cps.filter (· ≤ i)).length)

/-- `ChangeDetector.dense_to_sparse` (repaired): positions where the label differs from the previous one -/
def cpD2SAux : List Nat → Nat → Nat → List Nat
  | [], _, _ => []
  | l :: ls, i, prev => if l = prev then cpD2SAux ls (i + 1) l else i :: cpD2SAux ls (i + 1) l
def cpD2S : List Nat → List Nat
  | [] => []
  | l :: ls => cpD2SAux ls 1 l

end Skc

namespace Skc

/-- `SubsetCollectiveAnomalyDetector.sparse_to_dense`: anomaly `k` writes label `k+1` on its rows
    and affected columns, in list order (later anomalies overwrite earlier ones). -/
def subLabelAt : List ((Nat × Nat) × List Nat) → Nat → Nat → Nat → Nat
  | [], _, _, _ => 0
  | ((s, e), cols) :: rest, k, i, j =>
      let later := subLabelAt rest (k + 1) i j
      if later ≠ 0 then later else if s ≤ i ∧ i < e ∧ cols.contains j then k + 1 else 0

def subS2D (anoms : List ((Nat × Nat) × List Nat)) (n p : Nat) : List (List Nat) :=
  (List.range n).map (fun i => (List.range p).map (fun j => subLabelAt anoms 0 i j))

/-- indices `i` with `f i = true`, `i < n`, increasing -/
def whichIdx (n : Nat) (f : Nat → Bool) : List Nat := (List.range n).filter f

/-- `SubsetCollectiveAnomalyDetector.dense_to_sparse`: for every positive label value, in
    increasing order: (first row with it, last row with it + 1), columns containing it. -/
def subD2S (lab : List (List Nat)) (p : Nat) : List ((Nat × Nat) × List Nat) :=
  let n := lab.length
  let mx := lab.flatten.foldl max 0
  let vals := (List.range (mx + 1)).filter (fun v => decide (0 < v) && lab.flatten.contains v)
  vals.map (fun v =>
    let rows := whichIdx n (fun i => (lab.getD i []).contains v)
    let cols := whichIdx p (fun j => lab.any (fun row => row.getD j 0 == v))
    ((rows.headD 0, rows.getLastD 0 + 1), cols))

end Skc
