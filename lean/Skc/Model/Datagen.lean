/-! Executable model of `skchange.datasets.generate`: in-place, slice-wise affine transforms of a
    standard-normal draw `z` (one column; the code broadcasts per-column means / standard
    deviations, i.e. applies the same placement to every column), argument validation, and the
    ideal evenly spaced outlier rows.  Core Lean only. -/
namespace Skc
variable {α : Type}

/-- one segment: rows `[s, e)`, mean `m`, standard deviation `sd` (= `sqrt(variance)`) -/
structure Seg (α : Type) where
  s : Nat
  e : Nat
  m : α
  sd : α

/-- `x[s:e] = m + sd * x[s:e]`, segment by segment in list order -/
def applySegs [Add α] [Mul α] (z : Nat → α) : List (Seg α) → Nat → α
  | [] => z
  | g :: rest => applySegs (fun i => if g.s ≤ i ∧ i < g.e then g.m + g.sd * z i else z i) rest

/-- segments of `generate_changing_data`: `[0,c₁), [c₁,c₂), …, [c_k, n)` with their parameters -/
def changingSegs (n : Nat) : Nat → List Nat → List (α × α) → List (Seg α)
  | s, [], (m, sd) :: _ => [⟨s, n, m, sd⟩]
  | s, c :: cs, (m, sd) :: ps => ⟨s, c, m, sd⟩ :: changingSegs n c cs ps
  | _, _, [] => []

/-- validation of `generate_changing_data` (after scalar arguments were broadcast to lists):
    number of segments = number of means = number of variances; changepoints in `[0, n-1]` -/
def validChanging (n : Nat) (cps : List Int) (nMeans nVars : Nat) : Bool :=
  decide (nMeans = cps.length + 1) && decide (nVars = cps.length + 1) &&
    cps.all (fun c => decide (0 ≤ c ∧ c ≤ (n : Int) - 1))

/-- validation of `generate_anomalous_data`: one mean / variance per anomaly, `start < end`,
    `0 ≤ start`, `end ≤ n` -/
def validAnomalous (n : Nat) (anoms : List (Int × Int)) (nMeans nVars : Nat) : Bool :=
  decide (nMeans = anoms.length) && decide (nVars = anoms.length) &&
    anoms.all (fun a => decide (a.1 < a.2 ∧ 0 ≤ a.1 ∧ a.2 ≤ (n : Int)))

/-- ideal evenly spaced outlier rows `⌊i (n-1) / (k-1)⌋`, `i < k` (the code computes them in floating
    point with `np.linspace(..., dtype=int)`; the driver mirrors that computation in `Float`) -/
def linspaceRows (n k : Nat) : List Nat :=
  (List.range k).map (fun i => if k ≤ 1 then 0 else i * (n - 1) / (k - 1))

end Skc
