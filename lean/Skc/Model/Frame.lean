/-! Model of the container-handling layer (C11): what `check_series` / `check_data` /
    `as_2d_array` / `transform` do with the *labels* of their input.  Index labels `ι` and column
    labels `κ` are arbitrary types, values are rationals (integer and float dtypes holding the same
    numbers denote the same rationals).  Core Lean only. -/
namespace Skc

/-- the ways the same numbers can be passed in -/
inductive Input (ι κ : Type) where
  | array2d (vals : List (List Rat))
  | array1d (col : List Rat)                                  -- univariate only
  | series (idx : List ι) (col : List Rat)                    -- univariate only
  | frame (idx : List ι) (cols : List κ) (vals : List (List Rat))

/-- `check_data(...).values` / `as_2d_array`: the value matrix (rows of columns) -/
def Input.values {ι κ : Type} : Input ι κ → List (List Rat)
  | .array2d v => v
  | .array1d c => c.map (fun x => [x])
  | .series _ c => c.map (fun x => [x])
  | .frame _ _ v => v

/-- the index `transform` attaches to its dense output: the input's own, positions for arrays -/
def Input.index {ι κ : Type} : Input ι κ → List (ι ⊕ Nat)
  | .array2d v => (List.range v.length).map Sum.inr
  | .array1d c => (List.range c.length).map Sum.inr
  | .series i _ => i.map Sum.inl
  | .frame i _ _ => i.map Sum.inl

/-- detection works on the values only; sparse outputs are positions -/
def detectSparse {ι κ ο : Type} (detect : List (List Rat) → ο) (x : Input ι κ) : ο := detect x.values

/-- `transform`: dense labels computed from positions, re-attached to the input's index -/
def detectDense {ι κ : Type} (dense : List (List Rat) → List Nat) (x : Input ι κ) :
    List ((ι ⊕ Nat) × Nat) :=
  x.index.zip (dense x.values)

/-- relabelling of index and columns -/
def Input.relabel {ι κ ι' κ' : Type} (f : ι → ι') (g : κ → κ') : Input ι κ → Input ι' κ'
  | .array2d v => .array2d v
  | .array1d c => .array1d c
  | .series i c => .series (i.map f) c
  | .frame i cs v => .frame (i.map f) (cs.map g) v

end Skc
