import Skc.Model.Basic
/-! Executable model of the (repaired) `run_base_capa` + `get_anomalies`, abstracted over the
    penalised savings: `PS s e` = penalised collective saving of `[s,e)`, `PP t` = penalised point
    saving of `[t,t+1)`, `K` = `collective_alpha + collective_betas.sum()`. -/
namespace Skc
variable {α : Type}



structure CapaSt (α : Type) where
  opt : Nat → α                 -- opt_savings, index = prefix length
  astart : Nat → Option Nat     -- opt_anomaly_starts (nan = none)
  starts : List Nat
  pending : List (List Nat)

variable [Add α] [Zero α] [LT α] [DecidableLT α] [LE α] [DecidableLE α]

def capaInit : CapaSt α :=
  { opt := fun _ => 0, astart := fun _ => none, starts := [], pending := [] }

/-- one iteration, `t` = current observation index, `e = t+1` -/
def capaStep (pick : (Nat → α) → List Nat → Nat) (pr : α → α → Bool)
    (PS : Nat → Nat → α) (PP : Nat → α) (K : α) (m M delay : Nat)
    (st : CapaSt α) (t : Nat) : CapaSt α :=
  let e := t + 1
  let starts := if m ≤ e then st.starts ++ [e - m] else st.starts
  let cand : Nat → α := fun s => st.opt s + PS s e
  let best := pick cand starts
  let vNone := st.opt t
  let vPoint := st.opt t + PP t
  -- np.argmax([none, collective, point]) : first maximiser
  let collWins : Prop := starts ≠ [] ∧ vNone < cand best ∧ ¬ (cand best < vPoint)
  let v := if collWins then cand best else if vNone < vPoint then vPoint else vNone
  let a : Option Nat := if collWins then some best else if vNone < vPoint then some t else none
  let prune := starts.filter (fun s => pr (cand s + K) v)
  let pending := st.pending ++ [prune]
  let now := if pending.length > delay then pending.headD [] else []
  let pending' := if pending.length > delay then pending.tail else pending
  let starts1 := starts.filter (fun s => ¬ now.contains s)
  let starts2 := starts1.filter (fun s => ¬ (s + M ≤ e))
  { opt := upd st.opt e v, astart := upd st.astart t a, starts := starts2, pending := pending' }

def capaIterG (pick : (Nat → α) → List Nat → Nat) (pr : α → α → Bool)
    (PS : Nat → Nat → α) (PP : Nat → α) (K : α) (m M delay : Nat) : Nat → CapaSt α
  | 0 => capaInit
  | t + 1 => capaStep pick pr PS PP K m M delay (capaIterG pick pr PS PP K m M delay t) t

/-- `get_anomalies` (repaired: point anomaly `(i, i+1)`); `i1 = i + 1`; newest-first accumulation,
    so the result is increasing. Returns all anomalies as `(start, end)`. -/
def getAnoms (astart : Nat → Option Nat) : Nat → Nat → List (Nat × Nat) → List (Nat × Nat)
  | 0, _, acc => acc
  | _, 0, acc => acc
  | fuel + 1, i + 1, acc =>
    match astart i with
    | none => getAnoms astart fuel i acc
    | some s =>
      if s < i then getAnoms astart fuel s ((s, i + 1) :: acc)      -- collective: i := s - 1
      else if s = i then getAnoms astart fuel i ((i, i + 1) :: acc) -- point
      else getAnoms astart fuel i acc

/-- the policy family: `pick` = selector used for `np.argmax` over the starts (first maximiser in the
    code), `pr x v` = pruning test on `x = candidate + slack` against the new optimum `v` (code:
    `x < v`) -/
def runCapaG (pick : (Nat → α) → List Nat → Nat) (pr : α → α → Bool)
    (PS : Nat → Nat → α) (PP : Nat → α) (K : α) (m M delay n : Nat) :
    (Nat → α) × List (Nat × Nat) :=
  let st := capaIterG pick pr PS PP K m M delay n
  (st.opt, getAnoms st.astart (n + 1) n [])

/-- the code's pruning test: `candidate + slack < optimum` -/
def prLt : α → α → Bool := fun x v => decide (x < v)

/-- the instance that mirrors `run_base_capa`: first maximiser, strict pruning test -/
def capaIter (PS : Nat → Nat → α) (PP : Nat → α) (K : α) (m M delay : Nat) : Nat → CapaSt α :=
  capaIterG argmaxL prLt PS PP K m M delay
def runCapa (PS : Nat → Nat → α) (PP : Nat → α) (K : α) (m M delay n : Nat) :
    (Nat → α) × List (Nat × Nat) :=
  runCapaG argmaxL prLt PS PP K m M delay n

end Skc
