/-! Abstract object-heap state machine for call histories on detectors and scorers (C10).
    Values are opaque identifiers: `Params` a hyper-parameter setting, `Data` a dataset.  Detection /
    evaluation themselves are uninterpreted functions of exactly the things the property names.
    What the model captures is the *state handling* of the code: detectors hold a reference to a
    scorer object (possibly shared), `predict` first refits the referenced scorer on its argument,
    `fit` stores the training data and the fitted parameters, `update` combines the remembered
    training data with the new chunk and refits, `set_params` resets the fit; calls that raise leave the
    object not fitted (`fit`) or unchanged (`update`).  Core Lean only. -/
namespace Skc

abbrev Params := Nat
abbrev Data := Nat

structure ScorerObj where
  params : Params
  fitted : Option Data            -- data of the scorer's last fit (by anyone)

structure DetObj where
  params : Params
  scorer : Nat                    -- heap id of the scorer object it holds (shared ids allowed)
  train : Option Data             -- remembered training data (`_X`)
  fittedOn : Option (Params × Params × Data)  -- what the fitted attributes were computed from
  scores : Option Nat             -- last stored `scores` attribute (an opaque output id)

structure Heap where
  scorers : Nat → ScorerObj
  dets : Nat → DetObj

inductive Op where
  | fit (d : Nat) (X : Data)
  | update (d : Nat) (X : Data)
  | predict (d : Nat) (X : Data)
  | transformScores (d : Nat) (X : Data)
  | setParams (d : Nat) (p : Params)
  | setScorerParams (s : Nat) (p : Params)
  | scorerFit (s : Nat) (X : Data)
  | scorerEval (s : Nat) (cuts : Nat)
  /-- calls that raise: a `fit` rejected inside `_fit` (after the data were taken), an `update` whose batch is rejected,
      a scorer `fit` that is rejected -/
  | fitRejected (d : Nat) (X : Data)
  | updateRejected (d : Nat) (X : Data)
  | scorerFitRejected (s : Nat) (X : Data)

/-- uninterpreted semantics, as functions of exactly what the property allows results to depend on -/
structure Sem where
  combine : Data → Data → Data                          -- `X_new.combine_first(X_old)`
  /-- det params, scorer params at fit time (tuned threshold), scorer params now, training data, input -/
  detect : Params → Params → Params → Data → Data → Nat
  score : Params → Params → Params → Data → Data → Nat
  eval : Params → Data → Nat → Nat                       -- scorer params, fit data, cuts

def updS (f : Nat → ScorerObj) (i : Nat) (v : ScorerObj) : Nat → ScorerObj := fun k => if k = i then v else f k
def updD (f : Nat → DetObj) (i : Nat) (v : DetObj) : Nat → DetObj := fun k => if k = i then v else f k

/-- one public call: new heap and the returned value (`none` = the call raises "not fitted") -/
def step (sem : Sem) (h : Heap) : Op → Heap × Option Nat
  | .fit d X =>
    let o := h.dets d
    let sp := (h.scorers o.scorer).params
    ({ h with dets := updD h.dets d { o with train := some X, fittedOn := some (o.params, sp, X) } }, some 0)
  | .update d X =>
    let o := h.dets d
    match o.train with
    | none => (h, none)
    | some old =>
      let all := sem.combine X old
      let sp := (h.scorers o.scorer).params
      ({ h with dets := updD h.dets d { o with train := some all, fittedOn := some (o.params, sp, all) } }, some 0)
  | .predict d X =>
    let o := h.dets d
    match o.fittedOn with
    | none => (h, none)
    | some (dp, sp, tr) =>
      let s := h.scorers o.scorer
      let out := sem.detect dp sp s.params tr X
      ({ scorers := updS h.scorers o.scorer { s with fitted := some X },
         dets := updD h.dets d { o with scores := some (sem.score dp sp s.params tr X) } }, some out)
  | .transformScores d X =>
    let o := h.dets d
    match o.fittedOn with
    | none => (h, none)
    | some (dp, sp, tr) =>
      let s := h.scorers o.scorer
      let out := sem.score dp sp s.params tr X
      ({ scorers := updS h.scorers o.scorer { s with fitted := some X },
         dets := updD h.dets d { o with scores := some out } }, some out)
  | .setParams d p =>
    let o := h.dets d
    ({ h with dets := updD h.dets d { o with params := p, fittedOn := none, train := none } }, some 0)
  | .setScorerParams s p =>
    let o := h.scorers s
    ({ h with scorers := updS h.scorers s { o with params := p, fitted := none } }, some 0)
  | .scorerFit s X =>
    let o := h.scorers s
    ({ h with scorers := updS h.scorers s { o with fitted := some X } }, some 0)
  | .scorerEval s cuts =>
    let o := h.scorers s
    match o.fitted with
    | none => (h, none)
    | some X => (h, some (sem.eval o.params X cuts))
  | .fitRejected d X =>
    -- the object is marked as not fitted before anything else happens (repair #28); the data reference is replaced
    let o := h.dets d
    ({ h with dets := updD h.dets d { o with train := some X, fittedOn := none } }, none)
  | .updateRejected _ _ => (h, none)          -- the remembered data are restored (repair #29): nothing changes
  | .scorerFitRejected s _ =>
    let o := h.scorers s
    ({ h with scorers := updS h.scorers s { o with fitted := none } }, none)

/-- run a history; outputs in call order -/
def runHist (sem : Sem) : Heap → List Op → List (Option Nat)
  | _, [] => []
  | h, op :: rest => (step sem h op).2 :: runHist sem (step sem h op).1 rest

end Skc
