import Skc.Model.Basic
/-! Executable model of `penalise_savings` (repaired: `elif`) and `find_affected_components`. -/
namespace Skc
variable {α : Type}

variable [Add α] [Sub α] [Zero α] [LT α] [DecidableLT α] [LE α] [DecidableLE α] [DecidableEq α]

/-- columns ordered by decreasing saving (a stable sort; numpy's order among ties is unspecified) -/
def orderDesc (sav : List α) : List (Nat × α) :=
  (sav.zipIdx.map (fun (v, i) => (i, v))).mergeSort (fun a b => decide (b.2 ≤ a.2))

/-- the general branch: best prefix of the decreasingly sorted savings -/
def penGeneral (sav : List α) (alpha : α) (betas : List α) : Nat × α :=
  let sorted := (orderDesc sav).map (·.2)
  let ps := (cumsumFrom 0 (List.zipWith (· - ·) sorted betas)).map (· - alpha)
  argmaxIdx ps (0 - alpha)

def penalise (eps : α) (sav : List α) (alpha : α) (betas : List α) : α :=
  if betas.all (fun b => decide (b < eps)) then sumL sav - alpha
  else if betas.all (fun b => decide (b = betas.headD 0)) then
    sumL (sav.map (fun s => if s - betas.headD 0 < 0 then 0 else s - betas.headD 0)) - alpha
  else (penGeneral sav alpha betas).2

/-- `find_affected_components`: the first `argmax+1` columns in decreasing order of saving -/
def findAffected (sav : List α) (alpha : α) (betas : List α) : List Nat :=
  ((orderDesc sav).take ((penGeneral sav alpha betas).1 + 1)).map (·.1)

end Skc
