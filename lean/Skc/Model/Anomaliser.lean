import Skc.Model.Conv
/-! Executable model of `StatThresholdAnomaliser._predict`: the wrapped detector's changepoints are
    turned into dense segment labels (`cpS2D`), rows are grouped by label — for the non-decreasing
    segment labels the groups are the maximal runs, delimited by the positions where the label
    changes (`cpD2S`) — and a group is reported as its own interval when its statistic is below
    the lower or above the upper bound.  Core Lean only. -/
namespace Skc
variable {α : Type}

/-- the segments `[0,c₁), [c₁,c₂), …, [c_k, n)` delimited by changepoints -/
def segmentsFrom : Nat → List Nat → Nat → List (Nat × Nat)
  | s, [], n => [(s, n)]
  | s, c :: cs, n => (s, c) :: segmentsFrom c cs n

/-- groups of rows with equal label, for non-decreasing labels: runs delimited by label changes -/
def labelGroups (labels : List Nat) : List (Nat × Nat) :=
  if labels.isEmpty then [] else segmentsFrom 0 (cpD2S labels) labels.length

variable [LT α] [DecidableLT α]

/-- a segment is flagged when its statistic is out of `[lo, hi]` -/
def flagged (stat : Nat → Nat → α) (lo hi : α) (seg : Nat × Nat) : Bool :=
  decide (stat seg.1 seg.2 < lo) || decide (hi < stat seg.1 seg.2)

/-- `_predict`: via the dense labels of the wrapped detector's changepoints -/
def statAnoms (stat : Nat → Nat → α) (lo hi : α) (cps : List Nat) (n : Nat) : List (Nat × Nat) :=
  (labelGroups (cpS2D cps n)).filter (flagged stat lo hi)

end Skc
