/-! Executable model of the hyper-parameter validation in the detectors' constructors and of the
    data-length / missing-value validation in `fit` (`check_larger_than`, `check_in_interval`,
    `check_data`).  Transcribed from the code; the documented domains are stated separately in
    `Skc/Props/C14.lean`.  `none` = Python `None`.  Core Lean only. -/
namespace Skc

/-- `check_larger_than(min, value, allow_none)` -/
def geOpt (lo : Rat) (v : Option Rat) (allowNone : Bool) : Bool :=
  match v with
  | none => allowNone
  | some x => decide (lo ≤ x)

structure PeltCfg where
  penaltyScale : Option Rat
  minSeg : Rat
def PeltCfg.ctorOk (c : PeltCfg) : Bool := geOpt 0 c.penaltyScale true && decide (1 ≤ c.minSeg)
/-- `fit`: data long enough, no missing values, and a numeric scale (tuning is "not supported yet") -/
def PeltCfg.fitOk (c : PeltCfg) (n : Nat) (hasNaN : Bool) : Bool :=
  !hasNaN && decide (2 * c.minSeg ≤ (n : Rat)) && c.penaltyScale.isSome

structure MwCfg where
  bandwidth : Rat
  thresholdScale : Option Rat
  level : Rat
  minDetInt : Rat
def MwCfg.ctorOk (c : MwCfg) : Bool :=
  decide (1 ≤ c.bandwidth) && geOpt 0 c.thresholdScale true && decide (0 ≤ c.level) &&
    decide (1 ≤ c.minDetInt ∧ c.minDetInt ≤ max 1 (c.bandwidth / 2))
def MwCfg.fitOk (c : MwCfg) (n : Nat) (hasNaN : Bool) : Bool :=
  !hasNaN && decide (2 * c.bandwidth ≤ (n : Rat))

/-- seeded and circular binary segmentation share their parameter checks -/
structure BinsegCfg where
  thresholdScale : Option Rat
  level : Rat
  minSeg : Rat
  maxInterval : Rat
  growth : Rat
def BinsegCfg.ctorOk (c : BinsegCfg) : Bool :=
  geOpt 0 c.thresholdScale true && decide (0 < c.level ∧ c.level < 1) && decide (1 ≤ c.minSeg) &&
    decide (2 * c.minSeg ≤ c.maxInterval) && decide (1 < c.growth ∧ c.growth ≤ 2)
def BinsegCfg.fitOk (c : BinsegCfg) (n : Nat) (hasNaN : Bool) : Bool :=
  !hasNaN && decide (2 * c.minSeg ≤ (n : Rat))

/-- CAPA and MVCAPA share their parameter checks -/
structure CapaCfg where
  collScale : Option Rat
  pointScale : Option Rat
  minSeg : Rat
  maxSeg : Rat
def CapaCfg.ctorOk (c : CapaCfg) : Bool :=
  geOpt 0 c.collScale false && geOpt 0 c.pointScale false && decide (2 ≤ c.minSeg) &&
    decide (c.minSeg ≤ c.maxSeg)
def CapaCfg.fitOk (c : CapaCfg) (n : Nat) (hasNaN : Bool) : Bool :=
  !hasNaN && decide (c.minSeg ≤ (n : Rat))

structure StatCfg where
  lower : Rat
  upper : Rat
def StatCfg.ctorOk (c : StatCfg) : Bool := decide (c.lower ≤ c.upper)

end Skc
