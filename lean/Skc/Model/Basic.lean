/-! Shared building blocks of the executable models (core Lean only, no Mathlib):
    functional array update and the NumPy selection primitives whose tie-breaking matters
    (`argmin` / `argmax` return the FIRST optimum). -/
namespace Skc

variable {α : Type}

/-- functional array update -/
def upd {β : Type} (f : Nat → β) (i : Nat) (v : β) : Nat → β := fun k => if k = i then v else f k

section argmin
variable [LT α] [DecidableLT α]
/-- numpy `argmin` on the candidate values of a list of starts: first minimiser. -/
def argminFrom (f : Nat → α) : List Nat → Nat → Nat
  | [], b => b
  | s :: l, b => if f s < f b then argminFrom f l s else argminFrom f l b
def argminL (f : Nat → α) : List Nat → Nat
  | [] => 0
  | s :: l => argminFrom f l s

/-- last minimiser (an alternative tie-break inside the proved policy family) -/
def argminLastFrom (f : Nat → α) : List Nat → Nat → Nat
  | [], b => b
  | s :: l, b => if f b < f s then argminLastFrom f l b else argminLastFrom f l s
def argminLast (f : Nat → α) : List Nat → Nat
  | [] => 0
  | s :: l => argminLastFrom f l s

/-- numpy `argmax`: first maximiser -/
def argmaxFrom (f : Nat → α) : List Nat → Nat → Nat
  | [], b => b
  | s :: l, b => if f b < f s then argmaxFrom f l s else argmaxFrom f l b
def argmaxL (f : Nat → α) : List Nat → Nat
  | [] => 0
  | s :: l => argmaxFrom f l s

/-- last maximiser (an alternative tie-break inside the proved policy family) -/
def argmaxLastFrom (f : Nat → α) : List Nat → Nat → Nat
  | [], b => b
  | s :: l, b => if f s < f b then argmaxLastFrom f l b else argmaxLastFrom f l s
def argmaxLast (f : Nat → α) : List Nat → Nat
  | [] => 0
  | s :: l => argmaxLastFrom f l s

/-- first position of the maximum of `f` on `[i, i+len)` given the best so far `b` -/
def argmaxRange (f : Nat → α) : Nat → Nat → Nat → Nat
  | _, 0, b => b
  | i, len + 1, b => if f b < f i then argmaxRange f (i + 1) len i else argmaxRange f (i + 1) len b

/-- index of the first maximum of a list of scores (`np.argmax`), `none` for the empty list -/
def argmaxList : List α → Nat → Option (Nat × α) → Option (Nat × α)
  | [], _, b => b
  | a :: l, i, none => argmaxList l (i + 1) (some (i, a))
  | a :: l, i, some (bi, bv) =>
      if bv < a then argmaxList l (i + 1) (some (i, a)) else argmaxList l (i + 1) (some (bi, bv))

/-- first index of the maximum of a non-empty list (`np.argmax`), with the maximum -/
def argmaxIdxFrom : List α → Nat → Nat → α → Nat × α
  | [], _, bi, bv => (bi, bv)
  | a :: l, i, bi, bv => if bv < a then argmaxIdxFrom l (i + 1) i a else argmaxIdxFrom l (i + 1) bi bv
def argmaxIdx (l : List α) (dflt : α) : Nat × α :=
  match l with
  | [] => (0, dflt)
  | a :: l => argmaxIdxFrom l 1 0 a
end argmin

/-- `mapM` for `Option`, written out (proof-friendly) -/
def mapOpt {β γ : Type} (f : β → Option γ) : List β → Option (List γ)
  | [] => some []
  | b :: l =>
    match f b, mapOpt f l with
    | some c, some cs => some (c :: cs)
    | _, _ => none

def sumL [Add α] [Zero α] : List α → α
  | [] => 0
  | a :: l => a + sumL l

/-- running sums: `np.cumsum` -/
def cumsumFrom [Add α] : α → List α → List α
  | _, [] => []
  | acc, a :: l => (acc + a) :: cumsumFrom (acc + a) l

end Skc
