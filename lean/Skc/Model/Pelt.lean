import Skc.Model.Basic
/-! Executable model of `skchange.change_detectors.pelt.run_pelt` + `get_changepoints`
    (core Lean only; generic carrier).

    Parameters that span the *policy family* the theorems are proved for:
    * `pick`  – the selector used for `np.argmin` (first minimiser in the code);
    * `pr c b` – the pruning test: start with candidate value `c` is pruned against bound
      `b = opt[t+1] + penalty` (code: `c > b`);
    * `delay` – a pruning decision is applied `delay` iterations after it was taken.  The pinned
      upstream code has `delay = 0`; the repaired code queues decisions and has `delay = m - 1`. -/
namespace Skc

variable {α : Type}

structure PeltSt (α : Type) where
  opt : Nat → α
  prev : Nat → Nat
  starts : List Nat
  pending : List (List Nat)   -- prune sets decided but not yet applied (newest last)

variable [Add α] [Neg α] [Zero α]

def peltInit (cost : Nat → Nat → α) (pen : α) (m : Nat) : PeltSt α :=
  { opt := fun k => if k < m then -pen else if k < 2 * m then cost 0 k else 0
    prev := fun _ => 0
    starts := [0]
    pending := [] }

/-- one iteration of the main loop; `t` is `current_obs_ind`, `e = t + 1` the prefix length. -/
def peltStep (pick : (Nat → α) → List Nat → Nat) (pr : α → α → Bool)
    (cost : Nat → Nat → α) (pen : α) (m delay : Nat) (st : PeltSt α) (t : Nat) : PeltSt α :=
  let e := t + 1
  let starts := st.starts ++ [t - (m - 1)]
  let cand : Nat → α := fun s => st.opt s + cost s e + pen
  let best := pick cand starts
  let v := cand best
  let prune := starts.filter (fun s => pr (cand s) (v + pen))
  let pending := st.pending ++ [prune]
  let now := if pending.length > delay then pending.headD [] else []
  let pending' := if pending.length > delay then pending.tail else pending
  { opt := upd st.opt e v
    prev := upd st.prev t best
    starts := starts.filter (fun s => ¬ now.contains s)
    pending := pending' }

/-- state after `k` iterations (ends `2m, …, 2m+k-1`). -/
def peltIter (pick : (Nat → α) → List Nat → Nat) (pr : α → α → Bool)
    (cost : Nat → Nat → α) (pen : α) (m delay : Nat) : Nat → PeltSt α
  | 0 => peltInit cost pen m
  | k + 1 => peltStep pick pr cost pen m delay (peltIter pick pr cost pen m delay k) (2 * m - 1 + k)

/-- `get_changepoints`: backtrack through `prev`; `i1 = i + 1` so that termination is at 0. -/
def backtrack (prev : Nat → Nat) : Nat → Nat → List Nat → List Nat
  | 0, _, acc => acc
  | _, 0, acc => acc
  | fuel + 1, i1 + 1, acc =>
      let c := prev i1
      backtrack prev fuel c (c :: acc)

def runPelt (pick : (Nat → α) → List Nat → Nat) (pr : α → α → Bool)
    (cost : Nat → Nat → α) (pen : α) (m delay n : Nat) : (Nat → α) × List Nat :=
  let st := peltIter pick pr cost pen m delay (n + 1 - 2 * m)
  (st.opt, (backtrack st.prev (n + 1) n []).drop 1)

/-- the code's pruning test: `candidate > opt + penalty` -/
def prStrict [LT α] [DecidableLT α] : α → α → Bool := fun c b => decide (b < c)

/-- the model instance that mirrors the repaired `run_pelt` -/
def runPeltCode [LT α] [DecidableLT α] (cost : Nat → Nat → α) (pen : α) (m n : Nat) :=
  runPelt argminL prStrict cost pen m (m - 1) n

end Skc
