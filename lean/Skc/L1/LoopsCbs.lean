import Skc.Gen.Loops
import Skc.Model.Det
import Mathlib.Data.List.Basic

/-! L1 layer for route T2, circular binary segmentation: the candidate enumeration regenerated from
    `skchange/anomaly_detectors/circular_binseg.py::make_anomaly_intervals` equals the model's `anomalyIntervals`. -/
namespace Skc
open GenL

theorem anomaly_intervals_body1_eq (s e m i j : Nat) (st en : List Nat) (hj : j ≤ e) (hi : s ≤ e - j + i) :
    anomaly_intervals_body1 s e m i j st en =
      some (if m ≤ e - j + i - s then (st ++ [i], en ++ [j]) else (st, en)) := by
  have h1 : pySub e j = some (e - j) := by simp [pySub, hj]
  have h2 : pySub (e - j + i) s = some (e - j + i - s) := by simp [pySub, hi]
  by_cases hc : m ≤ e - j + i - s
  · simp [anomaly_intervals_body1, h1, h2, hc]
  · simp [anomaly_intervals_body1, h1, h2, hc]

theorem anomaly_intervals_loop1_eq (s e m i : Nat) (hi : s ≤ i) :
    ∀ (js : List Nat) (st en : List Nat), (∀ j ∈ js, j ≤ e) →
      anomaly_intervals_loop1 s e m i js (st, en) =
        some (st ++ (js.filter (fun j => decide (m ≤ e - j + i - s))).map (fun _ => i),
              en ++ js.filter (fun j => decide (m ≤ e - j + i - s)))
  | [], st, en, _ => by simp [anomaly_intervals_loop1]
  | j :: rest, st, en, h => by
    have hj : j ≤ e := h j (by simp)
    have hrest : ∀ j' ∈ rest, j' ≤ e := fun j' hj' => h j' (by simp [hj'])
    simp only [anomaly_intervals_loop1, anomaly_intervals_body1_eq s e m i j st en hj (by omega), Option.bind_some]
    by_cases hc : m ≤ e - j + i - s
    · simp only [hc, if_true]
      rw [anomaly_intervals_loop1_eq s e m i hi rest _ _ hrest]
      simp [hc]
    · simp only [hc, if_false]
      rw [anomaly_intervals_loop1_eq s e m i hi rest _ _ hrest]
      simp [hc]

/-- the inner candidates of one start `i`, as the model lists them -/
def innerOf (s e m i : Nat) : List Nat :=
  (List.range' (i + m) (e - (i + m))).filter (fun j => decide (m ≤ e - j + i - s))

theorem anomaly_intervals_body0_eq (s e m i : Nat) (st en : List Nat) (hi : s ≤ i) :
    anomaly_intervals_body0 s e m i st en =
      some (st ++ (innerOf s e m i).map (fun _ => i), en ++ innerOf s e m i) := by
  have hmem : ∀ j ∈ List.range' (i + m) (e - (i + m)), j ≤ e := by
    intro j hj
    have := List.mem_range'_1.1 hj
    omega
  simp [anomaly_intervals_body0, anomaly_intervals_loop1_eq s e m i hi _ st en hmem, innerOf]

theorem anomaly_intervals_loop0_eq (s e m : Nat) :
    ∀ (is : List Nat) (st en : List Nat), (∀ i ∈ is, s ≤ i) →
      anomaly_intervals_loop0 s e m is (st, en) =
        some (st ++ is.flatMap (fun i => (innerOf s e m i).map (fun _ => i)), en ++ is.flatMap (fun i => innerOf s e m i))
  | [], st, en, _ => by simp [anomaly_intervals_loop0]
  | i :: rest, st, en, h => by
    have hi : s ≤ i := h i (by simp)
    have hrest : ∀ i' ∈ rest, s ≤ i' := fun i' hi' => h i' (by simp [hi'])
    simp only [anomaly_intervals_loop0, anomaly_intervals_body0_eq s e m i st en hi, Option.bind_some]
    rw [anomaly_intervals_loop0_eq s e m rest _ _ hrest]
    simp [List.flatMap_cons, List.append_assoc]

/-- **route T2, `make_anomaly_intervals`**: for `min_segment_length ≤ interval_end` (the detector only calls it on
    intervals of at least `2 · min_segment_length` rows) the function regenerated from the source never fails and
    returns exactly the model's candidate list, as its arrays of starts and of ends -/
theorem gen_anomaly_intervals_eq_model (s e m : Nat) (hm : m ≤ e) :
    anomaly_intervals s e m =
      some ((anomalyIntervals s e m).map Prod.fst, (anomalyIntervals s e m).map Prod.snd) := by
  have h1 : pySub e m = some (e - m) := by simp [pySub, hm]
  have hmem : ∀ i ∈ List.range' (s + 1) (e - m + 1 - s), s ≤ i := by
    intro i hi
    have := List.mem_range'_1.1 hi
    omega
  have hl := anomaly_intervals_loop0_eq s e m (List.range' (s + 1) (e - m + 1 - s)) [] [] hmem
  have hlen : e - m + 2 - (s + 1) = e - m + 1 - s := by omega
  simp only [anomaly_intervals, h1]
  simp [hl, anomalyIntervals, innerOf, List.map_flatMap, Function.comp_def, hlen]

/-- kernel evaluation of the generated definition on a concrete candidate (`m ≤ e` holds: `1 ≤ 5`) -/
example : anomaly_intervals 0 5 1 = some ([1, 1, 1, 2, 2, 3], [2, 3, 4, 3, 4, 4]) := by decide

end Skc
