import Skc.Gen.Loops
import Skc.Model.Pelt
import Skc.Lemmas.PeltSpec
import Skc.Props.C02
import Mathlib.Data.List.Basic
import Mathlib.Tactic.Ring

/-! L1 layer for route T2, PELT: the back-tracking function regenerated from
    `skchange/change_detectors/pelt.py::get_changepoints` equals the model's `backtrack`. -/
namespace Skc
open GenL

theorem pelt_changepoints_body0_eq (prev : Nat → Nat) (n : Nat) (cps : List Nat) (j : Nat) (hj : j < n) :
    pelt_changepoints_body0 prev n cps (j : Int) = some (cps ++ [prev j], ((prev j : Nat) : Int) - 1) := by
  have : pyIndex prev n (j : Int) = some (prev j) := by
    simp [pyIndex, hj]
  simp [pelt_changepoints_body0, this]

/-- the `while` loop from position `i = i1 - 1` with the visited list `cps`: with enough fuel it ends at `i = -1`
    and what it has visited, reversed, is what the model's `backtrack` accumulates -/
theorem pelt_changepoints_loop0_spec (prev : Nat → Nat) (n : Nat) (h : ∀ i, i < n → prev i ≤ i) :
    ∀ (i1 fuel fuelM : Nat) (cps : List Nat), i1 ≤ n → i1 + 1 ≤ fuel → i1 ≤ fuelM →
      ∃ cps', pelt_changepoints_loop0 prev n fuel (cps, (i1 : Int) - 1) = some (cps', -1) ∧
        cps'.reverse = backtrack prev fuelM i1 cps.reverse := by
  intro i1
  induction i1 using Nat.strong_induction_on with
  | _ i1 ih =>
    intro fuel fuelM cps hn hf hfm
    obtain ⟨f, rfl⟩ : ∃ f, fuel = f + 1 := ⟨fuel - 1, by omega⟩
    cases i1 with
    | zero =>
      refine ⟨cps, ?_, ?_⟩
      · simp [pelt_changepoints_loop0]
      · cases fuelM <;> simp [backtrack]
    | succ j =>
      obtain ⟨fm, rfl⟩ : ∃ fm, fuelM = fm + 1 := ⟨fuelM - 1, by omega⟩
      have hj : j < n := by omega
      have hpj := h j hj
      have hi : ((j + 1 : Nat) : Int) - 1 = (j : Int) := by push_cast; ring
      obtain ⟨cps', h1, h2⟩ := ih (prev j) (by omega) f fm (cps ++ [prev j]) (by omega) (by omega) (by omega)
      refine ⟨cps', ?_, ?_⟩
      · rw [hi]
        simp only [pelt_changepoints_loop0]
        have hc : decide ((j : Int) ≥ ((0 : Nat) : Int)) = true := by simp
        rw [if_pos hc, pelt_changepoints_body0_eq prev n cps j hj, Option.bind_some]
        exact h1
      · rw [h2]
        simp [backtrack]

/-- **route T2, `get_changepoints`**: for back-pointers that point backwards (`prev i ≤ i`, which PELT's recursion
    guarantees) the function regenerated from the source never fails, stays within its iteration bound, and
    returns exactly the model's back-tracked changepoints (the artificial changepoint 0 removed) -/
theorem gen_pelt_changepoints_eq_model (prev : Nat → Nat) (n : Nat) (h : ∀ i, i < n → prev i ≤ i) :
    pelt_changepoints prev n = some ((backtrack prev (n + 1) n []).drop 1) := by
  obtain ⟨cps', h1, h2⟩ := pelt_changepoints_loop0_spec prev n h n (n + 1) (n + 1) [] (Nat.le_refl _) (by omega) (by omega)
  have hi : (((n : Nat) : Int) - ((1 : Nat) : Int)) = (n : Int) - 1 := by push_cast; ring
  simp only [pelt_changepoints, hi, h1]
  simp only [List.reverse_nil] at h2
  rw [← h2]
  simp [List.dropLast_eq_take, List.reverse_take]


section composed
variable {α : Type} [AddCommGroup α] [LinearOrder α] [IsOrderedAddMonoid α]

/-- **PELT's reported changepoints are what the regenerated back-tracking returns on the model's back-pointers.**
    For every sound selector / pruning test, every cost satisfying the split inequality and every
    `delay ≥ m - 1`, the back-pointers left by the recursion point backwards (a consequence of the Bellman
    invariant `Inv.bell_eq` / `Inv.prev_lo`), so `get_changepoints` as regenerated from the source stays
    within its iteration bound, never indexes outside the array, and returns the segmentation that
    `pelt_optimal` is about. -/
theorem pelt_backtracking_is_generated (pick : (Nat → α) → List Nat → Nat) (pr : α → α → Bool)
    (hpick : SoundPick pick) (hpr : SoundPrune pr)
    (cost : Nat → Nat → α) (pen : α) (m delay n : Nat)
    (hm : 1 ≤ m) (hd : m ≤ delay + 1) (hn : 2 * m ≤ n) (hsplit : SplitIneq cost m n) :
    pelt_changepoints (peltIter pick pr cost pen m delay (n + 1 - 2 * m)).prev n
      = some (runPelt pick pr cost pen m delay n).2 := by
  have inv := inv_all pick pr hpick hpr cost pen m delay n hm hd hsplit (n + 1 - 2 * m) (by omega)
  apply gen_pelt_changepoints_eq_model
  intro i hi
  by_cases hlo : i + 1 < 2 * m
  · rw [inv.prev_lo i hlo]; omega
  · have := (inv.bell_eq (i + 1) (by omega) (by omega)).1
    simp only [Nat.add_sub_cancel] at this
    rcases this with ⟨h0, _⟩ | ⟨_, h1⟩ <;> omega

/-- the same for the instance that mirrors the code (first minimiser, strict pruning, delay `m - 1`) -/
theorem peltCode_backtracking_is_generated (cost : Nat → Nat → α) (pen : α) (m n : Nat)
    (hm : 1 ≤ m) (hn : 2 * m ≤ n) (hsplit : SplitIneq cost m n) :
    pelt_changepoints (peltIter argminL prStrict cost pen m (m - 1) (n + 1 - 2 * m)).prev n
      = some (runPeltCode cost pen m n).2 :=
  pelt_backtracking_is_generated argminL prStrict soundPick_argminL soundPrune_strict cost pen m (m - 1) n hm
    (by omega) hn hsplit

/-- **C02 on the regenerated back-tracking**: the segmentation that `get_changepoints`, as read off the current source,
    returns on the back-pointers of the recursion is admissible, its penalised cost is the final score, and no
    admissible segmentation costs less -/
theorem pelt_generated_backtracking_optimal (pick : (Nat → α) → List Nat → Nat) (pr : α → α → Bool)
    (hpick : SoundPick pick) (hpr : SoundPrune pr)
    (cost : Nat → Nat → α) (pen : α) (m delay n : Nat)
    (hm : 1 ≤ m) (hd : m ≤ delay + 1) (hn : 2 * m ≤ n) (hsplit : SplitIneq cost m n) :
    ∃ cps, pelt_changepoints (peltIter pick pr cost pen m delay (n + 1 - 2 * m)).prev n = some cps ∧
      ValidFrom m 0 cps n ∧
      segCost cost pen 0 cps n = (runPelt pick pr cost pen m delay n).1 n ∧
      ∀ cps', ValidFrom m 0 cps' n → (runPelt pick pr cost pen m delay n).1 n ≤ segCost cost pen 0 cps' n := by
  obtain ⟨h1, h2, h3⟩ := pelt_optimal pick pr hpick hpr cost pen m delay n hm hd hn hsplit
  exact ⟨_, pelt_backtracking_is_generated pick pr hpick hpr cost pen m delay n hm hd hn hsplit, h1, h2, h3⟩

end composed

/-! ### Non-vacuity -/

/-- a concrete back-pointer array meets the hypothesis of `gen_pelt_changepoints_eq_model` … -/
example : ∀ i, i < 6 → ([0, 0, 0, 2, 2, 4].getD i 0) ≤ i := by decide

/-- … and the regenerated function returns its changepoints (kernel evaluation of the generated definition) -/
example : pelt_changepoints (fun i => [0, 0, 0, 2, 2, 4].getD i 0) 6 = some [2, 4] := by decide

end Skc
