import Skc.Gen.Loops
import Skc.Model.Greedy

/-! L1 layer for route T2: the definitions that `harness/translate_loops.py` regenerates from /repo's
    imperative kernels on every run (`Skc/Gen/Loops.lean`) are proved equal to the hand-written models
    that the property theorems are about.  Core Lean only. -/
namespace Skc
open GenL

/-- one iteration of the scan in `where`, by cases on the value read and on whether a run is open -/
theorem where_body0_eq (i : Nat) (val : Bool) (intervals : List (Nat × Nat)) (start e : Option Nat) :
    where_body0 i val intervals start e = some (match val, start with
      | true, none => (intervals, some i, e)
      | true, some s => (intervals, some s, e)
      | false, some s => (intervals ++ [(s, i)], none, none)
      | false, none => (intervals, none, e)) := by
  cases val <;> cases start <;> rfl

/-- the loop of `where` from position `i` with the closed runs `acc` and the open run `start`: it never
    fails, and what it leaves (closed runs + the still open run, closed at the end of the input) is what
    the model's scan yields -/
theorem where_loop0_spec : ∀ (l : List Bool) (i : Nat) (acc : List (Nat × Nat)) (start e : Option Nat),
    ∃ acc' start' e', where_loop0 l i (acc, start, e) = some (acc', start', e') ∧
      acc' ++ (match start' with | some s => [(s, i + l.length)] | none => []) = acc ++ whereRunsAux l i start
  | [], i, acc, start, e => by
    refine ⟨acc, start, e, rfl, ?_⟩
    cases start <;> simp [whereRunsAux]
  | val :: rest, i, acc, start, e => by
    simp only [where_loop0, where_body0_eq, Option.bind_some]
    cases val <;> cases start
    · obtain ⟨a, s, e', h1, h2⟩ := where_loop0_spec rest (i + 1) acc none e
      refine ⟨a, s, e', h1, ?_⟩
      rw [whereRunsAux, ← h2]
      simp only [List.length_cons]
      have : i + 1 + rest.length = i + (rest.length + 1) := by omega
      rw [this]
    · rename_i s0
      obtain ⟨a, s, e', h1, h2⟩ := where_loop0_spec rest (i + 1) (acc ++ [(s0, i)]) none none
      refine ⟨a, s, e', h1, ?_⟩
      rw [whereRunsAux, List.length_cons]
      have : i + 1 + rest.length = i + (rest.length + 1) := by omega
      rw [← this, h2, List.append_assoc]
      rfl
    · obtain ⟨a, s, e', h1, h2⟩ := where_loop0_spec rest (i + 1) acc (some i) e
      refine ⟨a, s, e', h1, ?_⟩
      rw [whereRunsAux, List.length_cons]
      have : i + 1 + rest.length = i + (rest.length + 1) := by omega
      rw [← this, h2]
    · rename_i s0
      obtain ⟨a, s, e', h1, h2⟩ := where_loop0_spec rest (i + 1) acc (some s0) e
      refine ⟨a, s, e', h1, ?_⟩
      rw [whereRunsAux, List.length_cons]
      have : i + 1 + rest.length = i + (rest.length + 1) := by omega
      rw [← this, h2]

/-- **route T2, `where`**: the function regenerated from `skchange/utils/numba/general.py::where` never
    fails and returns exactly the model's maximal runs, for every boolean input of every length -/
theorem gen_where_eq_model (indicator : List Bool) : where_ indicator = some (whereRuns indicator) := by
  obtain ⟨a, s, e', h1, h2⟩ := where_loop0_spec indicator 0 [] none none
  simp only [where_, h1, whereRuns]
  cases s
  · simp at h2
    simp [h2]
  · simp at h2
    simp [h2]

end Skc
