import Skc.Gen.Loops
import Skc.Model.Greedy
import Skc.Lemmas.Where

/-! L1 layer for route T2: the definitions that `harness/translate_loops.py` regenerates from /repo's
    imperative kernels on every run (`Skc/Gen/Loops.lean`) are proved equal to the hand-written models
    that the property theorems are about. -/
namespace Skc
open GenL

/-- one iteration of the scan in `where`, by cases on the value read and on whether a run is open -/
theorem where_body0_eq (ind : List Bool) (i : Nat) (val : Bool) (intervals : List (Nat × Nat)) (start e : Option Nat) :
    where_body0 ind i val intervals start e = some (match val, start with
      | true, none => (intervals, some i, e)
      | true, some s => (intervals, some s, e)
      | false, some s => (intervals ++ [(s, i)], none, none)
      | false, none => (intervals, none, e)) := by
  cases val <;> cases start <;> rfl

/-- the loop of `where` from position `i` with the closed runs `acc` and the open run `start`: it never
    fails, and what it leaves (closed runs + the still open run, closed at the end of the input) is what
    the model's scan yields -/
theorem where_loop0_spec (ind : List Bool) : ∀ (l : List Bool) (i : Nat) (acc : List (Nat × Nat)) (start e : Option Nat),
    ∃ acc' start' e', where_loop0 ind l i (acc, start, e) = some (acc', start', e') ∧
      acc' ++ (match start' with | some s => [(s, i + l.length)] | none => []) = acc ++ whereRunsAux l i start
  | [], i, acc, start, e => by
    refine ⟨acc, start, e, rfl, ?_⟩
    cases start <;> simp [whereRunsAux]
  | val :: rest, i, acc, start, e => by
    simp only [where_loop0, where_body0_eq, Option.bind_some]
    cases val <;> cases start
    · obtain ⟨a, s, e', h1, h2⟩ := where_loop0_spec ind rest (i + 1) acc none e
      refine ⟨a, s, e', h1, ?_⟩
      rw [whereRunsAux, ← h2]
      simp only [List.length_cons]
      have : i + 1 + rest.length = i + (rest.length + 1) := by omega
      rw [this]
    · rename_i s0
      obtain ⟨a, s, e', h1, h2⟩ := where_loop0_spec ind rest (i + 1) (acc ++ [(s0, i)]) none none
      refine ⟨a, s, e', h1, ?_⟩
      rw [whereRunsAux, List.length_cons]
      have : i + 1 + rest.length = i + (rest.length + 1) := by omega
      rw [← this, h2, List.append_assoc]
      rfl
    · obtain ⟨a, s, e', h1, h2⟩ := where_loop0_spec ind rest (i + 1) acc (some i) e
      refine ⟨a, s, e', h1, ?_⟩
      rw [whereRunsAux, List.length_cons]
      have : i + 1 + rest.length = i + (rest.length + 1) := by omega
      rw [← this, h2]
    · rename_i s0
      obtain ⟨a, s, e', h1, h2⟩ := where_loop0_spec ind rest (i + 1) acc (some s0) e
      refine ⟨a, s, e', h1, ?_⟩
      rw [whereRunsAux, List.length_cons]
      have : i + 1 + rest.length = i + (rest.length + 1) := by omega
      rw [← this, h2]

/-- **route T2, `where`**: the function regenerated from `skchange/utils/numba/general.py::where` never
    fails and returns exactly the model's maximal runs, for every boolean input of every length -/
theorem gen_where_eq_model (indicator : List Bool) : where_ indicator = some (whereRuns indicator) := by
  obtain ⟨a, s, e', h1, h2⟩ := where_loop0_spec indicator indicator 0 [] none none
  simp only [where_, h1, whereRuns]
  cases s
  · simp at h2
    simp [h2]
  · simp at h2
    simp [h2]


/-- **C08 on the regenerated code**: what `where`, as read off the current source, returns for a boolean array is
    exactly the set of its maximal runs of true values (half-open, in scan order, pairwise separated) -/
theorem gen_where_exactly_maximal_runs (ind : List Bool) :
    ∃ runs, where_ ind = some runs ∧ (∀ a b, (a, b) ∈ runs ↔ IsRun ind a b) ∧
      runs.Pairwise (fun r r' => r.2 ≤ r'.1) :=
  ⟨whereRuns ind, gen_where_eq_model ind, whereRuns_spec ind, whereRuns_pairwise ind⟩

/-! ### `get_moving_window_changepoints` -/
section mw
variable {α : Type} [LT α] [DecidableLT α]

theorem pyArgmaxFrom_eq (a : Nat → α) : ∀ (len i b : Nat), pyArgmaxFrom a i len b = argmaxRange a i len b
  | 0, _, _ => rfl
  | len + 1, i, b => by
    simp only [pyArgmaxFrom, argmaxRange, pyArgmaxFrom_eq a len]

theorem argmaxRange_ge (a : Nat → α) : ∀ (len i b : Nat), min b i ≤ argmaxRange a i len b
  | 0, i, b => by simp only [argmaxRange]; omega
  | len + 1, i, b => by
    simp only [argmaxRange]
    split
    · have := argmaxRange_ge a len (i + 1) i; omega
    · have := argmaxRange_ge a len (i + 1) b; omega

/-- one iteration of the loop over the detection intervals, for a non-empty interval inside the array -/
theorem mw_changepoints_body0_eq (scores : Nat → α) (n : Nat) (thr : α) (mdi : Nat) (r : Nat × Nat)
    (dets : List (Nat × Nat)) (cps : List Nat) (h1 : r.1 < r.2) (h2 : r.2 ≤ n) :
    mw_changepoints_body0 scores n thr mdi r dets cps =
      some (dets, if mdi ≤ r.2 - r.1 then cps ++ [argmaxRange scores (r.1 + 1) (r.2 - r.1 - 1) r.1] else cps) := by
  have hsub : pySub r.2 r.1 = some (r.2 - r.1) := by simp [pySub, Nat.le_of_lt h1]
  have hmin : min r.2 n = r.2 := Nat.min_eq_left h2
  have hge := argmaxRange_ge scores (r.2 - r.1 - 1) (r.1 + 1) r.1
  have harg : pyArgmaxSlice scores n r.1 r.2 = some (argmaxRange scores (r.1 + 1) (r.2 - r.1 - 1) r.1 - r.1) := by
    simp [pyArgmaxSlice, hmin, h1, pyArgmaxFrom_eq]
  have hback : argmaxRange scores (r.1 + 1) (r.2 - r.1 - 1) r.1 - r.1 + r.1 = argmaxRange scores (r.1 + 1) (r.2 - r.1 - 1) r.1 := by
    omega
  by_cases hc : mdi ≤ r.2 - r.1
  · simp [mw_changepoints_body0, hsub, harg, hc, hback]
  · simp [mw_changepoints_body0, hsub, hc]

theorem mw_changepoints_loop0_eq (scores : Nat → α) (n : Nat) (thr : α) (mdi : Nat) :
    ∀ (runs : List (Nat × Nat)) (dets : List (Nat × Nat)) (cps : List Nat), (∀ r ∈ runs, r.1 < r.2 ∧ r.2 ≤ n) →
      mw_changepoints_loop0 scores n thr mdi runs (dets, cps) =
        some (dets, cps ++ ((runs.filter (fun r => decide (mdi ≤ r.2 - r.1))).map
          (fun r => argmaxRange scores (r.1 + 1) (r.2 - r.1 - 1) r.1)))
  | [], dets, cps, _ => by simp [mw_changepoints_loop0]
  | r :: rest, dets, cps, h => by
    obtain ⟨h1, h2⟩ := h r (by simp)
    have hrest : ∀ r' ∈ rest, r'.1 < r'.2 ∧ r'.2 ≤ n := fun r' hr' => h r' (by simp [hr'])
    simp only [mw_changepoints_loop0, mw_changepoints_body0_eq scores n thr mdi r dets cps h1 h2, Option.bind_some]
    rw [mw_changepoints_loop0_eq scores n thr mdi rest dets _ hrest]
    by_cases hc : mdi ≤ r.2 - r.1
    · simp [hc]
    · simp [hc]

/-- **route T2, `get_moving_window_changepoints`**: the function regenerated from
    `skchange/change_detectors/moving_window.py` (with `where` regenerated from its own source) never fails
    and returns exactly the model's changepoints `mwCpts`, for every score curve, threshold and minimum
    detection interval -/
theorem gen_mw_changepoints_eq_model (scores : Nat → α) (n : Nat) (thr : α) (mdi : Nat) :
    mw_changepoints scores n thr mdi = some (mwCpts scores n thr mdi) := by
  have hruns : ∀ r ∈ whereRuns ((List.range n).map (fun t => decide (thr < scores t))), r.1 < r.2 ∧ r.2 ≤ n := by
    intro r hr
    obtain ⟨h1, h2, _⟩ := (whereRuns_spec _ r.1 r.2).1 hr
    simp only [List.length_map, List.length_range] at h2
    exact ⟨h1, h2⟩
  simp only [mw_changepoints, gen_where_eq_model, mwCpts]
  simp [mw_changepoints_loop0_eq scores n thr mdi _ _ [] hruns]

end mw

/-! ### Sanity: kernel evaluation of the generated definitions on concrete inputs -/

example : where_ [false, true, true, false, true] = some [(1, 3), (4, 5)] := by decide

example : mw_changepoints (fun i => [0, 3, 5, 3, 0, 0, 7, 7, 1].getD i (0 : Nat)) 9 2 1 = some [2, 6] := by decide

end Skc
