import Skc.Gen.KernelsReal
import Skc.Lemmas.Kernels
import Skc.L1.Tactic
import Skc.L1.L2Cost

/-! L1 (route T) for `skchange/change_scores/cusum.py`. -/
namespace Skc

theorem gen_cusum_score (s e k : ℕ) (S : ℕ → ℝ) :
    Gen.cusum_score s e k S =
      CF.cusum (S k - S s) (S e - S k) ((k : ℝ) - s) ((e : ℝ) - k) ((e : ℝ) - s) := by
  simp only [Gen.cusum_score, CF.cusum] <;> kernel_eq

/-- **C06 on the generated code**: the squared CUSUM score equals the squared-error change score
    `C(s,e) − C(s,k) − C(k,e)`, for any prefix-sum tables and all `s < k < e`. -/
theorem gen_cusum_sq_eq_l2_change (S S2 : ℕ → ℝ) (s k e : ℕ) (h1 : s < k) (h2 : k < e) :
    (Gen.cusum_score s e k S) ^ 2 =
      Gen.l2_cost_optim s e S S2 - (Gen.l2_cost_optim s k S S2 + Gen.l2_cost_optim k e S S2) := by
  rw [gen_cusum_score, gen_l2_cost_optim, gen_l2_cost_optim, gen_l2_cost_optim]
  have ha := len_pos h2
  have hb := len_pos h1
  have e1 : (e : ℝ) - s = ((e : ℝ) - k) + ((k : ℝ) - s) := by ring
  have e2 : S e - S s = (S e - S k) + (S k - S s) := by ring
  have e3 : S2 e - S2 s = (S2 e - S2 k) + (S2 k - S2 s) := by ring
  rw [e1, e2, e3]
  exact cusum_sq_eq_l2_change _ _ _ _ _ _ ha hb

end Skc
