import Skc.Gen.KernelsReal
import Skc.Lemmas.Kernels
import Skc.L1.Tactic

/-! L1 (route T) for `skchange/costs/gaussian_var_cost.py`. -/
namespace Skc

theorem gen_var_from_sums (s e : ℕ) (S S2 : ℕ → ℝ) :
    Gen.var_from_sums s e S S2 = CF.varFloor (S e - S s) (S2 e - S2 s) ((e : ℝ) - s) := by
  simp only [Gen.var_from_sums, CF.varFloor, varFloorConst] <;> kernel_eq

theorem gen_gaussian_var_cost_optim (s e : ℕ) (S S2 : ℕ → ℝ) :
    Gen.gaussian_var_cost_optim s e S S2 =
      CF.gaussOptim (S e - S s) (S2 e - S2 s) ((e : ℝ) - s) := by
  simp only [Gen.gaussian_var_cost_optim, CF.gaussOptim, gen_var_from_sums] <;> kernel_eq

theorem gen_gaussian_var_cost_fixed (s e : ℕ) (S S2 : ℕ → ℝ) (μ v : ℝ) :
    Gen.gaussian_var_cost_fixed s e S S2 μ v =
      CF.gaussFixed (S e - S s) (S2 e - S2 s) ((e : ℝ) - s) μ v := by
  simp only [Gen.gaussian_var_cost_fixed, CF.gaussFixed, CF.l2Fixed] <;> kernel_eq

/-- **C01 on the generated code (univariate Gaussian, optimal parameters)**: twice the negative
    log-likelihood at the maximum-likelihood mean and the population variance floored at 1e-16. -/
theorem gen_gaussian_var_cost_optim_direct (x : ℕ → ℝ) (s e : ℕ) (h : s < e) :
    Gen.gaussian_var_cost_optim s e (psum x) (psum fun i => x i ^ 2) =
      ((e : ℝ) - s) * Real.log (2 * Real.pi *
        max (rss x (segMean x s e) s e / ((e : ℝ) - s)) varFloorConst) + ((e : ℝ) - s) := by
  rw [gen_gaussian_var_cost_optim]
  simp only [CF.gaussOptim]
  rw [varFloor_direct x s e h]

/-- **C01 on the generated code (univariate Gaussian, fixed parameters)** -/
theorem gen_gaussian_var_cost_fixed_direct (x : ℕ → ℝ) (μ v : ℝ) (s e : ℕ) (h : s ≤ e) :
    Gen.gaussian_var_cost_fixed s e (psum x) (psum fun i => x i ^ 2) μ v =
      ((e : ℝ) - s) * Real.log (2 * Real.pi * v) + rss x μ s e / v := by
  rw [gen_gaussian_var_cost_fixed]
  simp only [CF.gaussFixed]
  rw [l2Fixed_direct x μ s e h]

end Skc
