import Skc.L1.LoopsCbs
import Skc.Props.C09

/-! The C09 candidate-enumeration theorem restated about the definition regenerated from the current source (route T2). -/
namespace Skc
open GenL

theorem zip_map_fst_snd {β γ : Type} : ∀ (l : List (β × γ)), (l.map Prod.fst).zip (l.map Prod.snd) = l
  | [] => rfl
  | (a, b) :: t => by simp [zip_map_fst_snd t]

/-- **C09 on the regenerated code**: the arrays of starts and ends that `make_anomaly_intervals`, as read off the current
    source, returns pair up to exactly the admissible inner intervals of the candidate `[s, e)` -/
theorem gen_anomaly_intervals_exactly_admissible (s e m : Nat) (hm : m ≤ e) :
    ∃ starts ends, anomaly_intervals s e m = some (starts, ends) ∧ starts.length = ends.length ∧
      ∀ i j, (i, j) ∈ starts.zip ends ↔ s < i ∧ i + m ≤ j ∧ j < e ∧ m ≤ (e - j) + (i - s) := by
  refine ⟨_, _, gen_anomaly_intervals_eq_model s e m hm, by simp, ?_⟩
  intro i j
  rw [zip_map_fst_snd]
  exact cbs_inner_intervals s e m i j

end Skc
