import Mathlib.Tactic.Ring
import Mathlib.Tactic.FieldSimp

/-! `kernel_eq`: closes "generated definition = closed form" goals after unfolding; tries
    definitional equality first, then ring normalisation with and without clearing denominators,
    so that algebraically neutral rewrites of the Python source keep the L1 layer green. -/
macro "kernel_eq" : tactic =>
  `(tactic| first
    | rfl
    | ring
    | (ring_nf; done)
    | (field_simp; ring)
    | (congr 1 <;> first | rfl | ring | (field_simp; ring))
    | (congr 2 <;> first | rfl | ring | (field_simp; ring))
    | (congr 3 <;> first | rfl | ring | (field_simp; ring)))
