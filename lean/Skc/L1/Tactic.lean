import Mathlib.Tactic.Ring
import Mathlib.Tactic.FieldSimp
import Mathlib.Algebra.Order.Group.Abs

/-! `kernel_eq`: closes "generated definition = closed form" goals after unfolding; tries
    definitional equality first, then ring normalisation with and without clearing denominators,
    argument-wise normalisation under one to three function applications (`log`, `sqrt`, `max`, …)
    and `|x| = |−x|`, so that algebraically neutral rewrites of the Python source keep the L1 layer
    green.  (`ring1` rather than `ring`: the latter falls back to `ring_nf` without failing.) -/
macro "kernel_eq" : tactic =>
  `(tactic| first
    | rfl
    | ring1
    | (field_simp; ring1)
    | (congr 1 <;> first | rfl | ring1 | (field_simp; ring1))
    | (rw [← abs_neg]; congr 1 <;> first | rfl | ring1 | (field_simp; ring1))
    | (congr 2 <;> first | rfl | ring1 | (field_simp; ring1))
    | (congr 3 <;> first | rfl | ring1 | (field_simp; ring1)))
