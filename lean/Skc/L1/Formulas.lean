import Skc.Gen.KernelsReal
import Skc.Spec.Kernels
import Skc.L1.Tactic

/-! L1 (route T) for the penalty and threshold formulas: the definitions regenerated from
    `mvcapa.py`, `pelt.py`, `seeded_binseg.py`, `circular_binseg.py` equal the documented formulas. -/
namespace Skc

theorem gen_capa_penalty (n k scale : ℝ) : Gen.capa_penalty n k scale = CF.capaPenalty n k scale := by
  simp only [Gen.capa_penalty, CF.capaPenalty] <;> kernel_eq

/-- **C15**: the dense family is CAPA's penalty for all `p·k` parameters with no per-component part -/
theorem gen_dense_penalty (n p k scale : ℝ) :
    Gen.dense_mvcapa_penalty_alpha n p k scale = CF.capaPenalty n (p * k) scale ∧
    Gen.dense_mvcapa_penalty_beta n p k scale = 0 := by
  refine ⟨?_, ?_⟩
  · simp only [Gen.dense_mvcapa_penalty_alpha, gen_capa_penalty]
  · simp only [Gen.dense_mvcapa_penalty_beta]

/-- **C15**: the sparse family is `2 log n` plus `2 log(k p)` per component, times the scale -/
theorem gen_sparse_penalty (n p k scale : ℝ) :
    Gen.sparse_mvcapa_penalty_alpha n p k scale = scale * (2 * Real.log n) ∧
    Gen.sparse_mvcapa_penalty_beta n p k scale = scale * (2 * Real.log (k * p)) := by
  refine ⟨?_, ?_⟩
  · simp only [Gen.sparse_mvcapa_penalty_alpha] <;> kernel_eq
  · simp only [Gen.sparse_mvcapa_penalty_beta] <;> kernel_eq

theorem gen_pelt_default_penalty (n p : ℝ) : Gen.pelt_default_penalty n p = CF.peltPenalty n p := by
  simp only [Gen.pelt_default_penalty, CF.peltPenalty] <;> kernel_eq

theorem gen_sbs_default_threshold (n p : ℝ) :
    Gen.sbs_default_threshold n p = CF.sbsThreshold n p := by
  simp only [Gen.sbs_default_threshold, CF.sbsThreshold] <;> kernel_eq

theorem gen_cbs_default_threshold (n p L : ℝ) :
    Gen.cbs_default_threshold n p L = CF.cbsThreshold n p L := by
  simp only [Gen.cbs_default_threshold, CF.cbsThreshold] <;> kernel_eq

end Skc
