import Skc.Gen.KernelsReal
import Skc.Lemmas.Kernels
import Skc.L1.Tactic

/-! L1 (route T): the definitions regenerated from `skchange/costs/l2_cost.py` and
    `skchange/anomaly_scores/l2_saving.py` equal the hand-written closed forms; corollaries state
    C01 / C06 directly about the generated code. -/
namespace Skc

theorem gen_l2_cost_optim (s e : ℕ) (S S2 : ℕ → ℝ) :
    Gen.l2_cost_optim s e S S2 = CF.l2Optim (S e - S s) (S2 e - S2 s) ((e : ℝ) - s) := by
  simp only [Gen.l2_cost_optim, CF.l2Optim] <;> kernel_eq

theorem gen_l2_cost_fixed (s e : ℕ) (S S2 : ℕ → ℝ) (μ : ℝ) :
    Gen.l2_cost_fixed s e S S2 μ = CF.l2Fixed (S e - S s) (S2 e - S2 s) ((e : ℝ) - s) μ := by
  simp only [Gen.l2_cost_fixed, CF.l2Fixed] <;> kernel_eq

theorem gen_l2_saving (s e : ℕ) (S : ℕ → ℝ) :
    Gen.l2_saving s e S = CF.l2Saving (S e - S s) ((e : ℝ) - s) := by
  simp only [Gen.l2_saving, CF.l2Saving] <;> kernel_eq

/-- **C01 on the generated code (L2, optimal mean)**: evaluated on the prefix sums of any data,
    the kernel returns the residual sum of squares of the rows `[s,e)` around their mean. -/
theorem gen_l2_cost_optim_direct (x : ℕ → ℝ) (s e : ℕ) (h : s < e) :
    Gen.l2_cost_optim s e (psum x) (psum fun i => x i ^ 2) = rss x (segMean x s e) s e := by
  rw [gen_l2_cost_optim]; exact l2Optim_direct x s e h

/-- **C01 on the generated code (L2, fixed mean)** -/
theorem gen_l2_cost_fixed_direct (x : ℕ → ℝ) (μ : ℝ) (s e : ℕ) (h : s ≤ e) :
    Gen.l2_cost_fixed s e (psum x) (psum fun i => x i ^ 2) μ = rss x μ s e := by
  rw [gen_l2_cost_fixed]; exact l2Fixed_direct x μ s e h

/-- **C06 on the generated code**: `l2_saving` = L2 cost at baseline mean 0 − optimal L2 cost -/
theorem gen_l2_saving_eq (s e : ℕ) (S S2 : ℕ → ℝ) :
    Gen.l2_saving s e S = Gen.l2_cost_fixed s e S S2 0 - Gen.l2_cost_optim s e S S2 := by
  rw [gen_l2_saving, gen_l2_cost_fixed, gen_l2_cost_optim]; exact l2Saving_eq _ _ _

end Skc
