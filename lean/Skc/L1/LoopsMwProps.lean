import Skc.L1.Loops
import Skc.Props.C08

/-! The C08 property theorems restated about the definitions regenerated from the current source (route T2). -/
namespace Skc
open GenL

/-- **C08 on the regenerated code**: every changepoint that `get_moving_window_changepoints`, as read off the current source,
    reports is the first position of the maximum of a maximal run of above-threshold scores with at least
    `min_detection_interval` positions; every such run yields a changepoint inside it; the reported list is strictly
    increasing -/
theorem gen_mw_changepoints_peak_of_run {α : Type} [LinearOrder α] (scores : Nat → α) (n : Nat) (thr : α) (mdi : Nat) :
    ∃ cps, mw_changepoints scores n thr mdi = some cps ∧
      (∀ c ∈ cps, ∃ a b, IsRun (aboveInd scores n thr) a b ∧ mdi ≤ b - a ∧ a ≤ c ∧ c < b ∧
        ∀ t, a ≤ t → t < b → scores t ≤ scores c) ∧
      (∀ a b, IsRun (aboveInd scores n thr) a b → mdi ≤ b - a → ∃ c ∈ cps, a ≤ c ∧ c < b) ∧
      cps.Pairwise (· < ·) :=
  ⟨mwCpts scores n thr mdi, gen_mw_changepoints_eq_model scores n thr mdi,
    mw_changepoint_is_peak_of_run scores n thr mdi,
    fun a b hR hlen => mw_every_long_run_detected scores n thr mdi a b hR hlen,
    mw_changepoints_strictly_increasing scores n thr mdi⟩

end Skc
