def hello := "world"
