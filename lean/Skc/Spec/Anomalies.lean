/-! Specification vocabulary for anomaly sets (C03, C04): admissible collective anomalies,
    the total penalised saving of a list of anomalies, valid (sorted, disjoint) anomaly lists.
    Core Lean only. -/
namespace Skc
variable {α : Type}

/-- `[s,e)` is an admissible collective anomaly: length in `[m, M]` -/
def AdmC (m M s e : Nat) : Prop := s + m ≤ e ∧ e ≤ s + M

section
variable [Add α] [Zero α]
/-- penalised saving of one anomaly `[s,e)`: point if it has length 1, collective otherwise -/
def anomVal1 (PS : Nat → Nat → α) (PP : Nat → α) (a : Nat × Nat) : α :=
  if a.2 = a.1 + 1 then PP a.1 else PS a.1 a.2

def anomVal (PS : Nat → Nat → α) (PP : Nat → α) : List (Nat × Nat) → α
  | [] => 0
  | a :: rest => anomVal1 PS PP a + anomVal PS PP rest

/-- sorted, pairwise disjoint anomalies inside `[lo,hi]`, each a point or an admissible collective one -/
def ValidAnoms (m M : Nat) : Nat → List (Nat × Nat) → Nat → Prop
  | lo, [], hi => lo ≤ hi
  | lo, a :: rest, hi => lo ≤ a.1 ∧ (a.2 = a.1 + 1 ∨ AdmC m M a.1 a.2) ∧ ValidAnoms m M a.2 rest hi

end
end Skc
