/-! Specification vocabulary for segmentations (C02, C04, C12, C15): what "admissible
    segmentation", "penalised cost" and "splitting never increases the cost" mean.
    Core Lean only; deliberately tiny so that it can be read in a minute. -/
namespace Skc
variable {α : Type}

/-- `s` is an admissible last-segment start for prefix length `e`: either the segment `[0,e)`
    (no changepoint), or a changepoint `s` with at least `m` samples on both sides. -/
def Adm (m s e : Nat) : Prop := (s = 0 ∧ m ≤ e) ∨ (m ≤ s ∧ s + m ≤ e)

/-- penalised cost of segmenting `[s,e)` at the (increasing) changepoints `cps`:
    sum of segment costs + `pen` × number of changepoints -/
def segCost [Add α] (cost : Nat → Nat → α) (pen : α) : Nat → List Nat → Nat → α
  | s, [], e => cost s e
  | s, c :: cs, e => cost s c + pen + segCost cost pen c cs e

/-- every part of the segmentation of `[s,e)` at `cps` has at least `m` samples
    (in particular `cps` is strictly increasing when `m ≥ 1`) -/
def ValidFrom (m : Nat) : Nat → List Nat → Nat → Prop
  | s, [], e => s + m ≤ e
  | s, c :: cs, e => s + m ≤ c ∧ ValidFrom m c cs e

/-- "splitting a segment never increases its cost", for the splits PELT relies on: both parts at
    least `m` long, the left part itself admissible -/
def SplitIneq [Add α] [LE α] (cost : Nat → Nat → α) (m n : Nat) : Prop :=
  ∀ s t e, Adm m s t → t + m ≤ e → e ≤ n → cost s t + cost t e ≤ cost s e

end Skc
