import Mathlib.Analysis.SpecialFunctions.Log.Basic
import Mathlib.Analysis.SpecialFunctions.Sqrt
import Mathlib.Analysis.SpecialFunctions.Trigonometric.Basic
import Mathlib.Algebra.BigOperators.Intervals
import Mathlib.Order.Interval.Finset.Nat

/-! Specification vocabulary for the score kernels (C01, C06, C12, C15).

* `Skc.CF.*` — hand-written *closed forms* of the kernels as functions of the partial sums
  `S₁ = Σ x`, `S₂ = Σ x²` and the length `n` of an interval.  The translator-generated definitions
  (`Skc.Gen.*`, regenerated from /repo on every run) are proved equal to these in `Skc/L1/*.lean`;
  every property theorem is stated about the closed forms.
* direct definitions computed from the rows themselves: `segSum`, `segMean`, `rss`. -/
open Finset
namespace Skc

/-- prefix sums with a leading zero: `col_cumsum(x, init_zero=True)`, one column -/
noncomputable def psum (x : ℕ → ℝ) (k : ℕ) : ℝ := ∑ i ∈ range k, x i
/-- sum of the rows `[s, e)` of one column -/
noncomputable def segSum (x : ℕ → ℝ) (s e : ℕ) : ℝ := ∑ i ∈ Ico s e, x i
/-- mean of the rows `[s, e)` -/
noncomputable def segMean (x : ℕ → ℝ) (s e : ℕ) : ℝ := segSum x s e / ((e : ℝ) - s)
/-- residual sum of squares of the rows `[s, e)` around `μ` -/
noncomputable def rss (x : ℕ → ℝ) (μ : ℝ) (s e : ℕ) : ℝ := ∑ i ∈ Ico s e, (x i - μ) ^ 2

/-- the variance floor of `var_from_sums` -/
noncomputable def varFloorConst : ℝ := 1 / 10000000000000000

namespace CF
/-- squared-error cost, optimal mean -/
noncomputable def l2Optim (S1 S2 n : ℝ) : ℝ := S2 - S1 ^ 2 / n
/-- squared-error cost, fixed mean `μ` -/
noncomputable def l2Fixed (S1 S2 n μ : ℝ) : ℝ := S2 - 2 * μ * S1 + n * μ ^ 2
/-- floored variance from the partial sums -/
noncomputable def varFloor (S1 S2 n : ℝ) : ℝ := max (S2 / n - (S1 / n) ^ 2) varFloorConst
/-- univariate Gaussian cost (twice the negative log-likelihood), optimal mean and variance -/
noncomputable def gaussOptim (S1 S2 n : ℝ) : ℝ := n * Real.log (2 * Real.pi * varFloor S1 S2 n) + n
/-- univariate Gaussian cost, fixed mean `μ` and variance `v` -/
noncomputable def gaussFixed (S1 S2 n μ v : ℝ) : ℝ :=
  n * Real.log (2 * Real.pi * v) + l2Fixed S1 S2 n μ / v
/-- CUSUM score: `Sb`, `Sa` sums before / after the split, `nb`, `na` their lengths, `n = nb + na` -/
noncomputable def cusum (Sb Sa nb na n : ℝ) : ℝ :=
  |Real.sqrt (na / (n * nb)) * Sb - Real.sqrt (nb / (n * na)) * Sa|
/-- saving of the squared-error cost against the baseline mean 0 -/
noncomputable def l2Saving (S1 n : ℝ) : ℝ := S1 ^ 2 / n

/-- CAPA's collective penalty for `k` parameters per segment -/
noncomputable def capaPenalty (n k scale : ℝ) : ℝ :=
  scale * (k + 2 * Real.sqrt (k * Real.log n) + 2 * Real.log n)
noncomputable def peltPenalty (n p : ℝ) : ℝ := 2 * p * Real.log n
noncomputable def sbsThreshold (n p : ℝ) : ℝ := 2 * p * Real.sqrt (Real.log n)
noncomputable def cbsThreshold (n p maxLen : ℝ) : ℝ := 2 * p * Real.log (n * maxLen)
end CF
end Skc
