import Skc.Lemmas.Layout
import Skc.Lemmas.Greedy
import Skc.Lemmas.Sbs

/-! # C07 — seeded binary segmentation reports exactly the greedy above-threshold splits

Models: `seededFrom` (interval layout of `make_seeded_intervals` for a given (length, step)
schedule), `amoc` (per-interval first argmax over admissible splits), `greedyGen`/`greedyPicks`
(`greedy_changepoint_selection`), `runSbs` — `Skc/Model/Det.lean`, `Skc/Model/Greedy.lean`. -/
namespace Skc

/-- **C07, candidate intervals**: for every admissible schedule (each length between the minimum
    `2·min_segment_length` and `min(max_interval_length, n)`, each step ≥ 1) the candidate
    intervals exist, lie inside `[0, n]` and have lengths in `[minLen, min(maxLen, n)]`.
    (That the float-computed schedule of the code is admissible is checked exhaustively on a grid by
    the correspondence, not proved.) -/
theorem seeded_intervals_wellformed (n minLen maxLen : Nat) (sched : List (Nat × Nat))
    (h1 : 1 ≤ minLen) (hs : AdmissibleSchedule n minLen maxLen sched) :
    seededFrom n minLen sched ≠ [] ∧
    ∀ iv ∈ seededFrom n minLen sched,
      iv.2 ≤ n ∧ iv.1 + minLen ≤ iv.2 ∧ iv.2 ≤ iv.1 + min maxLen n :=
  seededFrom_spec n minLen maxLen sched h1 hs

/-- **C07, threshold monotonicity**: raising the threshold can only remove changepoints — the
    picks for the higher threshold are a prefix of the picks for the lower one. -/
theorem sbs_threshold_monotone {α : Type} [LinearOrder α] [Zero α]
    (ivs : List (Nat × Nat × Nat)) (thr₁ thr₂ : α) (h : thr₁ ≤ thr₂) (fuel : Nat)
    (scores : List α) :
    ∀ c ∈ greedyPicks ivs thr₂ fuel scores, c ∈ greedyPicks ivs thr₁ fuel scores :=
  fun _ hc => (greedyPicks_prefix ivs thr₁ thr₂ h fuel scores).subset hc

/-- **C07, per-interval score and maximiser**: the reported score is the maximum, over the splits
    leaving `m` samples on both sides, of the (column-summed) change score, and the reported
    maximiser attains it; evaluation fails exactly when no split is admissible. -/
theorem sbs_interval_argmax {α : Type} [LinearOrder α] [Zero α]
    (cs : Nat → Nat → Nat → α) (m : Nat) (iv : Nat × Nat) :
    (amoc cs m iv = none ↔ iv.2 < iv.1 + 2 * m) ∧
    ∀ k v, amoc cs m iv = some (k, v) →
      iv.1 + m ≤ k ∧ k + m ≤ iv.2 ∧ v = cs iv.1 k iv.2 ∧
      ∀ t, iv.1 + m ≤ t → t + m ≤ iv.2 → cs iv.1 t iv.2 ≤ v :=
  amoc_spec cs m iv

/-- **C07, greedy selection**: every changepoint is supported by an interval scoring above the
    threshold (whose maximiser it is); no above-threshold interval is left without a changepoint
    inside it; no later pick's interval contains an earlier changepoint.  (`idx` are the picked
    interval indices; the changepoints are their maximisers; the first pick is always a
    highest-scoring remaining interval: `greedyGen_head_max`.) -/
theorem sbs_greedy {α : Type} [LinearOrder α] [Zero α]
    (trip : List (Nat × Nat × Nat)) (scores : List α) (thr : α) (hthr : 0 ≤ thr)
    (hin : ∀ (i s e c : Nat), trip[i]? = some (s, e, c) → s ≤ c ∧ c < e)
    (hlen : scores.length = trip.length) :
    let idx := greedyGen (killCpt trip) thr trip.length scores
    (∀ i ∈ idx, ∃ v, scores[i]? = some v ∧ thr < v) ∧
    (∀ (j : Nat) (v : α) (s e c : Nat), scores[j]? = some v → thr < v → trip[j]? = some (s, e, c) →
        ∃ i ∈ idx, s ≤ (trip.getD i (0, 0, 0)).2.2 ∧ (trip.getD i (0, 0, 0)).2.2 < e) ∧
    idx.Pairwise (fun i i' => killCpt trip i i' = false) :=
  sbs_greedy_sound trip scores thr hthr hin hlen

/-- the pick of every round is a highest-scoring remaining interval, above the threshold -/
theorem sbs_pick_is_max {α : Type} [LinearOrder α] [Zero α] (kill : Nat → Nat → Bool) (thr : α)
    (fuel : Nat) (cur : List α) (i : Nat) (rest : List Nat)
    (h : greedyGen kill thr (fuel + 1) cur = i :: rest) :
    ∃ v, cur[i]? = some v ∧ thr < v ∧ ∀ x ∈ cur, x ≤ v :=
  greedyGen_head_max kill thr fuel cur i rest h

/-- **C04 for seeded binary segmentation**: two picked changepoints whose intervals are
    "independent" (the later interval does not contain the earlier changepoint) are at least
    `m` apart, given that each maximiser leaves `m` samples on both sides of its interval. -/
theorem sbs_min_gap (trip : List (Nat × Nat × Nat)) (m i i' : Nat)
    (hb : ∀ j, (trip.getD j (0, 0, 0)).1 + m ≤ (trip.getD j (0, 0, 0)).2.2 ∧
        (trip.getD j (0, 0, 0)).2.2 + m ≤ (trip.getD j (0, 0, 0)).2.1)
    (hk : killCpt trip i i' = false) :
    (trip.getD i (0, 0, 0)).2.2 + m ≤ (trip.getD i' (0, 0, 0)).2.2 ∨
    (trip.getD i' (0, 0, 0)).2.2 + m ≤ (trip.getD i (0, 0, 0)).2.2 := by
  have h1 := hb i
  have h2 := hb i'
  simp only [killCpt, decide_eq_false_iff_not, not_and, not_le] at hk
  by_cases hc : (trip.getD i' (0, 0, 0)).1 ≤ (trip.getD i (0, 0, 0)).2.2
  · have := hk hc
    right; omega
  · left; omega

/-- non-vacuity: an admissible schedule and its layout -/
example : AdmissibleSchedule 10 4 8 [(4, 1), (7, 2)] := by
  refine ⟨by simp, ?_⟩
  intro ls hls
  simp only [List.mem_cons, List.not_mem_nil, or_false] at hls
  rcases hls with rfl | rfl <;> simp

example : seededFrom 10 4 [(4, 1), (7, 2)] =
    [(0, 4), (1, 5), (2, 6), (3, 7), (4, 8), (5, 9), (6, 10), (0, 7), (2, 9), (4, 10)] := by
  decide

end Skc
