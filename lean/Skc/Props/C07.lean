import Skc.Lemmas.Layout
import Skc.Lemmas.Greedy

/-! # C07 — seeded binary segmentation reports exactly the greedy above-threshold splits

Models: `seededFrom` (interval layout of `make_seeded_intervals` for a given (length, step)
schedule), `amoc` (per-interval first argmax over admissible splits), `greedyGen`/`greedyPicks`
(`greedy_changepoint_selection`), `runSbs` — `Skc/Model/Det.lean`, `Skc/Model/Greedy.lean`. -/
namespace Skc

/-- **C07, candidate intervals**: for every admissible schedule (each length between the minimum
    `2·min_segment_length` and `min(max_interval_length, n)`, each step ≥ 1) the candidate
    intervals exist, lie inside `[0, n]` and have lengths in `[minLen, min(maxLen, n)]`.
    (That the float-computed schedule of the code is admissible is checked exhaustively on a grid by
    the correspondence, not proved.) -/
theorem seeded_intervals_wellformed (n minLen maxLen : Nat) (sched : List (Nat × Nat))
    (h1 : 1 ≤ minLen) (hs : AdmissibleSchedule n minLen maxLen sched) :
    seededFrom n minLen sched ≠ [] ∧
    ∀ iv ∈ seededFrom n minLen sched,
      iv.2 ≤ n ∧ iv.1 + minLen ≤ iv.2 ∧ iv.2 ≤ iv.1 + min maxLen n :=
  seededFrom_spec n minLen maxLen sched h1 hs

/-- **C07, threshold monotonicity**: raising the threshold can only remove changepoints — the
    picks for the higher threshold are a prefix of the picks for the lower one. -/
theorem sbs_threshold_monotone {α : Type} [LinearOrder α] [Zero α]
    (ivs : List (Nat × Nat × Nat)) (thr₁ thr₂ : α) (h : thr₁ ≤ thr₂) (fuel : Nat)
    (scores : List α) :
    ∀ c ∈ greedyPicks ivs thr₂ fuel scores, c ∈ greedyPicks ivs thr₁ fuel scores :=
  fun _ hc => (greedyPicks_prefix ivs thr₁ thr₂ h fuel scores).subset hc

/-- non-vacuity: an admissible schedule and its layout -/
example : AdmissibleSchedule 10 4 8 [(4, 1), (7, 2)] := by
  refine ⟨by simp, ?_⟩
  intro ls hls
  simp only [List.mem_cons, List.not_mem_nil, or_false] at hls
  rcases hls with rfl | rfl <;> simp

example : seededFrom 10 4 [(4, 1), (7, 2)] =
    [(0, 4), (1, 5), (2, 6), (3, 7), (4, 8), (5, 9), (6, 10), (0, 7), (2, 9), (4, 10)] := by
  decide

end Skc
