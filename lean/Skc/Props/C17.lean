import Skc.Model.Anomaliser
import Skc.Lemmas.ConvCp

/-! # C17 — StatThresholdAnomaliser flags exactly the out-of-range segments

Model: `statAnoms` (`Skc/Model/Anomaliser.lean`).  The statistic is an arbitrary function of the
segment (the user's callable applied to the rows `[s, e)`), the bounds arbitrary.  That the user's
detector object is left unfitted and unaltered (a clone is fitted) is an object-model fact checked
by the harness. -/
namespace Skc
variable {α : Type} [LT α] [DecidableLT α]

/-- **C17**: for valid changepoints (strictly increasing, in `[1, n-1]`) the reported anomalies are
    exactly the segments `[c_i, c_{i+1})` delimited by the wrapped detector's changepoints whose
    statistic is below `lo` or above `hi`. -/
theorem anomaliser_flags_out_of_range_segments (stat : Nat → Nat → α) (lo hi : α)
    (cps : List Nat) (n : Nat) (hn : 1 ≤ n) (h : ValidCps cps n) :
    statAnoms stat lo hi cps n = (segmentsFrom 0 cps n).filter (flagged stat lo hi) := by
  unfold statAnoms labelGroups
  have hlen : (cpS2D cps n).length = n := by simp [cpS2D]
  have hne : (cpS2D cps n).isEmpty = false := by
    cases hc : cpS2D cps n with
    | nil => rw [hc] at hlen; simp at hlen; omega
    | cons _ _ => rfl
  rw [hne, cp_roundtrip cps n h, hlen]
  rfl

/-- **C17**: each flagged segment is reported as its own interval, in order — the output is a
    sublist of the segment list, so adjacent flagged segments are never merged -/
theorem anomaliser_output_sublist (stat : Nat → Nat → α) (lo hi : α)
    (cps : List Nat) (n : Nat) (hn : 1 ≤ n) (h : ValidCps cps n) :
    (statAnoms stat lo hi cps n).Sublist (segmentsFrom 0 cps n) := by
  rw [anomaliser_flags_out_of_range_segments stat lo hi cps n hn h]
  exact List.filter_sublist

/-- a segment is flagged iff its statistic is out of range -/
theorem flagged_iff (stat : Nat → Nat → α) (lo hi : α) (seg : Nat × Nat) :
    flagged stat lo hi seg = true ↔ stat seg.1 seg.2 < lo ∨ hi < stat seg.1 seg.2 := by
  simp [flagged]

/-- non-vacuity: two adjacent flagged segments stay separate -/
example : statAnoms (fun s e => ((e : Int) - s)) 2 3 [1, 5] 8 = [(0, 1), (1, 5)] := by decide

end Skc
