import Skc.Model.Anomaliser
import Skc.Lemmas.ConvCp
import Skc.Props.C04

/-! # C17 — StatThresholdAnomaliser flags exactly the out-of-range segments

Model: `statAnoms` (`Skc/Model/Anomaliser.lean`).  The statistic is an arbitrary function of the
segment (the user's callable applied to the rows `[s, e)`), the bounds arbitrary.  That the user's
detector object is left unfitted and unaltered (a clone is fitted) is an object-model fact checked
by the harness. -/
namespace Skc
variable {α : Type} [LT α] [DecidableLT α]

/-- **C17**: for valid changepoints (strictly increasing, in `[1, n-1]`) the reported anomalies are
    exactly the segments `[c_i, c_{i+1})` delimited by the wrapped detector's changepoints whose
    statistic is below `lo` or above `hi`. -/
theorem anomaliser_flags_out_of_range_segments (stat : Nat → Nat → α) (lo hi : α)
    (cps : List Nat) (n : Nat) (hn : 1 ≤ n) (h : ValidCps cps n) :
    statAnoms stat lo hi cps n = (segmentsFrom 0 cps n).filter (flagged stat lo hi) := by
  unfold statAnoms labelGroups
  have hlen : (cpS2D cps n).length = n := by simp [cpS2D]
  have hne : (cpS2D cps n).isEmpty = false := by
    cases hc : cpS2D cps n with
    | nil => rw [hc] at hlen; simp at hlen; omega
    | cons _ _ => rfl
  rw [hne, cp_roundtrip cps n h, hlen]
  rfl

/-- **C17**: each flagged segment is reported as its own interval, in order — the output is a
    sublist of the segment list, so adjacent flagged segments are never merged -/
theorem anomaliser_output_sublist (stat : Nat → Nat → α) (lo hi : α)
    (cps : List Nat) (n : Nat) (hn : 1 ≤ n) (h : ValidCps cps n) :
    (statAnoms stat lo hi cps n).Sublist (segmentsFrom 0 cps n) := by
  rw [anomaliser_flags_out_of_range_segments stat lo hi cps n hn h]
  exact List.filter_sublist

/-- the segments delimited by valid changepoints are consecutive, non-empty and inside `[s, n]` -/
theorem segmentsFrom_wf : ∀ (cps : List Nat) (s n : Nat), cps.Pairwise (· < ·) →
    (∀ c ∈ cps, s < c ∧ c < n) → s < n →
    (segmentsFrom s cps n).Pairwise (fun a b => a.2 ≤ b.1) ∧
      ∀ a ∈ segmentsFrom s cps n, s ≤ a.1 ∧ a.1 < a.2 ∧ a.2 ≤ n
  | [], s, n, _, _, hsn => by
    simp only [segmentsFrom, List.pairwise_singleton, List.mem_singleton, true_and]
    intro a ha; subst ha; exact ⟨Nat.le_refl _, hsn, Nat.le_refl _⟩
  | c :: cs, s, n, hp, hb, hsn => by
    obtain ⟨hc1, hc2⟩ := hb c (by simp)
    have hp' := (List.pairwise_cons.1 hp)
    obtain ⟨ih1, ih2⟩ := segmentsFrom_wf cs c n hp'.2
      (fun x hx => ⟨hp'.1 x hx, (hb x (by simp [hx])).2⟩) hc2
    simp only [segmentsFrom]
    refine ⟨List.pairwise_cons.2 ⟨fun b hb' => (ih2 b hb').1, ih1⟩, ?_⟩
    intro a ha
    rcases List.mem_cons.1 ha with rfl | ha
    · exact ⟨Nat.le_refl _, hc1, Nat.le_of_lt hc2⟩
    · obtain ⟨g1, g2, g3⟩ := ih2 a ha
      exact ⟨by omega, g2, g3⟩

/-- **C17 / C04**: the anomaliser's output is sorted, pairwise disjoint, and made of non-empty
    intervals inside `[0, n]` -/
theorem anomaliser_output_wellformed (stat : Nat → Nat → α) (lo hi : α)
    (cps : List Nat) (n : Nat) (hn : 1 ≤ n) (h : ValidCps cps n) :
    (statAnoms stat lo hi cps n).Pairwise (fun a b => a.2 ≤ b.1) ∧
      ∀ a ∈ statAnoms stat lo hi cps n, a.1 < a.2 ∧ a.2 ≤ n := by
  obtain ⟨w1, w2⟩ := segmentsFrom_wf cps 0 n h.1 (fun c hc => ⟨by have := (h.2 c hc).1; omega, (h.2 c hc).2⟩) (by omega)
  have hsub := anomaliser_output_sublist stat lo hi cps n hn h
  refine ⟨w1.sublist hsub, ?_⟩
  intro a ha
  exact (w2 a (hsub.subset ha)).2

/-- **C17 composed with C02/C04**: the hypothesis "valid changepoints" is a theorem for the default
    wrapped detector — PELT's output is strictly increasing inside `[1, n-1]` — so the anomaliser over
    PELT flags exactly the out-of-range segments of PELT's segmentation, for every cost table with the
    split inequality -/
theorem anomaliser_over_pelt {β : Type} [AddCommGroup β] [LinearOrder β] [IsOrderedAddMonoid β]
    (stat : Nat → Nat → α) (lo hi : α) (cost : Nat → Nat → β) (pen : β) (m n : Nat)
    (hm : 1 ≤ m) (hn : 2 * m ≤ n) (hsplit : SplitIneq cost m n) :
    let cps := (runPeltCode cost pen m n).2
    ValidCps cps n ∧
      statAnoms stat lo hi cps n = (segmentsFrom 0 cps n).filter (flagged stat lo hi) := by
  intro cps
  obtain ⟨h1, h2⟩ := pelt_changepoints_wellformed cost pen m n hm hn hsplit
  have hv : ValidCps cps n := by
    refine ⟨h1.imp (by intro a b h; omega), ?_⟩
    intro c hc
    have := h2 c hc
    omega
  exact ⟨hv, anomaliser_flags_out_of_range_segments stat lo hi cps n (by omega) hv⟩

/-- a segment is flagged iff its statistic is out of range -/
theorem flagged_iff (stat : Nat → Nat → α) (lo hi : α) (seg : Nat × Nat) :
    flagged stat lo hi seg = true ↔ stat seg.1 seg.2 < lo ∨ hi < stat seg.1 seg.2 := by
  simp [flagged]

/-- non-vacuity: two adjacent flagged segments stay separate -/
example : statAnoms (fun s e => ((e : Int) - s)) 2 3 [1, 5] 8 = [(0, 1), (1, 5)] := by decide

end Skc
