import Skc.Lemmas.Where
import Skc.Model.Det
import Skc.Lemmas.Sbs

/-! # C08 — moving window: symmetric two-sided scores and peak-of-run detections

Models: `mwScores` (`moving_window_transform`), `whereRuns` (`utils.numba.general.where`),
`mwCpts` (`get_moving_window_changepoints`) — `Skc/Model/Det.lean`, `Skc/Model/Greedy.lean`. -/
namespace Skc

/-- **C08, score definition**: the score at `t` is the change score between the `b` samples before
    `t` and the `b` samples from `t` on, for `b ≤ t ≤ n - b`, and `0` elsewhere (`off = 0` is the
    code; `off = 1` was the pinned upstream code with a left window one sample short). -/
theorem mw_scores_def {α : Type} [Zero α] (cs : Nat → Nat → Nat → α) (n b t : Nat) :
    mwScores cs n b 0 t = if b ≤ t ∧ t + b ≤ n then cs (t - b) t (t + b) else 0 := by
  simp [mwScores]

/-- **C08, runs**: `where` returns exactly the maximal runs of `true`. -/
theorem where_exactly_maximal_runs (ind : List Bool) (a b : Nat) :
    (a, b) ∈ whereRuns ind ↔ IsRun ind a b :=
  whereRuns_spec ind a b

/-- the indicator the code passes to `where`: `scores > threshold` at every position -/
def aboveInd {α : Type} [LT α] [DecidableLT α] (scores : Nat → α) (n : Nat) (thr : α) : List Bool :=
  (List.range n).map (fun t => decide (thr < scores t))

/-- **C08, peak-of-run detections (soundness)**: every reported changepoint is the position of the
    maximum score within a maximal run of at least `min_detection_interval` consecutive positions
    whose score exceeds the threshold. -/
theorem mw_changepoint_is_peak_of_run {α : Type} [LinearOrder α] (scores : Nat → α) (n : Nat)
    (thr : α) (mdi : Nat) :
    ∀ c ∈ mwCpts scores n thr mdi, ∃ a b, IsRun (aboveInd scores n thr) a b ∧ mdi ≤ b - a ∧
      a ≤ c ∧ c < b ∧ ∀ t, a ≤ t → t < b → scores t ≤ scores c := by
  intro c hc
  simp only [mwCpts, List.mem_map, List.mem_filter, decide_eq_true_eq] at hc
  obtain ⟨⟨a, b⟩, ⟨hrun, hlen⟩, rfl⟩ := hc
  have hR : IsRun (aboveInd scores n thr) a b := (whereRuns_spec _ a b).1 hrun
  have hab : a < b := hR.1
  obtain ⟨h1, h2, h3⟩ := argmaxRange_spec scores (b - a - 1) (a + 1) a
  refine ⟨a, b, hR, hlen, ?_, ?_, ?_⟩
  · rcases h1 with h1 | h1
    · simp only at h1 ⊢; omega
    · simp only at h1 ⊢; omega
  · rcases h1 with h1 | h1
    · simp only at h1 ⊢; omega
    · simp only at h1 ⊢; omega
  · intro t ht1 ht2
    by_cases hta : t = a
    · subst hta; exact h2
    · exact h3 t (by omega) (by omega)

/-- **C08, peak-of-run detections (completeness)**: every maximal above-threshold run of at least
    `min_detection_interval` positions yields a changepoint inside it. -/
theorem mw_every_long_run_detected {α : Type} [LinearOrder α] (scores : Nat → α) (n : Nat)
    (thr : α) (mdi : Nat) (a b : Nat) (hR : IsRun (aboveInd scores n thr) a b) (hlen : mdi ≤ b - a) :
    ∃ c ∈ mwCpts scores n thr mdi, a ≤ c ∧ c < b := by
  have hrun : (a, b) ∈ whereRuns (aboveInd scores n thr) := (whereRuns_spec _ a b).2 hR
  refine ⟨argmaxRange scores (a + 1) (b - a - 1) a, ?_, ?_⟩
  · simp only [mwCpts, List.mem_map, List.mem_filter, decide_eq_true_eq]
    exact ⟨(a, b), ⟨hrun, hlen⟩, rfl⟩
  · have hab : a < b := hR.1
    obtain ⟨h1, _, _⟩ := argmaxRange_spec scores (b - a - 1) (a + 1) a
    rcases h1 with h1 | h1 <;> omega

/-- **C08 / C04**: the reported changepoints are strictly increasing — runs are disjoint and in
    scan order, and each changepoint lies inside its run. -/
theorem mw_changepoints_strictly_increasing {α : Type} [LinearOrder α] (scores : Nat → α) (n : Nat)
    (thr : α) (mdi : Nat) : (mwCpts scores n thr mdi).Pairwise (· < ·) := by
  simp only [mwCpts]
  apply List.Pairwise.map (R := fun r r' : Nat × Nat =>
    r.2 ≤ r'.1 ∧ r.1 < r.2 ∧ r'.1 < r'.2)
  · intro r r' ⟨h1, h2, h3⟩
    obtain ⟨a1, _, _⟩ := argmaxRange_spec scores (r.2 - r.1 - 1) (r.1 + 1) r.1
    obtain ⟨b1, _, _⟩ := argmaxRange_spec scores (r'.2 - r'.1 - 1) (r'.1 + 1) r'.1
    omega
  · apply List.Pairwise.filter
    have hp := whereRuns_pairwise (aboveInd scores n thr)
    have hne : ∀ r ∈ whereRuns (aboveInd scores n thr), r.1 < r.2 := by
      intro r hr
      exact ((whereRuns_spec _ r.1 r.2).1 hr).1
    exact (List.Pairwise.and_mem.1 hp).imp (fun ⟨ha, hb, hab⟩ => ⟨hab, hne _ ha, hne _ hb⟩)

/-- **C08, time reversal of the scores**: if the change score of the reversed series on a cut is
    the change score of the original series on the mirrored cut, then the moving-window score at
    `t` of the reversed series is the score at `n - t` of the original one. -/
theorem mw_scores_reversal {α : Type} [Zero α] (cs cs' : Nat → Nat → Nat → α) (n b t : Nat)
    (hrev : ∀ s k e, e ≤ n → cs' s k e = cs (n - e) (n - k) (n - s)) (ht : t ≤ n) :
    mwScores cs' n b 0 t = mwScores cs n b 0 (n - t) := by
  simp only [mwScores, Nat.add_zero]
  by_cases h : b ≤ t ∧ t + b ≤ n
  · have h' : b ≤ n - t ∧ n - t + b ≤ n := by omega
    simp only [h, h', and_self, if_true]
    rw [hrev (t - b) t (t + b) h.2]
    congr 1 <;> omega
  · have h' : ¬ (b ≤ n - t ∧ n - t + b ≤ n) := by omega
    simp only [h, h', if_false]

example : whereRuns [false, true, true, false, true] = [(1, 3), (4, 5)] := by decide

end Skc
