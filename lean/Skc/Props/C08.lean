import Skc.Lemmas.Where
import Skc.Model.Det

/-! # C08 — moving window: symmetric two-sided scores and peak-of-run detections

Models: `mwScores` (`moving_window_transform`), `whereRuns` (`utils.numba.general.where`),
`mwCpts` (`get_moving_window_changepoints`) — `Skc/Model/Det.lean`, `Skc/Model/Greedy.lean`. -/
namespace Skc

/-- **C08, score definition**: the score at `t` is the change score between the `b` samples before
    `t` and the `b` samples from `t` on, for `b ≤ t ≤ n - b`, and `0` elsewhere (`off = 0` is the
    code; `off = 1` was the pinned upstream code with a left window one sample short). -/
theorem mw_scores_def {α : Type} [Zero α] (cs : Nat → Nat → Nat → α) (n b t : Nat) :
    mwScores cs n b 0 t = if b ≤ t ∧ t + b ≤ n then cs (t - b) t (t + b) else 0 := by
  simp [mwScores]

/-- **C08, runs**: `where` returns exactly the maximal runs of `true`. -/
theorem where_exactly_maximal_runs (ind : List Bool) (a b : Nat) :
    (a, b) ∈ whereRuns ind ↔ IsRun ind a b :=
  whereRuns_spec ind a b

example : whereRuns [false, true, true, false, true] = [(1, 3), (4, 5)] := by decide

end Skc
