import Skc.Lemmas.Where
import Skc.Model.Det
import Skc.Lemmas.Sbs
import Skc.Lemmas.MwRev

/-! # C08 — moving window: symmetric two-sided scores and peak-of-run detections

Models: `mwScores` (`moving_window_transform`), `whereRuns` (`utils.numba.general.where`),
`mwCpts` (`get_moving_window_changepoints`) — `Skc/Model/Det.lean`, `Skc/Model/Greedy.lean`. -/
namespace Skc

/-- **C08, score definition**: the score at `t` is the change score between the `b` samples before
    `t` and the `b` samples from `t` on, for `b ≤ t ≤ n - b`, and `0` elsewhere (`off = 0` is the
    code; `off = 1` was the pinned upstream code with a left window one sample short). -/
theorem mw_scores_def {α : Type} [Zero α] (cs : Nat → Nat → Nat → α) (n b t : Nat) :
    mwScores cs n b 0 t = if b ≤ t ∧ t + b ≤ n then cs (t - b) t (t + b) else 0 := by
  simp [mwScores]

/-- **C08, runs**: `where` returns exactly the maximal runs of `true`. -/
theorem where_exactly_maximal_runs (ind : List Bool) (a b : Nat) :
    (a, b) ∈ whereRuns ind ↔ IsRun ind a b :=
  whereRuns_spec ind a b

/-- **C08, peak-of-run detections (soundness)**: every reported changepoint is the position of the
    maximum score within a maximal run of at least `min_detection_interval` consecutive positions
    whose score exceeds the threshold. -/
theorem mw_changepoint_is_peak_of_run {α : Type} [LinearOrder α] (scores : Nat → α) (n : Nat)
    (thr : α) (mdi : Nat) :
    ∀ c ∈ mwCpts scores n thr mdi, ∃ a b, IsRun (aboveInd scores n thr) a b ∧ mdi ≤ b - a ∧
      a ≤ c ∧ c < b ∧ ∀ t, a ≤ t → t < b → scores t ≤ scores c := by
  intro c hc
  simp only [mwCpts, List.mem_map, List.mem_filter, decide_eq_true_eq] at hc
  obtain ⟨⟨a, b⟩, ⟨hrun, hlen⟩, rfl⟩ := hc
  have hR : IsRun (aboveInd scores n thr) a b := (whereRuns_spec _ a b).1 hrun
  have hab : a < b := hR.1
  obtain ⟨h1, h2, h3⟩ := argmaxRange_spec scores (b - a - 1) (a + 1) a
  refine ⟨a, b, hR, hlen, ?_, ?_, ?_⟩
  · rcases h1 with h1 | h1
    · simp only at h1 ⊢; omega
    · simp only at h1 ⊢; omega
  · rcases h1 with h1 | h1
    · simp only at h1 ⊢; omega
    · simp only at h1 ⊢; omega
  · intro t ht1 ht2
    by_cases hta : t = a
    · subst hta; exact h2
    · exact h3 t (by omega) (by omega)

/-- **C08, peak-of-run detections (completeness)**: every maximal above-threshold run of at least
    `min_detection_interval` positions yields a changepoint inside it. -/
theorem mw_every_long_run_detected {α : Type} [LinearOrder α] (scores : Nat → α) (n : Nat)
    (thr : α) (mdi : Nat) (a b : Nat) (hR : IsRun (aboveInd scores n thr) a b) (hlen : mdi ≤ b - a) :
    ∃ c ∈ mwCpts scores n thr mdi, a ≤ c ∧ c < b := by
  have hrun : (a, b) ∈ whereRuns (aboveInd scores n thr) := (whereRuns_spec _ a b).2 hR
  refine ⟨argmaxRange scores (a + 1) (b - a - 1) a, ?_, ?_⟩
  · simp only [mwCpts, List.mem_map, List.mem_filter, decide_eq_true_eq]
    exact ⟨(a, b), ⟨hrun, hlen⟩, rfl⟩
  · have hab : a < b := hR.1
    obtain ⟨h1, _, _⟩ := argmaxRange_spec scores (b - a - 1) (a + 1) a
    rcases h1 with h1 | h1 <;> omega

/-- **C08 / C04**: the reported changepoints are strictly increasing — runs are disjoint and in
    scan order, and each changepoint lies inside its run. -/
theorem mw_changepoints_strictly_increasing {α : Type} [LinearOrder α] (scores : Nat → α) (n : Nat)
    (thr : α) (mdi : Nat) : (mwCpts scores n thr mdi).Pairwise (· < ·) := by
  simp only [mwCpts]
  apply List.Pairwise.map (R := fun r r' : Nat × Nat =>
    r.2 ≤ r'.1 ∧ r.1 < r.2 ∧ r'.1 < r'.2)
  · intro r r' ⟨h1, h2, h3⟩
    obtain ⟨a1, _, _⟩ := argmaxRange_spec scores (r.2 - r.1 - 1) (r.1 + 1) r.1
    obtain ⟨b1, _, _⟩ := argmaxRange_spec scores (r'.2 - r'.1 - 1) (r'.1 + 1) r'.1
    omega
  · apply List.Pairwise.filter
    have hp := whereRuns_pairwise (aboveInd scores n thr)
    have hne : ∀ r ∈ whereRuns (aboveInd scores n thr), r.1 < r.2 := by
      intro r hr
      exact ((whereRuns_spec _ r.1 r.2).1 hr).1
    exact (List.Pairwise.and_mem.1 hp).imp (fun ⟨ha, hb, hab⟩ => ⟨hab, hne _ ha, hne _ hb⟩)

/-- **C08, time reversal of the scores**: if the change score of the reversed series on a cut is
    the change score of the original series on the mirrored cut, then the moving-window score at
    `t` of the reversed series is the score at `n - t` of the original one. -/
theorem mw_scores_reversal {α : Type} [Zero α] (cs cs' : Nat → Nat → Nat → α) (n b t : Nat)
    (hrev : ∀ s k e, e ≤ n → cs' s k e = cs (n - e) (n - k) (n - s)) (ht : t ≤ n) :
    mwScores cs' n b 0 t = mwScores cs n b 0 (n - t) := by
  simp only [mwScores, Nat.add_zero]
  by_cases h : b ≤ t ∧ t + b ≤ n
  · have h' : b ≤ n - t ∧ n - t + b ≤ n := by omega
    simp only [h, h', and_self, if_true]
    rw [hrev (t - b) t (t + b) h.2]
    congr 1 <;> omega
  · have h' : ¬ (b ≤ n - t ∧ n - t + b ≤ n) := by omega
    simp only [h, h', if_false]

/-- **C08, time reversal of the changepoints**: if `scores'` are the scores of the reversed series
    (`scores' t = scores (n − t)` on `1..n−1`, position 0 not above the threshold — its score is 0
    and thresholds are `≥ 0`) and the above-threshold scores are pairwise distinct (ties excluded:
    a run with equal maxima reports its *first* peak, which reversal turns into the last), then `c`
    is a changepoint of the reversed series iff `n − c` is one of the original series … -/
theorem mw_changepoints_reversal {α : Type} [LinearOrder α] (scores scores' : Nat → α) (n : Nat)
    (thr : α) (mdi : Nat) (h : Reversed scores scores' n thr) (hd : DistinctAbove scores n thr) (c : Nat) :
    c ∈ mwCpts scores' n thr mdi ↔ 1 ≤ c ∧ c < n ∧ (n - c) ∈ mwCpts scores n thr mdi :=
  mem_mwCpts_reverse h hd mdi c

/-- … so the list reported for the reversed series is the mirrored list in reverse order. -/
theorem mw_changepoints_reversal_list {α : Type} [LinearOrder α] (scores scores' : Nat → α) (n : Nat)
    (thr : α) (mdi : Nat) (h : Reversed scores scores' n thr) (hd : DistinctAbove scores n thr) :
    mwCpts scores' n thr mdi = ((mwCpts scores n thr mdi).map (fun c => n - c)).reverse := by
  have hrange : ∀ c ∈ mwCpts scores n thr mdi, 1 ≤ c ∧ c < n := by
    intro c hc
    have := (mem_mwCpts_reverse h.symm (distinctAbove_reverse h hd) mdi c).1 hc
    exact ⟨this.1, this.2.1⟩
  apply List.Pairwise.eq_of_mem_iff (r := (· < ·))
  · exact mw_changepoints_strictly_increasing scores' n thr mdi
  · rw [List.pairwise_reverse, List.pairwise_map]
    have hp := mw_changepoints_strictly_increasing scores n thr mdi
    exact (List.Pairwise.and_mem.1 hp).imp (fun ⟨ha, hb, hab⟩ => by
      have := hrange _ ha; have := hrange _ hb; omega)
  · intro c
    rw [mem_mwCpts_reverse h hd mdi c]
    simp only [List.mem_reverse, List.mem_map]
    constructor
    · rintro ⟨h1, h2, h3⟩
      exact ⟨n - c, h3, by omega⟩
    · rintro ⟨c0, hc0, rfl⟩
      obtain ⟨g1, g2⟩ := hrange c0 hc0
      have e : n - (n - c0) = c0 := by omega
      exact ⟨by omega, by omega, by rw [e]; exact hc0⟩

/-- non-vacuity of the reversal hypotheses: scores 0,3,5,0,4,0 at positions 0..5 (n = 6), threshold 1 -/
example : Reversed (fun t => ([0, 3, 5, 0, 4, 0] : List Int).getD t 0)
    (fun t => ([0, 0, 4, 0, 5, 3] : List Int).getD t 0) 6 1 := by
  refine ⟨?_, by decide, by decide⟩
  intro t h1 h2
  have : t = 1 ∨ t = 2 ∨ t = 3 ∨ t = 4 ∨ t = 5 := by omega
  rcases this with rfl | rfl | rfl | rfl | rfl <;> decide
example : mwCpts (fun t => ([0, 3, 5, 0, 4, 0] : List Int).getD t 0) 6 1 1 = [2, 4] ∧
    mwCpts (fun t => ([0, 0, 4, 0, 5, 3] : List Int).getD t 0) 6 1 1 = [2, 4] := by decide

example : whereRuns [false, true, true, false, true] = [(1, 3), (4, 5)] := by decide

end Skc
