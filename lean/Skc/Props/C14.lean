import Skc.Model.Config
import Skc.Lemmas.Sbs
import Skc.Lemmas.Layout
import Skc.Lemmas.SeededGrid
import Mathlib.Tactic.Linarith
import Mathlib.Tactic.NormNum

/-! # C14 — documented-valid configurations always run; invalid ones fail with ValueError

`*.ctorOk` / `*.fitOk` (`Skc/Model/Config.lean`) transcribe the checks the code performs; the
`Documented*` predicates below transcribe the documented domains (docstrings and the property text).
The theorems say the two coincide, and that on the documented domain the algorithm models are total
(no empty `argmax`, no empty interval list).  The remaining algorithm models (`runPelt`, `runCapa`,
`runCbs`, `mwScores`/`mwCpts`) are total functions by construction; that the Python code raises
nothing else on valid configurations is what the boundary-grid correspondence checks. -/
namespace Skc

def DocumentedPelt (c : PeltCfg) : Prop :=
  (∀ s, c.penaltyScale = some s → 0 ≤ s) ∧ 1 ≤ c.minSeg
theorem pelt_ctor_iff (c : PeltCfg) : c.ctorOk = true ↔ DocumentedPelt c := by
  unfold PeltCfg.ctorOk DocumentedPelt geOpt
  cases h : c.penaltyScale <;> simp

def DocumentedMw (c : MwCfg) : Prop :=
  1 ≤ c.bandwidth ∧ (∀ s, c.thresholdScale = some s → 0 ≤ s) ∧ 0 ≤ c.level ∧
    1 ≤ c.minDetInt ∧ c.minDetInt ≤ max 1 (c.bandwidth / 2)
theorem mw_ctor_iff (c : MwCfg) : c.ctorOk = true ↔ DocumentedMw c := by
  unfold MwCfg.ctorOk DocumentedMw geOpt
  cases h : c.thresholdScale <;> simp [and_assoc]

/-- threshold scale `≥ 0` or tuned, level in `(0,1)`, `min_segment_length ≥ 1`,
    `max_interval_length ≥ 2·min_segment_length`, growth factor in `(1, 2]` -/
def DocumentedBinseg (c : BinsegCfg) : Prop :=
  (∀ s, c.thresholdScale = some s → 0 ≤ s) ∧ (0 < c.level ∧ c.level < 1) ∧ 1 ≤ c.minSeg ∧
    2 * c.minSeg ≤ c.maxInterval ∧ (1 < c.growth ∧ c.growth ≤ 2)
theorem binseg_ctor_iff (c : BinsegCfg) : c.ctorOk = true ↔ DocumentedBinseg c := by
  unfold BinsegCfg.ctorOk DocumentedBinseg geOpt
  cases h : c.thresholdScale <;> simp [and_assoc]

def DocumentedCapa (c : CapaCfg) : Prop :=
  (∃ s, c.collScale = some s ∧ 0 ≤ s) ∧ (∃ s, c.pointScale = some s ∧ 0 ≤ s) ∧
    2 ≤ c.minSeg ∧ c.minSeg ≤ c.maxSeg
theorem capa_ctor_iff (c : CapaCfg) : c.ctorOk = true ↔ DocumentedCapa c := by
  unfold CapaCfg.ctorOk DocumentedCapa geOpt
  cases h1 : c.collScale <;> cases h2 : c.pointScale <;> simp [and_assoc]

theorem stat_ctor_iff (c : StatCfg) : c.ctorOk = true ↔ c.lower ≤ c.upper := by
  simp [StatCfg.ctorOk]

/-- `fit` accepts exactly data without missing values that are at least the documented minimum
    length (`2·min_segment_length`, `2·bandwidth`, or `min_segment_length` for CAPA/MVCAPA) -/
theorem binseg_fit_iff (c : BinsegCfg) (n : Nat) (nan : Bool) :
    c.fitOk n nan = true ↔ nan = false ∧ 2 * c.minSeg ≤ (n : Rat) := by
  cases nan <;> simp [BinsegCfg.fitOk]
theorem mw_fit_iff (c : MwCfg) (n : Nat) (nan : Bool) :
    c.fitOk n nan = true ↔ nan = false ∧ 2 * c.bandwidth ≤ (n : Rat) := by
  cases nan <;> simp [MwCfg.fitOk]
theorem capa_fit_iff (c : CapaCfg) (n : Nat) (nan : Bool) :
    c.fitOk n nan = true ↔ nan = false ∧ c.minSeg ≤ (n : Rat) := by
  cases nan <;> simp [CapaCfg.fitOk]
theorem pelt_fit_iff (c : PeltCfg) (n : Nat) (nan : Bool) :
    c.fitOk n nan = true ↔ nan = false ∧ 2 * c.minSeg ≤ (n : Rat) ∧ c.penaltyScale.isSome = true := by
  cases nan <;> simp [PeltCfg.fitOk, and_assoc]

/-! ### totality of seeded binary segmentation on the documented domain -/

theorem mapOpt_ne_none {β γ : Type} (f : β → Option γ) : ∀ (l : List β),
    (∀ b ∈ l, f b ≠ none) → mapOpt f l ≠ none
  | [], _ => by simp [mapOpt]
  | b :: l, h => by
    have hb := h b (by simp)
    have hl := mapOpt_ne_none f l (fun x hx => h x (by simp [hx]))
    simp only [mapOpt]
    cases h1 : f b with
    | none => exact absurd h1 hb
    | some c =>
      cases h2 : mapOpt f l with
      | none => exact absurd h2 hl
      | some cs => simp

/-- **C14, boundary settings**: for every admissible schedule (in particular
    `max_interval_length = 2·min_segment_length` and `n = 2·min_segment_length`) the candidate list
    is non-empty and seeded binary segmentation evaluates every interval — the `argmax` over
    admissible splits is never taken over an empty sequence. -/
theorem sbs_runs_on_valid_config {α : Type} [LinearOrder α] [Zero α]
    (cs : Nat → Nat → Nat → α) (m n maxLen : Nat) (thr : α) (sched : List (Nat × Nat))
    (hm : 1 ≤ m) (hs : AdmissibleSchedule n (2 * m) maxLen sched) :
    seededFrom n (2 * m) sched ≠ [] ∧ runSbs cs m thr (seededFrom n (2 * m) sched) ≠ none := by
  obtain ⟨hne, hall⟩ := seededFrom_spec n (2 * m) maxLen sched (by omega) hs
  refine ⟨hne, ?_⟩
  have hmo : mapOpt (amoc cs m) (seededFrom n (2 * m) sched) ≠ none := by
    apply mapOpt_ne_none
    intro iv hiv
    have h1 := (hall iv hiv).2.1
    intro hnone
    have := (amoc_spec cs m iv).1.1 hnone
    omega
  unfold runSbs
  cases h : mapOpt (amoc cs m) (seededFrom n (2 * m) sched) with
  | none => exact absurd h hmo
  | some rows => simp

/-- **C14, growth factor close to 1 (repair of finding #27)**: the repaired `make_seeded_intervals` returns
    all integer lengths `min..max` directly when the geometric grid it would otherwise build has
    `N = n_lengths − 1 ≥ (2·max+1)·log(max/min)` steps.  That is what rounding the grid would give: every
    integer length in `[min, max]` lies *strictly* within 1/2 of a grid point `min·r^k`, `r = (max/min)^(1/N)`
    (so it is produced under any rounding mode), and rounding a point of `[min, max]` cannot leave
    `[min, max]`.  Hence every documented growth factor in (1, 2] — however close to 1 — runs without the
    astronomically large grid, with the same candidate lengths. -/
theorem seeded_lengths_fast_path_exact (mn mx N : ℕ) (hmn : 0 < mn) (hlt : mn < mx)
    (hN : (2 * (mx : ℝ) + 1) * Real.log ((mx : ℝ) / mn) ≤ N) (len : ℕ) (h1 : mn ≤ len) (h2 : len ≤ mx) :
    ∃ k, k ≤ N ∧ |(mn : ℝ) * Real.exp (Real.log ((mx : ℝ) / mn) / N) ^ k - len| < 1 / 2 :=
  geom_grid_covers_integers mn mx N hmn hlt hN len h1 h2

/-- non-vacuity of the hypothesis: `min = 2`, `max = 3`, `N = 4` steps (`7·log 1.5 ≈ 2.84 ≤ 4`) -/
example : (2 * ((3 : ℕ) : ℝ) + 1) * Real.log (((3 : ℕ) : ℝ) / (2 : ℕ)) ≤ (4 : ℕ) := by
  have h : Real.log ((3 : ℝ) / 2) ≤ 3 / 2 - 1 := Real.log_le_sub_one_of_pos (by norm_num)
  push_cast
  nlinarith

/-- non-vacuity: boundary configurations inside and outside the documented domain -/
example : DocumentedBinseg ⟨some 0, 1 / 100, 1, 2, 2⟩ := by
  unfold DocumentedBinseg; norm_num
example : ¬ DocumentedBinseg ⟨some 0, 1 / 100, 5, 9, 3 / 2⟩ := by
  unfold DocumentedBinseg; norm_num
example : DocumentedMw ⟨4, none, 1 / 100, 2⟩ := by
  unfold DocumentedMw; refine ⟨by norm_num, by simp, by norm_num, by norm_num, by norm_num⟩

end Skc
