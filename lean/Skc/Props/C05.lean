import Skc.Lemmas.Conv
import Skc.Lemmas.ConvCp
import Skc.Lemmas.ConvSub

/-! # C05 — dense labels and sparse detections describe the same events

Models (`Skc/Model/Conv.lean`): position-based `collS2D`/`collD2S` (collective anomalies),
`cpS2D`/`cpD2S` (change detectors), `subS2D`/`subD2S` (subset anomalies, MVCAPA).  The index of the
data is *not* an input of these functions: dense labels depend on positions only, which is the
model-level content of "whatever the type or values of X's index" (tied to the code by running
the implementation under five index types). -/
namespace Skc

/-- **C05, collective anomalies, round trip**: any valid sparse output (sorted, pairwise disjoint,
    non-empty intervals inside `[0,n]`; adjacent intervals, length-1 intervals and intervals
    touching 0 or n included) survives sparse → dense → sparse unchanged. -/
theorem coll_dense_sparse_roundtrip (anoms : List (Nat × Nat)) (n : Nat) (h : ValidIv 0 anoms n) :
    collD2S (collS2D anoms n) = anoms :=
  coll_roundtrip anoms n h

/-- **C05, change detectors, round trip** for strictly increasing changepoints in `[1, n-1]`. -/
theorem cp_dense_sparse_roundtrip (cps : List Nat) (n : Nat) (h : ValidCps cps n) :
    cpD2S (cpS2D cps n) = cps :=
  cp_roundtrip cps n h

/-- **C05, change detectors, dense labels**: position `i` carries the number of its segment. -/
theorem cp_dense_label (cps : List Nat) (n i : Nat) (hi : i < n) :
    (cpS2D cps n)[i]? = some (segNo cps i) :=
  cpS2D_getElem cps n i hi

/-- a position not covered by any anomaly is labelled 0 -/
theorem coll_label_uncovered : ∀ (anoms : List (Nat × Nat)) (k i : Nat),
    (∀ a ∈ anoms, ¬ (a.1 ≤ i ∧ i < a.2)) → labelAt anoms k i = 0
  | [], _, _, _ => rfl
  | (s, e) :: rest, k, i, h => by
    have h1 := h (s, e) (by simp)
    simp only at h1
    simp only [labelAt, h1, if_false]
    exact coll_label_uncovered rest (k + 1) i (fun a ha => h a (by simp [ha]))

/-- every interval of a valid list starts at or after the lower bound -/
theorem validIv_getElem_ge : ∀ (l : List (Nat × Nat)) (lo n j s e : Nat),
    ValidIv lo l n → l[j]? = some (s, e) → lo ≤ s
  | [], _, _, _, _, _, _, h => by simp at h
  | (a1, a2) :: t, lo, n, 0, s, e, hv, h => by
    simp only [List.getElem?_cons_zero, Option.some.injEq, Prod.mk.injEq] at h
    obtain ⟨g1, _, _⟩ := hv
    omega
  | (a1, a2) :: t, lo, n, j + 1, s, e, hv, h => by
    simp only [List.getElem?_cons_succ] at h
    obtain ⟨g1, g2, g3⟩ := hv
    have := validIv_getElem_ge t a2 n j s e g3 h
    omega

/-- **C05, collective anomalies, dense labels**: a position covered by the `j`-th anomaly of a valid
    sparse output is labelled `j + 1`. -/
theorem coll_label_covered : ∀ (anoms : List (Nat × Nat)) (lo n k j i : Nat) (s e : Nat),
    ValidIv lo anoms n → anoms[j]? = some (s, e) → s ≤ i → i < e → labelAt anoms k i = k + j + 1
  | [], _, _, _, _, _, _, _, _, h, _, _ => by simp at h
  | (s0, e0) :: rest, lo, n, k, 0, i, s, e, _, h, h1, h2 => by
    simp only [List.getElem?_cons_zero, Option.some.injEq, Prod.mk.injEq] at h
    obtain ⟨rfl, rfl⟩ := h
    simp [labelAt, h1, h2]
  | (s0, e0) :: rest, lo, n, k, j + 1, i, s, e, hv, h, h1, h2 => by
    obtain ⟨_, _, hv'⟩ := hv
    simp only [List.getElem?_cons_succ] at h
    -- the j-th interval of `rest` starts at or after e0, so i is not in [s0, e0)
    have hlo : e0 ≤ s := validIv_getElem_ge rest e0 n j s e hv' h
    have hn : ¬ (s0 ≤ i ∧ i < e0) := by omega
    simp only [labelAt, hn, if_false]
    have := coll_label_covered rest e0 n (k + 1) j i s e hv' h h1 h2
    omega

/-- **C05, subset anomalies (MVCAPA), round trip**: any valid sparse output (rows sorted, pairwise
    disjoint, non-empty, inside `[0,n]`, adjacent allowed; affected columns non-empty, strictly
    increasing, below `p`) survives sparse → dense → sparse unchanged, columns included. -/
theorem sub_dense_sparse_roundtrip (anoms : List ((Nat × Nat) × List Nat)) (n p : Nat)
    (h : ValidSub 0 anoms n p) : subD2S (subS2D anoms n p) p = anoms :=
  sub_roundtrip anoms n p h

/-- **C05, subset anomalies, dense labels**: cell `(i, j)` carries label `k+1` exactly when row `i`
    lies in the `k`-th anomaly and column `j` is one of its affected columns … -/
theorem sub_label_iff (anoms : List ((Nat × Nat) × List Nat)) (n p k i j : Nat)
    (hk : k < anoms.length) (h : ValidSub 0 anoms n p) :
    subLabelAt anoms 0 i j = k + 1 ↔
      (anoms[k]).1.1 ≤ i ∧ i < (anoms[k]).1.2 ∧ j ∈ (anoms[k]).2 :=
  subLabel_iff anoms n p k i j hk h

/-- … and label 0 exactly when no anomaly covers the cell -/
theorem sub_label_zero_iff (anoms : List ((Nat × Nat) × List Nat)) (n p i j : Nat)
    (h : ValidSub 0 anoms n p) :
    subLabelAt anoms 0 i j = 0 ↔
      ∀ k, ∀ hk : k < anoms.length, ¬ ((anoms[k]).1.1 ≤ i ∧ i < (anoms[k]).1.2 ∧ j ∈ (anoms[k]).2) := by
  constructor
  · intro h0 k hk hc
    have := (subLabel_iff anoms n p k i j hk h).2 hc
    omega
  · intro hall
    by_contra hne
    obtain ⟨idx, hidx, _, hc⟩ := subLabelAt_val anoms 0 i j hne
    exact hall idx hidx hc

/-- non-vacuity: adjacent anomalies, a point anomaly, anomalies touching both ends -/
example : ValidIv 0 [(0, 2), (2, 3), (5, 8)] 8 := by simp [ValidIv]
example : collS2D [(0, 2), (2, 3), (5, 8)] 8 = [1, 1, 2, 0, 0, 3, 3, 3] := by decide
example : ValidCps [1, 2, 7] 8 := by
  refine ⟨by simp, ?_⟩
  intro c hc
  simp only [List.mem_cons, List.not_mem_nil, or_false] at hc
  rcases hc with rfl | rfl | rfl <;> omega
example : ValidSub 0 [((0, 2), [1]), ((2, 3), [0, 2]), ((5, 8), [0, 1, 2])] 8 3 := by simp [ValidSub]
example : subS2D [((0, 2), [1]), ((2, 3), [0, 2])] 4 3 = [[0, 1, 0], [0, 1, 0], [2, 0, 2], [0, 0, 0]] := by decide

end Skc
