import Skc.Spec.Kernels
import Skc.Model.Basic
import Skc.Lemmas.Quantile
import Skc.Lemmas.PeltCorollaries
import Mathlib.Tactic.Positivity
import Mathlib.Tactic.Linarith

/-! # C15 — thresholds and penalties follow their documented formulas and act monotonically

Formulas: `Skc.CF.*` (`Skc/Spec/Kernels.lean`); the definitions regenerated from /repo are proved
equal to them in `Skc/L1/Formulas.lean` (obligations of this property).  `combined` is modelled on
lists (`cumsum`, pointwise `min`, `diff`).  Not proved: anything about the intermediate family,
which depends on SciPy's χ² quantile and density (uninterpreted); the combined family's properties
are proved *given* a non-negative non-decreasing intermediate cumulative penalty. -/
namespace Skc

/-! ### fitted value = scale × default -/

/-- every fitted threshold / penalty is `scale * default(n, p, …)`; in particular proportional to
    the scale -/
def fitted (scale dflt : ℝ) : ℝ := scale * dflt

theorem fitted_proportional (c scale dflt : ℝ) : fitted (c * scale) dflt = c * fitted scale dflt := by
  unfold fitted; ring

/-! ### CAPA's collective penalty and the dense / sparse families -/

theorem capaPenalty_proportional (n k c scale : ℝ) :
    CF.capaPenalty n k (c * scale) = c * CF.capaPenalty n k scale := by
  unfold CF.capaPenalty; ring

theorem capaPenalty_eq_scale_mul (n k scale : ℝ) :
    CF.capaPenalty n k scale = scale * CF.capaPenalty n k 1 := by
  unfold CF.capaPenalty; ring

/-- non-negative for `scale ≥ 0`, `k ≥ 0` parameters, `n ≥ 1` samples -/
theorem capaPenalty_nonneg (n k scale : ℝ) (hs : 0 ≤ scale) (hk : 0 ≤ k) (hn : 1 ≤ n) :
    0 ≤ CF.capaPenalty n k scale := by
  unfold CF.capaPenalty
  have hl : 0 ≤ Real.log n := Real.log_nonneg hn
  have hsq : 0 ≤ Real.sqrt (k * Real.log n) := Real.sqrt_nonneg _
  positivity

/-- the sparse family's terms are non-negative for `n ≥ 1`, `k p ≥ 1` -/
theorem sparse_terms_nonneg (n kp scale : ℝ) (hs : 0 ≤ scale) (hn : 1 ≤ n) (hkp : 1 ≤ kp) :
    0 ≤ scale * (2 * Real.log n) ∧ 0 ≤ scale * (2 * Real.log kp) := by
  have h1 : 0 ≤ Real.log n := Real.log_nonneg hn
  have h2 : 0 ≤ Real.log kp := Real.log_nonneg hkp
  constructor <;> positivity

/-- cumulative penalty for `j` components of a family with constant per-component term `β ≥ 0`
    (dense: `β = 0`; sparse: `β = 2 scale log(kp)`): non-decreasing in `j` -/
theorem constant_beta_monotone (alpha beta : ℝ) (hb : 0 ≤ beta) (j j' : ℕ) (h : j ≤ j') :
    alpha + j * beta ≤ alpha + j' * beta := by
  have : (j : ℝ) ≤ j' := by exact_mod_cast h
  nlinarith

/-! ### the combined family: cumsum / pointwise minimum / diff -/

section combined
variable {α : Type} [AddCommGroup α]

/-- `np.diff(l, prepend = prev)` -/
def diffFrom : α → List α → List α
  | _, [] => []
  | prev, a :: t => (a - prev) :: diffFrom a t

/-- `cumsum ∘ diff = id`: the cumulative sums of the combined betas are the pointwise minimum -/
theorem cumsum_diffFrom (prev : α) (l : List α) : cumsumFrom prev (diffFrom prev l) = l := by
  induction l generalizing prev with
  | nil => rfl
  | cons a t ih => simp only [diffFrom, cumsumFrom, add_sub_cancel, ih]

variable [LinearOrder α] [IsOrderedAddMonoid α]

/-- betas of a non-decreasing cumulative penalty starting at or above `prev` are non-negative -/
theorem diffFrom_nonneg : ∀ (prev : α) (l : List α), (∀ x ∈ l, prev ≤ x) → l.Pairwise (· ≤ ·) →
    ∀ b ∈ diffFrom prev l, 0 ≤ b
  | _, [], _, _, b, hb => by simp [diffFrom] at hb
  | prev, a :: t, h1, h2, b, hb => by
    simp only [diffFrom, List.mem_cons] at hb
    rcases hb with rfl | hb
    · exact sub_nonneg.2 (h1 a (by simp))
    · exact diffFrom_nonneg a t (List.pairwise_cons.1 h2).1 (List.pairwise_cons.1 h2).2 b hb

/-- the pointwise minimum of two non-decreasing sequences is non-decreasing -/
theorem zipWith_min_monotone : ∀ (a b : List α), a.Pairwise (· ≤ ·) → b.Pairwise (· ≤ ·) →
    (List.zipWith min a b).Pairwise (· ≤ ·)
  | [], _, _, _ => by simp
  | _ :: _, [], _, _ => by simp
  | x :: a, y :: b, ha, hb => by
    simp only [List.zipWith_cons_cons]
    refine List.pairwise_cons.2 ⟨?_, zipWith_min_monotone a b (List.pairwise_cons.1 ha).2
      (List.pairwise_cons.1 hb).2⟩
    intro z hz
    obtain ⟨i, hi, rfl⟩ := List.getElem_of_mem hz
    simp only [List.getElem_zipWith]
    have hi' : i < a.length ∧ i < b.length := by simpa using hi
    have h1 := (List.pairwise_cons.1 ha).1 a[i] (List.getElem_mem hi'.1)
    have h2 := (List.pairwise_cons.1 hb).1 b[i] (List.getElem_mem hi'.2)
    exact le_min (le_trans (min_le_left _ _) h1) (le_trans (min_le_right _ _) h2)

/-- **C15, combined family**: with `D`, `S`, `I` the cumulative dense, sparse and intermediate
    penalties for 1, …, p components, the combined betas `diff(0 :: min D S I)` have cumulative
    sums equal to the pointwise minimum, and are non-negative whenever the three cumulative
    penalties are non-negative and non-decreasing. -/
theorem combined_family (D S I : List α)
    (hD : D.Pairwise (· ≤ ·)) (hS : S.Pairwise (· ≤ ·)) (hI : I.Pairwise (· ≤ ·))
    (h0 : ∀ x ∈ List.zipWith min D (List.zipWith min S I), 0 ≤ x) :
    let M := List.zipWith min D (List.zipWith min S I)
    cumsumFrom 0 (diffFrom 0 M) = M ∧ M.Pairwise (· ≤ ·) ∧ ∀ b ∈ diffFrom 0 M, 0 ≤ b := by
  intro M
  have hM : M.Pairwise (· ≤ ·) := zipWith_min_monotone D _ hD (zipWith_min_monotone S I hS hI)
  exact ⟨cumsum_diffFrom 0 M, hM, diffFrom_nonneg 0 M h0 hM⟩

end combined

/-! ### tuned thresholds -/

/-- **C15, tuned threshold** (`np.quantile(scores, 1 - level, method="higher")`): the threshold is
    the sorted score at an index `idx ≥ (N-1)(1-level)`, so at most `level · N` of the `N` training
    scores exceed it. -/
theorem tuned_threshold_bound (l : List ℝ) (hl : l.Pairwise (· ≤ ·)) (idx : Nat)
    (h : idx < l.length) (level : ℝ) (hlev : 0 ≤ level)
    (hidx : ((l.length : ℝ) - 1) * (1 - level) ≤ (idx : ℝ)) :
    ((l.filter (fun x => decide (l[idx] < x))).length : ℝ) ≤ level * (l.length : ℝ) :=
  tuned_threshold_exceedance l hl idx h level hlev hidx

/-! ### PELT: a larger penalty never increases the number of changepoints -/

/-- **C15, PELT**: if `c₁` minimises the penalised cost for `β₁` and `c₂` for `β₂ > β₁` (C02 says
    PELT returns such minimisers), then `c₂` has at most as many changepoints as `c₁`. -/
theorem pelt_penalty_monotone (cost : Nat → Nat → ℝ) (n : Nat) (β₁ β₂ : ℝ) (hβ : β₁ < β₂)
    (c₁ c₂ : List Nat)
    (h₁ : segCost cost β₁ 0 c₁ n ≤ segCost cost β₁ 0 c₂ n)
    (h₂ : segCost cost β₂ 0 c₂ n ≤ segCost cost β₂ 0 c₁ n) :
    c₂.length ≤ c₁.length :=
  penalty_monotone cost n β₁ β₂ hβ c₁ c₂ h₁ h₂

end Skc
