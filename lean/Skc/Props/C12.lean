import Skc.Lemmas.Kernels
import Skc.Lemmas.Pen
import Skc.Lemmas.PeltCorollaries
import Skc.Lemmas.Congr
import Skc.Lemmas.Tables
import Skc.Lemmas.GaussCov
import Skc.Lemmas.PeltAffine
import Mathlib.Algebra.Order.BigOperators.Group.List

/-! # C12 — detections respect the model's symmetries: permutation, shift, scale, reversal

Algebraic content of the symmetries, on the closed forms of the kernels (tied to the generated code
by the L1 modules, see C01) and on the algorithm models.  Detector outputs depend on the
scorer only through its values on admissible cuts inside `[0, n]` (`*_output_depends_on_admissible_*`
below, from `Skc/Lemmas/Congr.lean`), so invariance of the score tables lifts to the detectors'
outputs (`pelt_l2_shift_invariant`, `pelt_gauss_shift_invariant` are the composed statements for PELT);
the floating-point margins are exercised by the correspondence (pairs of runs on X and transformed X). -/
open Finset
namespace Skc

/-! ### column permutation -/

/-- aggregated scores are sums over columns: invariant under column permutations -/
theorem agg_perm_invariant {α : Type} [AddCommMonoid α] (l l' : List α) (h : l.Perm l') :
    l.sum = l'.sum := h.sum_eq

section perm
variable {α : Type} [AddCommGroup α] [LinearOrder α] [IsOrderedAddMonoid α]

/-- the savings sorted decreasingly do not depend on the order of the columns -/
theorem orderDesc_vals_perm_invariant (sav sav' : List α) (h : sav.Perm sav') :
    (orderDesc sav).map (·.2) = (orderDesc sav').map (·.2) := by
  apply List.Perm.eq_of_pairwise (le := (· ≥ ·))
  · intro a b _ _ h1 h2; exact le_antisymm h2 h1
  · exact orderDesc_vals_sorted sav
  · exact orderDesc_vals_sorted sav'
  · exact (orderDesc_vals_perm sav).trans (h.trans (orderDesc_vals_perm sav').symm)

/-- **C12, permutation**: the penalised saving of a candidate (general branch) depends on the
    multiset of column savings only -/
theorem penGeneral_perm_invariant (sav sav' : List α) (alpha : α) (betas : List α)
    (h : sav.Perm sav') : (penGeneral sav alpha betas).2 = (penGeneral sav' alpha betas).2 := by
  simp only [penGeneral, orderDesc_vals_perm_invariant sav sav' h]
end perm

/-! ### shift -/

/-- **C12, shift**: the optimal-mean squared-error cost is invariant under `x ↦ x + c`
    (`S₁ ↦ S₁ + n c`, `S₂ ↦ S₂ + 2 c S₁ + n c²`) -/
theorem l2Optim_shift_invariant (S1 S2 n c : ℝ) (hn : n ≠ 0) :
    CF.l2Optim (S1 + n * c) (S2 + 2 * c * S1 + n * c ^ 2) n = CF.l2Optim S1 S2 n := by
  simp only [CF.l2Optim]; field_simp; ring

/-- **C12, shift**: so is the (floored) variance, hence the optimal univariate Gaussian cost -/
theorem gaussOptim_shift_invariant (S1 S2 n c : ℝ) (hn : n ≠ 0) :
    CF.gaussOptim (S1 + n * c) (S2 + 2 * c * S1 + n * c ^ 2) n = CF.gaussOptim S1 S2 n := by
  have : CF.varFloor (S1 + n * c) (S2 + 2 * c * S1 + n * c ^ 2) n = CF.varFloor S1 S2 n := by
    simp only [CF.varFloor]; congr 1; field_simp; ring
  simp only [CF.gaussOptim, this]

/-- **C12, shift**: the CUSUM score is invariant under `x ↦ x + c` -/
theorem cusum_shift_invariant (Sb Sa nb na c : ℝ) (hb : 0 < nb) (ha : 0 < na) :
    CF.cusum (Sb + nb * c) (Sa + na * c) nb na (nb + na) = CF.cusum Sb Sa nb na (nb + na) := by
  have hn : 0 < nb + na := by positivity
  simp only [CF.cusum]
  have h1 : Real.sqrt (na / ((nb + na) * nb)) * nb = Real.sqrt (na * nb / (nb + na)) := by
    have : Real.sqrt (na / ((nb + na) * nb) * nb ^ 2) = Real.sqrt (na / ((nb + na) * nb)) * nb := by
      rw [Real.sqrt_mul (by positivity), Real.sqrt_sq hb.le]
    rw [← this]
    congr 1; field_simp
  have h2 : Real.sqrt (nb / ((nb + na) * na)) * na = Real.sqrt (na * nb / (nb + na)) := by
    have : Real.sqrt (nb / ((nb + na) * na) * na ^ 2) = Real.sqrt (nb / ((nb + na) * na)) * na := by
      rw [Real.sqrt_mul (by positivity), Real.sqrt_sq ha.le]
    rw [← this]
    congr 1; field_simp
  congr 1
  have e : Real.sqrt (na / ((nb + na) * nb)) * (Sb + nb * c) -
      Real.sqrt (nb / ((nb + na) * na)) * (Sa + na * c) =
      Real.sqrt (na / ((nb + na) * nb)) * Sb - Real.sqrt (nb / ((nb + na) * na)) * Sa +
        c * (Real.sqrt (na / ((nb + na) * nb)) * nb - Real.sqrt (nb / ((nb + na) * na)) * na) := by
    ring
  rw [e, h1, h2]; ring

/-! ### scale -/

/-- **C12, scale**: multiplying the data by `a > 0` multiplies every variance by `a²`; the Gaussian
    change score `C(full) − C(left) − C(right)` is unchanged above the variance floor -/
theorem gauss_change_score_scale_invariant (a v v1 v2 n1 n2 : ℝ) (ha : 0 < a) (hv : 0 < v)
    (hv1 : 0 < v1) (hv2 : 0 < v2) :
    ((n1 + n2) * Real.log (2 * Real.pi * (a ^ 2 * v)) + (n1 + n2))
      - (n1 * Real.log (2 * Real.pi * (a ^ 2 * v1)) + n1)
      - (n2 * Real.log (2 * Real.pi * (a ^ 2 * v2)) + n2) =
    ((n1 + n2) * Real.log (2 * Real.pi * v) + (n1 + n2))
      - (n1 * Real.log (2 * Real.pi * v1) + n1) - (n2 * Real.log (2 * Real.pi * v2) + n2) := by
  have hpi : (0 : ℝ) < 2 * Real.pi := by positivity
  have ha2 : (0 : ℝ) < a ^ 2 := by positivity
  have e : ∀ w : ℝ, 0 < w → Real.log (2 * Real.pi * (a ^ 2 * w)) =
      Real.log (a ^ 2) + Real.log (2 * Real.pi * w) := by
    intro w hw
    rw [show 2 * Real.pi * (a ^ 2 * w) = a ^ 2 * (2 * Real.pi * w) by ring]
    exact Real.log_mul ha2.ne' (by positivity)
  rw [e v hv, e v1 hv1, e v2 hv2]; ring

/-! ### lift to the detectors -/

/-- **C12, lift (PELT)**: cost tables that agree on every interval `[s, e)`, `s < e ≤ n`, give the same
    scores and changepoints — for the code's policy and every other member of the family with an
    extensional selector -/
theorem pelt_output_depends_on_admissible_costs {α : Type} [Add α] [Neg α] [Zero α] [LT α] [DecidableLT α]
    (cost cost' : Nat → Nat → α) (pen : α) (m n : Nat) (hm : 1 ≤ m) (hn : 2 * m ≤ n)
    (h : ∀ s e, s < e → e ≤ n → cost s e = cost' s e) :
    runPeltCode cost pen m n = runPeltCode cost' pen m n :=
  runPelt_congr argminL prStrict pickExt_argminL pickMem_argminL cost cost' pen m (m - 1) n hm hn h

/-- **C12, lift (CAPA / MVCAPA)**: penalised savings that agree on every interval inside `[0, n]` give
    the same scores and anomalies -/
theorem capa_output_depends_on_admissible_savings {α : Type} [AddCommGroup α] [LinearOrder α]
    [IsOrderedAddMonoid α] (PS PS' : Nat → Nat → α) (PP PP' : Nat → α) (K : α) (m M delay n : Nat)
    (hm : 1 ≤ m) (h : ∀ s e, s < e → e ≤ n → PS s e = PS' s e) (hp : ∀ t, t < n → PP t = PP' t) :
    runCapa PS PP K m M delay n = runCapa PS' PP' K m M delay n :=
  runCapaG_congr argmaxL prLt pickExt_argmaxL pickMem_argmaxL PS PS' PP PP' K m M delay n hm h hp

/-- **C12, lift (moving window)**: change scores that agree on cuts `s < k < e ≤ n` give the same score
    curve and hence the same changepoints -/
theorem mw_output_depends_on_admissible_scores {α : Type} [LT α] [DecidableLT α] [Zero α]
    (cs cs' : Nat → Nat → Nat → α) (n b : Nat) (hb : 1 ≤ b) (thr : α) (mdi : Nat)
    (h : ∀ s k e, s < k → k < e → e ≤ n → cs s k e = cs' s k e) :
    mwScores cs n b 0 = mwScores cs' n b 0 ∧
      mwCpts (mwScores cs n b 0) n thr mdi = mwCpts (mwScores cs' n b 0) n thr mdi := by
  have := mwScores_congr cs cs' n b hb h
  exact ⟨this, by rw [this]⟩

/-- **C12, lift (seeded binary segmentation)** -/
theorem sbs_output_depends_on_admissible_scores {α : Type} [LT α] [DecidableLT α] [Zero α]
    (cs cs' : Nat → Nat → Nat → α) (m n : Nat) (hm : 1 ≤ m) (thr : α)
    (ivs : List (Nat × Nat)) (hivs : ∀ iv ∈ ivs, iv.2 ≤ n)
    (h : ∀ s k e, s < k → k < e → e ≤ n → cs s k e = cs' s k e) :
    runSbs cs m thr ivs = runSbs cs' m thr ivs :=
  runSbs_congr cs cs' m n hm thr ivs hivs h

/-- **C12, lift (circular binary segmentation)** -/
theorem cbs_output_depends_on_admissible_scores {α : Type} [LT α] [DecidableLT α] [Zero α]
    (las las' : Nat → Nat → Nat → Nat → α) (m n : Nat) (hm : 1 ≤ m) (thr : α)
    (ivs : List (Nat × Nat)) (hivs : ∀ iv ∈ ivs, iv.2 ≤ n)
    (h : ∀ s i j e, s < i → i < j → j < e → e ≤ n → las s i j e = las' s i j e) :
    runCbs las m thr ivs = runCbs las' m thr ivs :=
  runCbs_congr las las' m n hm thr ivs hivs h

/-! ### composed statements: PELT on shifted data -/

/-- **C12, shift, detector level**: PELT with the squared-error cost returns the same scores and
    changepoints on `x + c` as on `x` -/
theorem pelt_l2_shift_invariant (x : ℕ → ℝ) (c pen : ℝ) (m n : ℕ) (hm : 1 ≤ m) (hn : 2 * m ≤ n) :
    runPeltCode (l2Table (fun i => x i + c)) pen m n = runPeltCode (l2Table x) pen m n := by
  apply pelt_output_depends_on_admissible_costs _ _ pen m n hm hn
  intro s e hse _
  have hne : ((e : ℝ) - s) ≠ 0 := by
    have : (s : ℝ) < e := by exact_mod_cast hse
    linarith
  simp only [l2Table]
  rw [segSum_shift x c s e hse.le, segSum_sq_shift x c s e hse.le]
  exact l2Optim_shift_invariant _ _ _ c hne

/-- … and so does PELT with the univariate Gaussian cost -/
theorem pelt_gauss_shift_invariant (x : ℕ → ℝ) (c pen : ℝ) (m n : ℕ) (hm : 1 ≤ m) (hn : 2 * m ≤ n) :
    runPeltCode (gaussTable (fun i => x i + c)) pen m n = runPeltCode (gaussTable x) pen m n := by
  apply pelt_output_depends_on_admissible_costs _ _ pen m n hm hn
  intro s e hse _
  have hne : ((e : ℝ) - s) ≠ 0 := by
    have : (s : ℝ) < e := by exact_mod_cast hse
    linarith
  simp only [gaussTable]
  rw [segSum_shift x c s e hse.le, segSum_sq_shift x c s e hse.le]
  exact gaussOptim_shift_invariant _ _ _ c hne

/-! ### multivariate Gaussian cost (from the rows) -/

/-- **C12, shift, multivariate**: the sample covariance of the rows `[s, e)` — hence the multivariate
    Gaussian cost and its change score — is unchanged by adding a constant vector to every row -/
theorem gcov_shift_invariant {p : ℕ} (x : ℕ → Fin p → ℝ) (c : Fin p → ℝ) (s k e : ℕ) (h1 : s < k) (h2 : k < e) :
    covMat (fun i j => x i j + c j) s e = covMat x s e ∧
    gcovCost (fun i j => x i j + c j) s e = gcovCost x s e ∧
    gcovChange (fun i j => x i j + c j) s k e = gcovChange x s k e :=
  ⟨covMat_shift x c s e (by omega), gcovCost_shift x c s e (by omega), gcovChange_shift x c s k e h1 h2⟩

/-- **C12, scale, multivariate**: multiplying the data by `a > 0` multiplies the covariance by `a²`,
    adds `(e − s) p log a²` to the cost, and leaves the change score unchanged whenever the three
    sample covariances are non-singular (positive determinant) -/
theorem gcov_scale_invariant {p : ℕ} (x : ℕ → Fin p → ℝ) (a : ℝ) (ha : 0 < a) (s k e : ℕ)
    (hd : 0 < (covMat x s e).det) (hd1 : 0 < (covMat x s k).det) (hd2 : 0 < (covMat x k e).det) :
    covMat (fun i j => a * x i j) s e = (a ^ 2) • covMat x s e ∧
    gcovCost (fun i j => a * x i j) s e = gcovCost x s e + ((e : ℝ) - s) * p * Real.log (a ^ 2) ∧
    gcovChange (fun i j => a * x i j) s k e = gcovChange x s k e :=
  ⟨covMat_scale x a s e, gcovCost_scale x a ha s e hd, gcovChange_scale x a ha s k e hd hd1 hd2⟩

/-! ### composed statements: PELT on rescaled data (Gaussian costs) -/

/-- **C12, lift of the scale symmetry to PELT**: a cost that changes by a term proportional to the segment
    length (`cost' s e = cost s e + c (e − s)` on the cuts PELT reads) gives the same changepoints; the
    prefix scores move by `c t`.  (Rescaling the data changes a Gaussian cost by `(e − s) log a²` per
    column: the cost is *not* invariant, PELT's output is.) -/
theorem pelt_output_invariant_under_length_proportional_terms (cost cost' : ℕ → ℕ → ℝ) (c pen : ℝ) (m n : ℕ)
    (hm : 1 ≤ m) (hn : 2 * m ≤ n)
    (h : ∀ s e, s + m ≤ e → e ≤ n → cost' s e = cost s e + c * ((e : ℝ) - s)) :
    (runPeltCode cost' pen m n).2 = (runPeltCode cost pen m n).2 ∧
      ∀ t, m ≤ t → t ≤ n → (runPeltCode cost' pen m n).1 t = (runPeltCode cost pen m n).1 t + c * t :=
  runPeltCode_affine cost cost' c pen m n hm hn h

theorem segVar_scale (x : ℕ → ℝ) (a : ℝ) (s e : ℕ) :
    segVar (fun i => a * x i) s e = a ^ 2 * segVar x s e := by
  have h1 : segSum (fun i => a * x i) s e = a * segSum x s e := by
    simp only [segSum, Finset.mul_sum]
  have h2 : segSum (fun i => (a * x i) ^ 2) s e = a ^ 2 * segSum (fun i => x i ^ 2) s e := by
    simp only [segSum, Finset.mul_sum, mul_pow]
  simp only [segVar, h1, h2]
  ring

/-- the univariate Gaussian cost of `a · x` (`a > 0`) is that of `x` plus `(e − s) log a²`, when the empirical
    variance is at or above the floor before and after rescaling -/
theorem gaussTable_scale (x : ℕ → ℝ) (a : ℝ) (ha : 0 < a) (s e : ℕ)
    (h1 : varFloorConst ≤ segVar x s e) (h2 : varFloorConst ≤ a ^ 2 * segVar x s e) :
    gaussTable (fun i => a * x i) s e = gaussTable x s e + Real.log (a ^ 2) * ((e : ℝ) - s) := by
  have hf : (0 : ℝ) < varFloorConst := by unfold varFloorConst; norm_num
  have hv : 0 < segVar x s e := lt_of_lt_of_le hf h1
  have ha2 : (0 : ℝ) < a ^ 2 := by positivity
  have hpi : (0 : ℝ) < 2 * Real.pi := by positivity
  have e1 : CF.varFloor (segSum (fun i => a * x i) s e) (segSum (fun i => (a * x i) ^ 2) s e) ((e : ℝ) - s)
      = a ^ 2 * segVar x s e := by
    have := segVar_scale x a s e
    simp only [segVar] at this
    simp only [CF.varFloor, this]
    exact max_eq_left h2
  have e2 : CF.varFloor (segSum x s e) (segSum (fun i => x i ^ 2) s e) ((e : ℝ) - s) = segVar x s e := by
    simp only [CF.varFloor, segVar]
    exact max_eq_left h1
  simp only [gaussTable, CF.gaussOptim, e1, e2]
  rw [show 2 * Real.pi * (a ^ 2 * segVar x s e) = a ^ 2 * (2 * Real.pi * segVar x s e) by ring,
    Real.log_mul ha2.ne' (by positivity)]
  ring

/-- **C12, scale, detector level**: PELT with the univariate Gaussian cost returns the same changepoints on
    `a · x` (`a > 0`) as on `x`, provided the empirical variances of the intervals it reads are at or above
    the floor before and after rescaling (at the floor the cost is not scale-equivariant) -/
theorem pelt_gauss_scale_invariant (x : ℕ → ℝ) (a pen : ℝ) (ha : 0 < a) (m n : ℕ) (hm : 1 ≤ m) (hn : 2 * m ≤ n)
    (habove : ∀ s e, s + m ≤ e → e ≤ n → varFloorConst ≤ segVar x s e ∧ varFloorConst ≤ a ^ 2 * segVar x s e) :
    (runPeltCode (gaussTable (fun i => a * x i)) pen m n).2 = (runPeltCode (gaussTable x) pen m n).2 :=
  (runPeltCode_affine (gaussTable x) (gaussTable (fun i => a * x i)) (Real.log (a ^ 2)) pen m n hm hn
    (fun s e hse hen => gaussTable_scale x a ha s e (habove s e hse hen).1 (habove s e hse hen).2)).1

/-- **C12, scale, detector level, multivariate**: PELT with the multivariate Gaussian cost (from the rows)
    returns the same changepoints on `a · x`, provided the sample covariances of the intervals it reads
    are non-singular (otherwise the code raises) -/
theorem pelt_gcov_scale_invariant {p : ℕ} (x : ℕ → Fin p → ℝ) (a pen : ℝ) (ha : 0 < a) (m n : ℕ)
    (hm : 1 ≤ m) (hn : 2 * m ≤ n) (hdet : ∀ s e, s + m ≤ e → e ≤ n → 0 < (covMat x s e).det) :
    (runPeltCode (gcovCost (fun i j => a * x i j)) pen m n).2 = (runPeltCode (gcovCost x) pen m n).2 := by
  refine (runPeltCode_affine (gcovCost x) (gcovCost (fun i j => a * x i j)) (p * Real.log (a ^ 2)) pen m n
    hm hn ?_).1
  intro s e hse hen
  rw [gcovCost_scale x a ha s e (hdet s e hse hen)]
  ring

/-! ### composed statements: moving window and seeded binary segmentation on rescaled data -/

/-- the change score derived from a cost, `C(s,e) − C(s,k) − C(k,e)`, as the detectors' score table -/
def costChange (cost : ℕ → ℕ → ℝ) : ℕ → ℕ → ℕ → ℝ := fun s k e => cost s e - cost s k - cost k e

/-- **C12, lift of the scale symmetry to moving window and seeded binary segmentation**: when the cost
    changes by a term proportional to the segment length on the intervals these detectors read (at least
    `m` rows), the derived change score is unchanged there, hence the moving-window score curve and
    changepoints (bandwidth `m`) and the seeded-binary-segmentation table and changepoints are unchanged -/
theorem mw_sbs_output_invariant_under_length_proportional_terms (cost cost' : ℕ → ℕ → ℝ) (c : ℝ) (m n : ℕ)
    (h : ∀ s e, s + m ≤ e → e ≤ n → cost' s e = cost s e + c * ((e : ℝ) - s))
    (thr : ℝ) (mdi : ℕ) (ivs : List (ℕ × ℕ)) (hivs : ∀ iv ∈ ivs, iv.2 ≤ n) :
    mwCpts (mwScores (costChange cost') n m 0) n thr mdi = mwCpts (mwScores (costChange cost) n m 0) n thr mdi ∧
      runSbs (costChange cost') m thr ivs = runSbs (costChange cost) m thr ivs := by
  have hcs : ∀ s k e, s + m ≤ k → k + m ≤ e → e ≤ n → costChange cost' s k e = costChange cost s k e := by
    intro s k e h1 h2 h3
    simp only [costChange]
    rw [h s e (by omega) h3, h s k h1 (by omega), h k e h2 h3]
    have : ((e : ℝ) - s) = ((k : ℝ) - s) + ((e : ℝ) - k) := by ring
    rw [this]; ring
  constructor
  · rw [mwScores_congr_read (costChange cost') (costChange cost) n m
      (fun s k e h1 h2 h3 => hcs s k e (by omega) (by omega) h3)]
  · exact runSbs_congr_read (costChange cost') (costChange cost) m n thr ivs hivs hcs

/-- **C12, scale, detector level**: moving window and seeded binary segmentation with the univariate
    Gaussian cost are unchanged by rescaling the data (variances at or above the floor before and after) -/
theorem mw_sbs_gauss_scale_invariant (x : ℕ → ℝ) (a : ℝ) (ha : 0 < a) (m n : ℕ)
    (habove : ∀ s e, s + m ≤ e → e ≤ n → varFloorConst ≤ segVar x s e ∧ varFloorConst ≤ a ^ 2 * segVar x s e)
    (thr : ℝ) (mdi : ℕ) (ivs : List (ℕ × ℕ)) (hivs : ∀ iv ∈ ivs, iv.2 ≤ n) :
    mwCpts (mwScores (costChange (gaussTable (fun i => a * x i))) n m 0) n thr mdi =
        mwCpts (mwScores (costChange (gaussTable x)) n m 0) n thr mdi ∧
      runSbs (costChange (gaussTable (fun i => a * x i))) m thr ivs = runSbs (costChange (gaussTable x)) m thr ivs :=
  mw_sbs_output_invariant_under_length_proportional_terms _ _ (Real.log (a ^ 2)) m n
    (fun s e hse hen => gaussTable_scale x a ha s e (habove s e hse hen).1 (habove s e hse hen).2) thr mdi ivs hivs

/-- … and with the multivariate Gaussian cost (non-singular sample covariances on the intervals read) -/
theorem mw_sbs_gcov_scale_invariant {p : ℕ} (x : ℕ → Fin p → ℝ) (a : ℝ) (ha : 0 < a) (m n : ℕ)
    (hdet : ∀ s e, s + m ≤ e → e ≤ n → 0 < (covMat x s e).det)
    (thr : ℝ) (mdi : ℕ) (ivs : List (ℕ × ℕ)) (hivs : ∀ iv ∈ ivs, iv.2 ≤ n) :
    mwCpts (mwScores (costChange (gcovCost (fun i j => a * x i j))) n m 0) n thr mdi =
        mwCpts (mwScores (costChange (gcovCost x)) n m 0) n thr mdi ∧
      runSbs (costChange (gcovCost (fun i j => a * x i j))) m thr ivs = runSbs (costChange (gcovCost x)) m thr ivs :=
  mw_sbs_output_invariant_under_length_proportional_terms _ _ (p * Real.log (a ^ 2)) m n
    (fun s e hse hen => by rw [gcovCost_scale x a ha s e (hdet s e hse hen)]; ring) thr mdi ivs hivs

/-! ### composed statements: circular binary segmentation on rescaled data (univariate Gaussian cost) -/

/-- the Gaussian closed form on rescaled partial sums: `+ n log a²` when the variance is at or above the floor
    before and after -/
theorem gaussOptim_scale (S1 S2 n a : ℝ) (ha : 0 < a)
    (h1 : varFloorConst ≤ S2 / n - (S1 / n) ^ 2) (h2 : varFloorConst ≤ a ^ 2 * (S2 / n - (S1 / n) ^ 2)) :
    CF.gaussOptim (a * S1) (a ^ 2 * S2) n = CF.gaussOptim S1 S2 n + n * Real.log (a ^ 2) := by
  have hf : (0 : ℝ) < varFloorConst := by unfold varFloorConst; norm_num
  have hv : 0 < S2 / n - (S1 / n) ^ 2 := lt_of_lt_of_le hf h1
  have ha2 : (0 : ℝ) < a ^ 2 := by positivity
  have hpi : (0 : ℝ) < 2 * Real.pi := by positivity
  have e0 : a ^ 2 * S2 / n - (a * S1 / n) ^ 2 = a ^ 2 * (S2 / n - (S1 / n) ^ 2) := by ring
  simp only [CF.gaussOptim, CF.varFloor, e0, max_eq_left h1, max_eq_left h2]
  rw [show 2 * Real.pi * (a ^ 2 * (S2 / n - (S1 / n) ^ 2)) = a ^ 2 * (2 * Real.pi * (S2 / n - (S1 / n) ^ 2)) by ring,
    Real.log_mul ha2.ne' (by positivity)]
  ring

/-- partial sums of the rows of `[s, e)` outside `[i, j)` (the rows `LocalAnomalyScore` pools) -/
noncomputable def pooledSum (x : ℕ → ℝ) (s i j e : ℕ) : ℝ := segSum x s i + segSum x j e
/-- empirical variance of the pooled rows -/
noncomputable def pooledVar (x : ℕ → ℝ) (s i j e : ℕ) : ℝ :=
  pooledSum (fun t => x t ^ 2) s i j e / (((i : ℝ) - s) + ((e : ℝ) - j))
    - (pooledSum x s i j e / (((i : ℝ) - s) + ((e : ℝ) - j))) ^ 2
/-- the local anomaly score of the univariate Gaussian cost, from the rows:
    `C(s,e) − C(i,j) − C(rows of [s,i) and [j,e) pooled)` -/
noncomputable def gaussLocal (x : ℕ → ℝ) : ℕ → ℕ → ℕ → ℕ → ℝ := fun s i j e =>
  gaussTable x s e - gaussTable x i j
    - CF.gaussOptim (pooledSum x s i j e) (pooledSum (fun t => x t ^ 2) s i j e) (((i : ℝ) - s) + ((e : ℝ) - j))

/-- **C12, scale, detector level (circular binary segmentation)**: with the univariate Gaussian cost, the
    local anomaly scores of the cuts the detector reads — hence its table and anomalies — are unchanged by
    rescaling the data, provided the variances involved (whole candidate, inner interval, pooled
    surroundings) are at or above the floor before and after -/
theorem cbs_gauss_scale_invariant (x : ℕ → ℝ) (a : ℝ) (ha : 0 < a) (m n : ℕ) (thr : ℝ)
    (ivs : List (ℕ × ℕ)) (hivs : ∀ iv ∈ ivs, iv.2 ≤ n)
    (habove : ∀ s e, s + m ≤ e → e ≤ n → varFloorConst ≤ segVar x s e ∧ varFloorConst ≤ a ^ 2 * segVar x s e)
    (hpool : ∀ s i j e, s < i → i + m ≤ j → j < e → m ≤ (e - j) + (i - s) → e ≤ n →
      varFloorConst ≤ pooledVar x s i j e ∧ varFloorConst ≤ a ^ 2 * pooledVar x s i j e) :
    runCbs (gaussLocal (fun t => a * x t)) m thr ivs = runCbs (gaussLocal x) m thr ivs := by
  apply runCbs_congr_read _ _ m n thr ivs hivs
  intro s i j e h1 h2 h3 h4 h5
  have hse := habove s e (by omega) h5
  have hij := habove i j h2 (by omega)
  have hp := hpool s i j e h1 h2 h3 h4 h5
  have hsum : ∀ (s i j e : ℕ), pooledSum (fun t => a * x t) s i j e = a * pooledSum x s i j e := by
    intro s i j e; simp only [pooledSum, segSum, Finset.mul_sum, mul_add]
  have hsq : ∀ (s i j e : ℕ), pooledSum (fun t => (a * x t) ^ 2) s i j e = a ^ 2 * pooledSum (fun t => x t ^ 2) s i j e := by
    intro s i j e; simp only [pooledSum, segSum, Finset.mul_sum, mul_add, mul_pow]
  simp only [gaussLocal]
  rw [gaussTable_scale x a ha s e hse.1 hse.2, gaussTable_scale x a ha i j hij.1 hij.2, hsum, hsq,
    gaussOptim_scale _ _ _ a ha hp.1 hp.2]
  ring

/-- **C12, scale, detector level (circular binary segmentation, multivariate Gaussian cost)**: the local anomaly
    score from the rows (`gcovLocal`: whole candidate minus inner interval minus the pooled surroundings) is
    unchanged by rescaling on every cut the detector reads, hence so are its table and anomalies — provided
    the three sample covariances of each such cut are non-singular (otherwise the code raises) -/
theorem cbs_gcov_scale_invariant {p : ℕ} (x : ℕ → Fin p → ℝ) (a : ℝ) (ha : 0 < a) (m n : ℕ) (thr : ℝ)
    (ivs : List (ℕ × ℕ)) (hivs : ∀ iv ∈ ivs, iv.2 ≤ n)
    (hdet : ∀ s i j e, s < i → i + m ≤ j → j < e → m ≤ (e - j) + (i - s) → e ≤ n →
      0 < (covMat x s e).det ∧ 0 < (covMat x i j).det ∧ 0 < (covMatOn x (surround s i j e)).det) :
    runCbs (gcovLocal (fun t c => a * x t c)) m thr ivs = runCbs (gcovLocal x) m thr ivs := by
  apply runCbs_congr_read _ _ m n thr ivs hivs
  intro s i j e h1 h2 h3 h4 h5
  obtain ⟨d0, d1, d2⟩ := hdet s i j e h1 h2 h3 h4 h5
  exact gcovLocal_scale x a ha s i j e h1.le (by omega) h3.le d0 d1 d2

/-! ### time reversal -/

/-- **C12, reversal**: the rows `[s, e)` of the reversed series are the rows `[N - e, N - s)` of the
    original one, so every per-interval sum — hence every cost — is that of the mirrored interval -/
theorem segSum_reverse (x : ℕ → ℝ) (N s e : ℕ) (hse : s ≤ e) (he : e ≤ N) :
    segSum (fun i => x (N - 1 - i)) s e = segSum x (N - e) (N - s) := by
  unfold segSum
  have h := Finset.sum_Ico_reflect (fun i => x i) (N - e) (m := N - s) (n := N - 1 + 1 - 0 - 1)
  have key : ∑ i ∈ Ico (N - e) (N - s), x i = ∑ i ∈ Ico s e, x (N - 1 - i) := by
    rw [Finset.sum_Ico_eq_sum_range, Finset.sum_Ico_eq_sum_range]
    have hlen : N - s - (N - e) = e - s := by omega
    rw [hlen]
    rw [← Finset.sum_range_reflect]
    apply Finset.sum_congr rfl
    intro i hi
    have hi' : i < e - s := Finset.mem_range.1 hi
    congr 1
    omega
  exact key.symm

/-- **C12, reversal**: PELT's optimal penalised cost is unchanged — mirroring is a cost-preserving
    bijection between the admissible segmentations of the series and of its reversal -/
theorem pelt_reversal_bijection {α : Type} [AddCommGroup α] [LinearOrder α] [IsOrderedAddMonoid α]
    (cost : Nat → Nat → α) (pen : α) (m n : Nat) (cps : List Nat) (h : ValidFrom m 0 cps n) :
    ValidFrom m 0 (revCps n cps) n ∧
    segCost (fun a b => cost (n - b) (n - a)) pen 0 (revCps n cps) n = segCost cost pen 0 cps n := by
  have := validFrom_segCost_rev cost pen m n cps 0 n (le_refl _) h
  simpa using this

end Skc
