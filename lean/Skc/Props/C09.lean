import Skc.Lemmas.Greedy

/-! # C09 — circular binary segmentation reports greedy disjoint above-threshold anomalies

Models: `anomalyIntervals` (`make_anomaly_intervals`), `argmaxCands`, `greedyGen`/`greedyAnoms`
(`greedy_anomaly_selection`), `runCbs` — `Skc/Model/Det.lean`. -/
namespace Skc

/-- **C09, threshold monotonicity**: raising the threshold can only remove anomalies. -/
theorem cbs_threshold_monotone {α : Type} [LinearOrder α] [Zero α]
    (ivs inner : List (Nat × Nat)) (thr₁ thr₂ : α) (h : thr₁ ≤ thr₂) (fuel : Nat)
    (scores : List α) :
    ∀ a ∈ greedyAnoms ivs inner thr₂ fuel scores, a ∈ greedyAnoms ivs inner thr₁ fuel scores :=
  fun _ ha => (greedyAnoms_prefix ivs inner thr₁ thr₂ h fuel scores).subset ha

end Skc
