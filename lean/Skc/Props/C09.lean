import Skc.Lemmas.Greedy
import Skc.Lemmas.Cbs

/-! # C09 — circular binary segmentation reports greedy disjoint above-threshold anomalies

Models: `anomalyIntervals` (`make_anomaly_intervals`), `argmaxCands`, `greedyGen`/`greedyAnoms`
(`greedy_anomaly_selection`), `runCbs` — `Skc/Model/Det.lean`. -/
namespace Skc

/-- **C09, threshold monotonicity**: raising the threshold can only remove anomalies. -/
theorem cbs_threshold_monotone {α : Type} [LinearOrder α] [Zero α]
    (ivs inner : List (Nat × Nat)) (thr₁ thr₂ : α) (h : thr₁ ≤ thr₂) (fuel : Nat)
    (scores : List α) :
    ∀ a ∈ greedyAnoms ivs inner thr₂ fuel scores, a ∈ greedyAnoms ivs inner thr₁ fuel scores :=
  fun _ ha => (greedyAnoms_prefix ivs inner thr₁ thr₂ h fuel scores).subset ha

/-- **C09, admissible inner intervals**: exactly the `[i, j)` of length `≥ m` strictly inside the
    candidate `[s, e)` that leave at least `m` surrounding samples. -/
theorem cbs_inner_intervals (s e m i j : Nat) :
    (i, j) ∈ anomalyIntervals s e m ↔
      s < i ∧ i + m ≤ j ∧ j < e ∧ m ≤ (e - j) + (i - s) :=
  mem_anomalyIntervals s e m i j

/-- a candidate has an admissible inner interval iff it is long enough: `e - s ≥ max(2m, 3)`
    (for `m ≥ 1`).  This is why candidates of length 2 (possible for `min_segment_length = 1`)
    are skipped with score 0. -/
theorem cbs_candidates_nonempty (s e m : Nat) (hm : 1 ≤ m) :
    anomalyIntervals s e m ≠ [] ↔ s + 2 * m ≤ e ∧ s + 3 ≤ e := by
  constructor
  · intro h
    obtain ⟨⟨i, j⟩, hij⟩ := List.exists_mem_of_ne_nil _ h
    have := (mem_anomalyIntervals s e m i j).1 hij
    omega
  · intro ⟨h1, h2⟩ hnil
    have : (s + 1, s + 1 + m) ∈ anomalyIntervals s e m := by
      rw [mem_anomalyIntervals]
      refine ⟨by omega, by omega, ?_, ?_⟩
      · by_cases hm1 : m = 1
        · subst hm1; omega
        · omega
      · omega
    rw [hnil] at this
    simp at this

/-- **C09, per-candidate score and inner interval**: maximum and argmax over the admissible inner
    intervals. -/
theorem cbs_candidate_argmax {α : Type} [LinearOrder α] (f : Nat × Nat → α)
    (l : List (Nat × Nat)) :
    (argmaxCands f l = none ↔ l = []) ∧
    ∀ c v, argmaxCands f l = some (c, v) → c ∈ l ∧ v = f c ∧ ∀ c' ∈ l, f c' ≤ v :=
  argmaxCands_spec f l

/-- **C09, greedy selection**: every reported anomaly scores above the threshold; every
    above-threshold candidate overlaps a reported anomaly; reported anomalies are pairwise
    disjoint. -/
theorem cbs_greedy {α : Type} [LinearOrder α] [Zero α]
    (ivs inner : List (Nat × Nat)) (scores : List α) (thr : α)
    (hthr : 0 ≤ thr) (hlen : scores.length = ivs.length)
    (hin : ∀ (i : Nat) (v : α), scores[i]? = some v → thr < v →
      (ivs.getD i (0, 0)).1 < (inner.getD i (0, 0)).1 ∧
      (inner.getD i (0, 0)).1 < (inner.getD i (0, 0)).2 ∧
      (inner.getD i (0, 0)).2 < (ivs.getD i (0, 0)).2) :
    let idx := greedyGen (killOverlap ivs inner) thr ivs.length scores
    (∀ i ∈ idx, ∃ v, scores[i]? = some v ∧ thr < v) ∧
    (∀ (j : Nat) (v : α), scores[j]? = some v → thr < v →
        ∃ i ∈ idx, (ivs.getD j (0, 0)).1 < (inner.getD i (0, 0)).2 ∧
          (inner.getD i (0, 0)).1 < (ivs.getD j (0, 0)).2) ∧
    idx.Pairwise (fun i i' =>
      (inner.getD i (0, 0)).2 ≤ (inner.getD i' (0, 0)).1 ∨
      (inner.getD i' (0, 0)).2 ≤ (inner.getD i (0, 0)).1) :=
  cbs_greedy_sound ivs inner scores thr hthr hlen hin

example : anomalyIntervals 0 6 2 = [(1, 3), (1, 4), (1, 5), (2, 4), (2, 5), (3, 5)] := by decide

end Skc
