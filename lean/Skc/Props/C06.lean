import Skc.Lemmas.Kernels
import Skc.Lemmas.GaussCovIneq

/-! # C06 — scores derived from costs equal their defining cost differences

Closed-form level (see C01 for how the closed forms are tied to the generated code; the L1 modules
`Skc/L1/Cusum.lean`, `Skc/L1/L2Cost.lean` restate the identities on the generated definitions).
The three adapters (`ChangeScore`, `Saving`, `LocalAnomalyScore`) are compositions whose defining
equations *are* their model; they are tied to the code by exact correspondence with user-defined
integer costs.  The multivariate Gaussian cost is treated at the level of its definition from the rows
(`gcovCost`, `gcovFixed` in `Lemmas/GaussCov*.lean`; tied to the code numerically by C01): optimal ≤ fixed and
the split inequality are proved for positive definite sample covariances — otherwise the code raises. -/
namespace Skc

/-- **C06**: the squared CUSUM equals the squared-error change score `C(s,e) − C(s,k) − C(k,e)`.
    (`a`, `Sa`, `Qa`: length, sum, sum of squares after the split; `b`, `Sb`, `Qb`: before.) -/
theorem cusum_sq_is_l2_change_score (Sa Sb Qa Qb a b : ℝ) (ha : 0 < a) (hb : 0 < b) :
    (CF.cusum Sb Sa b a (a + b)) ^ 2 =
      CF.l2Optim (Sa + Sb) (Qa + Qb) (a + b) - (CF.l2Optim Sb Qb b + CF.l2Optim Sa Qa a) :=
  cusum_sq_eq_l2_change Sa Sb Qa Qb a b ha hb

/-- **C06**: the L2 saving is the squared-error cost at baseline mean 0 minus the optimal one -/
theorem l2_saving_is_cost_difference (S1 S2 n : ℝ) :
    CF.l2Saving S1 n = CF.l2Fixed S1 S2 n 0 - CF.l2Optim S1 S2 n :=
  l2Saving_eq S1 S2 n

/-- **C06**: savings of the squared-error cost are non-negative -/
theorem l2_saving_nonneg (S1 n : ℝ) (hn : 0 < n) : 0 ≤ CF.l2Saving S1 n :=
  l2Saving_nonneg S1 n hn

/-- **C06**: the optimal-parameter squared-error cost never exceeds the cost at any fixed mean -/
theorem l2_optim_le_fixed (S1 S2 n μ : ℝ) (hn : 0 < n) :
    CF.l2Optim S1 S2 n ≤ CF.l2Fixed S1 S2 n μ :=
  l2Optim_le_fixed S1 S2 n μ hn

/-- **C06**: splitting an interval never increases the optimal squared-error cost; the change
    score is the exact non-negative quantity `(a b / n)(x̄_a − x̄_b)²` -/
theorem l2_split_never_increases (Sa Sb Qa Qb a b : ℝ) (ha : 0 < a) (hb : 0 < b) :
    CF.l2Optim Sa Qa a + CF.l2Optim Sb Qb b ≤ CF.l2Optim (Sa + Sb) (Qa + Qb) (a + b) ∧
    CF.l2Optim (Sa + Sb) (Qa + Qb) (a + b) - (CF.l2Optim Sa Qa a + CF.l2Optim Sb Qb b) =
      a * b / (a + b) * (Sa / a - Sb / b) ^ 2 :=
  ⟨l2_split_le Sa Sb Qa Qb a b ha hb, l2_split_identity Sa Sb Qa Qb a b ha hb⟩

/-- **C06, univariate Gaussian**: optimal ≤ fixed, for variances above the floor -/
theorem gauss_optim_le_fixed_above_floor (n σ2 v Q : ℝ) (hn : 0 < n) (hσ : 0 < σ2) (hv : 0 < v)
    (hQ : n * σ2 ≤ Q) :
    n * Real.log (2 * Real.pi * σ2) + n ≤ n * Real.log (2 * Real.pi * v) + Q / v :=
  gauss_optim_le_fixed n σ2 v Q hn hσ hv hQ

/-- **C06, univariate Gaussian**: splitting never increases the optimal cost, above the floor.
    In terms of costs: `a log(2πσ₁) + a + b log(2πσ₂) + b ≤ (a+b) log(2πσ) + (a+b)`. -/
theorem gauss_split_never_increases_above_floor (a b σ σ1 σ2 : ℝ) (ha : 0 < a) (hb : 0 < b)
    (h1 : 0 < σ1) (h2 : 0 < σ2) (hσ0 : 0 < σ) (hσ : a * σ1 + b * σ2 ≤ (a + b) * σ) :
    (a * Real.log (2 * Real.pi * σ1) + a) + (b * Real.log (2 * Real.pi * σ2) + b) ≤
      (a + b) * Real.log (2 * Real.pi * σ) + (a + b) := by
  have h := gauss_split_le a b σ σ1 σ2 ha hb h1 h2 hσ
  have hpi : (0 : ℝ) < 2 * Real.pi := by positivity
  rw [Real.log_mul hpi.ne' h1.ne', Real.log_mul hpi.ne' h2.ne', Real.log_mul hpi.ne' hσ0.ne']
  nlinarith

/-! ### The adapters (definitional in the model) -/

/-- `ChangeScore(cost)`: full minus left minus right -/
def changeScoreOf {γ : Type} [Sub γ] (C : Nat → Nat → γ) (s k e : Nat) : γ := C s e - C s k - C k e

/-- for a cost whose split inequality holds, the derived change score is non-negative -/
theorem changeScore_nonneg {γ : Type} [AddCommGroup γ] [LinearOrder γ] [IsOrderedAddMonoid γ]
    (C : Nat → Nat → γ) (s k e : Nat) (h : C s k + C k e ≤ C s e) : 0 ≤ changeScoreOf C s k e := by
  unfold changeScoreOf
  have : C s e - C s k - C k e = C s e - (C s k + C k e) := by abel
  rw [this]; exact sub_nonneg.2 h

/-! ### Multivariate Gaussian cost (definition from the rows; `x i j` = row `i`, column `j`) -/

/-- **C06, multivariate Gaussian**: the optimal-parameter cost never exceeds the cost at any fixed mean `μ`
    and positive definite covariance `Sg` — for every dimension, interval and data with a positive definite
    sample covariance (the code raises its documented error otherwise) -/
theorem gcov_optim_le_fixed {p : ℕ} (x : ℕ → Fin p → ℝ) (μ : Fin p → ℝ) (Sg : Matrix (Fin p) (Fin p) ℝ)
    (s e : ℕ) (h : s < e) (hSg : Sg.PosDef) (hS : (covMat x s e).PosDef) :
    gcovCost x s e ≤ gcovFixed x μ Sg s e :=
  gcovCost_le_gcovFixed x μ Sg s e h hSg hS

/-- **C06, multivariate Gaussian**: savings are non-negative -/
theorem gcov_saving_nonneg {p : ℕ} (x : ℕ → Fin p → ℝ) (μ : Fin p → ℝ) (Sg : Matrix (Fin p) (Fin p) ℝ)
    (s e : ℕ) (h : s < e) (hSg : Sg.PosDef) (hS : (covMat x s e).PosDef) :
    0 ≤ gcovFixed x μ Sg s e - gcovCost x s e :=
  sub_nonneg.2 (gcovCost_le_gcovFixed x μ Sg s e h hSg hS)

/-- **C06, multivariate Gaussian**: splitting an interval never increases the optimal-parameter cost, and the
    derived change score is non-negative -/
theorem gcov_split_never_increases {p : ℕ} (x : ℕ → Fin p → ℝ) (s k e : ℕ) (h1 : s < k) (h2 : k < e)
    (hS : (covMat x s e).PosDef) (hS1 : (covMat x s k).PosDef) (hS2 : (covMat x k e).PosDef) :
    gcovCost x s k + gcovCost x k e ≤ gcovCost x s e ∧ 0 ≤ gcovChange x s k e :=
  ⟨gcovCost_split_le x s k e h1 h2 hS hS1 hS2, gcovChange_nonneg x s k e h1 h2 hS hS1 hS2⟩

/-- the fixed-parameter cost is additive and, at the sample mean and covariance, equals the optimal one -/
theorem gcov_fixed_additive_and_at_mle {p : ℕ} (x : ℕ → Fin p → ℝ) (μ : Fin p → ℝ)
    (Sg : Matrix (Fin p) (Fin p) ℝ) (s k e : ℕ) (h1 : s < k) (h2 : k < e) (hS : (covMat x s e).PosDef) :
    gcovFixed x μ Sg s k + gcovFixed x μ Sg k e = gcovFixed x μ Sg s e ∧
    gcovFixed x (meanVec x s e) (covMat x s e) s e = gcovCost x s e :=
  ⟨gcovFixed_add x μ Sg s k e h1.le h2.le, gcovFixed_at_mle x s e (by omega) hS⟩

/-- non-vacuity: a concrete data set whose sample covariance is positive definite -/
example : (covMat (p := 1) (fun i _ => (i : ℝ)) 0 2).PosDef := by
  have h : covMat (p := 1) (fun i _ => (i : ℝ)) 0 2 = Matrix.diagonal (fun _ => (1/4 : ℝ)) := by
    funext j k
    have hj : j = 0 := Subsingleton.elim _ _
    have hk : k = 0 := Subsingleton.elim _ _
    subst hj hk
    simp [covMat, meanVec]
    norm_num
  rw [h, Matrix.posDef_diagonal_iff]
  intro _; norm_num

end Skc
