import Skc.Lemmas.Kernels

/-! # C06 — scores derived from costs equal their defining cost differences

Closed-form level (see C01 for how the closed forms are tied to the generated code; the L1 modules
`Skc/L1/Cusum.lean`, `Skc/L1/L2Cost.lean` restate the identities on the generated definitions).
The three adapters (`ChangeScore`, `Saving`, `LocalAnomalyScore`) are compositions whose defining
equations *are* their model; they are tied to the code by exact correspondence with user-defined
integer costs.  Not proved: the log-det inequalities of the multivariate Gaussian cost (numeric
check only). -/
namespace Skc

/-- **C06**: the squared CUSUM equals the squared-error change score `C(s,e) − C(s,k) − C(k,e)`.
    (`a`, `Sa`, `Qa`: length, sum, sum of squares after the split; `b`, `Sb`, `Qb`: before.) -/
theorem cusum_sq_is_l2_change_score (Sa Sb Qa Qb a b : ℝ) (ha : 0 < a) (hb : 0 < b) :
    (CF.cusum Sb Sa b a (a + b)) ^ 2 =
      CF.l2Optim (Sa + Sb) (Qa + Qb) (a + b) - (CF.l2Optim Sb Qb b + CF.l2Optim Sa Qa a) :=
  cusum_sq_eq_l2_change Sa Sb Qa Qb a b ha hb

/-- **C06**: the L2 saving is the squared-error cost at baseline mean 0 minus the optimal one -/
theorem l2_saving_is_cost_difference (S1 S2 n : ℝ) :
    CF.l2Saving S1 n = CF.l2Fixed S1 S2 n 0 - CF.l2Optim S1 S2 n :=
  l2Saving_eq S1 S2 n

/-- **C06**: savings of the squared-error cost are non-negative -/
theorem l2_saving_nonneg (S1 n : ℝ) (hn : 0 < n) : 0 ≤ CF.l2Saving S1 n :=
  l2Saving_nonneg S1 n hn

/-- **C06**: the optimal-parameter squared-error cost never exceeds the cost at any fixed mean -/
theorem l2_optim_le_fixed (S1 S2 n μ : ℝ) (hn : 0 < n) :
    CF.l2Optim S1 S2 n ≤ CF.l2Fixed S1 S2 n μ :=
  l2Optim_le_fixed S1 S2 n μ hn

/-- **C06**: splitting an interval never increases the optimal squared-error cost; the change
    score is the exact non-negative quantity `(a b / n)(x̄_a − x̄_b)²` -/
theorem l2_split_never_increases (Sa Sb Qa Qb a b : ℝ) (ha : 0 < a) (hb : 0 < b) :
    CF.l2Optim Sa Qa a + CF.l2Optim Sb Qb b ≤ CF.l2Optim (Sa + Sb) (Qa + Qb) (a + b) ∧
    CF.l2Optim (Sa + Sb) (Qa + Qb) (a + b) - (CF.l2Optim Sa Qa a + CF.l2Optim Sb Qb b) =
      a * b / (a + b) * (Sa / a - Sb / b) ^ 2 :=
  ⟨l2_split_le Sa Sb Qa Qb a b ha hb, l2_split_identity Sa Sb Qa Qb a b ha hb⟩

/-- **C06, univariate Gaussian**: optimal ≤ fixed, for variances above the floor -/
theorem gauss_optim_le_fixed_above_floor (n σ2 v Q : ℝ) (hn : 0 < n) (hσ : 0 < σ2) (hv : 0 < v)
    (hQ : n * σ2 ≤ Q) :
    n * Real.log (2 * Real.pi * σ2) + n ≤ n * Real.log (2 * Real.pi * v) + Q / v :=
  gauss_optim_le_fixed n σ2 v Q hn hσ hv hQ

/-- **C06, univariate Gaussian**: splitting never increases the optimal cost, above the floor.
    In terms of costs: `a log(2πσ₁) + a + b log(2πσ₂) + b ≤ (a+b) log(2πσ) + (a+b)`. -/
theorem gauss_split_never_increases_above_floor (a b σ σ1 σ2 : ℝ) (ha : 0 < a) (hb : 0 < b)
    (h1 : 0 < σ1) (h2 : 0 < σ2) (hσ0 : 0 < σ) (hσ : a * σ1 + b * σ2 ≤ (a + b) * σ) :
    (a * Real.log (2 * Real.pi * σ1) + a) + (b * Real.log (2 * Real.pi * σ2) + b) ≤
      (a + b) * Real.log (2 * Real.pi * σ) + (a + b) := by
  have h := gauss_split_le a b σ σ1 σ2 ha hb h1 h2 hσ
  have hpi : (0 : ℝ) < 2 * Real.pi := by positivity
  rw [Real.log_mul hpi.ne' h1.ne', Real.log_mul hpi.ne' h2.ne', Real.log_mul hpi.ne' hσ0.ne']
  nlinarith

/-! ### The adapters (definitional in the model) -/

/-- `ChangeScore(cost)`: full minus left minus right -/
def changeScoreOf {γ : Type} [Sub γ] (C : Nat → Nat → γ) (s k e : Nat) : γ := C s e - C s k - C k e

/-- for a cost whose split inequality holds, the derived change score is non-negative -/
theorem changeScore_nonneg {γ : Type} [AddCommGroup γ] [LinearOrder γ] [IsOrderedAddMonoid γ]
    (C : Nat → Nat → γ) (s k e : Nat) (h : C s k + C k e ≤ C s e) : 0 ≤ changeScoreOf C s k e := by
  unfold changeScoreOf
  have : C s e - C s k - C k e = C s e - (C s k + C k e) := by abel
  rw [this]; exact sub_nonneg.2 h

end Skc
